//! family `mtype` / `tid`: message type field and transaction id (C19)
use crate::util::*;
use stun_types::attribute::RawAttribute;
use stun_types::message::*;

pub fn cls_index(c: MessageClass) -> u8 {
    match c {
        MessageClass::Request => 0,
        MessageClass::Indication => 1,
        MessageClass::Success => 2,
        MessageClass::Error => 3,
    }
}

pub fn cls_from(i: u64) -> MessageClass {
    match i {
        0 => MessageClass::Request,
        1 => MessageClass::Indication,
        2 => MessageClass::Success,
        _ => MessageClass::Error,
    }
}

pub fn parse_err(e: &StunParseError) -> String {
    match e {
        StunParseError::NotStun => "err notstun".into(),
        StunParseError::Truncated { expected, actual } => format!("err trunc {expected} {actual}"),
        StunParseError::TooLarge { expected, actual } => format!("err toolarge {expected} {actual}"),
        StunParseError::IntegrityCheckFailed => "err integrity".into(),
        StunParseError::MissingAttribute(t) => format!("err missing {:04x}", t.value()),
        StunParseError::AttributeAfterIntegrity(t) => format!("err afterint {:04x}", t.value()),
        StunParseError::AttributeAfterFingerprint(t) => format!("err afterfp {:04x}", t.value()),
        StunParseError::FingerprintMismatch => "err fpmismatch".into(),
        StunParseError::DataMismatch => "err datamismatch".into(),
        StunParseError::InvalidAttributeData => "err invalid".into(),
        StunParseError::WrongAttributeImplementation => "err wrongimpl".into(),
    }
}

/// the same two type bytes in front of a cookie, zero length and a transaction id: what the header decoder
/// and the full parser make of them (class and method as the parsed Message reports them, and the type
/// field of the success/error responses built from it)
fn via_header(b: &[u8]) -> String {
    if b.len() != 2 {
        return "hdr=- msg=-".into();
    }
    let mut m = vec![b[0], b[1], 0, 0, 0x21, 0x12, 0xa4, 0x42];
    m.extend_from_slice(&[0, 1, 2, 3, 4, 5, 6, 7, 8, 9, 10, 11]);
    let h = match MessageHeader::from_bytes(&m) {
        Ok(h) => format!("ok:{}:{}", cls_index(h.get_type().class()), h.get_type().method()),
        Err(_) => "refused".into(),
    };
    let p = match Message::from_bytes(&m) {
        Ok(msg) => {
            let echo = if msg.has_class(MessageClass::Request) {
                format!(
                    ":{}:{}",
                    hex(&Message::builder_success(&msg).build()[..2]),
                    hex(&Message::builder_error(&msg).build()[..2])
                )
            } else {
                String::new()
            };
            format!("ok:{}:{}:{}{}", cls_index(msg.class()), msg.method(), cls_index(msg.get_type().class()), echo)
        }
        Err(_) => "refused".into(),
    };
    format!("hdr={} msg={}", h, p)
}

pub fn exec(kv: &Kv) -> String {
    match kv.get("op") {
        "frombytes" => {
            let b = unhex(kv.get("b")).expect("hex");
            match MessageType::from_bytes(&b) {
                Ok(t) => {
                    // also through TryFrom, to_bytes and write_into
                    let t2 = MessageType::try_from(&b[..]).unwrap();
                    let mut w = [0u8; 2];
                    t.write_into(&mut w);
                    format!(
                        "ok cls={} meth={} same={} wire={} wire2={} {}",
                        cls_index(t.class()),
                        t.method(),
                        (t == t2) as u8,
                        hex(&t.to_bytes()),
                        hex(&w),
                        via_header(&b)
                    )
                }
                Err(e) => format!("{} {}", parse_err(&e), via_header(&b)),
            }
        }
        "fcm" => {
            let c: u64 = kv.get("c").parse().unwrap();
            let m: u16 = kv.get("m").parse().unwrap();
            let t = MessageType::from_class_method(cls_from(c), m);
            let mut w = [0u8; 2];
            t.write_into(&mut w);
            // the type field as the builder writes it at the head of a message: a small message always, and for a
            // few methods a message whose attributes exceed the 16-bit length field (the length must not spill
            // into the type field)
            let small = Message::builder(t, 7u128.into()).build();
            let big = if m % 512 == 0 || m == 0xfff {
                let v = vec![0x5au8; 40000];
                let mut b = Message::builder(t, 7u128.into());
                b.add_raw_attribute(RawAttribute::new(0x7f01.into(), &v)).unwrap();
                b.add_raw_attribute(RawAttribute::new(0x7f02.into(), &v)).unwrap();
                let mut dest = vec![0xffu8; b.byte_len()];
                let _ = b.write_into(&mut dest);
                let built = b.build();
                if built[..2] == dest[..2] { built[..2].to_vec() } else { vec![built[0] ^ dest[0], 0xee] }
            } else {
                small[..2].to_vec()
            };
            format!(
                "wire={} wire2={} wire3={} wire4={} cls={} meth={} hc={} hm={} resp={}",
                hex(&t.to_bytes()),
                hex(&w),
                hex(&small[..2]),
                hex(&big),
                cls_index(t.class()),
                t.method(),
                // the class / method queries for every class and for the neighbouring methods
                (0..4u64).map(|k| if t.has_class(cls_from(k)) { '1' } else { '0' }).collect::<String>(),
                [m, m ^ 1, m ^ 0x800, 0, 0xfff].iter().map(|k| if t.has_method(*k) { '1' } else { '0' }).collect::<String>(),
                t.is_response() as u8
            )
        }
        "tid" => {
            let x = u128::from_str_radix(kv.get("x"), 16).unwrap();
            let tid: TransactionId = x.into();
            let id: u128 = tid.into();
            let b = Message::builder(MessageType::from_class_method(MessageClass::Request, BINDING), tid);
            let bytes = b.build();
            let back: u128 = match Message::from_bytes(&bytes) {
                Ok(m) => m.transaction_id().into(),
                Err(_) => u128::MAX,
            };
            let hdr: u128 = match MessageHeader::from_bytes(&bytes) {
                Ok(h) => h.transaction_id().into(),
                Err(_) => u128::MAX,
            };
            let bid: u128 = b.transaction_id().into();
            format!("id={:032x} wire={} back={:032x} hdr={:032x} bld={:032x}", id, hex(&bytes[4..20]), back, hdr, bid)
        }
        "tidgen" => {
            let n: usize = kv.get("n").parse().unwrap();
            for _ in 0..n {
                let id: u128 = TransactionId::generate().into();
                if id >> 96 != 0 {
                    return format!("toobig {:032x}", id);
                }
            }
            "fits".into()
        }
        o => panic!("bad op {o}"),
    }
}

pub fn gen(rng: &mut Rng, count: usize, thorough: bool, out: &mut Vec<String>, part: u64, parts: u64) {
    // the complete finite domains, split across workers
    for v in 0..65536u64 {
        if v % parts == part {
            out.push(format!("mtype op=frombytes b={:04x}", v));
        }
    }
    for c in 0..4u64 {
        for m in 0..4096u64 {
            if (c * 4096 + m) % parts == part {
                out.push(format!("mtype op=fcm c={c} m={m}"));
            }
        }
    }
    // transaction ids: boundary patterns, then random
    if part == 0 {
        let mut xs: Vec<u128> = vec![0, 1, (1 << 96) - 1, 1 << 96, (1 << 96) + 1, u128::MAX, u128::MAX - 1, 1 << 95, 1 << 127,
            0x2112A442u128 << 96, 0x2112A442];
        for i in 0..128 {
            xs.push(1u128 << i);
            xs.push(!(1u128 << i));
        }
        for x in xs {
            out.push(format!("mtype op=tid x={:032x}", x));
        }
        out.push(format!("mtype op=tidgen n={}", if thorough { 200000 } else { 10000 }));
    }
    for _ in 0..count {
        let x = match rng.below(4) {
            0 => rng.u128() & ((1 << 96) - 1),
            1 => rng.u128() | (0xffff_ffffu128 << 96),
            _ => rng.u128(),
        };
        out.push(format!("mtype op=tid x={:032x}", x));
    }
}
