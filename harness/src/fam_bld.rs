//! family `bld`: MessageBuilder programs (C03, C11, C12, sealing for C04/C09)
//!   bld cls=0 meth=1 tid=<24 hex> ops=a/Username/s=6162;r/8022/616263;m1/s:70617373;fp;own;clone;q/0006.8022/s:70617373;w/40/aa;t
use crate::fam_msg::{confusable_creds, parse_creds, rand_creds, rand_tid};
use crate::fam_mtype::{cls_from, parse_err};
use crate::typed::*;
use crate::util::*;
use stun_types::attribute::*;
use stun_types::message::*;

fn werr(e: &StunWriteError) -> String {
    match e {
        StunWriteError::AttributeExists(t) => format!("refused:exists:{:04x}", t.value()),
        StunWriteError::FingerprintExists => "refused:fpexists".into(),
        StunWriteError::MessageIntegrityExists => "refused:miexists".into(),
        StunWriteError::TooLarge { expected, actual } => format!("refused:toolarge:{expected}:{actual}"),
        StunWriteError::TooSmall { expected, actual } => format!("refused:toosmall:{expected}:{actual}"),
        StunWriteError::IntegrityFailed => "refused:integrityfailed".into(),
        StunWriteError::OutOfRange { .. } => "refused:outofrange".into(),
    }
}

fn parse_short(bytes: &[u8]) -> String {
    match Message::from_bytes(bytes) {
        Err(e) => parse_err(&e).replace(' ', "_"),
        Ok(m) => {
            let tid: u128 = m.transaction_id().into();
            let attrs: Vec<String> =
                m.iter_attributes().map(|a| format!("{:04x}:{}", a.get_type().value(), hex_or_dash(&a.value))).collect();
            format!(
                "ok,{},{},{:024x},{}",
                crate::fam_mtype::cls_index(m.class()),
                m.method(),
                tid,
                if attrs.is_empty() { "-".to_string() } else { attrs.join("|") }
            )
        }
    }
}

pub fn exec(kv: &Kv) -> String {
    let cls: u64 = kv.get("cls").parse().unwrap();
    let meth: u16 = kv.get("meth").parse().unwrap();
    let tid = u128::from_str_radix(kv.get("tid"), 16).unwrap();
    let ops: Vec<&str> = split_list(kv.get("ops"), ';');
    // pre-construct every typed value and raw buffer: the builder borrows them
    let mut typed: Vec<Option<TV>> = vec![];
    let mut raws: Vec<Option<Vec<u8>>> = vec![];
    for op in &ops {
        let p: Vec<&str> = op.split('/').collect();
        typed.push(if p[0] == "a" { Some(TV::construct(p[1], p[2]).expect("constructible")) } else { None });
        raws.push(if p[0] == "r" || p[0] == "ro" { Some(unhex(p[2]).unwrap()) } else { None });
    }
    let mut b = Message::builder(MessageType::from_class_method(cls_from(cls), meth), tid.into());
    let mut out: Vec<String> = vec![];
    for (i, op) in ops.iter().enumerate() {
        let p: Vec<&str> = op.split('/').collect();
        let o = match p[0] {
            "a" => match b.add_attribute(typed[i].as_ref().unwrap().as_write()) {
                Ok(()) => "ok".to_string(),
                Err(e) => werr(&e),
            },
            "r" | "ro" => {
                let ty = u16::from_str_radix(p[1], 16).unwrap();
                let raw = RawAttribute::new(ty.into(), raws[i].as_ref().unwrap());
                let raw = if p[0] == "ro" { raw.into_owned() } else { raw };
                match b.add_raw_attribute(raw) {
                    Ok(()) => "ok".to_string(),
                    Err(e) => werr(&e),
                }
            }
            "m1" | "m2" => {
                let c = parse_creds(p[1]);
                let algo = if p[0] == "m1" { IntegrityAlgorithm::Sha1 } else { IntegrityAlgorithm::Sha256 };
                match b.add_message_integrity(&c, algo) {
                    Ok(()) => "ok".to_string(),
                    Err(e) => werr(&e),
                }
            }
            "fp" => match b.add_fingerprint() {
                Ok(()) => "ok".to_string(),
                Err(e) => werr(&e),
            },
            "own" => {
                b = b.into_owned();
                "-".to_string()
            }
            "clone" => {
                b = b.clone();
                "-".to_string()
            }
            "q" => {
                let bytes = b.build();
                let has: Vec<String> = split_list(p[1], '.')
                    .iter()
                    .filter(|t| **t != "-")
                    .map(|t| {
                        let ty = u16::from_str_radix(t, 16).unwrap();
                        format!("{}", b.has_attribute(AttributeType::new(ty)) as u8)
                    })
                    .collect();
                let tid_b: u128 = b.transaction_id().into();
                let v = if p[2] == "-" {
                    "-".to_string()
                } else {
                    match Message::from_bytes(&bytes) {
                        Err(_) => "noparse".into(),
                        Ok(m) => match m.validate_integrity(&parse_creds(p[2])) {
                            Ok(IntegrityAlgorithm::Sha1) => "ok_sha1".into(),
                            Ok(IntegrityAlgorithm::Sha256) => "ok_sha256".into(),
                            Err(e) => parse_err(&e).replace(' ', "_"),
                        },
                    }
                };
                format!(
                    "b={},len={},has={},btid={:024x},cls={},p={},v={}",
                    hex(&bytes),
                    b.byte_len(),
                    if has.is_empty() { "-".to_string() } else { has.join("") },
                    tid_b,
                    b.has_class(cls_from(cls)) as u8,
                    parse_short(&bytes),
                    v
                )
            }
            "wp" => {
                // write_into a dirty buffer of exactly byte_len() bytes, then read it back
                // "<fill>" = exactly byte_len() bytes; "<fill>+<n>" = n bytes more than needed
                let (fs, extra) = match p[1].split_once('+') {
                    Some((f, e)) => (f, e.parse::<usize>().unwrap()),
                    None => (p[1], 0),
                };
                let fill = u8::from_str_radix(fs, 16).unwrap();
                let mut dest = vec![fill; b.byte_len() + extra];
                match b.write_into(&mut dest) {
                    Err(e) => werr(&e),
                    Ok(k) => {
                        let v = if p[2] == "-" {
                            "-".to_string()
                        } else {
                            match Message::from_bytes(&dest[..k]) {
                                Err(_) => "noparse".into(),
                                Ok(m) => match m.validate_integrity(&parse_creds(p[2])) {
                                    Ok(IntegrityAlgorithm::Sha1) => "ok_sha1".into(),
                                    Ok(IntegrityAlgorithm::Sha256) => "ok_sha256".into(),
                                    Err(e) => parse_err(&e).replace(' ', "_"),
                                },
                            }
                        };
                        format!("wp={},v={}", parse_short(&dest[..k]), v)
                    }
                }
            }
            "w" => {
                let n: usize = p[1].parse().unwrap();
                let fill = u8::from_str_radix(p[2], 16).unwrap();
                let mut dest = vec![fill; n];
                match b.write_into(&mut dest) {
                    Ok(k) => format!("ok:{}:{}", k, hex_or_dash(&dest)),
                    Err(StunWriteError::TooSmall { expected, actual }) => {
                        format!("toosmall:{}:{}:{}", expected, actual, hex_or_dash(&dest))
                    }
                    Err(e) => format!("{}:{}", werr(&e), hex_or_dash(&dest)),
                }
            }
            "t" => {
                // typed extraction of every kind from the parsed build
                let bytes = b.build();
                match Message::from_bytes(&bytes) {
                    Err(_) => "noparse".into(),
                    Ok(m) => {
                        let mut v = vec![];
                        for k in KINDS.iter() {
                            let r = m.raw_attribute(AttributeType::new(kind_code(k)));
                            v.push(match r {
                                None => "missing".to_string(),
                                Some(raw) => match TV::from_raw(k, &raw) {
                                    Ok(tv) => format!("ok:{}", tv.fields()),
                                    Err(_) => "err_".to_string(),
                                },
                            });
                        }
                        v.join("|")
                    }
                }
            }
            o => panic!("bad op {o}"),
        };
        out.push(o);
    }
    out.join(";")
}

// ------------------------------------------------------------------------------ generators

const ORD_KINDS: [&str; 16] = [
    "Username", "ErrorCode", "UnknownAttributes", "Realm", "Nonce", "PasswordAlgorithm", "Userhash",
    "XorMappedAddress", "Priority", "UseCandidate", "PasswordAlgorithms", "AlternateDomain", "Software",
    "AlternateServer", "IceControlled", "IceControlling",
];

fn header(rng: &mut Rng) -> String {
    let meth = match rng.below(5) {
        0 => 1,
        1 => 0xfff,
        2 => 0,
        _ => rng.below(4096),
    };
    format!("bld cls={} meth={} tid={:024x}", rng.below(4), meth, rand_tid(rng))
}

fn add_op(rng: &mut Rng, used: &mut Vec<u16>, allow_dup: bool) -> String {
    loop {
        if rng.chance(2, 3) {
            let k = *rng.pick(&ORD_KINDS);
            let code = kind_code(k);
            if used.contains(&code) && !allow_dup {
                continue;
            }
            used.push(code);
            let f = rand_fields(rng, k);
            return format!("a/{}/{}", k, f);
        } else {
            let ty = match rng.below(6) {
                // types that differ from an ending type (or from an ordinary known type) in one or two bits:
                // an index keyed on part of the type value would confuse them
                5 => {
                    let base = *rng.pick(&[0x0008u16, 0x001c, 0x8028, 0x8028, 0x0006, 0x8022]);
                    let mut t = base ^ (1u16 << rng.below(16));
                    if rng.chance(1, 3) {
                        t ^= 1u16 << rng.below(16);
                    }
                    if t == 0x0008 || t == 0x001c || t == 0x8028 { 0x9999 } else { t }
                }
                4 => *rng.pick(&[0x0000u16, 0x0001, 0x7fff, 0x8000, 0xffff, 0x0007, 0x8029 ^ 0x0100]),
                0 => 0x7f00 + rng.below(3) as u16,
                1 => 0xff00 + rng.below(3) as u16,
                2 => kind_code(*rng.pick(&ORD_KINDS)),
                _ => {
                    let t = rng.next() as u16;
                    if t == 0x0008 || t == 0x001c || t == 0x8028 {
                        0x9999
                    } else {
                        t
                    }
                }
            };
            if used.contains(&ty) && !allow_dup {
                continue;
            }
            used.push(ty);
            // raw attributes are not bound by the typed attributes' 763-byte limit (DATA-like payloads): values
            // just past it, past 1 KiB and a few KiB
            let n = match rng.below(10) {
                0 => 0,
                1 => 763,
                2 => 762,
                3 => 761,
                8 => 764 + rng.below(6) as usize,
                9 => *rng.pick(&[1021usize, 1024, 1500, 2049, 4096]) + rng.below(4) as usize,
                _ => rng.below(40) as usize,
            };
            let mut v = rng.bytes(n);
            if rng.chance(1, 6) {
                // DATA-like payloads: the value itself ends in (or is) an encoded attribute of an ending type, as when a STUN
                // message travels inside another one; 4-aligned so that these bytes are the last bytes of the attribute
                let pre = 4 * rng.below(5) as usize;
                v = rng.bytes(pre);
                match rng.below(4) {
                    0 => { v.extend([0x80, 0x28, 0x00, 0x04]); v.extend(rng.bytes(4)); }
                    1 => { v.extend([0x00, 0x08, 0x00, 0x14]); v.extend(rng.bytes(20)); }
                    2 => { v.extend([0x00, 0x1c, 0x00, 0x20]); v.extend(rng.bytes(32)); }
                    _ => { v.extend([0x00, 0x08, 0x00, 0x14]); v.extend(rng.bytes(20)); v.extend([0x80, 0x28, 0x00, 0x04]); v.extend(rng.bytes(4)); }
                }
            }
            return format!("{}/{:04x}/{}", if rng.chance(1, 2) { "r" } else { "ro" }, ty, hex_or_dash(&v));
        }
    }
}

fn types_of(ops: &[String]) -> String {
    let mut ts: Vec<String> = vec![];
    for o in ops {
        let p: Vec<&str> = o.split('/').collect();
        let t = match p[0] {
            "a" => Some(format!("{:04x}", kind_code(p[1]))),
            "r" | "ro" => Some(p[1].to_string()),
            _ => None,
        };
        if let Some(t) = t {
            if !ts.contains(&t) {
                ts.push(t);
            }
        }
    }
    for t in ["0008", "001c", "8028", "0006", "7777"] {
        if !ts.contains(&t.to_string()) {
            ts.push(t.to_string());
        }
    }
    ts.join(".")
}

/// bld.rt (C03, C04, C09): well-formed builder programs, all sealing combinations
pub fn gen_rt(rng: &mut Rng, count: usize, thorough: bool, out: &mut Vec<String>) {
    for i in 0..count {
        let mut ops: Vec<String> = vec![];
        let mut used = vec![];
        let n = if thorough && i % 50 == 0 { 60 } else { rng.below(6) };
        for _ in 0..n {
            if used.len() >= 14 {
                break;
            }
            ops.push(add_op(rng, &mut used, false));
        }
        // sometimes the credentials and the "other key" are a confusable pair (same key material text, different kind)
        let (cred, other) = if rng.chance(1, 5) {
            let (a, b) = confusable_creds(rng);
            if rng.chance(1, 2) { (a, b) } else { (b, a) }
        } else {
            (rand_creds(rng), rand_creds(rng))
        };
        let seal = i % 4;
        if seal == 1 || seal == 3 {
            ops.push(format!("m1/{}", cred));
        }
        let split_keys = seal == 3 && rng.chance(1, 4);
        if seal == 2 || seal == 3 {
            ops.push(format!("m2/{}", if split_keys { &other } else { &cred }));
        }
        if (i / 4) % 2 == 1 {
            ops.push("fp".into());
        }
        if rng.chance(1, 4) {
            ops.push("own".into());
        }
        let ts = types_of(&ops);
        ops.push(format!("q/{}/{}", ts, if seal == 0 { "-".to_string() } else { cred.clone() }));
        ops.push("t".into());
        // the in-place path into a dirty buffer must give a message that reads back the same
        let fill = *rng.pick(&["ff", "5a", "01", "00", "ff+4", "00+16", "5a+1", "00+2000"]);
        ops.push(format!("wp/{}/{}", fill, if seal == 0 { "-".to_string() } else { cred.clone() }));
        if seal != 0 {
            // a different key must not validate
            ops.push(format!("q/-/{}", other));
            // and the right key still does afterwards
            ops.push(format!("q/-/{}", cred));
        }
        out.push(format!("{} ops={}", header(rng), ops.join(";")));
    }
}

/// bld.ops (C11): arbitrary operation sequences with a full query after every step
pub fn gen_ops(rng: &mut Rng, count: usize, thorough: bool, out: &mut Vec<String>, part: u64, parts: u64) {
    let cred = "s:6b";
    // exhaustive sequences over a small alphabet (thorough: length ≤ 5 over 9 letters; quick: ≤ 3)
    let alphabet: Vec<String> = vec![
        "a/Software/s=6162".into(),
        "a/Priority/p=7".into(),
        "r/ff01/010203".into(),
        "a/Software/s=63".into(), // duplicate type of the first
        format!("m1/{cred}"),
        format!("m2/{cred}"),
        "fp".into(),
        "own".into(),
        "clone".into(),
    ];
    let maxlen = if thorough { 5 } else { 3 };
    let mut seqs: Vec<Vec<usize>> = vec![vec![]];
    let mut frontier: Vec<Vec<usize>> = vec![vec![]];
    for _ in 0..maxlen {
        let mut next = vec![];
        for s in &frontier {
            for a in 0..alphabet.len() {
                let mut t = s.clone();
                t.push(a);
                next.push(t);
            }
        }
        seqs.extend(next.iter().cloned());
        frontier = next;
    }
    let q = format!("q/8022.0024.ff01.0008.001c.8028.0006/{cred}");
    for (i, s) in seqs.iter().enumerate() {
        if (i as u64) % parts != part {
            continue;
        }
        let mut ops = vec![];
        for a in s {
            ops.push(alphabet[*a].clone());
            ops.push(q.clone());
        }
        if ops.is_empty() {
            ops.push(q.clone());
        }
        out.push(format!("bld cls=0 meth=1 tid={:024x} ops={}", 0x0102030405060708090a0b0cu128, ops.join(";")));
    }
    // random longer sequences
    for _ in 0..count {
        let mut ops: Vec<String> = vec![];
        let mut used = vec![];
        let n = 1 + rng.below(if thorough { 20 } else { 9 });
        let c1 = rand_creds(rng);
        // sometimes the two integrity attributes are added with different credentials (each must be the HMAC under its own key;
        // validation selects the SHA-256 one)
        let c2 = if rng.chance(1, 3) { rand_creds(rng) } else { c1.clone() };
        for _ in 0..n {
            let o = match rng.below(12) {
                0..=4 => add_op(rng, &mut used, true),
                5 => format!("m1/{}", c1),
                6 => format!("m2/{}", c2),
                7 => "fp".to_string(),
                8 => "own".to_string(),
                9 => "clone".to_string(),
                _ => add_op(rng, &mut used, true),
            };
            ops.push(o);
            let ts = types_of(&ops);
            ops.push(format!("q/{}/{}", ts, c1));
            if c2 != c1 {
                ops.push(format!("q/-/{}", c2));
            }
        }
        out.push(format!("{} ops={}", header(rng), ops.join(";")));
    }
}

/// bld.write (C12): every serialisation path of a builder
pub fn gen_write(rng: &mut Rng, count: usize, thorough: bool, out: &mut Vec<String>) {
    if count > 0 {
        // a builder whose attributes exceed the 16-bit length field (every attribute individually in range): all paths must
        // still agree byte for byte
        let mut ops: Vec<String> = vec![];
        let n = 87 + rng.below(6) as usize;
        for k in 0..n {
            let vl = 756 + rng.below(8) as usize;
            let v = rng.bytes(vl);
            ops.push(format!("{}/{:04x}/{}", if k % 2 == 0 { "r" } else { "ro" }, 0x9000 + k, hex_or_dash(&v)));
        }
        ops.push("q/-/-".into());
        ops.push("w/70000/aa".into());
        ops.push("w/66000/ff".into());
        ops.push("own".into());
        ops.push("q/-/-".into());
        ops.push("w/70000/00".into());
        ops.push("clone".into());
        ops.push("q/-/-".into());
        out.push(format!("{} ops={}", header(rng), ops.join(";")));
    }
    for i in 0..count {
        let mut ops: Vec<String> = vec![];
        let mut used = vec![];
        let n = rng.below(5);
        // serialisation in the middle of the program (a size or bytes computed early must not survive a later add)
        let early = rng.chance(1, 3);
        for _ in 0..n {
            ops.push(add_op(rng, &mut used, false));
            if early && rng.chance(1, 2) {
                ops.push(rng.pick(&["q/-/-", "w/2000/aa", "w/21/ff", "t"]).to_string());
            }
        }
        let cred = rand_creds(rng);
        match i % 5 {
            1 => ops.push(format!("m1/{}", cred)),
            2 => ops.push(format!("m2/{}", cred)),
            3 => {
                ops.push(format!("m1/{}", cred));
                ops.push("fp".into())
            }
            4 => ops.push("fp".into()),
            _ => {}
        }
        // size guess: the executor reports the real byte_len in `q`; sizes relative to a guess are
        // all valid cases, and the exact/larger/shorter classes are all hit by sweeping
        let mut est = 20;
        for o in &ops {
            let p: Vec<&str> = o.split('/').collect();
            est += match p[0] {
                "m1" => 24,
                "m2" => 36,
                "fp" => 8,
                "r" | "ro" => 4 + (if p[2] == "-" { 0 } else { p[2].len() / 2 } + 3) / 4 * 4,
                _ => 0,
            };
        }
        // a refused operation in the history (duplicate type, or any add after sealing) must not change
        // what any serialisation path produces
        if rng.chance(1, 3) {
            if let Some(first) = ops.iter().find(|o| o.starts_with("r/") || o.starts_with("ro/")).cloned() {
                ops.push(first);
            } else {
                ops.push("r/8022/6162".into());
                ops.push("r/8022/63".into());
                est += 8;
            }
        }
        let has_typed = ops.iter().any(|o| o.starts_with("a/"));
        ops.push("q/-/-".into());
        let fill = *rng.pick(&["aa", "ff", "00"]);
        if !has_typed {
            let sizes: Vec<usize> = if thorough { (0..=est + 16).collect() } else { vec![0, 19, 20, est.saturating_sub(1), est, est + 1, est + 16] };
            for s in sizes {
                ops.push(format!("w/{}/{}", s, fill));
            }
        } else {
            for _ in 0..6 {
                ops.push(format!("w/{}/{}", rng.below(900), fill));
            }
            ops.push(format!("w/2000/{}", fill));
        }
        ops.push("own".into());
        ops.push("q/-/-".into());
        ops.push(format!("w/{}/{}", est + 4, fill));
        ops.push(format!("w/2000/{}", fill));
        ops.push("clone".into());
        ops.push("q/-/-".into());
        out.push(format!("{} ops={}", header(rng), ops.join(";")));
    }
}

pub fn gen(which: &str, rng: &mut Rng, count: usize, thorough: bool, out: &mut Vec<String>, part: u64, parts: u64) {
    match which {
        "bld.rt" => gen_rt(rng, count, thorough, out),
        "bld.ops" => gen_ops(rng, count, thorough, out, part, parts),
        "bld.write" => gen_write(rng, count, thorough, out),
        _ => panic!("unknown generator {which}"),
    }
}
