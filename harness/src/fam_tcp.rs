//! family `tcp`: TcpBuffer push/pull schedules (C14)
//!   tcp ops=p:<hex>,l,l,p:<hex>  =>  n,s:<hex>,...
use crate::util::*;
use stun_proto::agent::TcpBuffer;

pub fn exec(kv: &Kv) -> String {
    let mut buf = TcpBuffer::new();
    let mut out = vec![];
    for op in split_list(kv.get("ops"), ',') {
        if op == "l" {
            out.push(match buf.pull_data() {
                None => "n".to_string(),
                Some(f) => format!("s:{}", hex_or_dash(&f)),
            });
        } else if let Some(h) = op.strip_prefix("p:") {
            buf.push_data(&unhex(h).expect("hex"));
        } else {
            panic!("bad op {op}");
        }
    }
    out.join(",")
}

fn frame_len(rng: &mut Rng, big_ok: bool) -> usize {
    match rng.below(20) {
        0..=3 => 0,
        4..=6 => 1,
        7 => 2,
        8 => 3,
        9 => 255,
        10 => 256,
        11 => 257,
        12 if big_ok => 65535,
        13 if big_ok => 65534,
        _ => rng.below(40) as usize,
    }
}

/// one schedule: frames -> stream -> chunks -> interleave pulls
fn schedule(rng: &mut Rng, stream: &[u8], style: u64) -> String {
    let mut ops: Vec<String> = vec![];
    let mut i = 0;
    while i < stream.len() {
        let rest = stream.len() - i;
        let n = match style {
            0 => 1,                                  // one-byte drip
            1 => rest,                               // everything at once
            2 => 1 + rng.below(3u64.min(rest as u64)) as usize,
            _ => 1 + rng.below(rest as u64) as usize,
        };
        // sometimes an empty push
        if rng.chance(1, 30) {
            ops.push("p:-".into());
        }
        ops.push(format!("p:{}", hex_or_dash(&stream[i..i + n])));
        i += n;
        let pulls = match rng.below(4) {
            0 => 0,
            1 => 1,
            2 => 2,
            _ => rng.below(4),
        };
        for _ in 0..pulls {
            ops.push("l".into());
        }
    }
    // final drain: more pulls than frames could remain
    let extra = 2 + rng.below(3);
    let nframes_upper = stream.len() / 2 + 1;
    for _ in 0..(nframes_upper.min(24) as u64 + extra) {
        ops.push("l".into());
    }
    format!("tcp ops={}", ops.join(","))
}

pub fn gen(rng: &mut Rng, count: usize, thorough: bool, out: &mut Vec<String>) {
    // (a) every split pattern of short streams (exhaustive over cut sets)
    let max_len = if thorough { 12 } else { 8 };
    let short_streams: Vec<Vec<u8>> = vec![
        vec![0, 0],
        vec![0, 0, 0, 0],
        vec![0, 1, 9, 0, 0],
        vec![0, 2, 7, 8, 0, 0, 0, 1, 5],
        vec![0, 0, 0, 3, 1, 2, 3, 0, 1, 4, 0, 0],
        vec![0, 1, 0, 0, 1, 0, 0, 2, 0, 1],
    ];
    for s in short_streams.iter().filter(|s| s.len() <= max_len) {
        let cuts = s.len() - 1;
        for mask in 0..(1u32 << cuts) {
            let mut ops = vec![];
            let mut start = 0;
            for i in 0..s.len() {
                let cut_here = i + 1 == s.len() || (mask >> i) & 1 == 1;
                if cut_here {
                    ops.push(format!("p:{}", hex(&s[start..=i])));
                    start = i + 1;
                    // pull after every chunk (twice)
                    ops.push("l".into());
                    ops.push("l".into());
                }
            }
            ops.push("l".into());
            out.push(format!("tcp ops={}", ops.join(",")));
        }
    }
    // (b) random frame lists
    let mut n = 0;
    while n < count {
        let many = rng.chance(1, 10);
        let nframes = rng.below(if many { 21 } else { 6 }) as usize;
        let big_ok = rng.chance(1, 40);
        let mut stream = vec![];
        for _ in 0..nframes {
            let l = frame_len(rng, big_ok);
            stream.extend_from_slice(&(l as u16).to_be_bytes());
            let fill = rng.next() as u8;
            if rng.chance(1, 2) {
                stream.extend(rng.bytes(l));
            } else {
                stream.extend(std::iter::repeat(fill).take(l));
            }
        }
        // sometimes a dangling incomplete frame or junk at the end
        match rng.below(8) {
            0 => stream.push(rng.next() as u8),
            1 => {
                stream.extend_from_slice(&[0, 5, 1, 2]);
            }
            2 => {
                let k = rng.below(6) as usize;
                stream.extend(rng.bytes(k));
            }
            _ => {}
        }
        let style = rng.below(5);
        let style = if stream.len() > 2000 && (style == 0 || style == 2) { 3 } else { style };
        out.push(schedule(rng, &stream, style));
        n += 1;
    }
}
