//! family `attr`: raw attribute codec and the 19 typed attributes (C08, C12, part of C01)
use crate::fam_mtype::parse_err;
use crate::typed::*;
use crate::util::*;
use stun_types::attribute::*;

fn write_obs(r: Result<usize, stun_types::message::StunWriteError>, dest: &[u8]) -> String {
    match r {
        Ok(n) => format!("ok {} {}", n, hex_or_dash(dest)),
        Err(stun_types::message::StunWriteError::TooSmall { expected, actual }) => {
            format!("toosmall {} {} {}", expected, actual, hex_or_dash(dest))
        }
        Err(e) => format!("werr {:?} {}", e, hex_or_dash(dest)),
    }
}

pub fn exec(kv: &Kv) -> String {
    match kv.get("op") {
        "raw" => {
            let b = unhex(kv.get("b")).expect("hex");
            match RawAttribute::from_bytes(&b) {
                Ok(a) => {
                    let owned = a.clone().into_owned();
                    let same = owned.get_type() == a.get_type() && *owned.value == *a.value && owned.length() == a.length();
                    let via_try = AttributeHeader::try_from(&b[..]).map(|h| (h.get_type().value(), h.length()));
                    format!(
                        "ok ty={:04x} v={} len={} plen={} bytes={} own={} hdr={}",
                        a.get_type().value(),
                        hex_or_dash(&a.value),
                        a.length(),
                        a.padded_len(),
                        hex(&a.to_bytes()),
                        same as u8,
                        match via_try {
                            Ok((t, l)) => format!("{:04x}:{}", t, l),
                            Err(_) => "err".into(),
                        }
                    )
                }
                Err(e) => parse_err(&e),
            }
        }
        "dec" => {
            let kind = kv.get("k");
            let ty = u16::from_str_radix(kv.get("ty"), 16).unwrap();
            let v = unhex(kv.get("v")).expect("hex");
            let raw = RawAttribute::new(ty.into(), &v);
            match TV::from_raw(kind, &raw) {
                // a decoded value of more than 65535 bytes cannot be put on the wire (16-bit length): it is not
                // an in-limit value, so it is not re-encoded (only the decoder's verdict is observed)
                Ok(_) if v.len() > 65535 => "ok big".to_string(),
                Ok(tv) => {
                    let w = tv.as_write();
                    let r2 = w.to_raw();
                    let stable = match TV::from_raw(kind, &r2) {
                        Ok(tv2) => (tv2.fields() == tv.fields() && tv2.as_write().to_raw().to_bytes() == r2.to_bytes()) as u8,
                        Err(_) => 0,
                    };
                    format!(
                        "ok f={} ety={:04x} enc={} len={} plen={} stable={}",
                        tv.fields(),
                        r2.get_type().value(),
                        hex_or_dash(&r2.value),
                        w.length(),
                        w.padded_len(),
                        stable
                    )
                }
                Err(e) => parse_err(&e),
            }
        }
        "enc" => {
            let kind = kv.get("k");
            match TV::construct(kind, kv.get("f")) {
                Err(_) => "refused".into(),
                Ok(tv) => {
                    let w = tv.as_write();
                    let raw = w.to_raw();
                    let back = match TV::from_raw(kind, &raw) {
                        Ok(t2) => format!("ok:{}", t2.fields()),
                        Err(e) => parse_err(&e).replace(' ', "_"),
                    };
                    format!(
                        "ok ty={:04x} gty={:04x} v={} len={} plen={} bytes={} f={} back={}",
                        raw.get_type().value(),
                        w.get_type().value(),
                        hex_or_dash(&raw.value),
                        w.length(),
                        w.padded_len(),
                        hex(&raw.to_bytes()),
                        tv.fields(),
                        back
                    )
                }
            }
        }
        "write" => {
            let kind = kv.get("k");
            let n: usize = kv.get("n").parse().unwrap();
            let fill = u8::from_str_radix(kv.get("fill"), 16).unwrap();
            let mut dest = vec![fill; n];
            if kind == "Raw" {
                let ty = u16::from_str_radix(kv.get("ty"), 16).unwrap();
                let v = unhex(kv.get("v")).expect("hex");
                let borrowed = RawAttribute::new(ty.into(), &v);
                let raw = if kv.get("own") == "1" { borrowed.clone().into_owned() } else { borrowed };
                let r = raw.write_into(&mut dest);
                format!("{} tb={}", write_obs(r, &dest), hex(&raw.to_raw().to_bytes()))
            } else {
                match TV::construct(kind, kv.get("f")) {
                    Err(_) => "refused".into(),
                    Ok(tv) => {
                        let w = tv.as_write();
                        let r = w.write_into(&mut dest);
                        format!("{} tb={}", write_obs(r, &dest), hex(&w.to_raw().to_bytes()))
                    }
                }
            }
        }
        o => panic!("bad op {o}"),
    }
}

// ------------------------------------------------------------------------------ generators

fn bad_utf8(rng: &mut Rng, len: usize) -> Vec<u8> {
    // valid text whose last character is cut short (a clamped multi-byte character at the very end)
    if len >= 3 && rng.chance(1, 3) {
        let tail: &[u8] = *rng.pick(&[&[0xc3u8][..], &[0xe2, 0x82][..], &[0xf0, 0x9f, 0x98][..], &[0xf0, 0x9f][..], &[0xe2][..]]);
        let mut v = rand_utf8(rng, len - tail.len()).into_bytes();
        while v.len() < len - tail.len() {
            v.push(b'a');
        }
        v.extend_from_slice(tail);
        return v;
    }
    let mut v = rand_utf8(rng, len).into_bytes();
    while v.len() < len {
        v.push(b'z');
    }
    if !v.is_empty() {
        let i = rng.below(v.len() as u64) as usize;
        v[i] = *rng.pick(&[0xffu8, 0xc0, 0xc1, 0x80, 0xbf, 0xe0, 0xed, 0xf4, 0xf5, 0xf8]);
        if rng.chance(1, 2) && i + 1 < v.len() {
            v[i + 1] = *rng.pick(&[0x80u8, 0x9f, 0xa0, 0xbf, 0x8f, 0x90, 0x7f, 0xc0]);
        }
    }
    v
}

fn text_value(rng: &mut Rng, len: usize) -> Vec<u8> {
    if rng.chance(3, 4) {
        let mut v = rand_utf8(rng, len).into_bytes();
        // rand_utf8 picks a random target ≤ len: pad to exactly len
        while v.len() < len {
            v.push(b'a' + (rng.below(26) as u8));
        }
        v
    } else {
        bad_utf8(rng, len)
    }
}

/// a value byte string of exactly `len` bytes, mostly of the shape the kind expects
pub fn shaped_value(rng: &mut Rng, kind: &str, len: usize) -> Vec<u8> {
    match kind {
        "Username" | "Realm" | "Nonce" | "Software" | "AlternateDomain" => text_value(rng, len),
        "ErrorCode" => {
            if len < 4 {
                return rng.bytes(len);
            }
            let b2 = match rng.below(8) {
                0 => rng.next() as u8,
                1 => 2,
                2 => 7,
                3 => 0xfb, // class bits 3 with junk in the upper bits
                _ => 3 + rng.below(4) as u8,
            };
            let b3 = match rng.below(8) {
                0 => 99,
                1 => 100,
                2 => 255,
                3 => rng.next() as u8,
                _ => rng.below(100) as u8,
            };
            let mut v = vec![rng.next() as u8 * (rng.below(2) as u8), 0, b2, b3];
            v.extend(text_value(rng, len - 4));
            v
        }
        "PasswordAlgorithm" | "PasswordAlgorithms" => {
            let mut v = vec![];
            while v.len() + 4 <= len {
                let a = match rng.below(10) {
                    0 => 0u16,
                    1 => 3,
                    2 => rng.next() as u16,
                    _ => 1 + rng.below(2) as u16,
                };
                let l = match rng.below(12) {
                    0 => 4u16,
                    1 => rng.next() as u16,
                    _ => 0,
                };
                v.extend_from_slice(&a.to_be_bytes());
                v.extend_from_slice(&l.to_be_bytes());
            }
            while v.len() < len {
                v.push(rng.next() as u8);
            }
            v
        }
        "XorMappedAddress" | "AlternateServer" => {
            let mut v = rng.bytes(len);
            if len >= 2 {
                v[1] = match rng.below(8) {
                    0 => 0,
                    1 => 3,
                    2 => rng.next() as u8,
                    3 | 4 => 2,
                    _ => 1,
                };
                if rng.chance(1, 2) {
                    v[0] = 0;
                }
            }
            v
        }
        _ => rng.bytes(len),
    }
}

pub fn interesting_lens(rng: &mut Rng, thorough: bool) -> Vec<usize> {
    let mut v: Vec<usize> = (0..=40).collect();
    for l in [63, 64, 65, 255, 256, 257, 511, 512, 513, 514, 515, 516, 761, 762, 763, 764, 765, 766, 767, 768, 769, 770, 799, 800] {
        v.push(l);
    }
    if thorough {
        v = (0..=800).collect();
    } else {
        for _ in 0..12 {
            v.push(rng.range(41, 800) as usize);
        }
    }
    v
}

pub fn gen(which: &str, rng: &mut Rng, count: usize, thorough: bool, out: &mut Vec<String>, part: u64, parts: u64) {
    let codec = which == "attr.codec";
    let writes = which == "attr.write";
    let mut idx: u64 = 0;
    let mut mine = |idx: &mut u64| {
        *idx += 1;
        (*idx - 1) % parts == part
    };
    // ---- (a) raw attribute decoder: every length 0..=48, random and structured
    for len in 0..=(if codec { 48usize } else { 0 }) {
        if !codec { break; }
        for variant in 0..6 {
            if !mine(&mut idx) {
                continue;
            }
            let mut b = rng.bytes(len);
            if len >= 4 {
                let body = len - 4;
                let l = match variant {
                    0 => body,
                    1 => body.saturating_sub(1),
                    2 => body + 1,
                    3 => body.saturating_sub(3),
                    4 => 0,
                    _ => rng.below(70000) as usize,
                };
                b[2] = (l >> 8) as u8;
                b[3] = l as u8;
            }
            out.push(format!("attr op=raw b={}", hex_or_dash(&b)));
        }
    }
    if part == 0 && codec {
        // the 16-bit cast in the length comparison: more than 65535 bytes after the header
        for (total, l) in [(65540usize, 5usize), (65540, 0), (65539, 65535), (65540, 65535), (70000, 4464), (70000, 4465), (70000, 70)] {
            let mut b = vec![0x11u8; total];
            b[2] = (l >> 8) as u8;
            b[3] = l as u8;
            out.push(format!("attr op=raw b={}", hex(&b)));
        }
    }
    // ---- (b) typed decoders: every kind x interesting lengths x {right type, other types}
    let lens = interesting_lens(rng, thorough);
    for kind in KINDS.iter() {
        if !codec { break; }
        for &len in &lens {
            let reps = if len <= 40 { 3 } else { 2 };
            for _ in 0..reps {
                if !mine(&mut idx) {
                    continue;
                }
                let v = shaped_value(rng, kind, len);
                out.push(format!("attr op=dec k={} ty={:04x} v={}", kind, kind_code(kind), hex_or_dash(&v)));
            }
        }
        // the lengths each decoder accepts, with shaped content, several times
        let good: &[usize] = match *kind {
            "MessageIntegrity" => &[20],
            "MessageIntegritySha256" => &[16, 20, 24, 28, 32],
            "Userhash" => &[32],
            "Priority" | "Fingerprint" => &[4],
            "IceControlled" | "IceControlling" => &[8],
            "UseCandidate" => &[0],
            "PasswordAlgorithm" => &[4, 4, 8],
            "PasswordAlgorithms" => &[4, 8, 12, 16, 40],
            "XorMappedAddress" | "AlternateServer" => &[8, 20, 8, 20],
            "UnknownAttributes" => &[0, 2, 4, 6, 20],
            "ErrorCode" => &[4, 5, 6, 7, 8, 30, 767],
            _ => &[0, 1, 5, 100],
        };
        for &len in good {
            for _ in 0..(if thorough { 40 } else { 8 }) {
                if !mine(&mut idx) {
                    continue;
                }
                let mut v = shaped_value(rng, kind, len);
                if (*kind == "XorMappedAddress" || *kind == "AlternateServer") && rng.chance(3, 4) {
                    v[1] = if len == 8 { 1 } else { 2 };
                }
                out.push(format!("attr op=dec k={} ty={:04x} v={}", kind, kind_code(kind), hex_or_dash(&v)));
            }
        }
        // at and just below each text limit: valid text whose final character is cut short (must be refused as not UTF-8, at every
        // length -- a reader tolerant of a clamped last character would accept exactly at the limit)
        let limit = match *kind { "Username" => 513usize, "Realm" | "Nonce" | "Software" => 763, "ErrorCode" => 767, _ => 0 };
        if limit > 0 {
            for len in [limit, limit - 1, limit - 2, 40] {
                for tail in [&[0xc3u8][..], &[0xe2, 0x82][..], &[0xf0, 0x9f, 0x98][..]] {
                    if !mine(&mut idx) {
                        continue;
                    }
                    let mut v: Vec<u8> = if *kind == "ErrorCode" { vec![0, 0, 4, 1] } else { vec![] };
                    while v.len() < len - tail.len() {
                        v.push(b'a' + (rng.below(26) as u8));
                    }
                    v.extend_from_slice(tail);
                    out.push(format!("attr op=dec k={} ty={:04x} v={}", kind, kind_code(kind), hex_or_dash(&v)));
                }
            }
        }
        // values of more than 65535 bytes: `RawAttribute::new` keeps only the low 16 bits of the length in
        // its header, so a decoder that looked at the header length instead of the value would see an
        // acceptable size (C01: any byte string up to 70000 bytes, never a panic)
        for (j, &g) in good.iter().enumerate() {
            if j >= 3 { break; }
            if !mine(&mut idx) {
                continue;
            }
            let mut v = shaped_value(rng, kind, g);
            v.extend(shaped_value(rng, kind, 65536));
            v.truncate(65536 + g);
            out.push(format!("attr op=dec k={} ty={:04x} v={}", kind, kind_code(kind), hex_or_dash(&v)));
        }
        // wrong-implementation matrix: every other kind's code, plus random codes
        for other in KINDS.iter() {
            if !mine(&mut idx) {
                continue;
            }
            // every residue of the length, the decoders' own special lengths and their neighbours
            let len = *rng.pick(&[0usize, 1, 2, 3, 4, 5, 7, 8, 9, 16, 19, 20, 21, 31, 32, 33]);
            let v = shaped_value(rng, kind, len);
            out.push(format!("attr op=dec k={} ty={:04x} v={}", kind, kind_code(other), hex_or_dash(&v)));
        }
        for _ in 0..(if thorough { 60 } else { 6 }) {
            if !mine(&mut idx) {
                continue;
            }
            let len = *rng.pick(&[0usize, 1, 2, 3, 4, 5, 7, 8, 9, 16, 19, 20, 21, 31, 32, 33]);
            let v = shaped_value(rng, kind, len);
            out.push(format!("attr op=dec k={} ty={:04x} v={}", kind, rng.next() as u16, hex_or_dash(&v)));
        }
    }
    // ---- exhaustive small domains (thorough): ERROR-CODE class/number bytes, address (reserved,family)
    if !codec {
    } else if thorough {
        for b2 in 0..256u32 {
            for b3 in 0..256u32 {
                if !mine(&mut idx) {
                    continue;
                }
                out.push(format!("attr op=dec k=ErrorCode ty=0009 v=0000{:02x}{:02x}6f6b", b2, b3));
            }
        }
        for b0 in 0..256u32 {
            for b1 in 0..256u32 {
                if !mine(&mut idx) {
                    continue;
                }
                let body = if b1 == 2 { "00".repeat(18) } else { "00".repeat(6) };
                out.push(format!("attr op=dec k=AlternateServer ty=8023 v={:02x}{:02x}{}", b0, b1, body));
            }
        }
        // all 1- and 2-byte strings through a text decoder (UTF-8 validity)
        for a in 0..256u32 {
            if mine(&mut idx) {
                out.push(format!("attr op=dec k=Nonce ty=0015 v={:02x}", a));
            }
            for b in 0..256u32 {
                if mine(&mut idx) {
                    out.push(format!("attr op=dec k=Nonce ty=0015 v={:02x}{:02x}", a, b));
                }
            }
        }
    } else {
        for _ in 0..400 {
            if !mine(&mut idx) {
                continue;
            }
            out.push(format!("attr op=dec k=ErrorCode ty=0009 v=0000{:02x}{:02x}6f6b", rng.next() as u8, rng.next() as u8));
            out.push(format!("attr op=dec k=Nonce ty=0015 v={:02x}{:02x}", rng.next() as u8, rng.next() as u8));
            out.push(format!("attr op=dec k=Nonce ty=0015 v={:02x}{:02x}{:02x}", 0xe0 + rng.below(16), 0x80 + rng.below(64), 0x80 + rng.below(64)));
            out.push(format!("attr op=dec k=Nonce ty=0015 v={:02x}{:02x}{:02x}{:02x}", 0xf0 + rng.below(6), 0x80 + rng.below(64), 0x80 + rng.below(64), 0x7f + rng.below(66)));
        }
    }
    // ---- (c) constructors + to_raw + round trip, (d) in-place writes
    let per_kind = count.max(8);
    for kind in KINDS.iter() {
        for i in 0..per_kind {
            let f = rand_fields(rng, kind);
            if codec {
                out.push(format!("attr op=enc k={} f={}", kind, f));
                continue;
            }
            // in-place write into destinations of several sizes
            let fill = *rng.pick(&["aa", "ff", "00", "5c"]);
            // size choice is relative to the padded length, which the executor knows; encode as
            // offsets: the generator cannot call the code under test, so it uses a size guess
            // from the field string (hex length / 2 + header + padding) – any size is a valid case.
            let guess = {
                let vlen = match *kind {
                    "MessageIntegrity" => 20,
                    "Userhash" => 32,
                    "Priority" | "Fingerprint" | "PasswordAlgorithm" => 4,
                    "IceControlled" | "IceControlling" => 8,
                    "UseCandidate" => 0,
                    "XorMappedAddress" | "AlternateServer" => if f.contains("fam=6") { 20 } else { 8 },
                    "PasswordAlgorithms" => 4 * f.split('.').count(),
                    "ErrorCode" => 4 + f.rsplit("s=").next().map(|h| if h == "-" { 0 } else { h.len() / 2 }).unwrap_or(0),
                    _ => f.rsplit('=').next().map(|h| if h == "-" { 0 } else { h.len() / 2 }).unwrap_or(0),
                };
                4 + (vlen + 3) / 4 * 4
            };
            let sizes: Vec<usize> = if thorough && i % 4 == 0 {
                (0..=guess + 16).collect()
            } else {
                let mut s = vec![guess, guess + 1, guess.saturating_sub(1), guess + 16, 0];
                s.push(rng.below(guess as u64 + 17) as usize);
                s
            };
            for n in sizes {
                out.push(format!("attr op=write k={} f={} n={} fill={}", kind, f, n, fill));
            }
        }
        // beyond the constructor limits
        if !codec { continue; }
        match *kind {
            "Username" => {
                for n in [513usize, 514, 600] {
                    out.push(format!("attr op=enc k=Username f=s={}", hex(&vec![b'u'; n])));
                }
            }
            "Realm" | "Nonce" | "Software" => {
                for n in [763usize, 764, 900] {
                    out.push(format!("attr op=enc k={} f=s={}", kind, hex(&vec![b'r'; n])));
                }
            }
            "ErrorCode" => {
                for c in [0u32, 299, 300, 699, 700, 1000, 65535] {
                    out.push(format!("attr op=enc k=ErrorCode f=code={},s=6f6b", c));
                }
            }
            "MessageIntegritySha256" => {
                for n in [0usize, 15, 16, 17, 18, 31, 32, 33, 36] {
                    out.push(format!("attr op=enc k=MessageIntegritySha256 f=h={}", hex_or_dash(&vec![7u8; n])));
                }
            }
            _ => {}
        }
    }
    // raw attributes written in place: lengths 0..=763 sampled, every residue
    for i in 0..(if writes { (count * 4).max(40) } else { 0 }) {
        let len = if i < 40 { i } else { rng.below(764) as usize };
        let v = rng.bytes(len);
        let ty = match rng.below(4) {
            0 => 0x8022u16,
            1 => 0x0006,
            _ => rng.next() as u16,
        };
        let plen = 4 + (len + 3) / 4 * 4;
        let fill = *rng.pick(&["aa", "ff", "00"]);
        for n in [plen, plen + 1, plen.saturating_sub(1), plen + 16, rng.below(plen as u64 + 17) as usize] {
            out.push(format!("attr op=write k=Raw ty={:04x} v={} own={} n={} fill={}", ty, hex_or_dash(&v), rng.below(2), n, fill));
        }
    }
}
