//! family `ag`: StunAgent call histories (C05, C06, C07, C15, C18, C20)
//!   ag tr=udp local=<addr> [shift=<ms>] [mode=plain|thread|decoys|interleaved] ops=<op;op;…>
//! ops:  S/<tid>/<cls>/<integ>/<to>/<now ns>/<payload hex>    send
//!       H/<kind>/<tid>/<sign>/<corrupt>/<from>               handle_stun of a message built here
//!       P/<now ns>                                           poll
//!       C/<tid>  R/<tid>  F/<tid>/<rto ms>/<n>/<last ms>     cancel / cancel_retransmissions / configure_timeout
//!       K/<key>                                              set_remote_credentials
//! every reply is followed by a snapshot `|v=<validated bits> o=<outstanding bits> p=<peer indices>`
use crate::util::*;
use std::net::SocketAddr;
use std::time::{Duration, Instant};
use stun_proto::agent::*;
use stun_types::attribute::*;
use stun_types::message::*;
use stun_types::TransportType;

pub const ADDRS: [&str; 10] = ["4:c0000201:3478", "4:c0000201:3479", "6:20010db8000000000000000000000001:3478", "4:0a000001:9",
    // an IPv4-mapped IPv6 address and the IPv4 address it maps: they are different socket addresses
    "6:00000000000000000000ffffc0000207:3478", "4:c0000207:3478",
    // one link-local IP and port under two scope ids: two different socket addresses
    "6:fe800000000000000000000000000001%2:3478", "6:fe800000000000000000000000000001%3:3478",
    // the same again with a non-zero IPv6 flow label, and a global address that differs from ADDRS[2] in the flow label only:
    // SocketAddr equality includes scope id and flow label
    "6:fe800000000000000000000000000001%3.4660:3478", "6:20010db8000000000000000000000001%0.7:3478"];
// the last two differ from TIDS[0] = 1 only above bit 31 / bit 63 (equal low words; equal under a 32-bit xor-fold): ids are 96-bit values
pub const TIDS: [u128; 7] = [0x01, 0x0203_0405_0607_0809_0a0b_0c0d, 0xffff_ffff_ffff_ffff_ffff_ffff, 0x2112_a442, 0x7000_0000_0000_0000_0000_0001,
    0x1_0000_0001_0000_0000, 0x8000_0000_0000_0000_0000_0001];

pub fn addr_of(s: &str) -> SocketAddr {
    let p: Vec<&str> = s.split(':').collect();
    // "6:<ip hex>%<scope id>:<port>": an IPv6 address with a scope id (a different socket address from the
    // same IP and port with another scope id)
    if let Some((ip, scope)) = p[1].split_once('%') {
        let b = unhex(ip).unwrap();
        let mut a = [0u8; 16];
        a.copy_from_slice(&b);
        let (scope, flow) = match scope.split_once('.') {
            Some((sc, fl)) => (sc.parse().unwrap(), fl.parse().unwrap()),
            None => (scope.parse().unwrap(), 0u32),
        };
        return SocketAddr::V6(std::net::SocketAddrV6::new(a.into(), p[2].parse().unwrap(), flow, scope));
    }
    let kv_s = format!("x fam={} ip={} port={}", p[0], p[1], p[2]);
    let (_, kv) = Kv::parse(&kv_s);
    crate::typed::parse_addr(&kv)
}

pub fn addr_str(a: SocketAddr) -> String {
    match a {
        SocketAddr::V4(a) => format!("4:{}:{}", hex(&a.ip().octets()), a.port()),
        SocketAddr::V6(a) if a.flowinfo() != 0 => format!("6:{}%{}.{}:{}", hex(&a.ip().octets()), a.scope_id(), a.flowinfo(), a.port()),
        SocketAddr::V6(a) if a.scope_id() != 0 => format!("6:{}%{}:{}", hex(&a.ip().octets()), a.scope_id(), a.port()),
        SocketAddr::V6(a) => format!("6:{}:{}", hex(&a.ip().octets()), a.port()),
    }
}

pub fn key_creds(k: &str) -> MessageIntegrityCredentials {
    match k {
        "3" => LongTermCredentials::new("user".into(), "pass:word".into(), "realm".into()).into(),
        // two passwords that differ only in a non-ASCII character whose low byte is the other's ASCII letter
        "1" => ShortTermCredentials::new("p\u{161}ssword".to_string()).into(),
        "2" => ShortTermCredentials::new("password".to_string()).into(),
        _ => ShortTermCredentials::new(format!("key{k}")).into(),
    }
}

fn tr_str(t: TransportType) -> &'static str {
    match t {
        TransportType::Udp => "udp",
        TransportType::Tcp => "tcp",
    }
}

thread_local! {
    /// harness-side configuration of the agent under test for the current case line
    static REMOTE_ADDR: std::cell::RefCell<Option<String>> = const { std::cell::RefCell::new(None) };
}

pub struct AgentRun {
    pub agent: StunAgent,
    pub base: Instant,
    pub snaps: u64,
}

fn tid_hex(t: TransactionId) -> String {
    let v: u128 = t.into();
    format!("{:024x}", v)
}

impl AgentRun {
    pub fn new(tr: &str, local: &str, shift_ms: u64) -> Self {
        Self::new_based(tr, local, shift_ms, false)
    }

    /// `past`: the base lies a few minutes in the PAST (so a stray clock read lands in the middle of the
    /// history's time line); otherwise ~11 days in the future (a stray clock read is far before everything)
    pub fn new_based(tr: &str, local: &str, shift_ms: u64, past: bool) -> Self {
        let transport = if tr == "tcp" { TransportType::Tcp } else { TransportType::Udp };
        let future = Instant::now() + Duration::from_secs(1_000_000) + Duration::from_millis(shift_ms);
        let base = if past {
            Instant::now().checked_sub(Duration::from_secs(300) + Duration::from_millis(shift_ms % 60_000)).unwrap_or(future)
        } else {
            future
        };
        // `ra=<addr>` on the case line (passed through the thread-local below) configures the builder's
        // remote_addr: it must not redirect sends or re-attribute received messages
        let mut b = StunAgent::builder(transport, addr_of(local));
        if let Some(ra) = REMOTE_ADDR.with(|r| r.borrow().clone()) {
            b = b.remote_addr(addr_of(&ra));
        }
        let agent = b.build();
        // the accessors must report what the builder was given (they are what callers route packets by)
        let ra = REMOTE_ADDR.with(|r| r.borrow().clone()).map(|ra| addr_of(&ra));
        assert!(agent.transport() == transport && agent.local_addr() == addr_of(local) && agent.remote_addr() == ra,
                "agent accessors disagree with the builder arguments");
        AgentRun { agent, base, snaps: 0 }
    }

    fn at(&self, ns: u64) -> Instant {
        self.base + Duration::from_nanos(ns)
    }

    fn rel(&self, t: Instant) -> String {
        match t.checked_duration_since(self.base) {
            Some(d) => format!("{}", d.as_nanos()),
            None => format!("-{}", self.base.duration_since(t).as_nanos()),
        }
    }

    fn tx_str(t: &Transmit) -> String {
        // transaction id as found inside the transmitted bytes
        let tid = if t.data().len() >= 20 { hex(&t.data()[8..20]) } else { "short".into() };
        format!("tx:{}:{}:{}:{}:{}", tid, hex(t.data()), addr_str(t.from), addr_str(t.to), tr_str(t.transport))
    }

    pub fn snapshot(&mut self) -> String {
        let v: String = ADDRS.iter().map(|a| if self.agent.is_validated_peer(addr_of(a)) { '1' } else { '0' }).collect();
        let mut o = String::new();
        let mut p = vec![];
        self.snaps += 1;
        for t in TIDS.iter() {
            // the peer address is read alternately through the shared and the mutable request handle
            let via_mut = self.snaps % 2 == 0;
            let peer = if via_mut {
                self.agent.mut_request_transaction((*t).into()).map(|mut r| {
                    let pa = r.peer_address();
                    assert!(r.agent().local_addr() == r.mut_agent().local_addr());
                    pa
                })
            } else {
                self.agent.request_transaction((*t).into()).map(|r| r.peer_address())
            };
            match peer {
                Some(pa) => {
                    o.push('1');
                    let pa = addr_str(pa);
                    p.push(match ADDRS.iter().position(|a| *a == pa) {
                        Some(i) => i.to_string(),
                        None => pa,
                    });
                }
                None => {
                    o.push('0');
                    p.push("-".into());
                }
            }
        }
        format!("v={} o={} p={}", v, o, p.join(","))
    }

    pub fn apply(&mut self, op: &str) -> String {
        let p: Vec<&str> = op.split('/').collect();
        let reply = match p[0] {
            "S" => {
                let tid = u128::from_str_radix(p[1], 16).unwrap();
                let cls = crate::fam_mtype::cls_from(p[2].parse().unwrap());
                let to = addr_of(p[4]);
                let now = self.at(p[5].parse().unwrap());
                let mut b = Message::builder(MessageType::from_class_method(cls, BINDING), tid.into());
                // payload: `-`, the value of one SOFTWARE attribute, or `ty:value+ty:value...` raw attributes
                let mut raws: Vec<(u16, Vec<u8>)> = vec![];
                if p[6].contains(':') {
                    for item in p[6].split('+') {
                        let (t, v) = item.split_once(':').unwrap();
                        raws.push((u16::from_str_radix(t, 16).unwrap(), unhex(v).unwrap()));
                    }
                } else {
                    let payload = unhex(p[6]).unwrap();
                    if !payload.is_empty() {
                        raws.push((0x8022, payload));
                    }
                }
                for (t, v) in &raws {
                    b.add_raw_attribute(RawAttribute::new((*t).into(), v)).unwrap();
                }
                if let Some(k) = p[3].strip_prefix("1:") {
                    b.add_message_integrity(&key_creds(k), IntegrityAlgorithm::Sha1).unwrap();
                } else if let Some(k) = p[3].strip_prefix("2:") {
                    b.add_message_integrity(&key_creds(k), IntegrityAlgorithm::Sha256).unwrap();
                }
                let built = b.build();
                let r = match self.agent.send(b, to, now) {
                    Ok(t) => Self::tx_str(&t),
                    Err(StunError::AlreadyInProgress) => "inprogress".into(),
                    Err(StunError::ProtocolViolation) => "violation".into(),
                    Err(e) => format!("err:{:?}", e).replace(' ', "_"),
                };
                format!("{} built={}", r, hex(&built))
            }
            "H" => {
                let tid = u128::from_str_radix(p[2], 16).unwrap();
                // <kind>[@<method>]: the method of an incoming message is BINDING unless stated
                // <kind>[@<method>][+<error code>]: with an error code the message also carries ERROR-CODE, REALM and NONCE
                let (km, code) = match p[1].split_once('+') {
                    Some((k, c)) => (k, Some(c.parse::<u16>().unwrap())),
                    None => (p[1], None),
                };
                let (kind, meth) = match km.split_once('@') {
                    Some((k, m)) => (k, u16::from_str_radix(m, 16).unwrap()),
                    None => (km, BINDING),
                };
                let cls = match kind {
                    "ok" => MessageClass::Success,
                    "err" => MessageClass::Error,
                    "req" => MessageClass::Request,
                    _ => MessageClass::Indication,
                };
                let mut b = Message::builder(MessageType::from_class_method(cls, meth), tid.into());
                let sw = Software::new("peer").unwrap();
                b.add_attribute(&sw).unwrap();
                let ec = ErrorCode::new(code.unwrap_or(400), "x").unwrap();
                let realm = Realm::new("realm").unwrap();
                let nonce = Nonce::new("nonce").unwrap();
                if code.is_some() {
                    b.add_attribute(&ec).unwrap();
                    b.add_attribute(&realm).unwrap();
                    b.add_attribute(&nonce).unwrap();
                }
                let mut signed_len = 0;
                if let Some(k) = p[3].strip_prefix("1:") {
                    b.add_message_integrity(&key_creds(k), IntegrityAlgorithm::Sha1).unwrap();
                    signed_len = 20;
                } else if let Some(k) = p[3].strip_prefix("2:") {
                    b.add_message_integrity(&key_creds(k), IntegrityAlgorithm::Sha256).unwrap();
                    signed_len = 32;
                }
                let mut bytes = b.build();
                if p[4] == "1" && signed_len > 0 {
                    let n = bytes.len();
                    bytes[n - 3] ^= 0x40; // inside the HMAC value
                }
                // an integrity attribute of an illegal size appended by hand (the parser does not look
                // inside integrity attributes; validate_integrity refuses the size)
                let bogus: Option<(u16, usize)> = match p[4] {
                    "2" => Some((0x0008, 4)),
                    "3" => Some((0x001C, 12)),
                    "4" => Some((0x001C, 36)),
                    _ => None,
                };
                if let (Some((ty, n)), 0) = (bogus, signed_len) {
                    bytes.extend_from_slice(&ty.to_be_bytes());
                    bytes.extend_from_slice(&(n as u16).to_be_bytes());
                    bytes.extend(std::iter::repeat(0x5au8).take(n));
                    let l = (bytes.len() - 20) as u16;
                    bytes[2..4].copy_from_slice(&l.to_be_bytes());
                }
                // corrupt 5..8: a MESSAGE-INTEGRITY-SHA256 of an illegal size (1, 8, 12, 18 bytes) that is a *correct prefix* of the
                // HMAC under the signing key (length field of the HMAC input covering exactly this attribute): must not validate
                if let (Some("3"), true) = (p[3].strip_prefix("2:"), matches!(p[4], "5" | "6" | "7" | "8")) {
                    // (the long-term key derivation is not public: one flipped HMAC bit instead)
                    let n = bytes.len();
                    bytes[n - 3] ^= 0x40;
                } else if let (Some(k), true) = (p[3].strip_prefix("2:"), matches!(p[4], "5" | "6" | "7" | "8")) {
                    let n: usize = match p[4] { "5" => 1, "6" => 8, "7" => 12, _ => 18 };
                    let mut b = Message::builder(MessageType::from_class_method(cls, meth), tid.into());
                    b.add_attribute(&sw).unwrap();
                    if code.is_some() {
                        b.add_attribute(&ec).unwrap();
                        b.add_attribute(&realm).unwrap();
                        b.add_attribute(&nonce).unwrap();
                    }
                    bytes = b.build();
                    let off = bytes.len();
                    let l = (off + 4 + n - 20) as u16;
                    bytes[2..4].copy_from_slice(&l.to_be_bytes());
                    let pw: Vec<u8> = match k {
                        "1" => "p\u{161}ssword".as_bytes().to_vec(),
                        "2" => b"password".to_vec(),
                        _ => format!("key{k}").into_bytes(),
                    };
                    let mac = MessageIntegritySha256::compute(&bytes, &pw).unwrap();
                    bytes.extend_from_slice(&0x001Cu16.to_be_bytes());
                    bytes.extend_from_slice(&(n as u16).to_be_bytes());
                    bytes.extend_from_slice(&mac[..n]);
                    while bytes.len() % 4 != 0 {
                        bytes.push(0);
                    }
                    let total = (bytes.len() - 20) as u16;
                    bytes[2..4].copy_from_slice(&total.to_be_bytes());
                }
                let from = addr_of(p[5]);
                let r: String = match Message::from_bytes(&bytes) {
                    Err(_) => "noparse".into(),
                    Ok(m) => match self.agent.handle_stun(m, from) {
                        HandleStunReply::StunResponse(m) => format!("resp:{}", tid_hex(m.transaction_id())),
                        HandleStunReply::IncomingStun(m) => format!("incoming:{}", tid_hex(m.transaction_id())),
                        HandleStunReply::Drop => "drop".into(),
                    },
                };
                format!("{} hb={}", r, hex(&bytes))
            }
            "P" => {
                let now = self.at(p[1].parse().unwrap());
                match self.agent.poll(now) {
                    StunAgentPollRet::WaitUntil(t) => format!("wait:{}", self.rel(t)),
                    StunAgentPollRet::SendData(t) => Self::tx_str(&t),
                    StunAgentPollRet::TransactionTimedOut(t) => format!("timedout:{}", tid_hex(t)),
                    StunAgentPollRet::TransactionCancelled(t) => format!("cancelled:{}", tid_hex(t)),
                }
            }
            "C" | "R" | "F" => {
                let tid = u128::from_str_radix(p[1], 16).unwrap();
                match self.agent.mut_request_transaction(tid.into()) {
                    None => "notfound".into(),
                    Some(mut r) => {
                        match p[0] {
                            "C" => r.cancel(),
                            "R" => r.cancel_retransmissions(),
                            _ => r.configure_timeout(
                                Duration::from_millis(p[2].parse().unwrap()),
                                p[3].parse().unwrap(),
                                Duration::from_millis(p[4].parse().unwrap()),
                            ),
                        }
                        "ok".into()
                    }
                }
            }
            "K" => {
                self.agent.set_remote_credentials(key_creds(p[1]));
                assert!(self.agent.remote_credentials() == Some(key_creds(p[1])), "remote_credentials() is not what was set");
                "ok".into()
            }
            "L" => {
                // local credentials: what the agent's own requests are sealed with; they must play no
                // part in accepting responses
                self.agent.set_local_credentials(key_creds(p[1]));
                assert!(self.agent.local_credentials() == Some(key_creds(p[1])), "local_credentials() is not what was set");
                "ok".into()
            }
            o => panic!("bad op {o}"),
        };
        format!("{}|{}", reply, self.snapshot())
    }
}

pub fn exec(kv: &Kv) -> String {
    let ops: Vec<String> = split_list(kv.get("ops"), ';').iter().map(|s| s.to_string()).collect();
    let tr = kv.get("tr").to_string();
    let local = kv.get("local").to_string();
    let shift: u64 = kv.get("shift").parse().unwrap_or(0);
    let mode = kv.get("mode").to_string();
    let past = mode == "past";
    let ra: Option<String> = if kv.get("ra").is_empty() { None } else { Some(kv.get("ra").to_string()) };
    let ra2 = ra.clone();
    let run_plain = move || -> String {
        REMOTE_ADDR.with(|r| *r.borrow_mut() = ra2.clone());
        let mut r = AgentRun::new_based(&tr, &local, shift, past);
        REMOTE_ADDR.with(|r| *r.borrow_mut() = None);
        let mut out = vec![];
        for op in &ops {
            out.push(r.apply(op));
        }
        out.join(";")
    };
    match mode.as_str() {
        "thread" => std::thread::spawn(run_plain).join().unwrap_or_else(|_| "panic".into()),
        "decoys" => {
            // a thousand unrelated agents created (and used) first
            let mut decoys = vec![];
            for i in 0..1000u32 {
                let mut d = AgentRun::new("udp", ADDRS[(i % 4) as usize], i as u64);
                if i % 100 == 0 {
                    d.apply(&format!("S/{:x}/0/n/{}/{}/-", i + 1, ADDRS[0], i * 1000));
                }
                decoys.push(d);
            }
            let r = run_plain();
            drop(decoys);
            r
        }
        "interleaved" => {
            // an unrelated agent is driven call by call between the calls of the agent under test
            let ops2: Vec<String> = split_list(kv.get("ops"), ';').iter().map(|s| s.to_string()).collect();
            REMOTE_ADDR.with(|x| *x.borrow_mut() = ra.clone());
            let mut r = AgentRun::new(kv.get("tr"), kv.get("local"), shift);
            REMOTE_ADDR.with(|x| *x.borrow_mut() = None);
            let mut other = AgentRun::new("udp", ADDRS[3], 12345);
            let mut out = vec![];
            for (i, op) in ops2.iter().enumerate() {
                other.apply(&format!("S/{:x}/0/n/{}/{}/-", (i % 3) + 1, ADDRS[1], i as u64 * 777_000_000));
                other.apply(&format!("P/{}", i as u64 * 900_000_000));
                out.push(r.apply(op));
            }
            out.join(";")
        }
        _ => run_plain(),
    }
}

// ------------------------------------------------------------------------------ generators

struct Gen<'a> {
    rng: &'a mut Rng,
    run: AgentRun,
    ops: Vec<String>,
    now: u64,
    last_wait: Option<u64>,
    remote_key: Option<u64>,
    sent_keys: Vec<(usize, String)>, // (tid index, integ)
}

impl<'a> Gen<'a> {
    fn push(&mut self, op: String) -> String {
        let o = self.run.apply(&op);
        self.ops.push(op);
        if let Some(w) = o.strip_prefix("wait:") {
            let w = w.split('|').next().unwrap();
            self.last_wait = w.parse().ok();
        }
        o
    }

    fn tid(&mut self) -> usize {
        // a pool of 3 (sometimes 5) ids forces reuse and duplicates
        if self.rng.chance(1, 8) {
            self.rng.below(TIDS.len() as u64) as usize
        } else if self.rng.chance(1, 8) {
            // ids that agree with id #0 in their low words
            *self.rng.pick(&[0usize, 5, 6])
        } else {
            self.rng.below(3) as usize
        }
    }

    fn next_now(&mut self) -> u64 {
        let ms = 1_000_000u64;
        let choice = self.rng.below(12);
        let t = match (choice, self.last_wait) {
            (0, Some(w)) => w,                      // exactly at the wake-up
            (1, Some(w)) => w.saturating_sub(1),    // 1 ns early
            (2, Some(w)) => w + 1,                  // 1 ns late
            (3, Some(w)) => w.saturating_sub(ms),   // 1 ms early
            (4, Some(w)) => w + ms,
            (5, Some(w)) => w + self.rng.below(5000) * ms,
            (6, _) => self.now,                     // repeated at the same instant
            (7, _) => self.now + self.rng.below(100) * ms,
            (8, _) => self.now + 40_000 * ms,       // far in the future: past every default deadline
            (9, Some(w)) => (self.now + w) / 2,
            _ => self.now + self.rng.below(1500) * ms,
        };
        // instants handed to the agent mostly do not go backwards; now and then one lies a little before
        // the previous call's (nothing in the API forbids it, and no call may leak its instant into another)
        if self.rng.chance(1, 25) {
            let back = self.now.saturating_sub(self.rng.below(700) * ms);
            return back;
        }
        let t = t.max(self.now);
        self.now = t;
        t
    }
}

fn integ(rng: &mut Rng) -> String {
    match rng.below(5) {
        0 | 1 => "n".into(),
        2 => format!("1:{}", rng.below(3)),
        3 => format!("2:{}", rng.below(3)),
        _ => format!("1:{}", rng.below(4)),
    }
}

/// random histories; `timing` biases towards polls and reconfiguration (C06)
pub fn history(rng: &mut Rng, len: usize, tr: &str, timing: bool) -> String {
    let local = "4:7f000001:1000";
    // one history in four runs on an agent whose builder was given a remote address
    let ra: Option<&str> = if rng.chance(1, 4) { Some(ADDRS[rng.below(3) as usize]) } else { None };
    REMOTE_ADDR.with(|r| *r.borrow_mut() = ra.map(|s| s.to_string()));
    let run = AgentRun::new(tr, local, 0);
    REMOTE_ADDR.with(|r| *r.borrow_mut() = None);
    let mut g = Gen { rng, run, ops: vec![], now: 0, last_wait: None, remote_key: None, sent_keys: vec![] };
    for _ in 0..len {
        let c = g.rng.below(if timing { 14 } else { 20 });
        match c {
            0..=2 => {
                let ti = g.tid();
                let cls = if g.rng.chance(5, 6) { 0 } else { 1 + g.rng.below(3) };
                let ig = if timing { "n".to_string() } else { integ(g.rng) };
                let to = ADDRS[g.rng.below(ADDRS.len() as u64) as usize];
                let now = g.next_now();
                // message contents: empty, short, or anything up to the SOFTWARE limit
                let n = if g.rng.chance(1, 6) { 1 + g.rng.below(700) as usize } else { g.rng.below(3) as usize * 5 };
                let mut payload = hex_or_dash(&g.rng.bytes(n));
                if g.rng.chance(1, 4) {
                    // attributes of other (registered or unknown) types: the agent must treat the contents as opaque
                    const REGISTERED: [(u16, usize); 30] = [(0x0001, 8), (0x0003, 4), (0x000c, 4), (0x000d, 4), (0x0012, 8), (0x0013, 5),
                        (0x0016, 8), (0x0017, 4), (0x0018, 1), (0x0019, 4), (0x001a, 0), (0x001b, 12), (0x0022, 8), (0x0026, 7), (0x0027, 4),
                        (0x002a, 4), (0x8000, 4), (0x8001, 8), (0x8004, 8), (0x8025, 4), (0x8027, 4), (0x802b, 8), (0x802c, 8), (0x802d, 4),
                        (0x802e, 6), (0x8030, 9), (0xc001, 4), (0xc057, 4), (0x0024, 4), (0x802a, 8)];
                    let k = 1 + g.rng.below(3) as usize;
                    let mut seen: Vec<u16> = vec![];
                    let mut items: Vec<String> = vec![];
                    for _ in 0..k {
                        let (t, l) = if g.rng.chance(3, 4) { *g.rng.pick(&REGISTERED) } else { (g.rng.next() as u16, g.rng.below(9) as usize) };
                        if t == 0x0008 || t == 0x001c || t == 0x8028 || seen.contains(&t) {
                            continue;
                        }
                        seen.push(t);
                        let l = if g.rng.chance(4, 5) { l } else { g.rng.below(13) as usize };
                        items.push(format!("{:04x}:{}", t, hex_or_dash(&g.rng.bytes(l))));
                    }
                    if !items.is_empty() {
                        payload = items.join("+");
                    }
                }
                if cls == 0 {
                    g.sent_keys.push((ti, ig.clone()));
                }
                g.push(format!("S/{:x}/{}/{}/{}/{}/{}", TIDS[ti], cls, ig, to, now, payload));
            }
            3..=8 => {
                let now = g.next_now();
                g.push(format!("P/{}", now));
            }
            9 => {
                let ti = g.tid();
                let rto = *g.rng.pick(&[1u64, 2, 499, 500, 1000, 28125, 28126, 60000, 7]);
                let rto = if g.rng.chance(1, 3) { 1 + g.rng.below(60000) } else { rto };
                let n = g.rng.below(9);
                let last = *g.rng.pick(&[0u64, 1, 8000, 60000, 333]);
                g.push(format!("F/{:x}/{}/{}/{}", TIDS[ti], rto, n, last));
            }
            10 => {
                let ti = g.tid();
                g.push(format!("R/{:x}", TIDS[ti]));
            }
            11 => {
                let ti = g.tid();
                g.push(format!("C/{:x}", TIDS[ti]));
            }
            12 | 13 if timing => {
                let now = g.next_now();
                g.push(format!("P/{}", now));
            }
            12 => {
                if g.rng.chance(1, 3) {
                    let k = g.rng.below(4);
                    g.push(format!("L/{}", k));
                } else {
                    let k = g.rng.below(4);
                    g.remote_key = Some(k);
                    g.push(format!("K/{}", k));
                }
            }
            _ => {
                // an incoming message
                let ti = g.tid();
                let kind = *g.rng.pick(&["ok", "ok", "ok", "err", "req", "ind"]);
                // sometimes with a method other than the request's (BINDING): matching is by transaction id
                let kind = if g.rng.chance(1, 6) {
                    format!("{}@{:x}", kind, *g.rng.pick(&[0x000u16, 0x002, 0x003, 0x004, 0x800, 0xfff]))
                } else {
                    kind.to_string()
                };
                // error responses in the shape of an authentication challenge (ERROR-CODE 401/438 + REALM + NONCE) and others
                let kind = if kind.starts_with("err") && g.rng.chance(1, 2) {
                    format!("{}+{}", kind, *g.rng.pick(&[401u16, 438, 401, 400, 420, 300, 500]))
                } else {
                    kind
                };
                // response signing: genuine (the agent's remote key), another key, unsigned, corrupted
                let sign = match g.rng.below(6) {
                    0 => "n".to_string(),
                    1 => format!("{}:{}", 1 + g.rng.below(2), g.rng.below(4)),
                    _ => match g.remote_key {
                        Some(k) => format!("{}:{}", 1 + g.rng.below(2), k),
                        None => format!("1:{}", g.rng.below(4)),
                    },
                };
                let corrupt = if g.rng.chance(1, 6) { 1 } else if g.rng.chance(1, 8) { 2 + g.rng.below(3) } else if g.rng.chance(1, 8) { 5 + g.rng.below(4) } else { 0 };
                let from = ADDRS[g.rng.below(ADDRS.len() as u64) as usize];
                g.push(format!("H/{}/{:x}/{}/{}/{}", kind, TIDS[ti], sign, corrupt, from));
            }
        }
    }
    // drain: poll far in the future until nothing is left
    for i in 0..12u64 {
        let now = g.now + 50_000_000_000 * (i + 1);
        g.now = now;
        g.push(format!("P/{}", now));
    }
    match ra {
        Some(a) => format!("ag tr={} local={} ra={} ops={}", tr, local, a, g.ops.join(";")),
        None => format!("ag tr={} local={} ops={}", tr, local, g.ops.join(";")),
    }
}

/// C06: one request, a configuration from the grid, polled on a schedule placed around its deadlines
pub fn schedule_case(rng: &mut Rng, tr: &str) -> String {
    let local = "4:7f000001:1000";
    let mut g = Gen { rng, run: AgentRun::new(tr, local, 0), ops: vec![], now: 0, last_wait: None, remote_key: None, sent_keys: vec![] };
    let start = g.rng.below(3) * 1_000_000_007;
    g.now = start;
    g.push(format!("S/{:x}/0/n/{}/{}/-", TIDS[0], ADDRS[0], start));
    if g.rng.chance(3, 4) {
        let rto = *g.rng.pick(&[1u64, 2, 499, 500, 1000, 28125, 28126, 60000]);
        let rto = if g.rng.chance(1, 3) { 1 + g.rng.below(60000) } else { rto };
        let n = g.rng.below(9);
        let last = *g.rng.pick(&[0u64, 1, 8000, 60000]);
        g.push(format!("F/{:x}/{}/{}/{}", TIDS[0], rto, n, last));
    }
    // a second, overlapping request started a little later (checks the minimum across wake-ups)
    if g.rng.chance(1, 3) {
        let t = g.now + g.rng.below(700) * 1_000_000;
        g.now = t;
        g.push(format!("S/{:x}/0/n/{}/{}/-", TIDS[1], ADDRS[1], t));
    }
    let style = g.rng.below(5);
    for _ in 0..40 {
        let o = g.push(format!("P/{}", g.now));
        if o.starts_with("wait:") {
            let w = g.last_wait.unwrap();
            let ms = 1_000_000u64;
            g.now = match style {
                0 => w,                                          // exactly on time
                1 => if g.rng.chance(1, 2) { w.saturating_sub(1).max(g.now) } else { w },
                2 => w + g.rng.below(3000) * ms,                 // late by random amounts
                3 => if g.rng.chance(1, 3) { g.now } else { w }, // repeated polls
                _ => w + g.rng.below(3) * 100_000 * ms,          // jumping past several deadlines
            };
        }
        if g.rng.chance(1, 40) {
            g.push(format!("R/{:x}", TIDS[0]));
        }
    }
    format!("ag tr={} local={} ops={}", tr, local, g.ops.join(";"))
}

/// a crowd: more distinct peers than any small bound (a capped or evicting validated-peer set must not forget
/// the first ones), with the first peers re-checked after every call through the snapshot
pub fn crowd_history(rng: &mut Rng, crowd: usize) -> String {
    let tr = if rng.chance(1, 2) { "udp" } else { "tcp" };
    let mut ops: Vec<String> = vec![];
    ops.push(format!("H/req/{:x}/n/0/{}", TIDS[0], ADDRS[0]));
    ops.push(format!("H/ind/{:x}/n/0/{}", TIDS[1], ADDRS[2]));
    let salt = rng.below(200) as usize;
    for k in 0..crowd {
        let kind = if k % 3 == 0 { "ind" } else { "req" };
        let from = if k % 2 == 0 {
            format!("4:0b{:06x}:{}", (k + salt) * 7 + 1, 1024 + (k % 5000))
        } else {
            format!("6:20010db8{:024x}:{}", (k + salt) * 13 + 5, 3478)
        };
        ops.push(format!("H/{}/{:x}/n/0/{}", kind, TIDS[k % TIDS.len()], from));
    }
    ops.push(format!("H/req/{:x}/n/0/{}", TIDS[0], ADDRS[1]));
    ops.push(format!("S/{:x}/0/n/{}/0/-", TIDS[0], ADDRS[3]));
    ops.push(format!("H/ok/{:x}/n/0/{}", TIDS[0], ADDRS[3]));
    ops.push("P/1000000".to_string());
    format!("ag tr={} local=4:7f000001:1000 ops={}", tr, ops.join(";"))
}

pub fn gen(which: &str, rng: &mut Rng, count: usize, thorough: bool, out: &mut Vec<String>, _part: u64, _parts: u64) {
    match which {
        "ag.hist" => {
            // a crowd: more distinct peers than any small bound (a capped or evicting validated-peer set must
            // not forget the first ones), from many addresses, with the first peers re-checked after every call
            // through the snapshot
            out.push(crowd_history(rng, if thorough { 1100 } else { 300 }));
            for i in 0..count {
                let tr = if i % 3 == 2 { "tcp" } else { "udp" };
                let len = if thorough && i % 20 == 0 { 400 } else { 5 + rng.below(60) as usize };
                out.push(history(rng, len, tr, false));
            }
        }
        "ag.time" => {
            for i in 0..count {
                let tr = if i % 4 == 3 { "tcp" } else { "udp" };
                if i % 2 == 0 {
                    out.push(schedule_case(rng, tr));
                } else {
                    let len = 10 + rng.below(50) as usize;
                    out.push(history(rng, len, tr, true));
                }
            }
            // default schedule, polled exactly on time, both transports
            for tr in ["udp", "tcp"] {
                let mut g = Gen { rng, run: AgentRun::new(tr, "4:7f000001:1000", 0), ops: vec![], now: 0, last_wait: None, remote_key: None, sent_keys: vec![] };
                g.push(format!("S/{:x}/0/n/{}/0/-", TIDS[0], ADDRS[0]));
                for _ in 0..10 {
                    let o = g.push(format!("P/{}", g.now));
                    if o.starts_with("wait:") {
                        g.now = g.last_wait.unwrap();
                    }
                }
                out.push(format!("ag tr={} local=4:7f000001:1000 ops={}", tr, g.ops.join(";")));
            }
            // the 60 s x 8 retransmits corner: deadlines more than an hour away
            for tr in ["udp", "tcp"] {
                out.push(format!(
                    "ag tr={} local=4:7f000001:1000 ops=S/1/0/n/{}/0/-;F/1/60000/8/60000;P/0;P/60000000000;P/60000000000;P/180000000000;P/180000000000;P/420000000000;P/420000000000;P/900000000000;P/900000000000;P/1860000000000;P/1860000000000;P/3780000000000;P/3780000000000;P/7620000000000;P/7620000000000;P/7620000000001;P/15300000000000;P/15300000000000;P/15360000000000",
                    tr, ADDRS[0]
                ));
            }
        }
        "ag.exh" => {
            // EXHAUSTIVE: every history of exactly `depth` calls over a 17-letter alphabet for two
            // transaction ids (observations are compared after every call, so shorter histories are
            // covered as prefixes); instants follow the agent's own answers
            let depth: u32 = if thorough { 5 } else { 4 };
            let letters = 17u64;
            let total = letters.pow(depth);
            let mut idx = _part;
            while idx < total {
                for tr in ["udp", "tcp"] {
                    let mut g = Gen { rng, run: AgentRun::new(tr, "4:7f000001:1000", 0), ops: vec![], now: 0, last_wait: None, remote_key: None, sent_keys: vec![] };
                    let mut code = idx;
                    for _ in 0..depth {
                        let l = code % letters;
                        code /= letters;
                        let (a, b) = (TIDS[0], TIDS[1]);
                        let op = match l {
                            0 => format!("S/{:x}/0/n/{}/{}/-", a, ADDRS[0], g.now),
                            1 => format!("S/{:x}/0/1:0/{}/{}/0102030405", a, ADDRS[0], g.now),
                            2 => format!("S/{:x}/0/n/{}/{}/-", b, ADDRS[1], g.now),
                            3 => format!("P/{}", g.now),
                            4 => {
                                if let Some(w) = g.last_wait {
                                    g.now = g.now.max(w);
                                }
                                format!("P/{}", g.now)
                            }
                            5 => {
                                g.now += 40_000_000_000;
                                format!("P/{}", g.now)
                            }
                            6 => format!("H/ok/{:x}/1:0/0/{}", a, ADDRS[0]),
                            7 => format!("H/ok/{:x}/2:1/0/{}", a, ADDRS[0]),
                            8 => format!("H/err/{:x}/n/0/{}", a, ADDRS[2]),
                            9 => format!("H/ok/{:x}/n/0/{}", b, ADDRS[1]),
                            10 => format!("H/req/{:x}/n/0/{}", a, ADDRS[1]),
                            11 => format!("C/{:x}", a),
                            12 => format!("R/{:x}", a),
                            13 => "K/0".to_string(),
                            14 => format!("H/ok/{:x}/n/3/{}", a, ADDRS[0]),
                            15 => "L/0".to_string(),
                            _ => format!("F/{:x}/1000/1/2000", a),
                        };
                        g.push(op);
                    }
                    // two closing polls: at the wake-up, then far in the future
                    if let Some(w) = g.last_wait {
                        g.now = g.now.max(w);
                    }
                    let n1 = g.now;
                    g.push(format!("P/{}", n1));
                    let n2 = g.now + 100_000_000_000;
                    g.push(format!("P/{}", n2));
                    out.push(format!("ag tr={} local=4:7f000001:1000 ops={}", tr, g.ops.join(";")));
                }
                idx += _parts;
            }
        }
        "ag.pure" => {
            for i in 0..=count {
                let tr = if i % 3 == 2 { "tcp" } else { "udp" };
                let len = 5 + rng.below(40) as usize;
                let h = if i == count { crowd_history(rng, if thorough { 600 } else { 300 }) } else { history(rng, len, tr, i % 2 == 0) };
                let rest = h.strip_prefix("ag ").unwrap().to_string();
                let shift = *rng.pick(&[1u64, 1_000_000, 1_000_000_000, 86_400_000]);
                out.push(format!("ag shift=0 mode=plain {}", rest));
                out.push(format!("ag shift={} mode=plain {}", shift, rest));
                out.push(format!("ag shift={} mode={} {}", rng.below(1_000_000_000), rng.pick(&["thread", "decoys", "interleaved"]), rest));
                out.push(format!("ag shift={} mode=past {}", rng.below(60_000), rest));
            }
        }
        _ => panic!("unknown generator {which}"),
    }
}
