//! hex, PRNG, key=value lines

pub fn hex(b: &[u8]) -> String {
    const D: &[u8; 16] = b"0123456789abcdef";
    let mut s = String::with_capacity(b.len() * 2);
    for x in b {
        s.push(D[(x >> 4) as usize] as char);
        s.push(D[(x & 15) as usize] as char);
    }
    s
}

/// `-` is the empty byte string
pub fn hex_or_dash(b: &[u8]) -> String {
    if b.is_empty() {
        "-".to_string()
    } else {
        hex(b)
    }
}

pub fn unhex(s: &str) -> Option<Vec<u8>> {
    if s == "-" {
        return Some(vec![]);
    }
    let b = s.as_bytes();
    if b.len() % 2 != 0 {
        return None;
    }
    let v = |c: u8| -> Option<u8> {
        match c {
            b'0'..=b'9' => Some(c - b'0'),
            b'a'..=b'f' => Some(c - b'a' + 10),
            b'A'..=b'F' => Some(c - b'A' + 10),
            _ => None,
        }
    };
    let mut out = Vec::with_capacity(b.len() / 2);
    for i in (0..b.len()).step_by(2) {
        out.push(v(b[i])? * 16 + v(b[i + 1])?);
    }
    Some(out)
}

/// splitmix64: every random choice of a worker derives from one state
#[derive(Clone)]
pub struct Rng(pub u64);

impl Rng {
    pub fn new(seed: u64) -> Self {
        Rng(seed.wrapping_mul(0x9E3779B97F4A7C15) ^ 0xD1B54A32D192ED03)
    }
    pub fn next(&mut self) -> u64 {
        self.0 = self.0.wrapping_add(0x9E3779B97F4A7C15);
        let mut z = self.0;
        z = (z ^ (z >> 30)).wrapping_mul(0xBF58476D1CE4E5B9);
        z = (z ^ (z >> 27)).wrapping_mul(0x94D049BB133111EB);
        z ^ (z >> 31)
    }
    /// uniform in 0..n (n > 0)
    pub fn below(&mut self, n: u64) -> u64 {
        self.next() % n
    }
    pub fn range(&mut self, lo: u64, hi_incl: u64) -> u64 {
        lo + self.below(hi_incl - lo + 1)
    }
    pub fn chance(&mut self, num: u64, den: u64) -> bool {
        self.below(den) < num
    }
    pub fn pick<'a, T>(&mut self, xs: &'a [T]) -> &'a T {
        &xs[self.below(xs.len() as u64) as usize]
    }
    pub fn bytes(&mut self, n: usize) -> Vec<u8> {
        (0..n).map(|_| self.next() as u8).collect()
    }
    pub fn u128(&mut self) -> u128 {
        ((self.next() as u128) << 64) | self.next() as u128
    }
}

/// key=value access on the left-hand side of a case line
pub struct Kv<'a>(pub Vec<(&'a str, &'a str)>);

impl<'a> Kv<'a> {
    pub fn parse(lhs: &'a str) -> (&'a str, Kv<'a>) {
        let mut it = lhs.split_whitespace();
        let fam = it.next().unwrap_or("");
        let kv = it
            .map(|t| match t.find('=') {
                Some(i) => (&t[..i], &t[i + 1..]),
                None => (t, ""),
            })
            .collect();
        (fam, Kv(kv))
    }
    pub fn get(&self, k: &str) -> &'a str {
        self.0.iter().find(|(a, _)| *a == k).map(|(_, b)| *b).unwrap_or("")
    }
    pub fn has(&self, k: &str) -> bool {
        self.0.iter().any(|(a, _)| *a == k)
    }
}

pub fn split_list<'a>(s: &'a str, sep: char) -> Vec<&'a str> {
    if s.is_empty() {
        vec![]
    } else {
        s.split(sep).collect()
    }
}
