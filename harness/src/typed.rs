//! The 19 built-in typed attributes behind one enum, with a canonical text rendering of their
//! fields that the Lean driver produces identically.
use crate::util::*;
use std::net::{IpAddr, Ipv4Addr, Ipv6Addr, SocketAddr};
use stun_types::attribute::*;
use stun_types::message::{StunParseError, TransactionId};

pub const KINDS: [&str; 19] = [
    "Username",
    "MessageIntegrity",
    "ErrorCode",
    "UnknownAttributes",
    "Realm",
    "Nonce",
    "MessageIntegritySha256",
    "PasswordAlgorithm",
    "Userhash",
    "XorMappedAddress",
    "Priority",
    "UseCandidate",
    "PasswordAlgorithms",
    "AlternateDomain",
    "Software",
    "AlternateServer",
    "Fingerprint",
    "IceControlled",
    "IceControlling",
];

pub fn kind_code(k: &str) -> u16 {
    match k {
        "Username" => Username::TYPE.value(),
        "MessageIntegrity" => MessageIntegrity::TYPE.value(),
        "ErrorCode" => ErrorCode::TYPE.value(),
        "UnknownAttributes" => UnknownAttributes::TYPE.value(),
        "Realm" => Realm::TYPE.value(),
        "Nonce" => Nonce::TYPE.value(),
        "MessageIntegritySha256" => MessageIntegritySha256::TYPE.value(),
        "PasswordAlgorithm" => PasswordAlgorithm::TYPE.value(),
        "Userhash" => Userhash::TYPE.value(),
        "XorMappedAddress" => XorMappedAddress::TYPE.value(),
        "Priority" => Priority::TYPE.value(),
        "UseCandidate" => UseCandidate::TYPE.value(),
        "PasswordAlgorithms" => PasswordAlgorithms::TYPE.value(),
        "AlternateDomain" => AlternateDomain::TYPE.value(),
        "Software" => Software::TYPE.value(),
        "AlternateServer" => AlternateServer::TYPE.value(),
        "Fingerprint" => Fingerprint::TYPE.value(),
        "IceControlled" => IceControlled::TYPE.value(),
        "IceControlling" => IceControlling::TYPE.value(),
        _ => panic!("kind {k}"),
    }
}

#[derive(Debug)]
pub enum TV {
    Username(Username),
    MessageIntegrity(MessageIntegrity),
    ErrorCode(ErrorCode),
    UnknownAttributes(UnknownAttributes),
    Realm(Realm),
    Nonce(Nonce),
    MessageIntegritySha256(MessageIntegritySha256),
    PasswordAlgorithm(PasswordAlgorithm),
    Userhash(Userhash),
    XorMappedAddress(XorMappedAddress),
    Priority(Priority),
    UseCandidate(UseCandidate),
    PasswordAlgorithms(PasswordAlgorithms),
    AlternateDomain(AlternateDomain),
    Software(Software),
    AlternateServer(AlternateServer),
    Fingerprint(Fingerprint),
    IceControlled(IceControlled),
    IceControlling(IceControlling),
}

fn addr_fields(a: SocketAddr) -> String {
    match a {
        SocketAddr::V4(a) => format!("fam=4,ip={},port={}", hex(&a.ip().octets()), a.port()),
        SocketAddr::V6(a) => format!("fam=6,ip={},port={}", hex(&a.ip().octets()), a.port()),
    }
}

/// the stored (still XORed) address of an XorMappedAddress, recovered through the public getter
/// with transaction id 0 and the harness's own copy of the RFC constants
fn stored_of_xor(x: &XorMappedAddress) -> SocketAddr {
    let a = x.addr(TransactionId::from(0u128));
    let port = a.port() ^ 0x2112;
    match a {
        SocketAddr::V4(a) => {
            let o = a.ip().octets();
            let c = [0x21u8, 0x12, 0xa4, 0x42];
            let ip = [o[0] ^ c[0], o[1] ^ c[1], o[2] ^ c[2], o[3] ^ c[3]];
            SocketAddr::new(IpAddr::V4(Ipv4Addr::from(ip)), port)
        }
        SocketAddr::V6(a) => {
            let mut o = a.ip().octets();
            let c = [0x21u8, 0x12, 0xa4, 0x42];
            for i in 0..4 {
                o[i] ^= c[i];
            }
            SocketAddr::new(IpAddr::V6(Ipv6Addr::from(o)), port)
        }
    }
}

fn algo_num(a: PasswordAlgorithmValue) -> u32 {
    match a {
        PasswordAlgorithmValue::MD5 => 1,
        PasswordAlgorithmValue::SHA256 => 2,
    }
}

pub fn parse_addr(kv: &Kv) -> SocketAddr {
    let ip = unhex(kv.get("ip")).unwrap();
    let port: u16 = kv.get("port").parse().unwrap();
    if kv.get("fam") == "6" {
        let mut o = [0u8; 16];
        o.copy_from_slice(&ip);
        SocketAddr::new(IpAddr::V6(Ipv6Addr::from(o)), port)
    } else {
        let mut o = [0u8; 4];
        o.copy_from_slice(&ip);
        SocketAddr::new(IpAddr::V4(Ipv4Addr::from(o)), port)
    }
}

impl TV {
    pub fn from_raw(kind: &str, raw: &RawAttribute) -> Result<TV, StunParseError> {
        Ok(match kind {
            "Username" => TV::Username(Username::from_raw(raw)?),
            "MessageIntegrity" => TV::MessageIntegrity(MessageIntegrity::from_raw(raw)?),
            "ErrorCode" => TV::ErrorCode(ErrorCode::from_raw(raw)?),
            "UnknownAttributes" => TV::UnknownAttributes(UnknownAttributes::from_raw(raw)?),
            "Realm" => TV::Realm(Realm::from_raw(raw)?),
            "Nonce" => TV::Nonce(Nonce::from_raw(raw)?),
            "MessageIntegritySha256" => TV::MessageIntegritySha256(MessageIntegritySha256::from_raw(raw)?),
            "PasswordAlgorithm" => TV::PasswordAlgorithm(PasswordAlgorithm::from_raw(raw)?),
            "Userhash" => TV::Userhash(Userhash::from_raw(raw)?),
            "XorMappedAddress" => TV::XorMappedAddress(XorMappedAddress::from_raw(raw)?),
            "Priority" => TV::Priority(Priority::from_raw(raw)?),
            "UseCandidate" => TV::UseCandidate(UseCandidate::from_raw(raw)?),
            "PasswordAlgorithms" => TV::PasswordAlgorithms(PasswordAlgorithms::from_raw(raw)?),
            "AlternateDomain" => TV::AlternateDomain(AlternateDomain::from_raw(raw)?),
            "Software" => TV::Software(Software::from_raw(raw)?),
            "AlternateServer" => TV::AlternateServer(AlternateServer::from_raw(raw)?),
            "Fingerprint" => TV::Fingerprint(Fingerprint::from_raw(raw)?),
            "IceControlled" => TV::IceControlled(IceControlled::from_raw(raw)?),
            "IceControlling" => TV::IceControlling(IceControlling::from_raw(raw)?),
            _ => panic!("kind {kind}"),
        })
    }

    /// canonical field text (identical to `Driver.renderVal` on the Lean side)
    pub fn fields(&self) -> String {
        match self {
            TV::Username(v) => format!("s={}", hex_or_dash(v.username().as_bytes())),
            TV::Realm(v) => format!("s={}", hex_or_dash(v.realm().as_bytes())),
            TV::Nonce(v) => format!("s={}", hex_or_dash(v.nonce().as_bytes())),
            TV::Software(v) => format!("s={}", hex_or_dash(v.software().as_bytes())),
            TV::AlternateDomain(v) => format!("s={}", hex_or_dash(v.domain().as_bytes())),
            TV::MessageIntegrity(v) => format!("h={}", hex_or_dash(v.hmac())),
            TV::MessageIntegritySha256(v) => format!("h={}", hex_or_dash(v.hmac())),
            TV::Userhash(v) => format!("h={}", hex_or_dash(v.hash())),
            TV::ErrorCode(v) => format!("code={},s={}", v.code(), hex_or_dash(v.reason().as_bytes())),
            TV::UnknownAttributes(v) => {
                // no list getter: membership queries over all 65536 types, in wire order via to_raw
                // would be circular, so the list is recovered from Debug-free public API:
                // has_attribute for every type gives the set; order/duplicates come from `enc`.
                let mut set = vec![];
                for t in 0..=65535u16 {
                    if v.has_attribute(AttributeType::new(t)) {
                        set.push(format!("{:04x}", t));
                    }
                }
                // the stored list itself (order, duplicates) as the value re-encodes it
                let raw = v.to_raw();
                format!("set={},enc={}", if set.is_empty() { "-".to_string() } else { set.join(".") }, hex_or_dash(&raw.value))
            }
            TV::PasswordAlgorithm(v) => format!("a={}", algo_num(v.algorithm())),
            TV::PasswordAlgorithms(v) => {
                let l: Vec<String> = v.algorithms().iter().map(|a| algo_num(*a).to_string()).collect();
                format!("l={}", if l.is_empty() { "-".to_string() } else { l.join(".") })
            }
            TV::XorMappedAddress(v) => addr_fields(stored_of_xor(v)),
            TV::AlternateServer(v) => addr_fields(v.server()),
            TV::Priority(v) => format!("p={}", v.priority()),
            TV::UseCandidate(_) => "-".to_string(),
            TV::Fingerprint(v) => format!("c={}", hex(v.fingerprint())),
            TV::IceControlled(v) => format!("t={}", v.tie_breaker()),
            TV::IceControlling(v) => format!("t={}", v.tie_breaker()),
        }
    }

    pub fn as_write(&self) -> &dyn AttributeWrite {
        match self {
            TV::Username(v) => v,
            TV::MessageIntegrity(v) => v,
            TV::ErrorCode(v) => v,
            TV::UnknownAttributes(v) => v,
            TV::Realm(v) => v,
            TV::Nonce(v) => v,
            TV::MessageIntegritySha256(v) => v,
            TV::PasswordAlgorithm(v) => v,
            TV::Userhash(v) => v,
            TV::XorMappedAddress(v) => v,
            TV::Priority(v) => v,
            TV::UseCandidate(v) => v,
            TV::PasswordAlgorithms(v) => v,
            TV::AlternateDomain(v) => v,
            TV::Software(v) => v,
            TV::AlternateServer(v) => v,
            TV::Fingerprint(v) => v,
            TV::IceControlled(v) => v,
            TV::IceControlling(v) => v,
        }
    }

    /// build a value through the public constructor from a field string `k=v,k=v`
    /// (XorMappedAddress: the *real* address and `tid`).  Err = the constructor refused.
    pub fn construct(kind: &str, fields: &str) -> Result<TV, String> {
        let lhs = format!("x {}", fields.replace(',', " "));
        let (_, kv) = Kv::parse(&lhs);
        let text = |k: &str| -> String { String::from_utf8(unhex(kv.get(k)).unwrap()).expect("utf8 in constructor text") };
        let refused = |e: stun_types::message::StunWriteError| format!("refused {e:?}");
        Ok(match kind {
            "Username" => TV::Username(Username::new(&text("s")).map_err(refused)?),
            "Realm" => TV::Realm(Realm::new(&text("s")).map_err(refused)?),
            "Nonce" => TV::Nonce(Nonce::new(&text("s")).map_err(refused)?),
            "Software" => TV::Software(Software::new(&text("s")).map_err(refused)?),
            "AlternateDomain" => TV::AlternateDomain(AlternateDomain::new(&text("s"))),
            "MessageIntegrity" => {
                let h = unhex(kv.get("h")).unwrap();
                let a: [u8; 20] = h.as_slice().try_into().map_err(|_| "refused len".to_string())?;
                TV::MessageIntegrity(MessageIntegrity::new(a))
            }
            "MessageIntegritySha256" => {
                TV::MessageIntegritySha256(MessageIntegritySha256::new(&unhex(kv.get("h")).unwrap()).map_err(refused)?)
            }
            "Userhash" => {
                let h = unhex(kv.get("h")).unwrap();
                let a: [u8; 32] = h.as_slice().try_into().map_err(|_| "refused len".to_string())?;
                TV::Userhash(Userhash::new(a))
            }
            "ErrorCode" => TV::ErrorCode(ErrorCode::new(kv.get("code").parse().unwrap(), &text("s")).map_err(refused)?),
            "UnknownAttributes" => {
                let b = unhex(kv.get("l")).unwrap();
                let l: Vec<AttributeType> =
                    b.chunks(2).map(|c| AttributeType::new(u16::from_be_bytes([c[0], c[1]]))).collect();
                TV::UnknownAttributes(UnknownAttributes::new(&l))
            }
            "PasswordAlgorithm" => TV::PasswordAlgorithm(PasswordAlgorithm::new(match kv.get("a") {
                "1" => PasswordAlgorithmValue::MD5,
                _ => PasswordAlgorithmValue::SHA256,
            })),
            "PasswordAlgorithms" => {
                let l: Vec<PasswordAlgorithmValue> = split_list(kv.get("l"), '.')
                    .iter()
                    .filter(|s| **s != "-")
                    .map(|s| if *s == "1" { PasswordAlgorithmValue::MD5 } else { PasswordAlgorithmValue::SHA256 })
                    .collect();
                TV::PasswordAlgorithms(PasswordAlgorithms::new(&l))
            }
            "XorMappedAddress" => {
                let tid = u128::from_str_radix(kv.get("tid"), 16).unwrap();
                TV::XorMappedAddress(XorMappedAddress::new(parse_addr(&kv), tid.into()))
            }
            "AlternateServer" => TV::AlternateServer(AlternateServer::new(parse_addr(&kv))),
            "Priority" => TV::Priority(Priority::new(kv.get("p").parse().unwrap())),
            "UseCandidate" => TV::UseCandidate(UseCandidate::new()),
            "Fingerprint" => {
                let h = unhex(kv.get("c")).unwrap();
                let a: [u8; 4] = h.as_slice().try_into().map_err(|_| "refused len".to_string())?;
                TV::Fingerprint(Fingerprint::new(a))
            }
            "IceControlled" => TV::IceControlled(IceControlled::new(kv.get("t").parse().unwrap())),
            "IceControlling" => TV::IceControlling(IceControlling::new(kv.get("t").parse().unwrap())),
            _ => panic!("kind {kind}"),
        })
    }
}

// ------------------------------------------------------------------ generators of field strings

pub fn rand_utf8(rng: &mut Rng, max_bytes: usize) -> String {
    // text that a "normalising" reader would alter: enclosed in quotes / brackets / spaces, trailing NUL or line end, leading BOM,
    // upper case -- attribute text is opaque and must come back byte for byte
    if max_bytes >= 4 && rng.chance(1, 8) {
        let inner = rand_utf8(rng, max_bytes - 4);
        let d = rng.below(8);
        let s = match d {
            0 => format!("\"{}\"", inner),
            1 => format!(" {} ", inner),
            2 => format!("{}\0", inner),
            3 => format!("\u{feff}{}", inner),
            4 => format!("<{}>", inner),
            5 => format!("{}\r\n", inner),
            6 => inner.to_uppercase(),
            _ => format!("'{}'", inner),
        };
        if s.len() <= max_bytes {
            return s;
        }
    }
    let target = rng.below(max_bytes as u64 + 1) as usize;
    let mut s = String::new();
    while s.len() < target {
        let c = match rng.below(10) {
            0..=5 => (0x20 + rng.below(0x5f)) as u8 as char,
            6 => char::from_u32(0x80 + rng.below(0x780) as u32).unwrap(),
            7 => char::from_u32(0x800 + rng.below(0xd000 - 0x800) as u32).unwrap_or('x'),
            8 => char::from_u32(0x10000 + rng.below(0x100000) as u32).unwrap_or('y'),
            _ => *rng.pick(&['\0', '\u{7f}', '\u{80}', '\u{7ff}', '\u{800}', '\u{ffff}', '\u{10000}', '\u{10ffff}', ':', '\u{d7ff}', '\u{e000}']),
        };
        if s.len() + c.len_utf8() > target {
            // fill the remainder with ASCII
            while s.len() < target {
                s.push('a');
            }
            break;
        }
        s.push(c);
    }
    s
}

fn len_around(rng: &mut Rng, limit: usize) -> usize {
    match rng.below(10) {
        0 => 0,
        1 => limit,
        2 => limit.saturating_sub(1),
        3 => limit.saturating_sub(2),
        4 => limit.saturating_sub(3),
        5 => rng.below(9) as usize,
        _ => rng.below(limit as u64 + 1) as usize,
    }
}

pub fn rand_addr_fields(rng: &mut Rng) -> String {
    let port = match rng.below(6) {
        0 => 0,
        1 => 65535,
        2 => 0x2112,
        _ => rng.below(65536),
    };
    if rng.chance(1, 2) {
        let ip = match rng.below(5) {
            0 => vec![0; 4],
            1 => vec![255; 4],
            2 => vec![0x21, 0x12, 0xa4, 0x42],
            _ => rng.bytes(4),
        };
        format!("fam=4,ip={},port={}", hex(&ip), port)
    } else {
        let ip = match rng.below(8) {
            0 => vec![0; 16],
            1 => vec![255; 16],
            // special IPv6 forms a "dual-stack" shortcut could treat differently: IPv4-mapped,
            // IPv4-compatible, 6to4, loopback
            5 => {
                let mut v = vec![0u8; 10];
                v.extend([0xff, 0xff]);
                v.extend(rng.bytes(4));
                v
            }
            6 => {
                let mut v = vec![0u8; 12];
                v.extend(rng.bytes(4));
                v
            }
            7 => match rng.below(2) {
                0 => {
                    let mut v = vec![0x20, 0x02];
                    v.extend(rng.bytes(4));
                    v.extend(vec![0u8; 10]);
                    v
                }
                _ => {
                    let mut v = vec![0u8; 15];
                    v.push(1);
                    v
                }
            },
            2 => {
                let mut v = vec![0x21, 0x12, 0xa4, 0x42];
                v.extend(rng.bytes(12));
                v
            }
            _ => rng.bytes(16),
        };
        format!("fam=6,ip={},port={}", hex(&ip), port)
    }
}

/// an in-limit value of the given kind as a constructor field string
pub fn rand_fields(rng: &mut Rng, kind: &str) -> String {
    match kind {
        "Username" => {
            let n = len_around(rng, 513);
            format!("s={}", hex_or_dash(rand_utf8(rng, n).as_bytes()))
        }
        "Realm" | "Nonce" | "Software" => {
            let n = len_around(rng, 763);
            format!("s={}", hex_or_dash(rand_utf8(rng, n).as_bytes()))
        }
        "AlternateDomain" => {
            let n = len_around(rng, 300);
            format!("s={}", hex_or_dash(rand_utf8(rng, n).as_bytes()))
        }
        "MessageIntegrity" => format!("h={}", hex(&rng.bytes(20))),
        "MessageIntegritySha256" => {
            let n = *rng.pick(&[16usize, 20, 24, 28, 32]);
            format!("h={}", hex(&rng.bytes(n)))
        }
        "Userhash" => format!("h={}", hex(&rng.bytes(32))),
        "ErrorCode" => {
            let code = match rng.below(6) {
                0 => 300,
                1 => 699,
                2 => 420,
                3 => 400,
                _ => rng.range(300, 699),
            };
            let n = len_around(rng, 763);
            format!("code={},s={}", code, hex_or_dash(rand_utf8(rng, n).as_bytes()))
        }
        "UnknownAttributes" => {
            let n = rng.below(7) as usize;
            let mut b = vec![];
            for _ in 0..n {
                let t = match rng.below(4) {
                    0 => 0x0006u16,
                    1 => 0x8028,
                    _ => rng.next() as u16,
                };
                b.extend_from_slice(&t.to_be_bytes());
            }
            format!("l={}", hex_or_dash(&b))
        }
        "PasswordAlgorithm" => format!("a={}", 1 + rng.below(2)),
        "PasswordAlgorithms" => {
            let n = 1 + rng.below(5);
            let l: Vec<String> = (0..n).map(|_| (1 + rng.below(2)).to_string()).collect();
            format!("l={}", l.join("."))
        }
        "XorMappedAddress" => {
            let tid = match rng.below(4) {
                0 => 0u128,
                1 => (1u128 << 96) - 1,
                _ => rng.u128() & ((1u128 << 96) - 1),
            };
            if rng.chance(1, 6) {
                // an IPv6 address whose XORed (stored / wire) form is an IPv4-mapped address
                let wire: u128 = (0xffffu128 << 32) | (rng.below(1 << 32) as u128);
                let key: u128 = (0x2112a442u128 << 96) | tid;
                let port = rng.below(65536);
                format!("fam=6,ip={:032x},port={},tid={:024x}", wire ^ key, port, tid)
            } else {
                format!("{},tid={:024x}", rand_addr_fields(rng), tid)
            }
        }
        "AlternateServer" => rand_addr_fields(rng),
        "Priority" => format!("p={}", match rng.below(4) { 0 => 0, 1 => u32::MAX as u64, _ => rng.below(1 << 32) }),
        "UseCandidate" => "-".to_string(),
        "Fingerprint" => format!("c={}", hex(&rng.bytes(4))),
        "IceControlled" | "IceControlling" => {
            format!("t={}", match rng.below(4) { 0 => 0, 1 => u64::MAX, _ => rng.next() })
        }
        _ => panic!("kind {kind}"),
    }
}
