//! family `xor`: XOR-MAPPED-ADDRESS (C13)
use crate::typed::*;
use crate::util::*;
use std::net::SocketAddr;
use stun_types::attribute::*;
use stun_types::message::*;

fn render(a: SocketAddr) -> String {
    match a {
        SocketAddr::V4(a) => format!("4:{}:{}", hex(&a.ip().octets()), a.port()),
        SocketAddr::V6(a) => format!("6:{}:{}", hex(&a.ip().octets()), a.port()),
    }
}

pub fn exec(kv: &Kv) -> String {
    let addr = parse_addr(kv);
    let tid = u128::from_str_radix(kv.get("tid"), 16).unwrap();
    let tid2 = u128::from_str_radix(kv.get("tid2"), 16).unwrap();
    let x = XorMappedAddress::new(addr, tid.into());
    let raw = x.to_raw();
    let back = x.addr(tid.into());
    let other = x.addr(tid2.into());
    let viawire = match XorMappedAddress::from_raw(&RawAttribute::new(raw.get_type(), &raw.value)) {
        Ok(y) => render(y.addr(tid.into())),
        Err(_) => "err".into(),
    };
    // a real trip through MessageBuilder / Message
    let mut b = Message::builder(MessageType::from_class_method(MessageClass::Success, BINDING), tid.into());
    b.add_attribute(&x).unwrap();
    let bytes = b.build();
    let viamsg = match Message::from_bytes(&bytes) {
        Ok(m) => match m.attribute::<XorMappedAddress>() {
            Ok(y) => render(y.addr(m.transaction_id())),
            Err(_) => "err".into(),
        },
        Err(_) => "noparse".into(),
    };
    // the in-place writer into a dirty buffer must produce the same attribute bytes
    let mut dirty = vec![0xa5u8; x.padded_len() as usize + 4];
    let inplace = match x.write_into(&mut dirty) {
        Ok(n) => hex(&dirty[..n]),
        Err(_) => "err".into(),
    };
    format!(
        "ty={:04x} wire={} back={} other={} viawire={} viamsg={} inplace={}",
        raw.get_type().value(),
        hex(&raw.value),
        render(back),
        render(other),
        viawire,
        viamsg,
        inplace
    )
}

pub fn gen(rng: &mut Rng, count: usize, thorough: bool, out: &mut Vec<String>, part: u64, parts: u64) {
    let mask = (1u128 << 96) - 1;
    let tids = |rng: &mut Rng| -> (u128, u128) {
        let t = match rng.below(5) {
            0 => 0,
            1 => mask,
            2 => 0x2112A442,
            _ => rng.u128() & mask,
        };
        let t2 = match rng.below(4) {
            0 => t ^ 1,
            1 => t ^ (1u128 << 95),
            2 => t,
            _ => rng.u128() & mask,
        };
        (t, t2)
    };
    // all 65536 ports for a few addresses
    let addrs = ["fam=4,ip=00000000", "fam=4,ip=ffffffff", "fam=4,ip=2112a442", "fam=6,ip=00000000000000000000000000000000", "fam=6,ip=2112a442000000000000000000000000"];
    let nports: u64 = if thorough { 65536 } else { 4096 };
    for (ai, a) in addrs.iter().enumerate() {
        for p in 0..nports {
            if (ai as u64 * nports + p) % parts != part {
                continue;
            }
            let port = if thorough { p } else { (p * 16 + (p % 16)) % 65536 };
            let (t, t2) = tids(rng);
            out.push(format!("xor {} port={} tid={:024x} tid2={:024x}", a.replace(',', " "), port, t, t2));
        }
    }
    // boundary patterns: single bits
    if part == 0 {
        for i in 0..128 {
            let ip = (1u128 << i).to_be_bytes();
            out.push(format!("xor fam=6 ip={} port=1 tid={:024x} tid2={:024x}", hex(&ip), (1u128 << (i % 96)), 0));
        }
        for i in 0..32 {
            let ip = (1u32 << i).to_be_bytes();
            out.push(format!("xor fam=4 ip={} port={} tid={:024x} tid2={:024x}", hex(&ip), 1u32 << (i % 16), (1u128 << (i * 3)), mask));
        }
    }
    // special IPv6 forms: IPv4-mapped / IPv4-compatible / 6to4 / loopback / multicast, and addresses
    // whose XORed wire form takes one of those forms (ip = special xor (cookie || tid))
    let specials: [u128; 8] = [
        0x0000_0000_0000_0000_0000_ffff_c000_0201,
        0x0000_0000_0000_0000_0000_ffff_0000_0000,
        0x0000_0000_0000_0000_0000_ffff_ffff_ffff,
        0x0000_0000_0000_0000_0000_0000_c000_0201,
        0x0064_ff9b_0000_0000_0000_0000_c000_0201,
        0x2002_c000_0201_0000_0000_0000_0000_0001,
        0x0000_0000_0000_0000_0000_0000_0000_0001,
        0xff02_0000_0000_0000_0000_0000_0000_0001,
    ];
    for i in 0..(if thorough { 4096 } else { 256 }) {
        if (i as u64) % parts != part {
            continue;
        }
        let (t, t2) = tids(rng);
        let sp = specials[i % specials.len()] ^ if i >= 64 { (rng.u128() & 0xffff_ffff) } else { 0 };
        let key = (0x2112_A442u128 << 96) | t;
        let ip = if i % 2 == 0 { sp } else { sp ^ key };
        let port = if i % 3 == 0 { 0x2112 } else { rng.below(65536) as u32 };
        out.push(format!("xor fam=6 ip={} port={} tid={:024x} tid2={:024x}", hex(&ip.to_be_bytes()), port, t, t2));
    }
    for _ in 0..count {
        let f = rand_addr_fields(rng).replace(',', " ");
        let (t, t2) = tids(rng);
        out.push(format!("xor {} tid={:024x} tid2={:024x}", f, t, t2));
    }
}
