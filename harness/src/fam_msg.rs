//! family `msg`: whole-message decoding and the read-only operations on accepted messages
//! (C01, C02, C04, C09, C10, C16, C17)
use crate::fam_mtype::{cls_index, parse_err};
use crate::typed::*;
use crate::util::*;
use stun_types::attribute::*;
use stun_types::message::*;

pub const MI: u16 = 0x0008;
pub const MI256: u16 = 0x001c;
pub const FP: u16 = 0x8028;

// ---------------------------------------------------------------- independent helpers (generator side)

/// bitwise CRC-32/ISO-HDLC, independent of the `crc` crate
pub fn crc32(data: &[u8]) -> u32 {
    let mut c: u32 = 0xffff_ffff;
    for b in data {
        c ^= *b as u32;
        for _ in 0..8 {
            c = if c & 1 == 1 { (c >> 1) ^ 0xEDB8_8320 } else { c >> 1 };
        }
    }
    !c
}

pub fn tlv(ty: u16, value: &[u8], pad: u8) -> Vec<u8> {
    let mut v = vec![];
    v.extend_from_slice(&ty.to_be_bytes());
    v.extend_from_slice(&(value.len() as u16).to_be_bytes());
    v.extend_from_slice(value);
    while v.len() % 4 != 0 {
        v.push(pad);
    }
    v
}

pub fn header(ty: u16, len: usize, tid: u128) -> Vec<u8> {
    let mut v = vec![];
    v.extend_from_slice(&ty.to_be_bytes());
    v.extend_from_slice(&(len as u16).to_be_bytes());
    v.extend_from_slice(&0x2112A442u32.to_be_bytes());
    v.extend_from_slice(&tid.to_be_bytes()[4..]);
    v
}

/// append a FINGERPRINT attribute computed over `msg` (length field covering it)
pub fn push_fp(msg: &mut Vec<u8>, correct: bool) {
    let newlen = msg.len() - 20 + 8;
    msg[2] = (newlen >> 8) as u8;
    msg[3] = newlen as u8;
    let good = crc32(msg) ^ 0x5354554e;
    let mut c = good;
    if !correct {
        // wrong in a *plausible* way (what a sloppy peer might send and a lenient parser might let through):
        // one flipped bit; the CRC taken with the length field not yet covering the FINGERPRINT attribute, or
        // covering only its header; the XOR constant forgotten; the value in little-endian order
        let with_len = |l: usize| {
            let mut m = msg.clone();
            m[2] = (l >> 8) as u8;
            m[3] = l as u8;
            crc32(&m)
        };
        c = match (good >> 5) % 6 {
            0 => good ^ 0x0100_0000,
            1 => with_len(newlen - 8) ^ 0x5354554e,
            2 => with_len(newlen - 4) ^ 0x5354554e,
            3 => good ^ 0x5354554e,
            4 => good.swap_bytes(),
            _ => with_len(newlen + 4) ^ 0x5354554e,
        };
        if c == good {
            c ^= 1;
        }
    }
    msg.extend(tlv(FP, &c.to_be_bytes(), 0));
}

/// offsets of the attribute headers of a well-formed message
pub fn attr_offsets(msg: &[u8]) -> Vec<usize> {
    let mut v = vec![];
    let mut o = 20;
    while o + 4 <= msg.len() {
        v.push(o);
        let l = u16::from_be_bytes([msg[o + 2], msg[o + 3]]) as usize;
        o += 4 + (l + 3) / 4 * 4;
    }
    v
}

pub fn set_len(msg: &mut [u8]) {
    let l = msg.len() - 20;
    msg[2] = (l >> 8) as u8;
    msg[3] = l as u8;
}

pub fn parse_creds(s: &str) -> MessageIntegrityCredentials {
    let parts: Vec<&str> = s.split(':').collect();
    let txt = |h: &str| String::from_utf8(unhex(h).unwrap()).unwrap();
    match parts[0] {
        "s" => ShortTermCredentials::new(txt(parts[1])).into(),
        _ => LongTermCredentials::new(txt(parts[1]), txt(parts[3]), txt(parts[2])).into(),
    }
}

pub fn rand_creds(rng: &mut Rng) -> String {
    let t = |rng: &mut Rng| -> String {
        let n = match rng.below(6) {
            0 => 0,
            1 => 300,
            _ => rng.below(12) as usize,
        };
        let mut s = rand_utf8(rng, n);
        if rng.chance(1, 5) {
            s.push(':');
        }
        hex_or_dash(s.as_bytes())
    };
    if rng.chance(1, 2) {
        format!("s:{}", t(rng))
    } else {
        // l:<username>:<realm>:<password>
        format!("l:{}:{}:{}", t(rng), t(rng), t(rng))
    }
}

/// two different credentials whose key *material* reads the same: long-term (u, r, p) and the short-term password "u:r:p"
pub fn confusable_creds(rng: &mut Rng) -> (String, String) {
    let f = |rng: &mut Rng| -> String {
        let n = 1 + rng.below(8) as usize;
        let s = rand_utf8(rng, n);
        if s.is_empty() { "x".to_string() } else { s }
    };
    let (u, r, p) = (f(rng), f(rng), f(rng));
    let long = format!("l:{}:{}:{}", hex(u.as_bytes()), hex(r.as_bytes()), hex(p.as_bytes()));
    let short = format!("s:{}", hex(format!("{}:{}:{}", u, r, p).as_bytes()));
    (long, short)
}

// ---------------------------------------------------------------- execution

fn render_attrs<'a>(it: impl Iterator<Item = RawAttribute<'a>>) -> String {
    let v: Vec<String> = it.map(|a| format!("{:04x}:{}", a.get_type().value(), hex_or_dash(&a.value))).collect();
    if v.is_empty() {
        "-".into()
    } else {
        v.join("|")
    }
}

fn parse_obs(b: &[u8]) -> String {
    match Message::from_bytes(b) {
        Err(e) => parse_err(&e),
        Ok(m) => {
            let t = m.get_type();
            let tid: u128 = m.transaction_id().into();
            let mut attrs: Vec<RawAttribute> = m.iter_attributes().collect();
            // every way of driving the iterator must expose the same sequence: positional access (`nth`,
            // `skip`), `last` and `count` are iteration too (an overridden adaptor method is a separate code
            // path).  If one of them shows something else, that is what gets reported.
            {
                let mut via_nth: Vec<RawAttribute> = vec![];
                for k in 0..=attrs.len() + 1 {
                    match m.iter_attributes().nth(k) {
                        Some(a) => via_nth.push(a),
                        None => break,
                    }
                }
                let mut via_skip: Vec<RawAttribute> = vec![];
                for k in 0..=attrs.len() + 1 {
                    match m.iter_attributes().skip(k).next() {
                        Some(a) => via_skip.push(a),
                        None => break,
                    }
                }
                let same = |x: &Vec<RawAttribute>, y: &Vec<RawAttribute>| {
                    x.len() == y.len() && x.iter().zip(y.iter()).all(|(a, b)| a.get_type() == b.get_type() && *a.value == *b.value)
                };
                let mut stepped: Vec<RawAttribute> = vec![];
                {
                    // next() interleaved with nth(0) and a by_ref().take(1)
                    let mut it = m.iter_attributes();
                    let mut i = 0;
                    loop {
                        let a = match i % 3 { 0 => it.next(), 1 => it.nth(0), _ => it.by_ref().take(1).next() };
                        i += 1;
                        match a { Some(a) => stepped.push(a), None => break }
                    }
                }
                if !same(&via_nth, &attrs) {
                    attrs = via_nth;
                } else if !same(&via_skip, &attrs) {
                    attrs = via_skip;
                } else if !same(&stepped, &attrs) {
                    attrs = stepped;
                } else if m.iter_attributes().count() != attrs.len() {
                    attrs.truncate(m.iter_attributes().count().min(attrs.len().saturating_sub(1)));
                } else if let Some(l) = m.iter_attributes().last() {
                    let ok = attrs.last().map(|a| a.get_type() == l.get_type() && *a.value == *l.value).unwrap_or(false);
                    if !ok {
                        attrs.push(l);
                    }
                }
            }
            // lookups: every exposed type in order of first appearance, the three ending types and two absent ones
            let mut types: Vec<u16> = vec![];
            for a in &attrs {
                if !types.contains(&a.get_type().value()) {
                    types.push(a.get_type().value());
                }
            }
            for t in [MI, MI256, FP, 0x0006, 0x7777] {
                if !types.contains(&t) {
                    types.push(t);
                }
            }
            let look: Vec<String> = types
                .iter()
                .map(|t| {
                    let r = m.raw_attribute(AttributeType::new(*t));
                    let h = m.has_attribute(AttributeType::new(*t));
                    match r {
                        Some(a) => format!("{:04x}:{}:{}", t, hex_or_dash(&a.value), h as u8),
                        None => format!("{:04x}:none:{}", t, h as u8),
                    }
                })
                .collect();
            let via_try = Message::try_from(b).is_ok() as u8;
            format!(
                "ok cls={} meth={} tid={:024x} q={}{}{}{} attrs={} look={}",
                cls_index(m.class()),
                m.method(),
                tid,
                m.has_class(t.class()) as u8,
                m.has_method(t.method()) as u8,
                (m.is_response() == t.is_response()) as u8,
                via_try,
                render_attrs(attrs.into_iter()),
                look.join("|")
            )
        }
    }
}

fn typed_obs(b: &[u8]) -> String {
    match Message::from_bytes(b) {
        Err(_) => "noparse".into(),
        Ok(m) => {
            macro_rules! one {
                ($T:ty, $V:ident) => {
                    match m.attribute::<$T>() {
                        Ok(v) => format!("ok:{}", TV::$V(v).fields()),
                        Err(StunParseError::MissingAttribute(_)) => "missing".to_string(),
                        Err(e) => parse_err(&e).replace(' ', "_"),
                    }
                };
            }
            let v = vec![
                one!(Username, Username),
                one!(MessageIntegrity, MessageIntegrity),
                one!(ErrorCode, ErrorCode),
                one!(UnknownAttributes, UnknownAttributes),
                one!(Realm, Realm),
                one!(Nonce, Nonce),
                one!(MessageIntegritySha256, MessageIntegritySha256),
                one!(PasswordAlgorithm, PasswordAlgorithm),
                one!(Userhash, Userhash),
                one!(XorMappedAddress, XorMappedAddress),
                one!(Priority, Priority),
                one!(UseCandidate, UseCandidate),
                one!(PasswordAlgorithms, PasswordAlgorithms),
                one!(AlternateDomain, AlternateDomain),
                one!(Software, Software),
                one!(AlternateServer, AlternateServer),
                one!(Fingerprint, Fingerprint),
                one!(IceControlled, IceControlled),
                one!(IceControlling, IceControlling),
            ];
            v.join("|")
        }
    }
}

fn types_list(s: &str) -> Vec<AttributeType> {
    split_list(s, '.')
        .iter()
        .filter(|x| **x != "-")
        .map(|x| AttributeType::new(u16::from_str_radix(x, 16).unwrap()))
        .collect()
}

fn exec_inner(kv: &Kv) -> String {
    let b = unhex(kv.get("b")).expect("hex");
    match kv.get("op") {
        "parse" => parse_obs(&b),
        // accept / reject with the cause only
        "acc" => match Message::from_bytes(&b) {
            Ok(_) => "ok".into(),
            Err(e) => parse_err(&e),
        },
        "typed" => typed_obs(&b),
        "hdr" => match MessageHeader::from_bytes(&b) {
            Ok(h) => {
                let tid: u128 = h.transaction_id().into();
                let t = h.get_type();
                let mut w = [0u8; 2];
                t.write_into(&mut w);
                format!("ok ty={} len={} tid={:024x}", hex(&w), h.data_length(), tid)
            }
            Err(e) => parse_err(&e),
        },
        "mt" => match MessageType::from_bytes(&b) {
            Ok(t) => format!("ok v={}", hex(&t.to_bytes())),
            Err(e) => parse_err(&e),
        },
        "validate" => match Message::from_bytes(&b) {
            Err(e) => format!("noparse {}", parse_err(&e)),
            Ok(m) => match m.validate_integrity(&parse_creds(kv.get("cred"))) {
                Ok(IntegrityAlgorithm::Sha1) => "ok sha1".into(),
                Ok(IntegrityAlgorithm::Sha256) => "ok sha256".into(),
                Err(e) => parse_err(&e),
            },
        },
        "police" => match Message::from_bytes(&b) {
            Err(_) => "noparse".into(),
            Ok(m) => {
                let sup = types_list(kv.get("sup"));
                let req = types_list(kv.get("req"));
                match Message::check_attribute_types(&m, &sup, &req) {
                    None => "none".into(),
                    Some(bld) => {
                        let built = bld.build();
                        format!("some {} {}", bld.byte_len(), hex(&built))
                    }
                }
            }
        },
        "display" => match Message::from_bytes(&b) {
            Err(e) => {
                // error values are formatted too
                let _ = format!("{} {:?}", e, e);
                "noparse".into()
            }
            Ok(m) => {
                let s1 = format!("{}", m);
                let s2 = format!("{:?}", m);
                let mut n = 0usize;
                for a in m.iter_attributes() {
                    n += format!("{} {:?}", a, a).len();
                }
                let _ = format!("{} {} {:?}", m.get_type(), m.transaction_id(), m.class());
                if s1.is_empty() || s2.is_empty() {
                    "empty".into()
                } else {
                    let _ = n;
                    "ok".into()
                }
            }
        },
        o => panic!("bad op {o}"),
    }
}

struct Sink;
impl std::io::Write for Sink {
    fn write(&mut self, buf: &[u8]) -> std::io::Result<usize> {
        Ok(buf.len())
    }
    fn flush(&mut self) -> std::io::Result<()> {
        Ok(())
    }
}

pub fn exec(kv: &Kv) -> String {
    if kv.get("trace") == "1" {
        // under a TRACE-level subscriber: drives the ret/err/fields formatting of #[instrument]
        let sub = tracing_subscriber::fmt().with_max_level(tracing::Level::TRACE).with_writer(|| Sink).finish();
        tracing::subscriber::with_default(sub, || exec_inner(kv))
    } else {
        exec_inner(kv)
    }
}

// ---------------------------------------------------------------- generators

/// one ordinary (non-ending) attribute as (type, value)
pub fn ordinary(rng: &mut Rng) -> (u16, Vec<u8>) {
    match rng.below(10) {
        0..=4 => {
            // a valid typed value of a random non-ending kind, encoded by the library
            loop {
                let k = *rng.pick(&KINDS);
                if k == "MessageIntegrity" || k == "MessageIntegritySha256" || k == "Fingerprint" {
                    continue;
                }
                let f = rand_fields(rng, k);
                let f = if f.len() > 400 { rand_fields(rng, "Priority") } else { f };
                let k = if f.starts_with("p=") { "Priority" } else { k };
                if let Ok(tv) = TV::construct(k, &f) {
                    let raw = tv.as_write().to_raw();
                    return (raw.get_type().value(), raw.value.to_vec());
                }
            }
        }
        // unknown, comprehension required; one time in three a type at the edge of the comprehension-required
        // range (0x0000..=0x7fff) or of the optional range
        5 => (if rng.chance(1, 3) { *rng.pick(&[0x7fffu16, 0x7ffe, 0x8000, 0x8001, 0x0000, 0x0001, 0x4000, 0x3fff, 0xffff]) } else { 0x7f00 + rng.below(4) as u16 },
              { let n = rng.below(9) as usize; rng.bytes(n) }),
        6 => (0xff00 + rng.below(4) as u16, { let n = rng.below(9) as usize; rng.bytes(n) }), // unknown, optional
        7 => (0x0006, { let n = rng.below(7) as usize; rng.bytes(n) }),                         // known type, arbitrary bytes
        8 => (rng.next() as u16 | 1, { let n = rng.below(40) as usize; rng.bytes(n) }),
        _ => (0x8022, b"abc"[..rng.below(4) as usize].to_vec()),
    }
}

pub fn rand_type(rng: &mut Rng) -> u16 {
    let c = rng.below(4);
    let m = match rng.below(4) {
        0 => 1,
        1 => 0xfff,
        _ => rng.below(4096),
    };
    let cb = [0x000u64, 0x010, 0x100, 0x110][c as usize];
    (cb | (m & 0xf) | ((m & 0x70) << 1) | ((m & 0xf80) << 2)) as u16
}

pub fn rand_tid(rng: &mut Rng) -> u128 {
    match rng.below(6) {
        0 => 0,
        1 => (1u128 << 96) - 1,
        _ => rng.u128() & ((1u128 << 96) - 1),
    }
}

/// tail element letters: i = MI, j = MI-SHA256, f = FP correct, g = FP wrong, o = ordinary
pub fn assemble(rng: &mut Rng, ty: u16, tid: u128, n_ord: usize, tail: &str) -> Vec<u8> {
    let mut msg = header(ty, 0, tid);
    let mut used: Vec<u16> = vec![];
    for _ in 0..n_ord {
        let (t, v) = ordinary(rng);
        let pad = if rng.chance(1, 4) { 0xee } else { 0 };
        msg.extend(tlv(t, &v, pad));
        used.push(t);
    }
    for ch in tail.chars() {
        match ch {
            'i' => {
                let mut v = rng.bytes(20);
                if rng.chance(1, 3) {
                    // the last 8 value bytes look like a FINGERPRINT attribute (type, length 4, value)
                    v[12..16].copy_from_slice(&[0x80, 0x28, 0x00, 0x04]);
                }
                msg.extend(tlv(MI, &v, 0))
            }
            'j' => {
                let n = *rng.pick(&[16usize, 20, 24, 28, 32]);
                msg.extend(tlv(MI256, &rng.bytes(n), 0))
            }
            'f' => push_fp(&mut msg, true),
            'g' => push_fp(&mut msg, false),
            _ => {
                let (t, v) = ordinary(rng);
                msg.extend(tlv(t, &v, 0));
            }
        }
        set_len(&mut msg);
    }
    set_len(&mut msg);
    msg
}

pub fn assemble_rand(rng: &mut Rng, n_ord: usize, tail: &str) -> Vec<u8> {
    let ty = rand_type(rng);
    let tid = rand_tid(rng);
    assemble(rng, ty, tid, n_ord, tail)
}

pub fn all_tails(max: usize, alphabet: &[char]) -> Vec<String> {
    let mut out = vec![String::new()];
    let mut frontier = vec![String::new()];
    for _ in 0..max {
        let mut next = vec![];
        for t in &frontier {
            for c in alphabet {
                let mut s = t.clone();
                s.push(*c);
                next.push(s);
            }
        }
        out.extend(next.iter().cloned());
        frontier = next;
    }
    out
}

/// a sealed message made by the real builder (inputs only; the judge is the model)
pub fn sealed(rng: &mut Rng, cred: &str, seal: &str, fp: bool) -> Vec<u8> {
    let ty = rand_type(rng);
    let mt = MessageType::from_bytes(&ty.to_be_bytes()).unwrap();
    let mut b = Message::builder(mt, rand_tid(rng).into());
    let n = rng.below(4);
    let mut used = vec![];
    for _ in 0..n {
        let (t, v) = ordinary(rng);
        if used.contains(&t) || t == MI || t == MI256 || t == FP {
            continue;
        }
        used.push(t);
        b.add_raw_attribute(RawAttribute::new(t.into(), &v).into_owned()).unwrap();
    }
    let creds = parse_creds(cred);
    for ch in seal.chars() {
        match ch {
            '1' => b.add_message_integrity(&creds, IntegrityAlgorithm::Sha1).unwrap(),
            '2' => b.add_message_integrity(&creds, IntegrityAlgorithm::Sha256).unwrap(),
            _ => {}
        }
    }
    if fp {
        b.add_fingerprint().unwrap();
    }
    b.build()
}

pub struct Ctx<'a> {
    pub rng: &'a mut Rng,
    pub count: usize,
    pub thorough: bool,
    pub part: u64,
    pub parts: u64,
    pub idx: u64,
}

impl<'a> Ctx<'a> {
    /// exhaustive enumerations are dealt round-robin to the workers
    pub fn mine(&mut self) -> bool {
        self.idx += 1;
        (self.idx - 1) % self.parts == self.part
    }
    pub fn trace(&mut self) -> &'static str {
        if self.rng.chance(1, 6) {
            " trace=1"
        } else {
            ""
        }
    }
}

/// msg.tails (C10, C02): every tail up to length 4 (thorough: 5) over {MI, MI256, FP ok, FP bad, ordinary}
/// after 0..2 (thorough: 0..3) ordinary attributes; parse + lookups, typed extraction, display, validate
pub fn gen_tails(c: &mut Ctx, out: &mut Vec<String>) {
    let tails = all_tails(if c.thorough { 5 } else { 4 }, &['i', 'j', 'f', 'g', 'o']);
    for tail in &tails {
        for n_ord in 0..(if c.thorough { 4usize } else { 3usize }) {
            if !c.mine() {
                continue;
            }
            let msg = assemble_rand(c.rng, n_ord, tail);
            out.push(format!("msg op=parse b={}{}", hex(&msg), c.trace()));
            if c.rng.chance(1, 2) {
                out.push(format!("msg op=typed b={}", hex(&msg)));
            }
            // the same head with a different accepted tail: exposed prefix must not change (C10)
            if c.rng.chance(1, 3) {
                out.push(format!("msg op=validate b={} cred={}{}", hex(&msg), rand_creds(c.rng), c.trace()));
            }
        }
    }
}

/// msg.parse (C02): grammar messages with declared-length deltas, excess bytes, cuts, header and
/// byte mutations; header decoder on the 20-byte prefixes
pub fn gen_parse(c: &mut Ctx, out: &mut Vec<String>) {
    let tails = all_tails(3, &['i', 'j', 'f', 'g', 'o']);
    if c.part % 4 == 0 {
        // buffers whose excess over the advertised length is a multiple of 2^16 (a length comparison done in 16 bits
        // would not see it), with the excess tiling as attributes or not; and advertised lengths just below / far below
        // an over-long body
        for k in 1..=2usize {
            let n_ord = c.rng.below(3) as usize;
            let mut m = assemble_rand(c.rng, n_ord, "");
            for _ in 0..k {
                let v = c.rng.bytes(65532);
                m.extend(tlv(0x8fff, &v, 0));
            }
            out.push(format!("msg op=parse b={}", hex(&m)));
            let mut m = assemble_rand(c.rng, n_ord, "f");
            let e = c.rng.bytes(65536 * k);
            m.extend(e);
            out.push(format!("msg op=parse b={}", hex(&m)));
        }
        let mut m = header(0x0001, 65535, 9);
        m.extend(c.rng.bytes(65536));
        out.push(format!("msg op=parse b={}", hex(&m)));
        let mut m = header(0x0001, 12, 9);
        m.extend(tlv(0x8022, b"software", 0));
        m.extend(tlv(0x8fff, &c.rng.bytes(65524), 0));
        out.push(format!("msg op=parse b={}", hex(&m)));
        let mut m = header(0x0001, 0, 9);
        m.extend(tlv(0x8fff, &c.rng.bytes(65532), 0));
        out.push(format!("msg op=parse b={}", hex(&m)));
    }
    for _ in 0..c.count {
        let tail = c.rng.pick(&tails).clone();
        let tail = if c.rng.chance(3, 4) { tail.replace('g', "f") } else { tail };
        let tail = if c.rng.chance(1, 2) { tail.replace('o', "") } else { tail };
        let n_ord = c.rng.below(5) as usize;
        let msg = assemble_rand(c.rng, n_ord, &tail);
        out.push(format!("msg op=parse b={}{}", hex(&msg), c.trace()));
        out.push(format!("msg op=hdr b={}", hex(&msg[..20])));
        if c.rng.chance(1, 4) && msg.len() > 20 {
            // declared length zero (or a few bytes) in front of a full body
            let mut m = msg.clone();
            m[2] = 0;
            m[3] = *c.rng.pick(&[0u8, 0, 4, 8]);
            out.push(format!("msg op=parse b={}", hex(&m)));
        }
        for d in [-8i64, -4, -1, 1, 4, 8] {
            if c.rng.chance(1, 3) {
                let mut m = msg.clone();
                let l = (m.len() as i64 - 20 + d).max(0) as usize;
                m[2] = (l >> 8) as u8;
                m[3] = l as u8;
                out.push(format!("msg op=parse b={}", hex(&m)));
            }
        }
        if c.rng.chance(1, 2) {
            let mut m = msg.clone();
            let extra = *c.rng.pick(&[1usize, 2, 3, 4, 8, 12]);
            if c.rng.chance(1, 2) {
                m.extend(tlv(0x8022, b"xy", 0).iter().take(extra.max(8)));
            } else {
                let e = c.rng.bytes(extra);
                m.extend(e);
            }
            out.push(format!("msg op=parse b={}", hex(&m)));
        }
        for _ in 0..2 {
            let k = c.rng.below(msg.len() as u64) as usize;
            out.push(format!("msg op=parse b={}", hex_or_dash(&msg[..k])));
        }
        // two attributes of one type, the first one malformed for its typed decoder, the second valid:
        // lookups return the FIRST match (typed extraction must report the decoding error, not skip it)
        if c.rng.chance(1, 3) {
            let (ty, bad, good): (u16, Vec<u8>, Vec<u8>) = match c.rng.below(4) {
                0 => (0x8022, vec![0xff, 0xfe, 0x80], b"ok".to_vec()),
                1 => (0x0024, vec![1, 2, 3], vec![0, 0, 0, 7]),
                2 => (0x0020, vec![0, 9, 1, 2, 3, 4, 5, 6], vec![0, 1, 0x21, 0x12, 1, 2, 3, 4]),
                _ => (0x0006, vec![0xc0], b"user".to_vec()),
            };
            let mut m = header(rand_type(c.rng), 0, rand_tid(c.rng));
            if c.rng.chance(1, 2) {
                let (t, v) = ordinary(c.rng);
                if t != ty {
                    m.extend(tlv(t, &v, 0));
                }
            }
            m.extend(tlv(ty, &bad, 0));
            m.extend(tlv(ty, &good, 0));
            set_len(&mut m);
            out.push(format!("msg op=parse b={}", hex(&m)));
            out.push(format!("msg op=typed b={}", hex(&m)));
        }
        // messages at the 16-bit boundary of the length field (declared length 0xffe4..=0xfffc), whole,
        // shortened and with one byte too many
        if c.rng.chance(1, 40) {
            let body = *c.rng.pick(&[0xffe4usize, 0xffe8, 0xffec, 0xfff0, 0xfff8, 0xfffc]);
            let mut m = header(rand_type(c.rng), 0, rand_tid(c.rng));
            let small = tlv(0x8022, b"edge", 0);
            m.extend(&small);
            let big = body - small.len() - 4;
            m.extend(tlv(0xff42, &vec![0x61u8; big], 0));
            set_len(&mut m);
            out.push(format!("msg op=parse b={}", hex(&m)));
            let k = 1 + c.rng.below(9) as usize;
            out.push(format!("msg op=parse b={}", hex(&m[..m.len() - k])));
            out.push(format!("msg op=parse b={}", hex(&m[..20 + c.rng.below(40) as usize])));
            let mut e = m.clone();
            e.push(0);
            out.push(format!("msg op=parse b={}", hex(&e)));
        }
        // malformed bodies under a header whose declared length MATCHES the buffer (so the length
        // check passes and the attribute walk itself has to notice):
        // (a) the last 1..7 bytes chopped off (missing padding, partly cut last attribute)
        if msg.len() > 20 {
            let k = 1 + c.rng.below(7.min(msg.len() as u64 - 20)) as usize;
            let mut m = msg[..msg.len() - k].to_vec();
            set_len(&mut m);
            out.push(format!("msg op=parse b={}{}", hex(&m), c.trace()));
        }
        // (b) a final attribute whose value is not a multiple of 4 and whose padding is absent or short
        {
            let mut m = msg.clone();
            let vl = *c.rng.pick(&[1usize, 2, 3, 5, 6, 7, 9]);
            let have_pad = c.rng.below(((4 - vl % 4) % 4) as u64) as usize;
            let ty = if c.rng.chance(1, 2) { 0x8022u16 } else { 0x0006 };
            m.extend_from_slice(&ty.to_be_bytes());
            m.extend_from_slice(&(vl as u16).to_be_bytes());
            m.extend(std::iter::repeat(b'x').take(vl + have_pad));
            set_len(&mut m);
            out.push(format!("msg op=parse b={}{}", hex(&m), c.trace()));
        }
        // (c) one attribute's own length field moved by -4..+4 (header still matching the buffer)
        {
            let offs = attr_offsets(&msg);
            if !offs.is_empty() {
                let o = *c.rng.pick(&offs);
                let cur = u16::from_be_bytes([msg[o + 2], msg[o + 3]]) as i64;
                let d = *c.rng.pick(&[-4i64, -3, -2, -1, 1, 2, 3, 4]);
                let nl = (cur + d).max(0) as u16;
                let mut m = msg.clone();
                m[o + 2..o + 4].copy_from_slice(&nl.to_be_bytes());
                out.push(format!("msg op=parse b={}{}", hex(&m), c.trace()));
            }
        }
        for _ in 0..3 {
            let mut m = msg.clone();
            let bit = c.rng.below(64) as usize;
            m[bit / 8] ^= 1 << (bit % 8);
            out.push(format!("msg op=parse b={}", hex(&m)));
            out.push(format!("msg op=hdr b={}", hex(&m[..20])));
        }
        for _ in 0..4 {
            let mut m = msg.clone();
            let i = c.rng.below(m.len() as u64) as usize;
            m[i] = match c.rng.below(3) {
                0 => m[i] ^ (1 << c.rng.below(8)),
                1 => c.rng.next() as u8,
                _ => 0,
            };
            out.push(format!("msg op=parse b={}{}", hex(&m), c.trace()));
        }
    }
}

/// msg.cut (C17): every cut point of well-formed messages; header decoder on prefixes
pub fn gen_cut(c: &mut Ctx, out: &mut Vec<String>) {
    for _ in 0..c.count {
        let tail = *c.rng.pick(&["", "", "i", "f", "if", "ij", "ijf", "jf", "j", "jif"]);
        let n_ord = c.rng.below(4) as usize;
        let msg = assemble_rand(c.rng, n_ord, tail);
        if msg.len() > 300 && !c.thorough {
            continue;
        }
        out.push(format!("msg op=acc b={}", hex(&msg)));
        for k in 0..msg.len() {
            out.push(format!("msg op=acc b={}", hex_or_dash(&msg[..k])));
            if k <= 24 {
                out.push(format!("msg op=hdr b={}", hex_or_dash(&msg[..k])));
            }
        }
        out.push(format!("msg op=hdr b={}", hex(&msg)));
        // a mutated header: the stand-alone decoder and the full parser must agree on "not STUN"
        let mut m = msg.clone();
        let bit = c.rng.below(64) as usize;
        m[bit / 8] ^= 1 << (bit % 8);
        out.push(format!("msg op=hdr b={}", hex(&m[..20])));
        let mut p20 = m[..20].to_vec();
        p20[2] = 0;
        p20[3] = 0;
        out.push(format!("msg op=acc b={}", hex(&p20)));
        out.push(format!("msg op=hdr b={}", hex(&p20)));
    }
    if c.part == 0 {
        // a 65 552-byte message cut at many points
        let n = if c.thorough { 2000 } else { 40 };
        let mut m = header(0x0001, 0, 77);
        m.extend(tlv(0xff00, &vec![7u8; 65528], 0));
        set_len(&mut m);
        out.push(format!("msg op=acc b={}", hex(&m)));
        for _ in 0..n {
            let k = c.rng.below(m.len() as u64) as usize;
            out.push(format!("msg op=acc b={}", hex_or_dash(&m[..k])));
        }
    }
}

/// msg.validate (C04): sealed by the real builder (inputs only), validated under the same and
/// other credentials, with bit flips and byte substitutions
pub fn gen_validate(c: &mut Ctx, out: &mut Vec<String>) {
    for _ in 0..c.count {
        let cred = rand_creds(c.rng);
        let seal = *c.rng.pick(&["1", "2", "12", "", "1", "2", "12"]);
        let fp = c.rng.chance(1, 2);
        let msg = sealed(c.rng, &cred, seal, fp);
        out.push(format!("msg op=validate b={} cred={}{}", hex(&msg), cred, c.trace()));
        let other = rand_creds(c.rng);
        out.push(format!("msg op=validate b={} cred={}", hex(&msg), other));
        // alternative keys close to the real one
        if let Some(h) = cred.strip_prefix("s:") {
            let mut k = unhex(h).unwrap();
            k.push(b'x');
            out.push(format!("msg op=validate b={} cred=s:{}", hex(&msg), hex(&k)));
        }
        let nmut = if c.thorough { msg.len() * 8 } else { 24 };
        for j in 0..nmut {
            let mut m = msg.clone();
            if c.thorough {
                m[j / 8] ^= 1 << (j % 8);
            } else {
                let i = c.rng.below(m.len() as u64) as usize;
                if c.rng.chance(1, 2) {
                    m[i] ^= 1 << c.rng.below(8);
                } else {
                    m[i] = c.rng.next() as u8;
                }
            }
            out.push(format!("msg op=validate b={} cred={}", hex(&m), cred));
        }
    }
    // hand-assembled truncated SHA-256 values (16..32 in steps of 4) and invalid lengths
    for _ in 0..(c.count / 2).max(4) {
        let cred = rand_creds(c.rng);
        let key_creds = parse_creds(&cred);
        // recover the key through the public API: seal an empty message and compare? not needed:
        // compute the MAC with the library's own compute() on the bytes we assemble, using the
        // short-term password directly (long-term keys are covered by the builder-sealed cases)
        let _ = key_creds;
        let Some(pw) = cred.strip_prefix("s:") else { continue };
        let key = unhex(pw).unwrap();
        let n_ord = c.rng.below(3) as usize;
        let mut msg = assemble_rand(c.rng, n_ord, "");
        let n = *c.rng.pick(&[16usize, 20, 24, 28, 32, 12, 18, 36]);
        let newlen = msg.len() - 20 + 4 + (n + 3) / 4 * 4;
        msg[2] = (newlen >> 8) as u8;
        msg[3] = newlen as u8;
        let mac = MessageIntegritySha256::compute(&msg, &key).unwrap();
        let mut v = mac.to_vec();
        v.resize(n.max(32), 0xab);
        msg.extend(tlv(MI256, &v[..n], 0));
        out.push(format!("msg op=validate b={} cred={}", hex(&msg), cred));
        let mut m2 = msg.clone();
        let last = m2.len() - 1;
        m2[last] ^= 1;
        out.push(format!("msg op=validate b={} cred={}", hex(&m2), cred));
        // orders the builder cannot produce, with EVERY integrity attribute correct for the key:
        // [.., MI-SHA256, MI] (the MI is hidden, SHA-256 decides) with and without a fingerprint
        if [16usize, 20, 24, 28, 32].contains(&n) {
            let mut m3 = msg.clone();
            let newlen = m3.len() - 20 + 24;
            m3[2] = (newlen >> 8) as u8;
            m3[3] = newlen as u8;
            let mac1 = MessageIntegrity::compute(&m3, &key).unwrap();
            m3.extend(tlv(MI, &mac1, 0));
            out.push(format!("msg op=validate b={} cred={}", hex(&m3), cred));
            out.push(format!("msg op=parse b={}", hex(&m3)));
            let mut m4 = m3.clone();
            push_fp(&mut m4, true);
            out.push(format!("msg op=validate b={} cred={}", hex(&m4), cred));
            // the same with the SHA-1 value corrupted: SHA-256 still decides
            let mut m5 = m3.clone();
            let l5 = m5.len() - 2;
            m5[l5] ^= 0x10;
            out.push(format!("msg op=validate b={} cred={}", hex(&m5), cred));
        }
    }
}

/// msg.police (C16): request messages x supported/required subsets of present and absent types
pub fn gen_police(c: &mut Ctx, out: &mut Vec<String>) {
    // requests with hundreds of unsupported comprehension-required attributes: the 420 response lists every one of them
    for n in [240usize, 241, 300, 700] {
        let mut m = header(0x0001, 0, rand_tid(c.rng));
        for k in 0..n {
            let l = c.rng.below(3) as usize;
            m.extend(tlv(0x1000 + k as u16, &c.rng.bytes(l), 0));
        }
        let l = m.len() - 20;
        m[2] = (l >> 8) as u8;
        m[3] = l as u8;
        out.push(format!("msg op=police b={} sup=- req=-", hex(&m)));
        out.push(format!("msg op=police b={} sup=1000.1001 req=0006", hex(&m)));
    }
    for _ in 0..c.count {
        let tail = c.rng.pick(&["", "", "i", "f", "if", "ij", "ijf", "jf", "j", "ji", "jif"]).to_string();
        // class bits cleared: a request
        let ty = rand_type(c.rng) & !0x0110;
        let tid = rand_tid(c.rng);
        let n_ord = c.rng.below(6) as usize;
        let msg = assemble(c.rng, ty, tid, n_ord, &tail);
        let mut present = vec![];
        let mut i = 20;
        while i + 4 <= msg.len() {
            let t = u16::from_be_bytes([msg[i], msg[i + 1]]);
            let l = u16::from_be_bytes([msg[i + 2], msg[i + 3]]) as usize;
            present.push(t);
            i += 4 + (l + 3) / 4 * 4;
        }
        let mut pool = present.clone();
        pool.extend([0x0006u16, 0x0024, 0x8022, 0x7f01, 0xff01, 0x0008, 0x8028]);
        for _ in 0..3 {
            let sup = subset(c.rng, &pool);
            let req = if c.rng.chance(1, 2) { "-".to_string() } else { subset(c.rng, &pool) };
            out.push(format!("msg op=police b={} sup={} req={}{}", hex(&msg), sup, req, c.trace()));
        }
    }
}

fn subset(rng: &mut Rng, pool: &[u16]) -> String {
    let mode = rng.below(5);
    let mut v: Vec<String> = vec![];
    for t in pool {
        let take = match mode {
            0 => false,
            1 => true,
            2 => *t < 0x8000,
            _ => rng.chance(1, 2),
        };
        if take {
            v.push(format!("{:04x}", t));
        }
    }
    // long lists (dozens of entries: filler types in front of, between and after the interesting ones,
    // repeated entries), so that a present type can sit at any index
    if rng.chance(1, 6) {
        let n = 20 + rng.below(60) as usize;
        let mut long: Vec<String> = vec![];
        for i in 0..n {
            long.push(format!("{:04x}", 0x4000u16 + (i as u16) * 7 + rng.below(5) as u16));
        }
        for t in v.drain(..) {
            let at = rng.below(long.len() as u64 + 1) as usize;
            long.insert(at, t);
        }
        if rng.chance(1, 3) && !long.is_empty() {
            let d = long[rng.below(long.len() as u64) as usize].clone();
            long.push(d);
        }
        v = long;
    }
    if v.is_empty() {
        "-".into()
    } else {
        v.join(".")
    }
}

/// msg.fp (C09): fingerprinted messages x single-bit flips, bursts up to 32 bits, byte substitutions
pub fn gen_fp(c: &mut Ctx, out: &mut Vec<String>) {
    for _ in 0..c.count {
        let tail = *c.rng.pick(&["f", "f", "if", "jf", "ijf"]);
        let n_ord = c.rng.below(4) as usize;
        let msg = assemble_rand(c.rng, n_ord, tail);
        if msg.len() > 200 && !c.thorough {
            continue;
        }
        out.push(format!("msg op=acc b={}", hex(&msg)));
        // the CRC value replaced by plausible near-misses (a burst inside the 32-bit value): the CRC taken with
        // the length field at other stages of assembly, without the XOR constant, byte-swapped
        {
            let n = msg.len();
            let body_len = n - 20;
            let with_len = |l: usize| {
                let mut m = msg[..n - 8].to_vec();
                m[2] = (l >> 8) as u8;
                m[3] = l as u8;
                crc32(&m)
            };
            let good = with_len(body_len) ^ 0x5354554e;
            for alt in [with_len(body_len - 8) ^ 0x5354554e, with_len(body_len - 4) ^ 0x5354554e, with_len(body_len + 4) ^ 0x5354554e,
                        with_len(body_len), good.swap_bytes(), with_len(0) ^ 0x5354554e, !good] {
                if alt != good {
                    let mut m = msg.clone();
                    m[n - 4..].copy_from_slice(&alt.to_be_bytes());
                    out.push(format!("msg op=acc b={}", hex(&m)));
                }
            }
        }
        let nbits = msg.len() * 8;
        // every single-bit flip
        for j in 0..nbits {
            if !c.thorough && j >= 64 && !c.rng.chance(1, 3) {
                continue;
            }
            let mut m = msg.clone();
            m[j / 8] ^= 0x80 >> (j % 8);
            out.push(format!("msg op=acc b={}", hex(&m)));
        }
        // bursts of width 2..=32 with both end bits set, at random (thorough: every) bit offset, both numberings
        let offsets: Vec<usize> = if c.thorough { (0..nbits).collect() } else { (0..40).map(|_| c.rng.below(nbits as u64) as usize).collect() };
        for off in offsets {
            let w = 2 + c.rng.below(31) as usize;
            if off + w > nbits {
                continue;
            }
            let lsb_first = c.rng.chance(1, 2);
            let mut m = msg.clone();
            for k in 0..w {
                let on = k == 0 || k == w - 1 || c.rng.chance(1, 2);
                if on {
                    let bit = off + k;
                    if lsb_first {
                        m[bit / 8] ^= 1 << (bit % 8);
                    } else {
                        m[bit / 8] ^= 0x80 >> (bit % 8);
                    }
                }
            }
            out.push(format!("msg op=acc b={}", hex(&m)));
        }
        // byte substitutions
        for i in 0..msg.len() {
            let reps = if c.thorough { 3 } else { 1 };
            for _ in 0..reps {
                if !c.thorough && !c.rng.chance(1, 2) {
                    continue;
                }
                let mut m = msg.clone();
                let nb = c.rng.next() as u8;
                if nb == m[i] {
                    continue;
                }
                m[i] = nb;
                out.push(format!("msg op=acc b={}", hex(&m)));
            }
        }
    }
}

/// msg.robust (C01): every decoding entry point and every read-only operation, with and without a
/// tracing subscriber, on valid, mutated, random and very large inputs
pub fn gen_robust(c: &mut Ctx, out: &mut Vec<String>) {
    let tails = all_tails(3, &['i', 'j', 'f', 'g', 'o']);
    for _ in 0..c.count {
        let tail = c.rng.pick(&tails).clone();
        let tail = if c.rng.chance(3, 4) { tail.replace('g', "f") } else { tail };
        let n_ord = c.rng.below(5) as usize;
        let base = assemble_rand(c.rng, n_ord, &tail);
        let mut variants = vec![base.clone()];
        for _ in 0..3 {
            let mut m = base.clone();
            let i = c.rng.below(m.len() as u64) as usize;
            m[i] = c.rng.next() as u8;
            variants.push(m);
        }
        let k = c.rng.below(base.len() as u64 + 1) as usize;
        variants.push(base[..k].to_vec());
        let r = c.rng.below(60) as usize;
        variants.push(c.rng.bytes(r));
        for m in variants {
            let t = c.rng.below(2);
            let h = hex_or_dash(&m);
            out.push(format!("msg op=parse b={} trace={}", h, t));
            out.push(format!("msg op=typed b={} trace={}", h, t));
            out.push(format!("msg op=display b={} trace={}", h, c.rng.below(2)));
            out.push(format!("msg op=validate b={} cred={} trace={}", h, rand_creds(c.rng), c.rng.below(2)));
            let pool = [0x0006u16, 0x0024, 0x8022, 0x7f00, 0x7f01, 0xff01, 0x0008, 0x001c, 0x8028];
            let sup = subset(c.rng, &pool);
            let req = subset(c.rng, &pool);
            out.push(format!("msg op=police b={} sup={} req={} trace={}", h, sup, req, c.rng.below(2)));
            out.push(format!("msg op=hdr b={} trace={}", h, t));
            out.push(format!("msg op=mt b={}", hex_or_dash(&m[..m.len().min(c.rng.below(4) as usize)])));
        }
    }
    if c.part == 0 {
        for k in 0..=3usize {
            out.push(format!("msg op=mt b={}", hex_or_dash(&[0x01u8, 0x01, 0x7f][..k.min(3)])));
        }
        for k in 0..=48usize {
            // every length 0..=48: random and structured
            let r = c.rng.bytes(k);
            out.push(format!("msg op=parse b={}", hex_or_dash(&r)));
            out.push(format!("msg op=hdr b={}", hex_or_dash(&r)));
            let mut m = header(0x0001, k.saturating_sub(20), 7);
            m.extend(c.rng.bytes(k.saturating_sub(20)));
            m.truncate(k);
            out.push(format!("msg op=parse b={}", hex_or_dash(&m)));
            out.push(format!("msg op=display b={} trace=1", hex_or_dash(&m)));
        }
    }
    // big buffers around the 16-bit boundary: an integrity attribute at every 4-aligned offset near the end
    if c.part == 0 || c.thorough {
        let bodies: Vec<usize> = if c.thorough { (65440..=65535).filter(|x| x % 4 == 0).collect() } else { vec![65508, 65532, 65520] };
        for body in bodies {
            for kind in ["1", "2"] {
                let mi_len = if kind == "1" { 24 } else { 36 };
                if body < mi_len + 4 {
                    continue;
                }
                let fill = body - mi_len - 4;
                let fill = fill - fill % 4;
                let mut msg = header(0x0001, 0, 5);
                msg.extend(tlv(0xff7f, &vec![0x41u8; fill], 0));
                let key = b"pass";
                let newlen = msg.len() - 20 + mi_len;
                if newlen > 65535 {
                    continue;
                }
                msg[2] = (newlen >> 8) as u8;
                msg[3] = newlen as u8;
                if kind == "1" {
                    let mac = MessageIntegrity::compute(&msg, key).unwrap();
                    msg.extend(tlv(MI, &mac, 0));
                } else {
                    let mac = MessageIntegritySha256::compute(&msg, key).unwrap();
                    msg.extend(tlv(MI256, &mac, 0));
                }
                out.push(format!("msg op=parse b={}", hex(&msg)));
                out.push(format!("msg op=validate b={} cred=s:70617373", hex(&msg)));
                out.push(format!("msg op=validate b={} cred=s:6e6f trace=1", hex(&msg)));
                out.push(format!("msg op=police b={} sup=- req=0006", hex(&msg)));
            }
        }
        let mut m = header(0x0001, 0xffff, 9);
        m.extend(vec![0u8; 70000 - 20]);
        out.push(format!("msg op=parse b={}", hex(&m)));
        out.push(format!("msg op=hdr b={}", hex(&m)));
        let mut m2 = header(0x0001, 65532, 9);
        m2.extend(tlv(0xff00, &vec![7u8; 65528], 0));
        out.push(format!("msg op=parse b={}", hex(&m2)));
        out.push(format!("msg op=display b={} trace=0", hex(&m2)));
        out.push(format!("msg op=display b={} trace=1", hex(&m2)));
        let r = c.rng.bytes(70000);
        out.push(format!("msg op=parse b={}", hex(&r)));
        let mut m3 = header(0x0001, 65535, 9);
        m3.extend(c.rng.bytes(65535));
        out.push(format!("msg op=parse b={}", hex(&m3)));
    }
}

pub fn gen(which: &str, rng: &mut Rng, count: usize, thorough: bool, out: &mut Vec<String>, part: u64, parts: u64) {
    let mut c = Ctx { rng, count, thorough, part, parts, idx: 0 };
    match which {
        "msg.tails" => gen_tails(&mut c, out),
        "msg.parse" => gen_parse(&mut c, out),
        "msg.cut" => gen_cut(&mut c, out),
        "msg.validate" => gen_validate(&mut c, out),
        "msg.police" => gen_police(&mut c, out),
        "msg.fp" => gen_fp(&mut c, out),
        "msg.robust" => gen_robust(&mut c, out),
        _ => panic!("unknown generator {which}"),
    }
}
