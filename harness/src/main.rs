//! Correspondence harness: runs case lines against the real stun-types / stun-proto code.
//!   stunharness gen  <family> <seed> <count> <tier> [part parts]    case lines (no observation)
//!   stunharness exec                                    stdin case lines -> `line => observation`
//!   stunharness run  <family> <seed> <count> <tier>     gen | exec
mod fam_agent;
mod fam_attr;
mod fam_bld;
mod fam_msg;
mod fam_mtype;
mod fam_tcp;
mod fam_xor;
mod typed;
mod util;

use std::io::{BufRead, Write};
use util::*;

fn exec_line(lhs: &str) -> String {
    let lhs_owned = lhs.to_string();
    let r = std::panic::catch_unwind(move || {
        let (fam, kv) = Kv::parse(&lhs_owned);
        match fam {
            "tcp" => fam_tcp::exec(&kv),
            "mtype" => fam_mtype::exec(&kv),
            "attr" => fam_attr::exec(&kv),
            "bld" => fam_bld::exec(&kv),
            "ag" => fam_agent::exec(&kv),
            "msg" => fam_msg::exec(&kv),
            "xor" => fam_xor::exec(&kv),
            _ => format!("unknown-family {fam}"),
        }
    });
    match r {
        Ok(s) => s,
        Err(_) => "panic".to_string(),
    }
}

/// Watchdog: every case is executed on a worker thread; if it does not come back within the limit the
/// observation is `timeout` (a hang is an observation, like a panic), the stuck thread is abandoned and a
/// fresh worker takes over.  After a few hangs the process gives up (the abandoned threads keep spinning).
struct Runner {
    tx: std::sync::mpsc::Sender<String>,
    rx: std::sync::mpsc::Receiver<String>,
}

fn spawn_runner() -> Runner {
    let (tx, rx_case) = std::sync::mpsc::channel::<String>();
    let (tx_res, rx) = std::sync::mpsc::channel::<String>();
    std::thread::Builder::new()
        .stack_size(64 << 20)
        .spawn(move || {
            for lhs in rx_case {
                let r = exec_line(&lhs);
                if tx_res.send(r).is_err() {
                    break;
                }
            }
        })
        .expect("spawn worker");
    Runner { tx, rx }
}

const CASE_LIMIT_SECS: u64 = 20;
const MAX_HANGS: u32 = 3;

fn exec_guarded(runner: &mut Runner, lhs: &str, hangs: &mut u32) -> String {
    if runner.tx.send(lhs.to_string()).is_err() {
        *runner = spawn_runner();
        return "panic".to_string();
    }
    match runner.rx.recv_timeout(std::time::Duration::from_secs(CASE_LIMIT_SECS)) {
        Ok(s) => s,
        Err(std::sync::mpsc::RecvTimeoutError::Timeout) => {
            *hangs += 1;
            *runner = spawn_runner();
            "timeout".to_string()
        }
        Err(std::sync::mpsc::RecvTimeoutError::Disconnected) => {
            // the worker died (a panic that escaped catch_unwind, e.g. a panic while panicking)
            *runner = spawn_runner();
            "panic".to_string()
        }
    }
}

fn gen(fam: &str, seed: u64, count: usize, thorough: bool, part: u64, parts: u64) -> Vec<String> {
    let mut rng = Rng::new(seed);
    let mut out = vec![];
    match fam {
        "tcp" => fam_tcp::gen(&mut rng, count, thorough, &mut out),
        "mtype" => fam_mtype::gen(&mut rng, count, thorough, &mut out, part, parts),
        "xor" => fam_xor::gen(&mut rng, count, thorough, &mut out, part, parts),
        f if f.starts_with("attr.") => fam_attr::gen(f, &mut rng, count, thorough, &mut out, part, parts),
        f if f.starts_with("ag.") => fam_agent::gen(f, &mut rng, count, thorough, &mut out, part, parts),
        f if f.starts_with("bld.") => fam_bld::gen(f, &mut rng, count, thorough, &mut out, part, parts),
        f if f.starts_with("msg.") => fam_msg::gen(f, &mut rng, count, thorough, &mut out, part, parts),
        _ => panic!("unknown family {fam}"),
    }
    out
}

fn main() {
    // panics are observations, not noise
    std::panic::set_hook(Box::new(|_| {}));
    let args: Vec<String> = std::env::args().collect();
    let stdout = std::io::stdout();
    let mut w = std::io::BufWriter::with_capacity(1 << 20, stdout.lock());
    match args.get(1).map(|s| s.as_str()) {
        Some("gen") | Some("run") => {
            let fam = &args[2];
            let seed: u64 = args[3].parse().unwrap();
            let count: usize = args[4].parse().unwrap();
            let thorough = args.get(5).map(|s| s == "thorough").unwrap_or(false);
            // exhaustive enumerations are split across workers: part/parts
            let part: u64 = args.get(6).and_then(|s| s.parse().ok()).unwrap_or(0);
            let parts: u64 = args.get(7).and_then(|s| s.parse().ok()).unwrap_or(1);
            let lines = gen(fam, seed, count, thorough, part, parts);
            let mut runner = spawn_runner();
            let mut hangs = 0u32;
            for l in lines {
                if args[1] == "gen" {
                    writeln!(w, "{l}").unwrap();
                } else {
                    let obs = exec_guarded(&mut runner, &l, &mut hangs);
                    writeln!(w, "{l} => {obs}").unwrap();
                    if hangs >= MAX_HANGS {
                        w.flush().unwrap();
                        eprintln!("giving up after {hangs} hanging cases");
                        std::process::exit(3);
                    }
                }
            }
            w.flush().unwrap();
            std::process::exit(0);
        }
        Some("exec") => {
            let mut runner = spawn_runner();
            let mut hangs = 0u32;
            let stdin = std::io::stdin();
            for line in stdin.lock().lines() {
                let line = line.unwrap();
                let lhs = match line.find(" => ") {
                    Some(i) => &line[..i],
                    None => &line[..],
                };
                let lhs = lhs.trim();
                if lhs.is_empty() || lhs.starts_with('#') {
                    continue;
                }
                let obs = exec_guarded(&mut runner, lhs, &mut hangs);
                writeln!(w, "{lhs} => {obs}").unwrap();
                if hangs >= MAX_HANGS {
                    w.flush().unwrap();
                    eprintln!("giving up after {hangs} hanging cases");
                    std::process::exit(3);
                }
            }
            w.flush().unwrap();
            // abandoned (spinning) worker threads must not keep the process alive
            std::process::exit(0);
        }
        _ => {
            eprintln!("usage: stunharness gen|run <family> <seed> <count> <tier> | exec");
            std::process::exit(2);
        }
    }
}
