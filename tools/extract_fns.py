"""Statement-level part of the translator: whole function bodies of the agent's state machine and the
TCP framing buffer, re-translated from /repo's working tree on every run into
lean/StunVerif/Gen/Fn*.lean (see tools/rustmini.py for the subset of Rust understood).

For each function the *control flow* (order of tests, early returns, which field is assigned on
which path, which helper is called where) is taken from the source; only the leaves (field names,
library calls such as `Duration::from_millis`, enum constructors, hash-map operations) are
given by templates below.  `Props/SrcFn*.lean` proves each generated function equal to the
hand-written model function for all arguments, so the theorems about the model are theorems about
what the source says now.  If a body is no longer in the understood subset, the committed fallback
text (the translation of the pinned tree) is emitted and the item is reported under `fallback`.
"""
import os, re
from rustmini import Emitter, parse_body, XlateError
from extract_source import fn_body, Src

AGENT = "stun-proto/src/agent.rs"


def impl_body(txt, header_regex):
    return fn_body(txt, header_regex)


def req_poll(src):
    txt = src.get(AGENT)
    imp = impl_body(txt, r"impl\s+StunRequestState\s*\{")
    if imp is None:
        raise XlateError("impl StunRequestState not found")
    body = fn_body(imp, r"fn\s+poll\s*\(\s*&mut\s+self\s*,\s*now\s*:\s*Instant\s*\)\s*->\s*StunRequestPollRet\s*\{")
    if body is None:
        raise XlateError("StunRequestState::poll not found")
    em = Emitter(
        exprs=[
            ("self.recv_cancelled", "r.recvCancelled"),
            ("self.send_cancelled", "r.sendCancelled"),
            ("self.last_send_time", "r.lastSend"),
            ("self.timeout_i", "r.timeoutI"),
            ("self.timeouts_ms.len()", "r.timeouts.length"),
            ("self.timeouts_ms[$i]", "(r.timeouts.getD $i 0)"),
            ("self.last_retransmit_timeout_ms", "r.lastRto"),
            ("Duration::from_millis($x)", "(msNs $x)"),
            ("StunRequestPollRet::Cancelled", "ReqRet.cancelled"),
            ("StunRequestPollRet::TimedOut", "ReqRet.timedOut"),
            ("StunRequestPollRet::WaitUntil($t)", "(ReqRet.waitUntil $t)"),
            # the transmit is built from fields that no statement of this function assigns (checked below)
            ("StunRequestPollRet::SendData(send_data(self.transport, &self.bytes, self.from, self.to).into_owned())", "ReqRet.sendData"),
            ("StunRequestPollRet::SendData(send_data(self.transport, &self.bytes, self.from, self.to))", "ReqRet.sendData"),
        ],
        assigns=[("self.timeout_i", "timeoutI"), ("self.last_send_time", "lastSend"),
                 ("self.recv_cancelled", "recvCancelled"), ("self.send_cancelled", "sendCancelled"),
                 ("self.timeouts_ms", "timeouts"), ("self.last_retransmit_timeout_ms", "lastRto"),
                 ("self.bytes", "bytes"), ("self.to", "to")],
        state="r", ret="({s}, {v})", locals_=["now"])
    return em.blk(parse_body(body))


def req_new(src):
    """StunRequestState::new: what the stored bytes are, how `request_had_credentials` is computed from the builder, the default
    schedule per transport, the initial flags"""
    txt = src.get(AGENT)
    imp = impl_body(txt, r"impl\s+StunRequestState\s*\{")
    body = fn_body(imp or "", r"fn\s+new\s*\(\s*request\s*:\s*MessageBuilder<'_>\s*,\s*transport\s*:\s*TransportType\s*,\s*from\s*:\s*SocketAddr\s*,\s*to\s*:\s*SocketAddr\s*,?\s*\)\s*->\s*Self\s*\{")
    if body is None:
        raise XlateError("StunRequestState::new not found")
    em = Emitter(
        exprs=[
            ("request.build()", "request.build"),
            ("request.has_attribute($t)", "(request.hasAttribute $t)"),
            ("MessageIntegrity::TYPE", "tyMI"), ("MessageIntegritySha256::TYPE", "tyMI256"),
            ("TransportType::Tcp", "Transport.tcp"), ("TransportType::Udp", "Transport.udp"),
            ("Self { transaction_id: request.transaction_id(), bytes: $bytes, transport, from, to, request_had_credentials: $hc, timeouts_ms, "
             "timeout_i: $ti, last_retransmit_timeout_ms, recv_cancelled: $rc, send_cancelled: $sc, last_send_time: $ls }",
             "(Req.mk $hc $bytes to timeouts_ms last_retransmit_timeout_ms $rc $sc $ti $ls)"),
        ],
        state=None, ret="{v}", locals_=["request", "transport", "to"])
    return em.blk(parse_body(body))


def msg_accessor(src, which):
    """the read-only accessors of `Message` / `MessageType` / `MessageClass` the agent and the properties' observations go through"""
    txt = src.get(MSG)
    def body_in(impl_re, fn_re):
        imp = impl_body(txt, impl_re)
        b = fn_body(imp or "", fn_re)
        if b is None:
            raise XlateError(f"{which} not found")
        return b
    MT, MSGI, MC = r"impl\s+MessageType\s*\{", r"impl\s*<'a>\s*Message<'a>\s*\{", r"impl\s+MessageClass\s*\{"
    common = [("MessageClass::Request", "0"), ("MessageClass::Indication", "1"), ("MessageClass::Success", "2"), ("MessageClass::Error", "3"),
              ("$c.is_response()", "(classIsResponse $c)")]
    if which == "classIsResponse":
        body = body_in(MC, r"pub\s+fn\s+is_response\s*\(\s*self\s*\)\s*->\s*bool\s*\{")
        em = Emitter(exprs=[("matches!(self, MessageClass::Success | MessageClass::Error)", "(decide (c = 2) || decide (c = 3))")], ret="{v}", locals_=[])
    elif which == "mtypeClass":
        body = body_in(MT, r"pub\s+fn\s+class\s*\(\s*self\s*\)\s*->\s*MessageClass\s*\{")
        em = Emitter(exprs=[("self.0", "v")] + common, ret="{v}", locals_=[])
        em.on_unreachable = "4"
    elif which == "mtypeIsResponse":
        body = body_in(MT, r"pub\s+fn\s+is_response\s*\(\s*self\s*\)\s*->\s*bool\s*\{")
        em = Emitter(exprs=[("self.class()", "(mtypeClass v)")] + common, ret="{v}", locals_=[])
    else:
        # TryFrom<&[u8]> for MessageType must be from_bytes
        tf = fn_body(txt, r"impl\s+TryFrom<&\[u8\]>\s+for\s+MessageType\s*\{")
        tfb = fn_body(tf or "", r"fn\s+try_from\s*\(\s*value\s*:\s*&\[u8\]\s*\)\s*->\s*Result<Self,\s*Self::Error>\s*\{")
        if tfb is None or re.sub(r"\s+", "", tfb) != "MessageType::from_bytes(value)":
            raise XlateError("TryFrom<&[u8]> for MessageType shape")
        mexprs = [("MessageType::try_from(&self.data[..2]).unwrap()", "(match msgTypeFromBytes (m.data.take 2) with | Except.ok t => t | Except.error _ => 65536)"),
                  ("self.get_type()", "(msgGetType m)"), ("self.class()", "(msgClass m)"), ("self.method()", "(msgMethod m)"),
                  ("$t.class()", "(mtypeClass $t)"), ("$t.method()", "(methodOf $t)"),
                  ("BigEndian::read_u128(&self.data[4..]).into()", "(tidFromU128 (beNat ((m.data.drop 4).take 16)))"),
                  ("self.iter_attributes().find(|attr| attr.get_type() == atype)", "(m.iter.find? (fun attr => decide (attr.ty = atype)))"),
                  ("self.iter_attributes().any(|attr| attr.get_type() == atype)", "(m.iter.any (fun attr => decide (attr.ty = atype)))"),
                  ] + common
        hdr = {"msgGetType": r"pub\s+fn\s+get_type\s*\(\s*&self\s*\)\s*->\s*MessageType\s*\{",
               "msgClass": r"pub\s+fn\s+class\s*\(\s*&self\s*\)\s*->\s*MessageClass\s*\{",
               "msgHasClass": r"pub\s+fn\s+has_class\s*\(\s*&self\s*,\s*cls\s*:\s*MessageClass\s*\)\s*->\s*bool\s*\{",
               "msgIsResponse": r"pub\s+fn\s+is_response\s*\(\s*&self\s*\)\s*->\s*bool\s*\{",
               "msgMethod": r"pub\s+fn\s+method\s*\(\s*&self\s*\)\s*->\s*u16\s*\{",
               "msgHasMethod": r"pub\s+fn\s+has_method\s*\(\s*&self\s*,\s*method\s*:\s*u16\s*\)\s*->\s*bool\s*\{",
               "msgTransactionId": r"pub\s+fn\s+transaction_id\s*\(\s*&self\s*\)\s*->\s*TransactionId\s*\{",
               "msgRawAttribute": r"pub\s+fn\s+raw_attribute\s*\(\s*&self\s*,\s*atype\s*:\s*AttributeType\s*\)\s*->\s*Option<RawAttribute>\s*\{",
               "msgHasAttribute": r"pub\s+fn\s+has_attribute\s*\(\s*&self\s*,\s*atype\s*:\s*AttributeType\s*\)\s*->\s*bool\s*\{"}[which]
        body = body_in(MSGI, hdr)
        em = Emitter(exprs=mexprs, ret="{v}", locals_=["cls", "method", "atype"])
    return em.blk(parse_body(body))


AGENT_EXPRS = [
    ("msg.is_response()", "m.isResponse"),
    ("msg.transaction_id()", "m.tid"),
    ("request.request_had_credentials", "request.hadCreds"),
    ("self.remote_credentials", "s.remoteCreds"),
    ("msg.validate_integrity($k)", "(m.validUnder $k)"),
    ("HandleStunReply::Drop", "Out.drop"),
    ("HandleStunReply::StunResponse(msg)", "Out.response"),
    ("HandleStunReply::IncomingStun(msg)", "Out.incoming"),
    ("self.validated_peers.contains($a)", "(s.validated.contains $a)"),
    ("self.outstanding_requests.contains_key($t)", "((lookup s.out $t).isSome)"),
]
AGENT_STMTS = [
    ("self.validated_peer($a)", "validatedPeer s $a"),
    ("self.validated_peers.insert($a)", "{ s with validated := $a :: s.validated }"),
    ("self.outstanding_requests.insert($k, $v)", "{ s with out := insert s.out $k $v }"),
]
AGENT_LETS = [
    ("self.take_outstanding_request($t)", "(takeOutstanding s $t)", "let s := __v.1; let __v := __v.2;"),
    ("self.outstanding_requests.remove($t)", "(lookup s.out $t)", "let s := { s with out := remove s.out $t };"),
]
AGENT_PATS = [("Ok($x)", "true"), ("Err($x)", "false")]


def agent_fn(src, header, ret, locals_, extra_exprs=()):
    txt = src.get(AGENT)
    imp = impl_body(txt, r"impl\s+StunAgent\s*\{")
    if imp is None:
        raise XlateError("impl StunAgent not found")
    body = fn_body(imp, header)
    if body is None:
        raise XlateError(f"{header} not found")
    em = Emitter(exprs=list(extra_exprs) + AGENT_EXPRS, stmts=AGENT_STMTS, lets=AGENT_LETS, pats=AGENT_PATS,
                 state="s", ret=ret, locals_=locals_)
    return em.blk(parse_body(body))


def validated_peer(src):
    return agent_fn(src, r"fn\s+validated_peer\s*\(\s*&mut\s+self\s*,\s*addr\s*:\s*SocketAddr\s*\)\s*\{", "{s}", ["addr"])


def take_outstanding(src):
    return agent_fn(src, r"fn\s+take_outstanding_request\s*\(\s*&mut\s+self\s*,\s*transaction_id\s*:\s*&TransactionId\s*,?\s*\)\s*->\s*Option<StunRequestState>\s*\{",
                    "({s}, {v})", ["transaction_id"])


def handle_stun(src):
    return agent_fn(src, r"pub\s+fn\s+handle_stun\s*<'a>\s*\(\s*&mut\s+self\s*,\s*msg\s*:\s*Message<'a>\s*,\s*from\s*:\s*SocketAddr\s*\)\s*->\s*HandleStunReply<'a>\s*\{",
                    "({s}, {v})", [], extra_exprs=[("from", "src")])


def send(src):
    exprs = [
        ("msg.has_class(MessageClass::Request)", "isReq"),
        ("msg.transaction_id()", "tid"),
        ("StunRequestState::new(msg, self.transport, self.local_addr, to)", "(Req.new s.transport bytes hadCreds to)"),
        ("Err(StunError::AlreadyInProgress)", "Out.inProgress"),
        ("Err(StunError::ProtocolViolation)", "Out.protocolViolation"),
        ("transmit.into_owned()", "(mkTransmit s state)"),
        ("Ok(transmit)", "(Out.transmit (some transaction_id) transmit)"),
        ("msg.build()", "bytes"),
        ("Ok(self.send_data(&data, to).into_owned())", "(Out.transmit none (Transmit.mk data s.transport s.localAddr to))"),
        ("Ok(self.send_data(&data, to))", "(Out.transmit none (Transmit.mk data s.transport s.localAddr to))"),
    ]
    txt = src.get(AGENT)
    imp = impl_body(txt, r"impl\s+StunAgent\s*\{")
    if imp is None:
        raise XlateError("impl StunAgent not found")
    body = fn_body(imp, r"pub\s+fn\s+send\s*\(\s*&mut\s+self\s*,\s*msg\s*:\s*MessageBuilder<'_>\s*,\s*to\s*:\s*SocketAddr\s*,\s*now\s*:\s*Instant\s*,?\s*\)\s*->\s*Result<Transmit<'_>,\s*StunError>\s*\{")
    if body is None:
        raise XlateError("StunAgent::send not found")
    # the free function send_data must build the transmit from its arguments in order
    sd = fn_body(txt, r"\nfn\s+send_data\s*\(\s*transport\s*:\s*TransportType\s*,\s*bytes\s*:\s*&\[u8\]\s*,\s*from\s*:\s*SocketAddr\s*,\s*to\s*:\s*SocketAddr\s*\)\s*->\s*Transmit\s*\{")
    if sd is None or re.sub(r"\s+", "", sd) != "Transmit::new(bytes,transport,from,to)":
        raise XlateError("free fn send_data shape")
    sd2 = fn_body(imp, r"pub\s+fn\s+send_data\s*<'a>\s*\(\s*&self\s*,\s*bytes\s*:\s*&'a\s*\[u8\]\s*,\s*to\s*:\s*SocketAddr\s*\)\s*->\s*Transmit<'a>\s*\{")
    if sd2 is None or re.sub(r"\s+", "", sd2) != "send_data(self.transport,bytes,self.local_addr,to)":
        raise XlateError("StunAgent::send_data shape")
    em = Emitter(exprs=exprs + AGENT_EXPRS, stmts=AGENT_STMTS,
                 lets=[("state.poll($n)", "(reqPoll state $n)", "let state := __v.1; let __v := __v.2;")],
                 pats=[("StunRequestPollRet::SendData($t)", "ReqRet.sendData")],
                 state="s", ret="({s}, {v})", locals_=["to", "now"])
    return em.blk(parse_body(body))


def agent_poll(src):
    """StunAgent::poll: `let mut` accumulators, one `for` loop over the outstanding requests (visited in an
    order the model takes as a parameter: HashMap iteration order is unspecified), then the code after the
    loop.  Emits (after, loop, entry) bodies."""
    txt = src.get(AGENT)
    imp = impl_body(txt, r"impl\s+StunAgent\s*\{")
    if imp is None:
        raise XlateError("impl StunAgent not found")
    body = fn_body(imp, r"pub\s+fn\s+poll\s*<'a>\s*\(\s*&mut\s+self\s*,\s*now\s*:\s*Instant\s*\)\s*->\s*StunAgentPollRet<'a>\s*\{")
    if body is None:
        raise XlateError("StunAgent::poll not found")
    stmts = [x for x in parse_body(body) if not (x[0] == "expr" and x[1][0] == "macro")]
    from rustmini import parse_expr, match
    accs = []
    i = 0
    while i < len(stmts) and stmts[i][0] == "let":
        _, pat, init, els = stmts[i]
        if pat[0] != "pbind" or els is not None or init is None:
            raise XlateError("poll: accumulator declaration shape")
        accs.append((pat[1], init))
        i += 1
    if [a for a, _ in accs] != ["lowest_wait", "timeout", "cancelled"]:
        raise XlateError(f"poll: accumulators {[a for a, _ in accs]}")
    if i >= len(stmts) or stmts[i][0] != "for":
        raise XlateError("poll: no for loop after the accumulators")
    _, pat, it, loop_body = stmts[i]
    if pat != ("pbind", "request") or not match(parse_expr("self.outstanding_requests.values_mut()"), it, {}):
        raise XlateError("poll: loop header shape")
    after = stmts[i + 1:]
    exprs = [
        ("request.transaction_id", "__k"),
        ("StunAgentPollRet::SendData(transmit.into_owned())", "(Out.transmit (some __k) (mkTransmit s request))"),
        ("StunAgentPollRet::SendData(transmit)", "(Out.transmit (some __k) (mkTransmit s request))"),
        ("StunAgentPollRet::TransactionTimedOut($t)", "(Out.timedOut $t)"),
        ("StunAgentPollRet::TransactionCancelled($t)", "(Out.cancelled $t)"),
        ("StunAgentPollRet::WaitUntil($t)", "(Out.waitUntil $t)"),
        ("$o.map_or(true, |$x| $body)", "(Option.all (fun $x => $body) $o)"),
        ("$o.unwrap_or($d)", "(Option.getD $o $d)"),
        ("Duration::from_secs($x)", "(msNs ($x * 1000))"),
    ]
    pats = [("StunRequestPollRet::Cancelled", "ReqRet.cancelled"), ("StunRequestPollRet::TimedOut", "ReqRet.timedOut"),
            ("StunRequestPollRet::SendData($t)", "ReqRet.sendData"), ("StunRequestPollRet::WaitUntil($t)", "ReqRet.waitUntil $t")]
    lets = [("request.poll($n)", "(reqPoll request $n)",
             "let request := __v.1; let s := { s with out := update s.out __k (fun _ => request) }; let __v := __v.2;"),
            ("self.outstanding_requests.remove($t)", "(lookup s.out $t)", "let s := { s with out := remove s.out $t };")]
    locs = ["now", "lowest_wait", "timeout", "cancelled"]
    inits = []
    em0 = Emitter(exprs=exprs, state="s", ret="({s}, {v})", locals_=locs)
    for name, init in accs:
        inits.append(em0.tx(init) if init != ("path", "None") else "none")
    em_after = Emitter(exprs=exprs, pats=pats, lets=lets, state="s", ret="({s}, {v})", locals_=locs)
    after_l = em_after.blk(list(after))
    em_loop = Emitter(exprs=exprs, pats=pats, lets=lets, state="s", ret="({s}, {v})", locals_=locs + ["request"])
    em_loop.on_end = em_loop.on_continue = "agentPollLoop now __rest s lowest_wait timeout cancelled"
    em_loop.on_break = "agentPollAfter now s lowest_wait timeout cancelled"
    loop_l = em_loop.blk(list(loop_body))
    return after_l, loop_l, inits


MSG = "stun-types/src/message.rs"


def iter_next(src):
    """MessageAttributesIter::next: `loop { ... }` with `continue` and early returns -> a fuel-recursive function
    (one unit of fuel per loop iteration; the proof shows data.len()+1 always suffices)"""
    txt = src.get(MSG)
    imp = impl_body(txt, r"impl\s*<'a>\s*Iterator\s+for\s+MessageAttributesIter<'a>\s*\{")
    if imp is None:
        raise XlateError("impl Iterator for MessageAttributesIter not found")
    body = fn_body(imp, r"fn\s+next\s*\(\s*&mut\s+self\s*\)\s*->\s*Option<Self::Item>\s*\{")
    if body is None:
        raise XlateError("MessageAttributesIter::next not found")
    # the initial state built by iter_attributes
    it = fn_body(txt, r"pub\s+fn\s+iter_attributes\s*\(\s*&self\s*\)\s*->\s*impl\s+Iterator<Item\s*=\s*RawAttribute>\s*\{")
    if it is None or re.sub(r"\s+", "", it) != "MessageAttributesIter{data:self.data,data_i:MessageHeader::LENGTH,seen_message_integrity:false,last_was_message_integrity:false,}":
        raise XlateError("iter_attributes initial state shape")
    stmts = [x for x in parse_body(body) if not (x[0] == "expr" and x[1][0] == "macro")]
    if len(stmts) != 1 or stmts[0][0] != "loop":
        raise XlateError("next: body is not a single loop")
    em = Emitter(
        exprs=[
            ("self.data_i", "st.dataI"), ("self.data.len()", "data.length"),
            ("self.seen_message_integrity", "st.seen"), ("self.last_was_message_integrity", "st.lastMI"),
            ("RawAttribute::from_bytes(&self.data[self.data_i..])", "(rawFromBytes (data.drop st.dataI))"),
            ("attr.padded_len()", "attr.paddedLen"), ("attr.get_type()", "attr.ty"),
            ("MessageIntegrity::TYPE", "tyMI"), ("MessageIntegritySha256::TYPE", "tyMI256"), ("Fingerprint::TYPE", "tyFP"),
        ],
        pats=[("Ok($x)", "Except.ok $x")],
        assigns=[("self.data_i", "dataI"), ("self.seen_message_integrity", "seen"), ("self.last_was_message_integrity", "lastMI")],
        state="st", ret="({s}, {v})", locals_=[])
    em.on_end = em.on_continue = "iterNext data __fuel st"
    return "match __f with\n  | 0 => (st, none)\n  | __fuel + 1 => " + em.blk(list(stmts[0][1]))


def msg_from_bytes(src):
    """Message::from_bytes: header checks, then the `while !data.is_empty()` walk over the attributes with the
    ordering rules and the FINGERPRINT recomputation.  Emits (prologue, loop) bodies; the loop becomes a
    fuel-recursive function over its mutable locals."""
    txt = src.get(MSG)
    imp = impl_body(txt, r"impl\s*<'a>\s*Message<'a>\s*\{")
    if imp is None:
        raise XlateError("impl Message not found")
    body = fn_body(imp, r"pub\s+fn\s+from_bytes\s*\(\s*data\s*:\s*&'a\s*\[u8\]\s*\)\s*->\s*Result<Self,\s*StunParseError>\s*\{")
    if body is None:
        raise XlateError("Message::from_bytes not found")
    exprs = [
        ("MessageHeader::from_bytes($d)", "(headerFromBytes $d)"),
        ("header.data_length() as usize", "header.len"),
        ("MessageHeader::LENGTH", "headerLength"),
        ("$d.len()", "$d.length"), ("$d.is_empty()", "$d.isEmpty"),
        ("$d[$k..]", "($d.drop $k)"), ("$d[..$k].to_vec()", "($d.take $k)"),
        ("MessageIntegrity::TYPE", "tyMI"), ("MessageIntegritySha256::TYPE", "tyMI256"), ("Fingerprint::TYPE", "tyFP"),
        ("AttributeType::new($x)", "$x"),
        ("ending_attributes.contains($x)", "(ending_attributes.contains $x)"),
        ("seen_ending_attributes.contains($x)", "(seen_ending_attributes.contains $x)"),
        ("RawAttribute::from_bytes($d)", "(rawFromBytes $d)"),
        ("$x.map_err(|$e| $body)", "(Except.mapError (fun $e => $body) $x)"),
        ("StunParseError::Truncated { expected: $a, actual: $b }", "(PErr.truncated $a $b)"),
        ("StunParseError::TooLarge { expected: $a, actual: $b }", "(PErr.tooLarge $a $b)"),
        ("StunParseError::AttributeAfterFingerprint($t)", "(PErr.afterFingerprint $t)"),
        ("StunParseError::AttributeAfterIntegrity($t)", "(PErr.afterIntegrity $t)"),
        ("StunParseError::FingerprintMismatch", "PErr.fpMismatch"),
        ("Err($x)", "(Except.error $x)"),
        ("Ok(Message { data: orig_data })", "(Except.ok (Msg.mk orig_data))"),
        ("attr.get_type()", "attr.ty"), ("attr.padded_len()", "attr.paddedLen"),
        ("Fingerprint::from_raw(&attr)", "(fpFromRaw attr)"), ("f.fingerprint()", "f"),
        ("Fingerprint::compute(&$d)", "(Crc.crc32Bytes $d)"),
        ("&calculated_fingerprint != msg_fingerprint", "(calculated_fingerprint ≠ msg_fingerprint)"),
    ]
    pats = [("StunParseError::Truncated { expected: $a, actual: $b }", "PErr.truncated $a $b"),
            ("StunParseError::TooLarge { expected: $a, actual: $b }", "PErr.tooLarge $a $b")]
    stmts = [("BigEndian::write_u16(&mut fingerprint_data[2..4], $v)", "setLen fingerprint_data $v")]
    loop_vars = ["data", "data_offset", "seen_ending_attributes", "seen_ending_len"]
    call = "msgWalk orig_data ending_attributes __fuel " + " ".join(loop_vars)
    out = {}

    def mk(locals_):
        em = Emitter(exprs=exprs, pats=pats, stmts=stmts, state="fingerprint_data", ret="{v}", locals_=locals_)
        return em

    em = mk(["data"])

    def on_while(stmt, rest):
        _, cond, wbody = stmt
        missing = [v for v in loop_vars + ["orig_data", "ending_attributes"] if v not in em.locals]
        if missing:
            raise XlateError(f"from_bytes: loop variables not declared before the loop: {missing}")
        eb = mk(list(em.locals))
        eb.on_end = eb.on_continue = call
        body_l = eb.blk(list(wbody))
        ea = mk(list(em.locals))
        after_l = ea.blk(list(rest))
        out["loop"] = ("match __f with\n  | 0 => Except.error (PErr.fault Fault.hang)\n  | __fuel + 1 => "
                       f"(if {eb.tx(cond, 'c')} then {body_l} else {after_l})")
        return "msgWalk orig_data ending_attributes (orig_data.length + 1) " + " ".join(loop_vars)
    em.on_while = on_while
    out["entry"] = em.blk(parse_body(body))
    if "loop" not in out:
        raise XlateError("from_bytes: no while loop found")
    return out


def check_attribute_types(src):
    """Message::check_attribute_types: the two iterator chains (unsupported comprehension-required types in
    message order; a required type that is absent) and the order of the two verdicts"""
    txt = src.get(MSG)
    imp = impl_body(txt, r"impl\s*<'a>\s*Message<'a>\s*\{")
    if imp is None:
        raise XlateError("impl Message not found")
    body = fn_body(imp, r"pub\s+fn\s+check_attribute_types\s*<'b>\s*\(\s*msg\s*:\s*&Message\s*,\s*supported\s*:\s*&\[AttributeType\]\s*,\s*required_in_msg\s*:\s*&\[AttributeType\]\s*,?\s*\)\s*->\s*Option<MessageBuilder<'b>>\s*\{")
    if body is None:
        raise XlateError("check_attribute_types not found")
    em = Emitter(
        exprs=[
            ("msg.iter_attributes()", "m.iter"),
            ("$it.map(|$x| $f)", "($it.map (fun $x => $f))"),
            ("$it.filter(|$x| $p).collect()", "($it.filter (fun $x => $p))"),
            ("$it.iter().any(|$x| $p)", "($it.any (fun $x => $p))"),
            ("$it.any(|$x| $p)", "($it.any (fun $x => $p))"),
            ("$a.get_type()", "$a.ty"),
            ("$t.comprehension_required()", "(comprehensionRequired $t)"),
            ("$v.is_empty()", "$v.isEmpty"),
            ("Some(Message::unknown_attributes(msg, &$u))", "(some (unknownAttributesResp m $u))"),
            ("Some(Message::bad_request(msg))", "(some (badRequestResp m))"),
        ],
        state=None, ret="{v}", locals_=["supported", "required_in_msg"])
    return em.blk(parse_body(body))


def police_response(src, which):
    """Message::unknown_attributes / Message::bad_request: class, method and transaction id of the response, which attributes it
    carries in which order, when UNKNOWN-ATTRIBUTES is attached"""
    txt = src.get(MSG)
    imp = impl_body(txt, r"impl\s*<'a>\s*Message<'a>\s*\{")
    if which == "unknown_attributes":
        body = fn_body(imp or "", r"pub\s+fn\s+unknown_attributes\s*<'b>\s*\(\s*src\s*:\s*&Message\s*,\s*attributes\s*:\s*&\[AttributeType\]\s*,?\s*\)\s*->\s*MessageBuilder<'b>\s*\{")
    else:
        body = fn_body(imp or "", r"pub\s+fn\s+bad_request\s*<'b>\s*\(\s*src\s*:\s*&'a\s+Message\s*\)\s*->\s*MessageBuilder<'b>\s*\{")
    if body is None:
        raise XlateError(f"Message::{which} not found")
    em = Emitter(
        exprs=[("Message::builder($t, $tid)", "(Builder.new $t $tid)"),
               ("MessageType::from_class_method(MessageClass::Error, $m)", "(fromClassMethod 3 $m)"),
               ("src.method()", "src.method"), ("src.transaction_id()", "src.tid"),
               ("Software::new($s).unwrap()", "(AttrVal.software (asciiBytes $s))"),
               ("ErrorCode::new($c, $s).unwrap()", "(AttrVal.errorCode $c (asciiBytes $s))"),
               ("UnknownAttributes::new(attributes)", "(AttrVal.unknownAttributes attributes)"),
               ("attributes.is_empty()", "attributes.isEmpty"), ("out.into_owned()", "out.intoOwned")],
        stmts=[("out.add_attribute(&$x).unwrap()", ("out", "(addOrSame out (BAttr.typed $x))"))],
        state=None, ret="{v}", locals_=["src", "attributes"])
    return em.blk(parse_body(body))


ATTRMOD = "stun-types/src/attribute/mod.rs"
DEC_EXPRS = [
    ("$d.len()", "$d.length"),
    ("BigEndian::read_u16(&$d[$a..$b])", "(be16 ($d.getD $a 0) ($d.getD ($a + 1) 0))"),
    ("BigEndian::read_u16(&$d[$a..])", "(be16 ($d.getD $a 0) ($d.getD ($a + 1) 0))"),
    ("BigEndian::read_u16($d)", "(be16 ($d.getD 0 0) ($d.getD 1 0))"),
    ("BigEndian::read_u128(&$d[$a..])", "(beNat (($d.drop $a).take 16))"),
    ("StunParseError::Truncated { expected: $a, actual: $b }", "(PErr.truncated $a $b)"),
    ("StunParseError::NotStun", "PErr.notStun"),
    ("Err($x)", "(Except.error $x)"),
    ("MAGIC_COOKIE", "magicCookie"),
]


def decoder(src, which):
    if which == "attr_header":
        imp = impl_body(src.get(ATTRMOD), r"impl\s+AttributeHeader\s*\{")
        body = fn_body(imp or "", r"fn\s+parse\s*\(\s*data\s*:\s*&\[u8\]\s*\)\s*->\s*Result<Self,\s*StunParseError>\s*\{")
        extra = [("Ok(ret)", "(Except.ok ret)"),
                 ("Self { atype: $t.into(), length: $l }", "($t, $l)")]
        # the getters used by RawAttribute::from_bytes must be the plain field reads
        for g, f in (("get_type", "atype"), ("length", "length")):
            gb = fn_body(imp or "", r"pub\s+fn\s+" + g + r"\s*\(\s*&self\s*\)\s*->\s*\w+\s*\{")
            if gb is None or re.sub(r"\s+", "", gb) != "self." + f:
                raise XlateError(f"AttributeHeader::{g} shape")
    elif which == "raw":
        imp = impl_body(src.get(ATTRMOD), r"impl\s*<'a>\s*RawAttribute<'a>\s*\{")
        body = fn_body(imp or "", r"pub\s+fn\s+from_bytes\s*\(\s*data\s*:\s*&'a\s*\[u8\]\s*\)\s*->\s*Result<Self,\s*StunParseError>\s*\{")
        extra = [("AttributeHeader::parse($d)", "(attrHeaderParse $d)"),
                 ("header.length() as usize", "header.2"), ("header.length()", "header.2"),
                 ("Ok(Self { header, value: Data::Borrowed($d[$a..$b].into()) })", "(Except.ok (RawAttr.mk header.1 (($d.take $b).drop $a)))")]
    elif which == "mtype":
        imp = impl_body(src.get(MSG), r"impl\s+MessageType\s*\{")
        body = fn_body(imp or "", r"pub\s+fn\s+from_bytes\s*\(\s*data\s*:\s*&\[u8\]\s*\)\s*->\s*Result<Self,\s*StunParseError>\s*\{")
        extra = [("Ok(Self($d))", "(Except.ok $d)")]
    else:
        imp = impl_body(src.get(MSG), r"impl\s+MessageHeader\s*\{")
        body = fn_body(imp or "", r"pub\s+fn\s+from_bytes\s*\(\s*data\s*:\s*&\[u8\]\s*\)\s*->\s*Result<Self,\s*StunParseError>\s*\{")
        extra = [("MessageType::from_bytes($d)", "(msgTypeFromBytes $d)"),
                 ("Ok(Self { mtype, transaction_id: tid.into(), length: mlength })", "(Except.ok (Header.mk mtype mlength (tidFromU128 tid)))")]
        dl = fn_body(imp or "", r"pub\s+fn\s+data_length\s*\(\s*&self\s*\)\s*->\s*u16\s*\{")
        if dl is None or re.sub(r"\s+", "", dl) != "self.length":
            raise XlateError("MessageHeader::data_length shape")
    if body is None:
        raise XlateError(f"decoder {which} not found")
    em = Emitter(exprs=extra + DEC_EXPRS, state=None, ret="{v}", locals_=["data"])
    return em.blk(parse_body(body))


BLD_CONSTS = {"MessageIntegrity::TYPE": "tyMI", "MessageIntegritySha256::TYPE": "tyMI256", "Fingerprint::TYPE": "tyFP"}
BLD_EXPRS = [
    ("MessageIntegrity::TYPE", "tyMI"), ("MessageIntegritySha256::TYPE", "tyMI256"), ("Fingerprint::TYPE", "tyFP"),
    ("self.attribute_types.iter().any(|$x| $p)", "(b.types.any (fun $x => $p))"),
    ("self.attribute_types.iter().find(|$x| $p).cloned()", "(b.types.find? (fun $x => $p))"),
    ("atypes.contains($x)", "(atypes.contains $x)"),
    ("self.has_attribute($t)", "(hasAttribute b $t)"),
    ("self.has_any_attribute(&$l)", "(hasAnyAttribute b $l)"),
    ("attr.get_type()", "a.ty"),
    ("Err(StunWriteError::MessageIntegrityExists)", "(Except.error WErr.messageIntegrityExists)"),
    ("Err(StunWriteError::FingerprintExists)", "(Except.error WErr.fingerprintExists)"),
    ("Err(StunWriteError::AttributeExists($t))", "(Except.error (WErr.attributeExists $t))"),
    ("Ok(())", "(Except.ok b)"),
]


def builder_fn(src, which):
    txt = src.get(MSG)
    imp = impl_body(txt, r"impl\s*<'a>\s*MessageBuilder<'a>\s*\{")
    if imp is None:
        raise XlateError("impl MessageBuilder not found")
    stmts_t = []
    if which == "has_attribute":
        body = fn_body(imp, r"pub\s+fn\s+has_attribute\s*\(\s*&self\s*,\s*atype\s*:\s*AttributeType\s*\)\s*->\s*bool\s*\{")
        locs = ["atype"]
    elif which == "has_any_attribute":
        body = fn_body(imp, r"pub\s+fn\s+has_any_attribute\s*\(\s*&self\s*,\s*atypes\s*:\s*&\[AttributeType\]\s*\)\s*->\s*Option<AttributeType>\s*\{")
        locs = ["atypes"]
    elif which == "add_fingerprint":
        body = fn_body(imp, r"pub\s+fn\s+add_fingerprint\s*\(\s*&mut\s+self\s*\)\s*->\s*Result<\(\),\s*StunWriteError>\s*\{")
        locs = []
        stmts_t = [("self.add_fingerprint_unchecked()", "addFingerprintUnchecked b")]
    elif which in ("add_message_integrity", "integrity_bytes_from_message", "add_message_integrity_unchecked", "add_fingerprint_unchecked"):
        body = None
    elif which == "add_raw_attribute":
        body = fn_body(imp, r"pub\s+fn\s+add_raw_attribute\s*\(\s*&mut\s+self\s*,\s*attr\s*:\s*RawAttribute<'a>\s*\)\s*->\s*Result<\(\),\s*StunWriteError>\s*\{")
        locs = []
        stmts_t = [("self.attributes.push(AttrOrRaw::Raw(attr))", "{ b with attrs := b.attrs ++ [a] }"),
                   ("self.attribute_types.push(ty)", "{ b with types := b.types ++ [ty] }")]
    else:
        body = fn_body(imp, r"pub\s+fn\s+add_attribute\s*\(\s*&mut\s+self\s*,\s*attr\s*:\s*&'a\s+dyn\s+AttributeWrite\s*\)\s*->\s*Result<\(\),\s*StunWriteError>\s*\{")
        locs = []
        stmts_t = [("self.attributes.push(AttrOrRaw::Attr(attr))", "{ b with attrs := b.attrs ++ [a] }"),
                   ("self.attribute_types.push(ty)", "{ b with types := b.types ++ [ty] }")]
    if which == "add_message_integrity":
        body = fn_body(imp, r"pub\s+fn\s+add_message_integrity\s*\(\s*&mut\s+self\s*,\s*credentials\s*:\s*&MessageIntegrityCredentials\s*,\s*algorithm\s*:\s*IntegrityAlgorithm\s*,?\s*\)\s*->\s*Result<\(\),\s*StunWriteError>\s*\{")
        locs = ["algorithm"]
        stmts_t = [("self.add_message_integrity_unchecked(credentials, algorithm)", "addMessageIntegrityUnchecked b")]
        extra = [("AttributeType::new(0)", "0"), ("atypes[..i]", "(atypes.take i)"),
                 ("IntegrityAlgorithm::Sha1", "Algo.sha1"), ("IntegrityAlgorithm::Sha256", "Algo.sha256")]
        pats_t = [("IntegrityAlgorithm::Sha1", "Algo.sha1"), ("IntegrityAlgorithm::Sha256", "Algo.sha256")]
    elif which == "integrity_bytes_from_message":
        body = fn_body(imp, r"fn\s+integrity_bytes_from_message\s*\(\s*&self\s*,\s*extra_len\s*:\s*u16\s*\)\s*->\s*Vec<u8>\s*\{")
        locs = ["extra_len"]
        em = Emitter(exprs=[("self.build()", "b.build"), ("BigEndian::read_u16(&bytes[2..4])", "(beNat ((bytes.drop 2).take 2))")],
                     stmts=[("BigEndian::write_u16(&mut bytes[2..4], $v)", ("bytes", "(setLen bytes $v)"))], state=None, ret="{v}", locals_=locs)
        if body is None:
            raise XlateError("integrity_bytes_from_message not found")
        return em.blk(parse_body(body))
    elif which == "add_message_integrity_unchecked":
        body = fn_body(imp, r"fn\s+add_message_integrity_unchecked\s*\(\s*&mut\s+self\s*,\s*credentials\s*:\s*&MessageIntegrityCredentials\s*,\s*algorithm\s*:\s*IntegrityAlgorithm\s*,?\s*\)\s*\{")
        locs = ["algorithm"]
        extra = [("credentials.make_hmac_key()", "(hmacKey H c)"), ("self.integrity_bytes_from_message($n)", "(integrityBytesFromMessage b $n)"),
                 ("MessageIntegrity::compute(&bytes, &key).unwrap()", "(H.hmacSha1 key bytes)"),
                 ("MessageIntegritySha256::compute(&bytes, &key).unwrap()", "(H.hmacSha256 key bytes)")]
        pats_t = [("IntegrityAlgorithm::Sha1", "Algo.sha1"), ("IntegrityAlgorithm::Sha256", "Algo.sha256")]
        stmts_t = [("self.attributes.push(AttrOrRaw::Raw(RawAttribute::from(&MessageIntegrity::new(integrity))).into_owned())",
                    "{ b with attrs := b.attrs ++ [BAttr.raw (RawAttr.mk tyMI integrity)] }"),
                   ("self.attributes.push(AttrOrRaw::Raw(RawAttribute::from(&MessageIntegritySha256::new(integrity.as_slice()).unwrap()).into_owned()))",
                    "{ b with attrs := b.attrs ++ [BAttr.raw (RawAttr.mk tyMI256 integrity)] }"),
                   ("self.attribute_types.push($t)", "{ b with types := b.types ++ [$t] }")]
    elif which == "add_fingerprint_unchecked":
        body = fn_body(imp, r"fn\s+add_fingerprint_unchecked\s*\(\s*&mut\s+self\s*\)\s*\{")
        locs = []
        extra = [("self.build()", "b.build"), ("BigEndian::read_u16(&bytes[2..4])", "(beNat ((bytes.drop 2).take 2))"),
                 ("Fingerprint::compute(&bytes)", "(Crc.crc32Bytes bytes)")]
        stmts_t = [("BigEndian::write_u16(&mut bytes[2..4], $v)", ("bytes", "(setLen bytes $v)")),
                   ("self.attributes.push(AttrOrRaw::Attr(&Fingerprint::new(fingerprint)).into_owned())",
                    "{ b with attrs := b.attrs ++ [(BAttr.typed (AttrVal.fingerprint fingerprint)).intoOwned] }"),
                   ("self.attribute_types.push($t)", "{ b with types := b.types ++ [$t] }")]
    if body is None:
        raise XlateError(f"MessageBuilder::{which} not found")
    em = Emitter(exprs=locals().get("extra", []) + BLD_EXPRS, stmts=stmts_t, pats=locals().get("pats_t", []), state="b",
                 ret="{s}" if which in ("add_message_integrity_unchecked", "add_fingerprint_unchecked") else "{v}", locals_=locs)
    em.consts = BLD_CONSTS
    out = em.blk(parse_body(body))
    if which in ("add_raw_attribute", "add_attribute") and len(em.preconditions) != 1:
        raise XlateError(f"{which}: expected exactly one contract check (the panic on the three reserved types), found {len(em.preconditions)}")
    return out


def builder_write(src, which):
    """MessageBuilder::{byte_len, build, write_into}: the size formula, the size guard, the order and offsets of the header
    writes, the attribute loop with its running offset"""
    txt = src.get(MSG)
    imp = impl_body(txt, r"impl\s*<'a>\s*MessageBuilder<'a>\s*\{")
    if imp is None:
        raise XlateError("impl MessageBuilder not found")
    common = [("self.attributes.iter().map(|attr| attr.padded_len()).sum()", "((b.attrs.map (fun attr => attr.paddedLen)).sum)"),
              ("MessageHeader::LENGTH", "headerLength"), ("self.byte_len()", "(byteLen b)")]
    if which == "byte_len":
        body = fn_body(imp, r"pub\s+fn\s+byte_len\s*\(\s*&self\s*\)\s*->\s*usize\s*\{")
        em = Emitter(exprs=common, ret="{v}", locals_=[])
    elif which == "build":
        body = fn_body(imp, r"pub\s+fn\s+build\s*\(\s*&self\s*\)\s*->\s*Vec<u8>\s*\{")
        em = Emitter(exprs=common, lets=[("self.write_into(&mut ret)", "(writeInto b ret)",
                                          "let ret := (match __v with | Except.ok __r => __r.2 | Except.error _ => ret);")],
                     ret="{v}", locals_=[])
    else:
        body = fn_body(imp, r"pub\s+fn\s+write_into\s*\(\s*&self\s*,\s*dest\s*:\s*&mut\s*\[u8\]\s*\)\s*->\s*Result<usize,\s*StunWriteError>\s*\{")
        mt = fn_body(impl_body(txt, r"impl\s+MessageType\s*\{") or "", r"pub\s+fn\s+write_into\s*\(\s*&self\s*,\s*dest\s*:\s*&mut\s*\[u8\]\s*\)\s*\{")
        if mt is None or re.sub(r"\s+", "", mt) != "BigEndian::write_u16(dest,self.0);":
            raise XlateError("MessageType::write_into shape")
        exprs = common + [("dest.len()", "dest.length"), ("self.transaction_id.into()", "b.tid"), ("MAGIC_COOKIE", "magicCookie"),
                          ("StunWriteError::TooSmall { expected: $a, actual: $b }", "(WErr.tooSmall $a $b)"), ("Err($x)", "(Except.error $x)"),
                          ("Ok(offset)", "(Except.ok (offset, dest))")]
        stmts = [("self.msg_type.write_into(&mut dest[..2])", ("dest", "(put dest 0 (enc16 b.ty))")),
                 ("BigEndian::write_u128(&mut dest[4..20], $v)", ("dest", "(put dest 4 (encBE 16 $v))")),
                 ("BigEndian::write_u16(&mut dest[2..4], $v)", ("dest", "(put dest 2 (enc16 $v))"))]
        lets = [("attr.write_into(&mut dest[offset..])?", "(attr.writeInto (dest.drop offset))",
                 "match __v with | Except.error __e => Except.error __e | Except.ok __r => let dest := dest.take offset ++ __r.2; let __v := __r.1;")]
        out = {}
        em = Emitter(exprs=exprs, stmts=stmts, lets=lets, ret="{v}", locals_=["dest"])

        def on_for(stmt, rest):
            from rustmini import parse_expr, match
            _, pat, it, fbody = stmt
            if pat != ("pbind", "attr") or not match(parse_expr("&self.attributes"), it, {}) or "offset" not in em.locals:
                raise XlateError("write_into: loop header shape")
            eb = Emitter(exprs=exprs, stmts=stmts, lets=lets, ret="{v}", locals_=list(em.locals) + ["attr"])
            eb.on_end = eb.on_continue = "writeAttrsLoop __rest dest offset"
            ea = Emitter(exprs=exprs, stmts=stmts, lets=lets, ret="{v}", locals_=list(em.locals))
            out["loop"] = ("match __attrs with\n  | [] => " + ea.blk(list(rest)) + "\n  | attr :: __rest => " + eb.blk(list(fbody)))
            return "writeAttrsLoop b.attrs dest offset"
        em.on_for = on_for
        if body is None:
            raise XlateError("MessageBuilder::write_into not found")
        out["entry"] = em.blk(parse_body(body))
        if "loop" not in out:
            raise XlateError("write_into: no attribute loop found")
        return out
    if body is None:
        raise XlateError(f"MessageBuilder::{which} not found")
    return em.blk(parse_body(body))


def validate_integrity(src):
    """Message::validate_integrity: selection of the algorithm from the exposed attributes, then the location
    scan (`while !data.is_empty()`) with the HMAC input rewrite.  debug_assert!s become explicit panics."""
    txt = src.get(MSG)
    imp = impl_body(txt, r"impl\s*<'a>\s*Message<'a>\s*\{")
    if imp is None:
        raise XlateError("impl Message not found")
    body = fn_body(imp, r"pub\s+fn\s+validate_integrity\s*\(\s*&self\s*,\s*credentials\s*:\s*&MessageIntegrityCredentials\s*,?\s*\)\s*->\s*Result<IntegrityAlgorithm,\s*StunParseError>\s*\{")
    if body is None:
        raise XlateError("validate_integrity not found")
    exprs = [
        ("self.raw_attribute($t)", "(m.rawAttribute $t)"),
        ("MessageIntegrity::TYPE", "tyMI"), ("MessageIntegritySha256::TYPE", "tyMI256"),
        ("MessageIntegritySha256::try_from(&$x)", "(mi256FromRaw $x)"),
        ("MessageIntegrity::try_from(&$x)", "(miFromRaw $x)"),
        ("integrity.hmac().to_vec()", "integrity"),
        ("msg.hmac().as_slice()", "msg"), ("msg.hmac()", "msg"),
        ("msg_hmac.as_slice().try_into().unwrap()", "msg_hmac"),
        ("IntegrityAlgorithm::Sha256", "Algo.sha256"), ("IntegrityAlgorithm::Sha1", "Algo.sha1"),
        ("Err(StunParseError::MissingAttribute($t))", "(Except.error (PErr.missing $t))"),
        ("self.data[..$k].to_vec()", "(m.data.take $k)"),
        ("self.data", "m.data"),
        ("MessageHeader::LENGTH", "headerLength"),
        ("$d.len()", "$d.length"), ("$d.is_empty()", "$d.isEmpty"), ("$d[$k..]", "($d.drop $k)"),
        ("RawAttribute::from_bytes($d)", "(rawFromBytes $d)"),
        ("attr.get_type()", "attr.ty"), ("attr.padded_len()", "attr.paddedLen"),
        ("attr.length() as usize", "(attr.value.length % 65536)"),
        ("credentials.make_hmac_key()", "(hmacKey H c)"),
        ("MessageIntegrity::verify(&$d, &$k, $h)", "(verifySha1 H $d $k $h)"),
        ("MessageIntegritySha256::verify(&$d, &$k, &$h)", "(verifySha256 H $d $k $h)"),
        ("Ok(algo)", "(Except.ok algo)"),
    ]
    stmts = [("BigEndian::write_u16(&mut hmac_data[2..4], $v)", "setLen hmac_data $v")]
    loop_vars = ["data", "data_offset"]
    call = "validateScan H m c algo msg_hmac __fuel data data_offset"
    out = {}

    def mk(locals_):
        em = Emitter(exprs=exprs, stmts=stmts, state="hmac_data", ret="{v}", locals_=locals_)
        em.on_assert = "Except.error (PErr.fault Fault.panic)"
        em.on_unreachable = "Except.error (PErr.fault Fault.unreachable)"
        return em

    em = mk([])

    def on_while(stmt, rest):
        _, cond, wbody = stmt
        missing = [v for v in loop_vars + ["algo", "msg_hmac"] if v not in em.locals]
        if missing:
            raise XlateError(f"validate_integrity: loop variables not declared before the loop: {missing}")
        eb = mk(list(em.locals))
        eb.on_end = eb.on_continue = call
        body_l = eb.blk(list(wbody))
        ea = mk(list(em.locals))
        after_l = ea.blk(list(rest))
        out["loop"] = ("match __f with\n  | 0 => Except.error (PErr.fault Fault.hang)\n  | __fuel + 1 => "
                       f"(if {eb.tx(cond, 'c')} then {body_l} else {after_l})")
        return "validateScan H m c algo msg_hmac (m.data.length + 1) data data_offset"
    em.on_while = on_while
    out["entry"] = em.blk(parse_body(body))
    if "loop" not in out:
        raise XlateError("validate_integrity: no while loop found")
    return out


def check_len_fn(src, which):
    txt = src.get(ATTRMOD)
    exprs = [
        ("allowed_range.start_bound()", "start_bound"), ("allowed_range.end_bound()", "end_bound"),
        ("StunParseError::Truncated { expected: $a, actual: $b }", "(PErr.truncated $a $b)"),
        ("StunParseError::TooLarge { expected: $a, actual: $b }", "(PErr.tooLarge $a $b)"),
        ("StunParseError::WrongAttributeImplementation", "PErr.wrongImpl"),
        ("Err($x)", "(Except.error $x)"), ("Ok(())", "(Except.ok ())"),
        ("self.header.get_type()", "a.ty"), ("self.value.len()", "a.value.length"),
        ("check_len($l, allowed_range)", "(checkLen $l start_bound end_bound)"),
    ]
    pats = [("std::ops::Bound::Unbounded", "Bound.unbounded"), ("std::ops::Bound::Included($x)", "Bound.included $x"),
            ("std::ops::Bound::Excluded($x)", "Bound.excluded $x")]
    if which == "check_len":
        body = fn_body(txt, r"\nfn\s+check_len\s*\(\s*len\s*:\s*usize\s*,\s*allowed_range\s*:\s*impl\s+std::ops::RangeBounds<usize>\s*,?\s*\)\s*->\s*Result<\(\),\s*StunParseError>\s*\{")
        locs = ["len", "start_bound", "end_bound"]
    else:
        imp = impl_body(txt, r"impl\s*<'a>\s*RawAttribute<'a>\s*\{")
        body = fn_body(imp or "", r"pub\s+fn\s+check_type_and_len\s*\(\s*&self\s*,\s*atype\s*:\s*AttributeType\s*,\s*allowed_range\s*:\s*impl\s+std::ops::RangeBounds<usize>\s*,?\s*\)\s*->\s*Result<\(\),\s*StunParseError>\s*\{")
        locs = ["atype", "start_bound", "end_bound"]
    if body is None:
        raise XlateError(f"{which} not found")
    em = Emitter(exprs=exprs, pats=pats, state=None, ret="{v}", locals_=locs)
    return em.blk(parse_body(body))


TYPED_DIR = "stun-types/src/attribute/"
PERR_EXPRS = [
    ("StunParseError::InvalidAttributeData", "PErr.invalid"),
    ("StunParseError::WrongAttributeImplementation", "PErr.wrongImpl"),
    ("StunParseError::Truncated { expected: $a, actual: $b }", "(PErr.truncated $a $b)"),
    ("StunParseError::TooLarge { expected: $a, actual: $b }", "(PErr.tooLarge $a $b)"),
    ("Err($x)", "(Except.error $x)"),
]
RAWVAL_EXPRS = [
    ("raw.value.len()", "raw.value.length"),
    ("raw.value[..$n]", "(raw.value.take $n)"), ("raw.value[$a..$b]", "((raw.value.take $b).drop $a)"),
    ("raw.value[$a..]", "(raw.value.drop $a)"), ("raw.value[$i]", "(raw.value.getD $i 0).toNat"),
    ("raw.value.to_vec()", "raw.value"), ("raw.value", "raw.value"),
    ("BigEndian::read_u16($d)", "(beNat (List.take 2 $d))"), ("BigEndian::read_u32($d)", "(beNat (List.take 4 $d))"),
    ("BigEndian::read_u64($d)", "(beNat (List.take 8 $d))"),
    ("check_len($l, $lo..=$hi)", "(checkLen $l (Bound.included $lo) (Bound.included $hi))"),
    ("padded_attr_len($x)", "(paddedAttrLen $x)"),
]
# per kind: file, result constructor templates, extra leaves
TYPED_KINDS = {
    "Username": ("user.rs", [("Ok(Self { user: $x })", "(Except.ok (AttrVal.username $x))")]),
    "Realm": ("realm.rs", [("Ok(Self { realm: $x })", "(Except.ok (AttrVal.realm $x))")]),
    "Nonce": ("nonce.rs", [("Ok(Self { nonce: $x })", "(Except.ok (AttrVal.nonce $x))")]),
    "Software": ("software.rs", [("Ok(Self { software: $x })", "(Except.ok (AttrVal.software $x))")]),
    "AlternateDomain": ("alternate.rs", [("Ok(Self { domain: $x })", "(Except.ok (AttrVal.alternateDomain $x))")]),
    "MessageIntegrity": ("integrity.rs", [("(&*raw.value).try_into().unwrap()", "raw.value"),
                                          ("Ok(Self { hmac })", "(Except.ok (AttrVal.messageIntegrity hmac))")]),
    "MessageIntegritySha256": ("integrity.rs", [("Ok(Self { hmac: $x })", "(Except.ok (AttrVal.messageIntegritySha256 $x))")]),
    "Userhash": ("user.rs", [("raw.value[..32].try_into().unwrap()", "(raw.value.take 32)"),
                             ("Ok(Self { hash })", "(Except.ok (AttrVal.userhash hash))")]),
    "Fingerprint": ("fingerprint.rs", [("(&*raw.value).try_into().unwrap()", "raw.value"),
                                       ("bytewise_xor!(4, boxed, Fingerprint::XOR_CONSTANT, 0)", "(xorBytes boxed (fingerprintXorConstant.map UInt8.ofNat))"),
                                       ("Ok(Self { fingerprint })", "(Except.ok (AttrVal.fingerprint fingerprint))")]),
    "Priority": ("ice.rs", [("Ok(Self { priority: $x })", "(Except.ok (AttrVal.priority $x))")]),
    "UseCandidate": ("ice.rs", [("Ok(Self {})", "(Except.ok AttrVal.useCandidate)")]),
    "IceControlled": ("ice.rs", [("Ok(Self { tie_breaker: $x })", "(Except.ok (AttrVal.iceControlled $x))")]),
    "IceControlling": ("ice.rs", [("Ok(Self { tie_breaker: $x })", "(Except.ok (AttrVal.iceControlling $x))")]),
    "ErrorCode": ("error.rs", [("($a..$b).contains($x)", "(decide ($a ≤ $x) && decide ($x < $b))"),
                               ("Ok(Self { code, reason: $r })", "(Except.ok (AttrVal.errorCode code $r))")]),
    "PasswordAlgorithm": ("password_algorithm.rs", [("PasswordAlgorithmValue::read($d)", "(pwAlgoValueRead $d)"),
                                                    ("algorithm.len() as usize", "pwAlgoValueLen"),
                                                    ("Ok(Self { algorithm })", "(Except.ok (AttrVal.passwordAlgorithm algorithm))")]),
    "AlternateServer": ("alternate.rs", [("MappedSocketAddr::from_raw(raw)", "(mappedFromRaw raw)"),
                                         ("Ok(Self { addr })", "(Except.ok (AttrVal.alternateServer addr))")]),
    "XorMappedAddress": ("xor_addr.rs", [("XorSocketAddr::from_raw(raw)", "(mappedFromRaw raw)"),
                                         ("Ok(Self { addr: $x })", "(Except.ok (AttrVal.xorMappedAddress $x))")]),
}


def type_code(src, kind, file):
    from extract_source import xlate
    m = re.search(r"impl\s+AttributeStaticType\s+for\s+" + kind + r"\s*\{\s*const\s+TYPE\s*:\s*AttributeType\s*=\s*AttributeType\(([^)]+)\)\s*;",
                  src.get(TYPED_DIR + file))
    if not m:
        raise XlateError(f"TYPE of {kind} not found")
    return xlate(m.group(1), {}, 16)


def typed_decoder(src, kind):
    """`impl TryFrom<&RawAttribute> for <kind>`: the guard (`check_type_and_len` with the range written in the source), the
    further tests and their order, which error is returned where, and which bytes become which field"""
    file, extra = TYPED_KINDS[kind]
    txt = src.get(TYPED_DIR + file)
    imp = fn_body(txt, r"impl(?:\s*<[^>]*>)?\s+TryFrom\s*<\s*&\s*RawAttribute(?:\s*<[^>]*>)?\s*>\s+for\s+" + kind + r"\s*\{")
    body = fn_body(imp or "", r"fn\s+try_from\s*\(\s*raw\s*:\s*&RawAttribute\s*\)\s*->\s*Result<Self,\s*Self::Error>\s*\{")
    if body is None:
        raise XlateError(f"TryFrom<&RawAttribute> for {kind} not found")
    code = type_code(src, kind, file)
    guard = [
        ("raw.check_type_and_len(Self::TYPE, ..)", f"(checkTypeAndLen raw {code} Bound.unbounded Bound.unbounded)"),
        ("raw.check_type_and_len(Self::TYPE, ..=$hi)", f"(checkTypeAndLen raw {code} Bound.unbounded (Bound.included $hi))"),
        ("raw.check_type_and_len(Self::TYPE, $lo..)", f"(checkTypeAndLen raw {code} (Bound.included $lo) Bound.unbounded)"),
        ("raw.check_type_and_len(Self::TYPE, $lo..=$hi)", f"(checkTypeAndLen raw {code} (Bound.included $lo) (Bound.included $hi))"),
        ("raw.header.atype", "raw.ty"), ("Self::TYPE", code),
        ("std::str::from_utf8($d).map_err(|_| StunParseError::InvalidAttributeData)", "(textOf $d)"),
        ("$x.to_owned()", "$x"),
    ]
    if kind == "PasswordAlgorithm":
        pw_value_shapes(src)
    if kind == "XorMappedAddress":
        xb = fn_body(src.get(TYPED_DIR + "address.rs").split("impl XorSocketAddr", 1)[-1],
                     r"pub\s+fn\s+from_raw\s*\(\s*raw\s*:\s*&RawAttribute\s*\)\s*->\s*Result<Self,\s*StunParseError>\s*\{")
        if xb is None or re.sub(r"\s+", "", xb) != "letaddr=MappedSocketAddr::from_raw(raw)?;Ok(Self{addr})":
            raise XlateError("XorSocketAddr::from_raw shape")
    em = Emitter(exprs=extra + guard + RAWVAL_EXPRS + PERR_EXPRS, state=None, ret="{v}", locals_=["raw"])
    return em.blk(parse_body(body))


def unknown_attributes_decoder(src):
    """UnknownAttributes: no range guard; the `for` over `chunks_exact(2)` becomes a fold whose step is the loop body"""
    kind, file = "UnknownAttributes", "error.rs"
    txt = src.get(TYPED_DIR + file)
    imp = fn_body(txt, r"impl(?:\s*<[^>]*>)?\s+TryFrom\s*<\s*&\s*RawAttribute(?:\s*<[^>]*>)?\s*>\s+for\s+" + kind + r"\s*\{")
    body = fn_body(imp or "", r"fn\s+try_from\s*\(\s*raw\s*:\s*&RawAttribute\s*\)\s*->\s*Result<Self,\s*Self::Error>\s*\{")
    if body is None:
        raise XlateError("TryFrom<&RawAttribute> for UnknownAttributes not found")
    code = type_code(src, kind, file)
    exprs = [("raw.header.atype", "raw.ty"), ("Self::TYPE", code), ("vec![]", "([] : List Nat)"),
             ("Ok(Self { attributes: attrs })", "(Except.ok (AttrVal.unknownAttributes attrs))")] + RAWVAL_EXPRS + PERR_EXPRS
    em = Emitter(exprs=exprs, state=None, ret="{v}", locals_=["raw"])

    def on_for(stmt, rest):
        from rustmini import parse_expr, match
        _, pat, it, fbody = stmt
        if pat != ("pbind", "attr") or not match(parse_expr("raw.value.chunks_exact(2)"), it, {}) or "attrs" not in em.locals:
            raise XlateError("UnknownAttributes: loop header shape")
        eb = Emitter(exprs=[("BigEndian::read_u16(attr).into()", "(beNat (List.take 2 attr))")], stmts=[("attrs.push($x)", "(attrs ++ [$x])")],
                     state="attrs", ret="{s}", locals_=["attr", "attrs"])
        step = eb.blk(list(fbody))
        return f"let attrs := (chunksExact2 raw.value).foldl (fun attrs attr => {step}) attrs; {em.blk(list(rest))}"
    em.on_for = on_for
    return em.blk(parse_body(body))


def password_algorithms_decoder(src):
    """PasswordAlgorithms: guard, then the `while i < raw.value.len()` walk over the entries -> a fuel-recursive function"""
    kind, file = "PasswordAlgorithms", "password_algorithm.rs"
    txt = src.get(TYPED_DIR + file)
    imp = fn_body(txt, r"impl(?:\s*<[^>]*>)?\s+TryFrom\s*<\s*&\s*RawAttribute(?:\s*<[^>]*>)?\s*>\s+for\s+" + kind + r"\s*\{")
    body = fn_body(imp or "", r"fn\s+try_from\s*\(\s*raw\s*:\s*&RawAttribute\s*\)\s*->\s*Result<Self,\s*Self::Error>\s*\{")
    if body is None:
        raise XlateError("TryFrom<&RawAttribute> for PasswordAlgorithms not found")
    pw_value_shapes(src)
    code = type_code(src, kind, file)
    exprs = [("raw.check_type_and_len(Self::TYPE, $lo..)", f"(checkTypeAndLen raw {code} (Bound.included $lo) Bound.unbounded)"),
             ("PasswordAlgorithmValue::read($d)", "(pwAlgoValueRead $d)"), ("algo.len() as usize", "pwAlgoValueLen"),
             ("vec![]", "([] : List Nat)"), ("Ok(Self { algorithms })", "(Except.ok (AttrVal.passwordAlgorithms algorithms))")] + RAWVAL_EXPRS + PERR_EXPRS
    stmts = [("algorithms.push($x)", ("algorithms", "(algorithms ++ [$x])"))]
    out = {}

    def mk(locals_):
        return Emitter(exprs=exprs, stmts=stmts, state=None, ret="{v}", locals_=locals_)
    em = mk(["raw"])

    def on_while(stmt, rest):
        _, cond, wbody = stmt
        missing = [v for v in ("i", "algorithms") if v not in em.locals]
        if missing:
            raise XlateError(f"PasswordAlgorithms: loop variables not declared before the loop: {missing}")
        eb = mk(list(em.locals))
        eb.on_end = eb.on_continue = "pwAlgosWalk raw __fuel i algorithms"
        body_l = eb.blk(list(wbody))
        ea = mk(list(em.locals))
        after_l = ea.blk(list(rest))
        out["loop"] = ("match __f with\n  | 0 => Except.error (PErr.fault Fault.hang)\n  | __fuel + 1 => "
                       f"(if {eb.tx(cond, 'c')} then {body_l} else {after_l})")
        return "pwAlgosWalk raw (raw.value.length + 1) i algorithms"
    em.on_while = on_while
    out["entry"] = em.blk(parse_body(body))
    if "loop" not in out:
        raise XlateError("PasswordAlgorithms: no while loop found")
    return out


def pw_value_shapes(src):
    txt = src.get(TYPED_DIR + "password_algorithm.rs")
    imp = impl_body(txt, r"impl\s+PasswordAlgorithmValue\s*\{")
    ln = fn_body(imp or "", r"fn\s+len\s*\(\s*&self\s*\)\s*->\s*u16\s*\{")
    if ln is None or re.sub(r"\s+", "", ln) != "0":
        raise XlateError("PasswordAlgorithmValue::len shape")


def pw_value_read(src):
    """PasswordAlgorithmValue::read (the decoding of one algorithm entry)"""
    txt = src.get(TYPED_DIR + "password_algorithm.rs")
    imp = impl_body(txt, r"impl\s+PasswordAlgorithmValue\s*\{")
    body = fn_body(imp or "", r"fn\s+read\s*\(\s*data\s*:\s*&\[u8\]\s*\)\s*->\s*Result<Self,\s*StunParseError>\s*\{")
    if body is None:
        raise XlateError("PasswordAlgorithmValue::read not found")
    exprs = [
        ("BigEndian::read_u16(&data[..2])", "(beNat (data.take 2))"),
        ("BigEndian::read_u16(&data[2..4])", "(beNat ((data.take 4).drop 2))"),
        ("Ok(match ty { 0x1 => Self::MD5, 0x2 => Self::SHA256, _ => return Err(StunParseError::InvalidAttributeData), })",
         "(if ty = 1 then Except.ok 1 else if ty = 2 then Except.ok 2 else Except.error PErr.invalid)"),
    ]
    em = Emitter(exprs=exprs + PERR_EXPRS, state=None, ret="{v}", locals_=["data"])
    return em.blk(parse_body(body))


def mapped_from_raw(src):
    """MappedSocketAddr::from_raw (ALTERNATE-SERVER, and the stored form of XOR-MAPPED-ADDRESS)"""
    txt = src.get(TYPED_DIR + "address.rs")
    imp = impl_body(txt, r"impl\s+MappedSocketAddr\s*\{")
    body = fn_body(imp or "", r"pub\s+fn\s+from_raw\s*\(\s*raw\s*:\s*&RawAttribute\s*\)\s*->\s*Result<Self,\s*StunParseError>\s*\{")
    if body is None:
        raise XlateError("MappedSocketAddr::from_raw not found")
    exprs = [
        ("AddressFamily::from_byte($b)", "(addressFamilyFromByte $b)"),
        ("IpAddr::V4(Ipv4Addr::from(BigEndian::read_u32($d)))", "(false, List.take 4 $d)"),
        ("IpAddr::V6(Ipv6Addr::from(octets))", "(true, octets)"),
        ("Ok(Self { addr: SocketAddr::new(addr, port) })", "(Except.ok (Addr.mk addr.1 addr.2 port))"),
    ]
    em = Emitter(exprs=exprs + RAWVAL_EXPRS + PERR_EXPRS,
                 stmts=[("octets.clone_from_slice($d)", ("octets", "$d"))],
                 pats=[("AddressFamily::IPV4", "false"), ("AddressFamily::IPV6", "true")],
                 state=None, ret="{v}", locals_=["raw"])
    return em.blk(parse_body(body))


def address_family_from_byte(src):
    txt = src.get(TYPED_DIR + "address.rs")
    imp = impl_body(txt, r"impl\s+AddressFamily\s*\{")
    body = fn_body(imp or "", r"pub\(crate\)\s+fn\s+from_byte\s*\(\s*byte\s*:\s*u8\s*\)\s*->\s*Result<AddressFamily,\s*StunParseError>\s*\{")
    if body is None:
        raise XlateError("AddressFamily::from_byte not found")
    em = Emitter(exprs=[("Ok(AddressFamily::IPV4)", "(Except.ok false)"), ("Ok(AddressFamily::IPV6)", "(Except.ok true)")] + PERR_EXPRS,
                 state=None, ret="{v}", locals_=["byte"])
    return em.blk(parse_body(body))


def xor_addr_fn(src):
    """XorSocketAddr::xor_addr: which constant is XORed onto the port and onto the address bytes of each family"""
    txt = src.get(TYPED_DIR + "address.rs")
    imp = impl_body(txt, r"impl\s+XorSocketAddr\s*\{")
    body = fn_body(imp or "", r"pub\s+fn\s+xor_addr\s*\(\s*addr\s*:\s*SocketAddr\s*,\s*transaction\s*:\s*TransactionId\s*\)\s*->\s*SocketAddr\s*\{")
    if body is None:
        raise XlateError("XorSocketAddr::xor_addr not found")
    ab = fn_body(imp or "", r"pub\(crate\)\s+fn\s+addr\s*\(\s*&self\s*,\s*transaction\s*:\s*TransactionId\s*\)\s*->\s*SocketAddr\s*\{")
    if ab is None or re.sub(r"\s+", "", ab) != "XorSocketAddr::xor_addr(self.addr.addr(),transaction)":
        raise XlateError("XorSocketAddr::addr shape")
    em = Emitter(
        exprs=[("addr.port()", "a.port"), ("addr.ip().octets()", "a.ip"), ("addr", "a.v6"), ("MAGIC_COOKIE.to_be_bytes()", "(encBE 4 magicCookie)"),
               ("MAGIC_COOKIE", "magicCookie"), ("transaction.into()", "tid"), ("$x.to_be_bytes()", "(encBE 16 $x)"),
               ("bytewise_xor!(4, const_octets, addr_octets, 0)", "(xorBytes const_octets addr_octets)"),
               ("bytewise_xor!(16, const_octets, addr_octets, 0)", "(xorBytes const_octets addr_octets)"),
               ("SocketAddr::new(IpAddr::V4(Ipv4Addr::from(octets)), port)", "(Addr.mk false octets port)"),
               ("SocketAddr::new(IpAddr::V6(Ipv6Addr::from(octets)), port)", "(Addr.mk true octets port)")],
        pats=[("SocketAddr::V4(addr)", "false"), ("SocketAddr::V6(addr)", "true")],
        state=None, ret="{v}", locals_=["transaction"])
    return em.blk(parse_body(body))


def req_mut(src, name):
    txt = src.get(AGENT)
    imp = impl_body(txt, r"impl\s*<'a>\s*StunRequestMut<'a>\s*\{")
    if imp is None:
        raise XlateError("impl StunRequestMut not found")
    if name == "configure_timeout":
        hdr = r"pub\s+fn\s+configure_timeout\s*\(\s*&mut\s+self\s*,\s*initial_rto\s*:\s*Duration\s*,\s*retransmits\s*:\s*u32\s*,\s*last_retransmit_timeout\s*:\s*Duration\s*,?\s*\)\s*\{"
    else:
        hdr = r"pub\s+fn\s+" + name + r"\s*\(\s*&mut\s+self\s*\)\s*\{"
    body = fn_body(imp, hdr)
    if body is None:
        raise XlateError(f"StunRequestMut::{name} not found")
    ms = fn_body(src.get(AGENT).split("impl StunAgent", 1)[-1], r"fn\s+mut_request_state\s*\(\s*&mut\s+self\s*,\s*transaction_id\s*:\s*TransactionId\s*,?\s*\)\s*->\s*Option<&mut\s+StunRequestState>\s*\{")
    if ms is None or re.sub(r"\s+", "", ms) != "self.outstanding_requests.get_mut(&transaction_id)":
        raise XlateError("mut_request_state shape")
    # the body must be `if let Some(state) = self.agent.mut_request_state(self.transaction_id) { ... }`
    stmts = parse_body(body)
    stmts = [x for x in stmts if not (x[0] == "expr" and x[1][0] == "macro")]
    if len(stmts) != 1 or stmts[0][0] != "expr" or stmts[0][1][0] != "iflet":
        raise XlateError(f"{name}: not a single if-let")
    _, pat, scrut, then, els = stmts[0][1]
    from rustmini import parse_expr, parse_pat, match
    if not match(parse_pat("Some(state)"), pat, {}) or not match(parse_expr("self.agent.mut_request_state(self.transaction_id)"), scrut, {}) or els:
        raise XlateError(f"{name}: if-let shape")
    em = Emitter(
        exprs=[
            ("state.transport", "tr"),
            ("(0..$n).map(|$i| $body).collect()", "((List.range $n).map (fun $i => $body))"),
            ("(0..$n).fold(Duration::ZERO, |$acc, $i| $body)", "((List.range $n).foldl (fun $acc $i => $body) 0)"),
            ("$d.as_millis() as u64", "$d"),
            ("2u32.pow($i)", "(2 ^ $i)"),
            ("initial_rto", "rto"), ("last_retransmit_timeout", "last"), ("retransmits", "n"),
            ("vec![]", "[]"),
        ],
        pats=[("TransportType::Udp", "Transport.udp"), ("TransportType::Tcp", "Transport.tcp")],
        assigns=[("state.send_cancelled", "sendCancelled"), ("state.recv_cancelled", "recvCancelled"),
                 ("state.timeouts_ms", "timeouts"), ("state.last_retransmit_timeout_ms", "lastRto"),
                 ("state.timeout_i", "timeoutI"), ("state.last_send_time", "lastSend")],
        state="r", ret="{s}", locals_=[])
    return em.blk(list(then))


TCP_EXPRS = [
    ("self.buf.len()", "buf.length"),
    ("(BigEndian::read_u16(&self.buf[..2]) as usize)", "(be16 (buf.getD 0 0) (buf.getD 1 0))"),
    ("None", "none"),
    ("Some(bytes[$k..].to_vec())", "(some (bytes.drop $k))"),
    ("vec![]", "([] : Bytes)"),
]


def tcp_fn(src, name):
    txt = src.get(AGENT)
    imp = impl_body(txt, r"impl\s+TcpBuffer\s*\{")
    if imp is None:
        raise XlateError("impl TcpBuffer not found")
    if name == "pull_data":
        body = fn_body(imp, r"pub\s+fn\s+pull_data\s*\(\s*&mut\s+self\s*\)\s*->\s*Option<Vec<u8>>\s*\{")
        em = Emitter(exprs=TCP_EXPRS, lets=[("self.take($n)", "(tcpTake buf $n)", "let buf := __v.2; let __v := __v.1;")],
                     state="buf", ret="({v}, {s})", locals_=[])
    elif name == "take":
        body = fn_body(imp, r"fn\s+take\s*\(\s*&mut\s+self\s*,\s*offset\s*:\s*usize\s*\)\s*->\s*Vec<u8>\s*\{")
        em = Emitter(exprs=TCP_EXPRS + [("self.buf.split_at($k)", "(buf.take $k, buf.drop $k)"), ("data.to_vec()", "data"),
                                        ("DebugWrapper::wrap(rest.to_vec(), \"...\")", "rest")],
                     stmts=[], state="buf", ret="({v}, {s})", locals_=["offset"])
        em.assigns = [(__import__("rustmini").parse_expr("self.buf"), None)]
    else:
        body = fn_body(imp, r"pub\s+fn\s+push_data\s*\(\s*&mut\s+self\s*,\s*data\s*:\s*&\[u8\]\s*\)\s*\{")
        em = Emitter(stmts=[("self.buf.extend(data)", "buf ++ data")], state="buf", ret="{s}", locals_=["data"])
    if body is None:
        raise XlateError(f"TcpBuffer::{name} not found")
    return em.blk(parse_body(body))


def items(src):
    yield ("FnAgent", "reqPoll", "(r : Req) (now : Time) : Req × ReqRet", lambda: req_poll(src), None)
    yield ("FnGlue", "classIsResponse", "(c : Nat) : Bool", lambda: msg_accessor(src, "classIsResponse"), None)
    yield ("FnGlue", "mtypeClass", "(v : Nat) : Nat", lambda: msg_accessor(src, "mtypeClass"), None)
    yield ("FnGlue", "mtypeIsResponse", "(v : Nat) : Bool", lambda: msg_accessor(src, "mtypeIsResponse"), None)
    for nm, sig in [("msgGetType", "(m : Msg) : Nat"), ("msgClass", "(m : Msg) : Nat"), ("msgHasClass", "(m : Msg) (cls : Nat) : Bool"),
                    ("msgIsResponse", "(m : Msg) : Bool"), ("msgMethod", "(m : Msg) : Nat"), ("msgHasMethod", "(m : Msg) (method : Nat) : Bool"),
                    ("msgTransactionId", "(m : Msg) : Nat"), ("msgRawAttribute", "(m : Msg) (atype : Nat) : Option RawAttr"),
                    ("msgHasAttribute", "(m : Msg) (atype : Nat) : Bool")]:
        yield ("FnGlue", nm, sig, (lambda n: (lambda: msg_accessor(src, n)))(nm), None)
    yield ("FnGlue", "reqNew", "(request : Builder) (transport : Transport) (to : SockAddr) : Req", lambda: req_new(src), None)
    yield ("FnAgent", "validatedPeer", "(s : State) (addr : SockAddr) : State", lambda: validated_peer(src), None)
    yield ("FnAgent", "takeOutstanding", "(s : State) (transaction_id : Nat) : State × Option Req", lambda: take_outstanding(src), None)
    yield ("FnAgent", "handleStun", "(s : State) (m : InMsg) (src : SockAddr) : State × Out", lambda: handle_stun(src), None)
    yield ("FnAgent", "send", "(s : State) (isReq : Bool) (tid : Nat) (bytes : Bytes) (hadCreds : Bool) (to : SockAddr) (now : Time) : State × Out", lambda: send(src), None)
    yield ("FnAgent", "cancel", "(r : Req) : Req", lambda: req_mut(src, "cancel"), None)
    yield ("FnAgent", "cancelRetransmissions", "(r : Req) : Req", lambda: req_mut(src, "cancel_retransmissions"), None)
    yield ("FnAgent", "configureTimeout", "(tr : Transport) (r : Req) (rto n last : Nat) : Req", lambda: req_mut(src, "configure_timeout"), None)
    ap = {}
    def ap_part(k):
        def f():
            if not ap:
                a, l, i = agent_poll(src)
                ap.update(after=a, loop=l, inits=i)
            if k == "after":
                return ap["after"]
            if k == "loop":
                return ("match __ord with\n  | [] => agentPollAfter now s lowest_wait timeout cancelled\n  | __k :: __rest =>\n    match lookup s.out __k with\n"
                        "    | none => agentPollLoop now __rest s lowest_wait timeout cancelled\n    | some request => " + ap["loop"])
            return "agentPollLoop now ord s " + " ".join(ap["inits"])
        return f
    sig_acc = "(now : Time) (s : State) (lowest_wait : Option Time) (timeout cancelled : Option Nat) : State × Out"
    yield ("FnAgent", "agentPollAfter", sig_acc, ap_part("after"), None)
    yield ("FnAgent", "agentPollLoop", "(now : Time) (__ord : List Nat) (s : State) (lowest_wait : Option Time) (timeout cancelled : Option Nat) : State × Out", ap_part("loop"), None)
    yield ("FnAgent", "agentPoll", "(s : State) (now : Time) (ord : List Nat) : State × Out", ap_part("entry"), None)
    yield ("FnAttr", "checkLen", "(len : Nat) (start_bound end_bound : Bound) : Except PErr Unit", lambda: check_len_fn(src, "check_len"), None)
    yield ("FnAttr", "checkTypeAndLen", "(a : RawAttr) (atype : Nat) (start_bound end_bound : Bound) : Except PErr Unit", lambda: check_len_fn(src, "check_type_and_len"), None)
    yield ("FnTyped", "addressFamilyFromByte", "(byte : Nat) : Except PErr Bool", lambda: address_family_from_byte(src), None)
    yield ("FnTyped", "mappedFromRaw", "(raw : RawAttr) : Except PErr Addr", lambda: mapped_from_raw(src), None)
    yield ("FnTyped", "pwAlgoValueRead", "(data : Bytes) : Except PErr Nat", lambda: pw_value_read(src), None)
    for kind in TYPED_KINDS:
        yield ("FnTyped", "fromRaw" + kind, "(raw : RawAttr) : Except PErr AttrVal", (lambda k: (lambda: typed_decoder(src, k)))(kind), None)
    yield ("FnTyped", "fromRawUnknownAttributes", "(raw : RawAttr) : Except PErr AttrVal", lambda: unknown_attributes_decoder(src), None)
    pwa = {}
    def pwa_part(k):
        def f():
            if not pwa:
                pwa.update(password_algorithms_decoder(src))
            return pwa[k]
        return f
    yield ("FnTyped", "pwAlgosWalk", "(raw : RawAttr) (__f : Nat) (i : Nat) (algorithms : List Nat) : Except PErr AttrVal", pwa_part("loop"), None)
    yield ("FnTyped", "fromRawPasswordAlgorithms", "(raw : RawAttr) : Except PErr AttrVal", pwa_part("entry"), None)
    yield ("FnXor", "xorAddr", "(a : Addr) (tid : Nat) : Addr", lambda: xor_addr_fn(src), None)
    yield ("FnMsg", "attrHeaderParse", "(data : Bytes) : Except PErr (Nat × Nat)", lambda: decoder(src, "attr_header"), None)
    yield ("FnMsg", "rawFromBytes", "(data : Bytes) : Except PErr RawAttr", lambda: decoder(src, "raw"), None)
    yield ("FnMsg", "msgTypeFromBytes", "(data : Bytes) : Except PErr Nat", lambda: decoder(src, "mtype"), None)
    yield ("FnMsg", "headerFromBytes", "(data : Bytes) : Except PErr Header", lambda: decoder(src, "header"), None)
    yield ("FnMsg", "iterNext", "(data : Bytes) (__f : Nat) (st : IterSt) : IterSt × Option RawAttr", lambda: iter_next(src), None)
    mfb = {}
    def mfb_part(k):
        def f():
            if not mfb:
                mfb.update(msg_from_bytes(src))
            return mfb[k]
        return f
    yield ("FnMsg", "msgWalk", "(orig_data : Bytes) (ending_attributes : List Nat) (__f : Nat) (data : Bytes) (data_offset : Nat) (seen_ending_attributes : List Nat) (seen_ending_len : Nat) : Except PErr Msg", mfb_part("loop"), None)
    yield ("FnMsg", "msgFromBytes", "(data : Bytes) : Except PErr Msg", mfb_part("entry"), None)
    yield ("FnBuilder", "hasAttribute", "(b : Builder) (atype : Nat) : Bool", lambda: builder_fn(src, "has_attribute"), None)
    yield ("FnBuilder", "hasAnyAttribute", "(b : Builder) (atypes : List Nat) : Option Nat", lambda: builder_fn(src, "has_any_attribute"), None)
    yield ("FnBuilder", "addFingerprint", "(addFingerprintUnchecked : Builder → Builder) (b : Builder) : Except WErr Builder", lambda: builder_fn(src, "add_fingerprint"), None)
    yield ("FnWrite", "byteLen", "(b : Builder) : Nat", lambda: builder_write(src, "byte_len"), None)
    bw = {}
    def bw_part(k):
        def f():
            if not bw:
                bw.update(builder_write(src, "write_into"))
            return bw[k]
        return f
    yield ("FnWrite", "writeAttrsLoop", "(__attrs : List BAttr) (dest : Bytes) (offset : Nat) : Except WErr (Nat × Bytes)", bw_part("loop"), None)
    yield ("FnWrite", "writeInto", "(b : Builder) (dest : Bytes) : Except WErr (Nat × Bytes)", bw_part("entry"), None)
    yield ("FnWrite", "build", "(b : Builder) : Bytes", lambda: builder_write(src, "build"), None)
    yield ("FnBuilder", "addMessageIntegrity", "(addMessageIntegrityUnchecked : Builder → Builder) (b : Builder) (algorithm : Algo) : Except WErr Builder", lambda: builder_fn(src, "add_message_integrity"), None)
    yield ("FnBuilder", "integrityBytesFromMessage", "(b : Builder) (extra_len : Nat) : Bytes", lambda: builder_fn(src, "integrity_bytes_from_message"), None)
    yield ("FnBuilder", "addMessageIntegrityUnchecked", "(H : Hashes) (c : Creds) (b : Builder) (algorithm : Algo) : Builder", lambda: builder_fn(src, "add_message_integrity_unchecked"), None)
    yield ("FnBuilder", "addFingerprintUnchecked", "(b : Builder) : Builder", lambda: builder_fn(src, "add_fingerprint_unchecked"), None)
    yield ("FnBuilder", "addRawAttribute", "(b : Builder) (a : BAttr) : Except WErr Builder", lambda: builder_fn(src, "add_raw_attribute"), None)
    yield ("FnBuilder", "addAttribute", "(b : Builder) (a : BAttr) : Except WErr Builder", lambda: builder_fn(src, "add_attribute"), None)
    vi = {}
    def vi_part(k):
        def f():
            if not vi:
                vi.update(validate_integrity(src))
            return vi[k]
        return f
    yield ("FnIntegrity", "validateScan", "(H : Hashes) (m : Msg) (c : Creds) (algo : Algo) (msg_hmac : Bytes) (__f : Nat) (data : Bytes) (data_offset : Nat) : Except PErr Algo", vi_part("loop"), None)
    yield ("FnIntegrity", "validateIntegrity", "(H : Hashes) (m : Msg) (c : Creds) : Except PErr Algo", vi_part("entry"), None)
    yield ("FnPolice", "unknownAttributes", "(src : Msg) (attributes : List Nat) : Builder", lambda: police_response(src, "unknown_attributes"), None)
    yield ("FnPolice", "badRequest", "(src : Msg) : Builder", lambda: police_response(src, "bad_request"), None)
    yield ("FnPolice", "checkAttributeTypes", "(m : Msg) (supported required_in_msg : List Nat) : Option Builder", lambda: check_attribute_types(src), None)
    yield ("FnTcp", "tcpTake", "(buf : Bytes) (offset : Nat) : Bytes × Bytes", lambda: tcp_fn(src, "take"), None)
    yield ("FnTcp", "tcpPull", "(buf : Bytes) : Option Bytes × Bytes", lambda: tcp_fn(src, "pull_data"), None)
    yield ("FnTcp", "tcpPush", "(buf data : Bytes) : Bytes", lambda: tcp_fn(src, "push_data"), None)


HEADERS = {
    "FnGlue": ["import StunVerif.Agent.Agent", "import StunVerif.Msg.Builder", "import StunVerif.Gen.MsgType", "namespace StunVerif.Gen", "open StunVerif StunVerif.Agent", ""],
    "FnAgent": ["import StunVerif.Agent.Agent", "namespace StunVerif.Gen", "open StunVerif StunVerif.Agent", ""],
    "FnAttr": ["import StunVerif.Attr.Bound", "namespace StunVerif.Gen", "open StunVerif", ""],
    "FnTyped": ["import StunVerif.Attr.Typed", "import StunVerif.Attr.Bound", "import StunVerif.Gen.FnAttr", "import StunVerif.Gen.Attr", "import StunVerif.Gen.Xor",
                "namespace StunVerif.Gen", "open StunVerif", "", "/-- `PasswordAlgorithmValue::len` (checked to be the constant 0 in the source) -/", "def pwAlgoValueLen : Nat := 0", "",
                "/-- `slice::chunks_exact(2)` -/", "def chunksExact2 : Bytes → List Bytes", "  | a :: b :: rest => [a, b] :: chunksExact2 rest", "  | _ => []", ""],
    "FnWrite": ["import StunVerif.Msg.Builder", "import StunVerif.Gen.MsgType", "namespace StunVerif.Gen", "open StunVerif", "",
                "/-- `dest[off..off+src.len()].copy_from_slice(src)` / `BigEndian::write_*(&mut dest[off..off+n], v)` on a destination that is long enough -/",
                "def put (dest : Bytes) (off : Nat) (src : Bytes) : Bytes := dest.take off ++ src ++ dest.drop (off + src.length)", ""],
    "FnXor": ["import StunVerif.Attr.Addr", "import StunVerif.Gen.MsgType", "namespace StunVerif.Gen", "open StunVerif", ""],
    "FnMsg": ["import StunVerif.Msg.IterState", "import StunVerif.Gen.MsgType", "namespace StunVerif.Gen", "open StunVerif", ""],
    "FnBuilder": ["import StunVerif.Msg.Builder", "namespace StunVerif.Gen", "open StunVerif", ""],
    "FnIntegrity": ["import StunVerif.Msg.ValidateLeaves", "import StunVerif.Gen.MsgType", "namespace StunVerif.Gen", "open StunVerif", ""],
    "FnPolice": ["import StunVerif.Msg.Police", "import StunVerif.Gen.Attr", "import StunVerif.Gen.MsgType", "namespace StunVerif.Gen", "open StunVerif", ""],
    "FnTcp": ["import StunVerif.Bytes", "namespace StunVerif.Gen", "open StunVerif", ""],
}
FALLBACK_FILE = os.path.join(os.path.dirname(os.path.abspath(__file__)), "fn_fallback.json")


def generate(repo, gen_dir):
    src = Src(repo)
    extracted, fallbacks = [], []
    groups = {}
    import json
    snap = json.load(open(FALLBACK_FILE)) if os.path.exists(FALLBACK_FILE) else {}
    for group, name, sig, thunk, _ in items(src):
        try:
            body = thunk()
            extracted.append(name)
        except Exception as e:  # noqa
            if name not in snap:
                raise
            body = snap[name]
            fallbacks.append(f"{name}: {e}")
        if os.environ.get("VERIF_WRITE_FN_SNAPSHOT"):
            snap[name] = body
        groups.setdefault(group, []).append(f"def {name} {sig} :=\n  {body}\n")
    if os.environ.get("VERIF_WRITE_FN_SNAPSHOT"):
        json.dump(snap, open(FALLBACK_FILE, "w"), indent=1, ensure_ascii=False)
    for group, defs in groups.items():
        lines = ["/- GENERATED by tools/extract_fns.py from /repo's working tree on every run. Do not edit.",
                 "   Each definition is the control flow of the Rust function of the same name, statement by",
                 "   statement (early returns become the else-branches of the tests that guard them). -/"] + HEADERS[group] + defs + ["end StunVerif.Gen"]
        text = "\n".join(lines) + "\n"
        path = os.path.join(gen_dir, group + ".lean")
        if not os.path.exists(path) or open(path).read() != text:
            open(path, "w").write(text)
    return dict(extracted=extracted, fallback=fallbacks)


if __name__ == "__main__":
    import sys
    print(generate(sys.argv[1] if len(sys.argv) > 1 else "/repo", sys.argv[2] if len(sys.argv) > 2 else "/tmp/gen"))
