#!/usr/bin/env python3
"""Self-test of the checks against seeded changes (never part of a registered check).

  seedtest.py confirm <seed-dir>          confirm in a scratch worktree (outside /repo and /verif) that the
                                          change passes the suite, and that its demo fails with / passes without it
  seedtest.py run <seed-dir> [ids...]     apply the patch to /repo, run the quick checks (all claimed, or the ids
                                          given), undo the patch, report which checks raise a VIOLATION
Evidence and replays of these runs go to a scratch directory, not to /verif/evidence."""
import sys, os, json, subprocess, shutil, time, re
V = os.path.dirname(os.path.dirname(os.path.abspath(__file__)))
sys.path.insert(0, os.path.join(V, "tools"))
REPO = os.environ.get("VERIF_REPO", "/repo")
ENV = dict(os.environ, CARGO_NET_OFFLINE="true")


def sh(cmd, cwd=None, timeout=3600):
    p = subprocess.run(cmd, cwd=cwd, env=ENV, shell=isinstance(cmd, str), stdout=subprocess.PIPE,
                       stderr=subprocess.STDOUT, text=True, timeout=timeout)
    return p.returncode, p.stdout


def confirm(seed, wt="/tmp/seedconfirm-wt"):
    meta = json.load(open(os.path.join(seed, "meta.json")))
    sh(["git", "-C", REPO, "worktree", "remove", "--force", wt])
    shutil.rmtree(wt, ignore_errors=True)
    rc, out = sh(["git", "-C", REPO, "worktree", "add", "--detach", wt, "HEAD"])
    assert rc == 0, out
    res = {}
    try:
        patch = os.path.abspath(os.path.join(seed, "patch.diff"))
        rc, out = sh(["git", "apply", patch], cwd=wt)
        res["applies"] = rc == 0
        if rc != 0:
            res["apply_out"] = out[-500:]
            return res
        rc, out = sh("cargo test --workspace --no-fail-fast --offline 2>&1", cwd=wt)
        passed = sum(int(x) for x in re.findall(r"test result: \w+\. (\d+) passed", out))
        failed = sum(int(x) for x in re.findall(r"test result: \w+\. \d+ passed; (\d+) failed", out))
        res["suite_with_change"] = dict(rc=rc, passed=passed, failed=failed)
        ddir = os.path.join(wt, meta.get("demo_dir", "stun-types/tests"))
        os.makedirs(ddir, exist_ok=True)
        shutil.copy(os.path.join(seed, "demo.rs"), os.path.join(ddir, "zz_seed_demo.rs"))
        crate = meta.get("demo_dir", "stun-types/tests").split("/")[0]
        rc, out = sh(f"cargo test -p {crate} --test zz_seed_demo --offline 2>&1", cwd=wt)
        res["demo_with_change_fails"] = rc != 0 and "test result: FAILED" in out
        if not res["demo_with_change_fails"]:
            res["demo_with_out"] = out[-800:]
        sh(["git", "apply", "-R", patch], cwd=wt)
        rc, out = sh(f"cargo test -p {crate} --test zz_seed_demo --offline 2>&1", cwd=wt)
        res["demo_without_change_passes"] = rc == 0
        if rc != 0:
            res["demo_without_out"] = out[-800:]
    finally:
        sh(["git", "-C", REPO, "worktree", "remove", "--force", wt])
        shutil.rmtree(wt, ignore_errors=True)
    res["confirmed"] = bool(res.get("applies") and res.get("suite_with_change", {}).get("rc") == 0
                            and res.get("suite_with_change", {}).get("failed") == 0
                            and res.get("demo_with_change_fails") and res.get("demo_without_change_passes"))
    return res


def run(seed, ids):
    from props import PROPS
    import vlib
    ids = ids or sorted(PROPS)
    rc, out = sh(["git", "-C", REPO, "status", "--porcelain"])
    assert out.strip() == "", "/repo is not clean: " + out
    patch = os.path.abspath(os.path.join(seed, "patch.diff"))
    scratch = "/tmp/seedrun-" + os.path.basename(os.path.dirname(os.path.abspath(seed) + "/")) + "-" + os.path.basename(os.path.abspath(seed))
    shutil.rmtree(scratch, ignore_errors=True)
    os.makedirs(scratch)
    env = dict(ENV, VERIF_EVIDENCE_DIR=scratch, VERIF_REPLAY_DIR=scratch)
    results = {}
    rc, out = sh(["git", "-C", REPO, "apply", patch])
    assert rc == 0, out
    try:
        for pid in ids:
            t0 = time.time()
            p = subprocess.run([os.path.join(V, "check"), pid, "--tier", "quick"], cwd=V, env=env,
                               stdout=subprocess.PIPE, stderr=subprocess.STDOUT, text=True)
            viol = [l for l in p.stdout.splitlines() if l.startswith("VIOLATION")]
            results[pid] = dict(rc=p.returncode, violation=viol[:1], wall=round(time.time() - t0, 1),
                                tail=p.stdout.splitlines()[-1:] )
    finally:
        sh(["git", "-C", REPO, "checkout", "--", "."])
        vlib.run_translator()
    caught = [p for p, r in results.items() if r["rc"] == 1 and r["violation"]]
    with_input = [p for p in caught if "no-failing-input-found" not in results[p]["violation"][0]]
    return dict(caught_by=caught, caught_with_failing_input=with_input,
                caught_tie_only=[p for p in caught if p not in with_input], results=results, scratch=scratch)


if __name__ == "__main__":
    cmd, seed = sys.argv[1], sys.argv[2]
    if cmd == "confirm":
        r = confirm(seed, *(sys.argv[3:4]))
    else:
        r = run(seed, sys.argv[3:])
    print(json.dumps(r, indent=1))
