#!/usr/bin/env python3
"""coverage.py [quick|thorough]: which lines of /repo's non-test source does the correspondence run reach?

Development tool (not a registered check): builds the harness with the nightly toolchain and
`-C instrument-coverage` into a scratch target directory under /tmp, runs every family of every
claimed property exactly as ./check does (same seeds, counts, partitions), merges the profiles with
the toolchain's llvm-profdata and prints, per source file of stun-types/stun-proto, the functions and
line ranges outside `#[cfg(test)]` that no case executed.  The correspondence check can only see a change in
code it runs, so these are the places where the tie is blind.  The scratch directory is removed afterwards."""
import sys, os, re, json, subprocess, shutil, glob, concurrent.futures
V = os.path.dirname(os.path.dirname(os.path.abspath(__file__)))
sys.path.insert(0, os.path.join(V, "tools"))
from props import PROPS
TIER = sys.argv[1] if len(sys.argv) > 1 else "quick"
REPO = os.environ.get("VERIF_REPO", "/repo")
SCR = "/tmp/verif-cov"
TC = os.path.expanduser("~/.rustup/toolchains/nightly-x86_64-unknown-linux-gnu")
BIN = os.path.join(TC, "lib/rustlib/x86_64-unknown-linux-gnu/bin")
ENV = dict(os.environ, CARGO_NET_OFFLINE="true", CARGO_TARGET_DIR=SCR + "/target", RUSTFLAGS="-C instrument-coverage",
           LLVM_PROFILE_FILE=SCR + "/prof/%p-%m.profraw")

shutil.rmtree(SCR, ignore_errors=True)
os.makedirs(SCR + "/prof")
r = subprocess.run(["cargo", "+nightly", "build", "--release", "--offline"], cwd=os.path.join(V, "harness"), env=ENV,
                   stdout=subprocess.PIPE, stderr=subprocess.STDOUT, text=True)
if r.returncode != 0:
    print(r.stdout[-3000:])
    sys.exit(2)
hbin = SCR + "/target/release/stunharness"
fams = {}
for pid, cfg in PROPS.items():
    for fam, count, workers in cfg["families"][TIER]:
        fams[(fam, count, workers)] = True
jobs = []
for (fam, count, workers) in fams:
    for w in range(workers):
        jobs.append([hbin, "run", fam, str(1000 + w), str(count), TIER, str(w), str(workers)])
    corpus = os.path.join(V, "corpus", f"{fam}.txt")
    if os.path.exists(corpus):
        jobs.append([hbin, "exec", corpus])


def run(j):
    if j[1] == "exec":
        subprocess.run(j[:2], stdin=open(j[2]), stdout=subprocess.DEVNULL, stderr=subprocess.DEVNULL, env=ENV)
    else:
        subprocess.run(j, stdout=subprocess.DEVNULL, stderr=subprocess.DEVNULL, env=ENV)


with concurrent.futures.ThreadPoolExecutor(16) as ex:
    list(ex.map(run, jobs))
profs = glob.glob(SCR + "/prof/*.profraw")
subprocess.run([BIN + "/llvm-profdata", "merge", "-sparse", "-o", SCR + "/all.profdata"] + profs, check=True)
srcs = sorted(glob.glob(REPO + "/stun-types/src/**/*.rs", recursive=True) + glob.glob(REPO + "/stun-proto/src/**/*.rs", recursive=True))
p = subprocess.run([BIN + "/llvm-cov", "export", "-format=lcov", "-instr-profile", SCR + "/all.profdata", hbin] + srcs,
                   stdout=subprocess.PIPE, stderr=subprocess.PIPE, text=True)
cur, hit = None, {}
for line in p.stdout.splitlines():
    if line.startswith("SF:"):
        cur = line[3:]
        hit.setdefault(cur, {})
    elif line.startswith("DA:"):
        ln, n = line[3:].split(",")[:2]
        hit[cur][int(ln)] = max(hit[cur].get(int(ln), 0), int(n))
report = {}
tot_l = tot_h = 0
for f in srcs:
    txt = open(f).read().splitlines()
    cut = next((i for i, l in enumerate(txt) if l.strip().startswith("#[cfg(test)]")), len(txt))
    lines = {ln: n for ln, n in hit.get(f, {}).items() if ln <= cut}
    miss = sorted(ln for ln, n in lines.items() if n == 0)
    tot_l += len(lines)
    tot_h += len(lines) - len(miss)
    # group into ranges and name the enclosing fn
    rng, start, prev = [], None, None
    for ln in miss:
        if start is None:
            start = prev = ln
        elif ln <= prev + 2:
            prev = ln
        else:
            rng.append((start, prev))
            start = prev = ln
    if start is not None:
        rng.append((start, prev))
    out = []
    for a, b in rng:
        fn = "?"
        for i in range(a - 1, -1, -1):
            m = re.search(r"\bfn\s+([A-Za-z_0-9]+)", txt[i]) if i < len(txt) else None
            if m:
                fn = m.group(1)
                break
        out.append(f"{a}-{b} ({fn})")
    rel = os.path.relpath(f, REPO)
    report[rel] = dict(instrumented_lines=len(lines), executed=len(lines) - len(miss), not_executed=out)
    print(f"{rel}: {len(lines) - len(miss)}/{len(lines)} lines executed; not executed: {', '.join(out) if out else '-'}")
print(f"TOTAL non-test lines executed by the correspondence run: {tot_h}/{tot_l}")
json.dump(dict(tier=TIER, total_lines=tot_l, executed=tot_h, files=report), open(os.path.join(V, "coverage.json"), "w"), indent=1)
shutil.rmtree(SCR, ignore_errors=True)
