"""Translator: reads the current sources under /repo and regenerates
lean/StunVerif/Gen/Source.lean — every constant the properties depend on and every
single-expression integer function, translated token by token (Rust precedence, explicit width
masks) into Lean `Nat` bit operations.

If an item's source shape is no longer recognised the committed fallback value is emitted, the item
is listed under `fallback`, and that item is then covered by the correspondence run only."""
import os, re

# ------------------------------------------------------------------------------ expression translator

TOK = re.compile(r"\s*(0x[0-9a-fA-F_]+(?:u\d+|usize)?|\d[\d_]*(?:u\d+|usize)?|[A-Za-z_][A-Za-z0-9_]*(?:::[A-Za-z_][A-Za-z0-9_]*)*(?:\.\d+)?"
                 r"|<<|>>|==|!=|<=|>=|&&|\|\||[-+*/%&|^()<>!])")

# binary operator -> (precedence, lean operator); higher binds tighter (Rust reference order)
BINOPS = {
    "*": (10, "*"), "/": (10, "/"), "%": (10, "%"),
    "+": (9, "+"), "-": (9, "-"),
    "<<": (8, "<<<"), ">>": (8, ">>>"),
    "&": (7, "&&&"), "^": (6, "^^^"), "|": (5, "|||"),
    "==": (4, "=="), "!=": (4, "!="), "<": (4, "<"), ">": (4, ">"), "<=": (4, "<="), ">=": (4, ">="),
}
AS_PREC = 11


class XlateError(Exception):
    pass


def tokenize(src):
    out, i = [], 0
    src = src.strip()
    while i < len(src):
        m = TOK.match(src, i)
        if not m:
            raise XlateError(f"cannot tokenise at {src[i:i+20]!r}")
        out.append(m.group(1))
        i = m.end()
    return out


def lit(tok):
    t = re.sub(r"(u\d+|usize)$", "", tok).replace("_", "")
    return str(int(t, 16)) if t.lower().startswith("0x") else str(int(t))


class Parser:
    """Pratt parser for Rust integer expressions -> fully parenthesised Lean Nat expression.
    `width` is the bit width of the expression's integer type: `<<`, `+`, `*` are reduced mod
    2^width (wrapping is what survives a shift; for + and * the checked-overflow panic is modelled
    separately where it matters)."""

    def __init__(self, toks, env, width):
        self.t, self.i, self.env, self.width = toks, 0, env, width

    def peek(self):
        return self.t[self.i] if self.i < len(self.t) else None

    def next(self):
        tok = self.peek()
        self.i += 1
        return tok

    def primary(self):
        tok = self.next()
        if tok is None:
            raise XlateError("unexpected end")
        if tok == "(":
            e = self.expr(0)
            if self.next() != ")":
                raise XlateError("expected )")
            return e
        if re.match(r"\d", tok):
            return lit(tok)
        if tok in self.env:
            return self.env[tok]
        raise XlateError(f"unknown identifier {tok}")

    def expr(self, minprec):
        lhs = self.primary()
        while True:
            op = self.peek()
            if op == "as" and AS_PREC >= minprec:
                self.next()
                ty = self.next()
                m = re.match(r"u(\d+)$", ty or "")
                if m:
                    lhs = f"({lhs} % {2 ** int(m.group(1))})"
                    self.width = int(m.group(1))
                elif ty == "usize":
                    pass
                else:
                    raise XlateError(f"cast to {ty}")
                continue
            if op in BINOPS and BINOPS[op][0] >= minprec:
                prec, lop = BINOPS[op]
                self.next()
                rhs = self.expr(prec + 1)
                e = f"({lhs} {lop} {rhs})"
                if op == "<<":
                    e = f"({e} % {2 ** self.width})"
                lhs = e
                continue
            return lhs


def xlate(src, env, width):
    p = Parser(tokenize(src), env, width)
    e = p.expr(0)
    if p.peek() is not None:
        raise XlateError(f"trailing tokens {p.t[p.i:]}")
    return e


# ------------------------------------------------------------------------------ source access

def strip_comments(txt):
    txt = re.sub(r"/\*.*?\*/", "", txt, flags=re.S)
    return "\n".join(re.sub(r"//.*$", "", l) for l in txt.splitlines())


def non_test(txt):
    i = txt.find("#[cfg(test)]")
    return txt if i < 0 else txt[:i]


class Src:
    def __init__(self, repo):
        self.repo = repo
        self.cache = {}

    def get(self, rel):
        if rel not in self.cache:
            try:
                self.cache[rel] = strip_comments(non_test(open(os.path.join(self.repo, rel)).read()))
            except OSError:
                self.cache[rel] = ""
        return self.cache[rel]


def fn_body(txt, header_regex):
    """text between the braces of the first fn whose header matches"""
    m = re.search(header_regex, txt)
    if not m:
        return None
    i = txt.find("{", m.end() - 1)
    if i < 0:
        return None
    depth, j = 0, i
    while j < len(txt):
        if txt[j] == "{":
            depth += 1
        elif txt[j] == "}":
            depth -= 1
            if depth == 0:
                return txt[i + 1:j]
        j += 1
    return None


# ------------------------------------------------------------------------------ items

MSG = "stun-types/src/message.rs"
ATTR = "stun-types/src/attribute/mod.rs"


def items(src):
    """yield (group, lean_name, lean_params, thunk, fallback_text).  thunk returns the Lean body."""
    msg = src.get(MSG)

    def const(txt, name):
        m = re.search(r"const\s+" + name + r"\s*:\s*\w+\s*=\s*([^;]+);", txt)
        if not m:
            raise XlateError(f"const {name} not found")
        return xlate(m.group(1), {}, 128)

    yield ("MsgType", "magicCookie", "", lambda: const(msg, "MAGIC_COOKIE"), "554869826")
    yield ("MsgType", "binding", "", lambda: const(msg, "BINDING"), "1")
    yield ("MsgType", "headerLength", "", lambda: const(msg, "LENGTH"), "20")

    # MessageClass::to_bits : match table in enum order Request, Indication, Success, Error
    def to_bits():
        b = fn_body(msg, r"fn\s+to_bits\s*\(\s*self\s*\)\s*->\s*u16\s*\{")
        if b is None:
            raise XlateError("to_bits not found")
        vals = []
        for cls in ("Request", "Indication", "Success", "Error"):
            m = re.search(r"MessageClass::" + cls + r"\s*=>\s*([^,]+),", b)
            if not m:
                raise XlateError(f"to_bits arm {cls}")
            vals.append(xlate(m.group(1), {}, 16))
        return f"if c = 0 then {vals[0]} else if c = 1 then {vals[1]} else if c = 2 then {vals[2]} else {vals[3]}"
    yield ("MsgType", "classToBits", "(c : Nat)", to_bits, "if c = 0 then 0 else if c = 1 then 16 else if c = 2 then 256 else 272")

    def from_class_method():
        b = fn_body(msg, r"fn\s+from_class_method\s*\(")
        if b is None:
            raise XlateError("from_class_method not found")
        m = re.search(r"let\s+method_bits\s*=\s*([^;]+);", b)
        m2 = re.search(r"Self\s*\(\s*([^)]+)\)", b)
        if not (m and m2 and re.search(r"let\s+class_bits\s*=\s*MessageClass::to_bits\s*\(\s*class\s*\)\s*;", b)):
            raise XlateError("from_class_method shape")
        mb = xlate(m.group(1), {"method": "m"}, 16)
        return xlate(m2.group(1), {"class_bits": "(classToBits c)", "method_bits": mb}, 16)
    yield ("MsgType", "fromClassMethod", "(c m : Nat)", from_class_method,
           "((classToBits c) ||| (((m &&& 15) ||| (((m &&& 112) <<< 1) % 65536)) ||| (((m &&& 3968) <<< 2) % 65536)))")

    def class_of():
        b = fn_body(msg, r"pub\s+fn\s+class\s*\(\s*self\s*\)\s*->\s*MessageClass\s*\{")
        if b is None:
            raise XlateError("class not found")
        m = re.search(r"let\s+class\s*=\s*([^;]+);", b)
        if not m:
            raise XlateError("class shape")
        e = xlate(m.group(1), {"self.0": "v"}, 16)
        # the match table must map 0,1,2,3 to the enum in order
        order = []
        for k, cls in enumerate(("Request", "Indication", "Success", "Error")):
            if not re.search(r"0x0*" + str(k) + r"\s*=>\s*MessageClass::" + cls, b):
                raise XlateError(f"class match arm {k} is not {cls}")
        return e
    yield ("MsgType", "classOf", "(v : Nat)", class_of, "(((v &&& 16) >>> 4) ||| ((v &&& 256) >>> 7))")

    def method_of():
        b = fn_body(msg, r"pub\s+fn\s+method\s*\(\s*self\s*\)\s*->\s*u16\s*\{")
        if b is None:
            raise XlateError("method not found")
        return xlate(b.strip(), {"self.0": "v"}, 16)
    yield ("MsgType", "methodOf", "(v : Nat)", method_of, "(((v &&& 15) ||| ((v &&& 224) >>> 1)) ||| ((v &&& 15872) >>> 2))")

    def not_stun():
        hdr = r"pub\s+fn\s+from_bytes\s*\(\s*data\s*:\s*&\[u8\]\s*\)\s*->\s*Result<Self,\s*StunParseError>\s*\{"
        b = None
        for mm in re.finditer(hdr, msg):
            cand = fn_body(msg[mm.start():], hdr)
            if cand and "NotStun" in cand and "MAGIC_COOKIE" not in cand and re.search(r"let\s+data\s*=\s*BigEndian::read_u16\s*\(\s*data\s*\)", cand):
                b = cand
                break
        if b is None:
            raise XlateError("MessageType::from_bytes not found")
        m = re.search(r"if\s+(data[^{]+)\{[^}]*NotStun", b, flags=re.S)
        if not m:
            raise XlateError("NotStun test shape")
        return "decide " + xlate(m.group(1), {"data": "v"}, 16).replace("!=", "≠").replace("==", "=")
    yield ("MsgType", "typeIsNotStun", "(v : Nat) : Bool", not_stun, "decide ((v &&& 49152) ≠ 0)")

    def tid_from():
        m = re.search(r"impl\s+From<u128>\s+for\s+TransactionId\s*\{\s*fn\s+from\s*\(\s*id\s*:\s*u128\s*\)\s*->\s*Self\s*\{\s*Self\s*\{\s*id\s*:\s*([^,}]+),?\s*\}", msg)
        if not m:
            raise XlateError("TransactionId::from shape")
        return xlate(m.group(1), {"id": "x"}, 128)
    yield ("MsgType", "tidFromU128", "(x : Nat)", tid_from, "(x &&& 79228162514264337593543950335)")



ADDR = "stun-types/src/attribute/address.rs"
FPR = "stun-types/src/attribute/fingerprint.rs"
GROUP_IMPORTS = {"Xor": ["StunVerif.Gen.MsgType"]}


def items_xor(src):
    addr = src.get(ADDR)
    body = fn_body(addr, r"pub\s+fn\s+xor_addr\s*\(") or ""
    # split into the V4 and V6 arms
    i4 = body.find("SocketAddr::V4(addr) =>")
    i6 = body.find("SocketAddr::V6(addr) =>")
    arm4 = body[i4:i6] if 0 <= i4 < i6 else ""
    arm6 = body[i6:] if i6 >= 0 else ""
    env = {"MAGIC_COOKIE": "magicCookie", "addr.port()": "port"}

    def port(arm, name):
        def th():
            m = re.search(r"let\s+port\s*=\s*addr\.port\(\)\s*\^\s*([^;]+);", arm)
            if not m:
                raise XlateError(f"{name}: port expression not found")
            return "(port ^^^ " + xlate(m.group(1), env, 32) + ")"
        return th
    yield ("Xor", "xorPortV4", "(port : Nat)", port(arm4, "v4"), "(port ^^^ ((magicCookie >>> 16) % 65536))")
    yield ("Xor", "xorPortV6", "(port : Nat)", port(arm6, "v6"), "(port ^^^ ((magicCookie >>> 16) % 65536))")

    def const6():
        m = re.search(r"let\s+const_octets\s*=\s*\((.+?)\)\s*\.to_be_bytes\(\)\s*;", arm6, flags=re.S)
        if not m or not re.search(r"let\s+transaction\s*:\s*u128\s*=\s*transaction\.into\(\)\s*;", arm6):
            raise XlateError("v6 const_octets shape")
        if not re.search(r"bytewise_xor!\(\s*16\s*,\s*const_octets\s*,\s*addr_octets\s*,\s*0\s*\)", arm6):
            raise XlateError("v6 bytewise_xor shape")
        return xlate(" ".join(m.group(1).split()), {"MAGIC_COOKIE": "magicCookie", "transaction": "t"}, 128)
    yield ("Xor", "xorConst6", "(t : Nat)", const6,
           "((((magicCookie % 340282366920938463463374607431768211456) <<< 96) % 340282366920938463463374607431768211456) ||| (t &&& 79228162514264337593543950335))")

    def const4():
        if not re.search(r"let\s+const_octets\s*=\s*MAGIC_COOKIE\.to_be_bytes\(\)\s*;", arm4):
            raise XlateError("v4 const_octets shape")
        if not re.search(r"bytewise_xor!\(\s*4\s*,\s*const_octets\s*,\s*addr_octets\s*,\s*0\s*\)", arm4):
            raise XlateError("v4 bytewise_xor shape")
        return "magicCookie"
    yield ("Xor", "xorConst4", "", const4, "magicCookie")

    def fpconst():
        m = re.search(r"const\s+XOR_CONSTANT\s*:\s*\[u8;\s*4\]\s*=\s*\[([^\]]+)\]\s*;", src.get(FPR))
        if not m:
            raise XlateError("XOR_CONSTANT not found")
        vals = [xlate(x, {}, 8) for x in m.group(1).split(",") if x.strip()]
        return "[" + ", ".join(vals) + "]"
    yield ("Xor", "fingerprintXorConstant", ": List Nat", fpconst, "[83, 84, 85, 78]")



KIND_FILES = [("Username", "user.rs"), ("MessageIntegrity", "integrity.rs"), ("ErrorCode", "error.rs"),
              ("UnknownAttributes", "error.rs"), ("Realm", "realm.rs"), ("Nonce", "nonce.rs"),
              ("MessageIntegritySha256", "integrity.rs"), ("PasswordAlgorithm", "password_algorithm.rs"),
              ("Userhash", "user.rs"), ("XorMappedAddress", "xor_addr.rs"), ("Priority", "ice.rs"),
              ("UseCandidate", "ice.rs"), ("PasswordAlgorithms", "password_algorithm.rs"),
              ("AlternateDomain", "alternate.rs"), ("Software", "software.rs"),
              ("AlternateServer", "alternate.rs"), ("Fingerprint", "fingerprint.rs"),
              ("IceControlled", "ice.rs"), ("IceControlling", "ice.rs")]
FALLBACK_CODES = [6, 8, 9, 10, 20, 21, 28, 29, 30, 32, 36, 37, 32770, 32771, 32802, 32803, 32808, 32809, 32810]


def items_attr(src):
    def codes():
        out = []
        for kind, f in KIND_FILES:
            txt = src.get("stun-types/src/attribute/" + f)
            m = re.search(r"impl\s+AttributeStaticType\s+for\s+" + kind + r"\s*\{\s*const\s+TYPE\s*:\s*AttributeType\s*=\s*AttributeType\(([^)]+)\)\s*;", txt)
            if not m:
                raise XlateError(f"TYPE of {kind} not found")
            out.append(xlate(m.group(1), {}, 16))
        return "[" + ", ".join(out) + "]"
    yield ("Attr", "typeCodes", ": List Nat", codes, "[" + ", ".join(map(str, FALLBACK_CODES)) + "]")

    def compreq():
        b = fn_body(src.get(ATTR), r"pub\s+fn\s+comprehension_required\s*\(\s*self\s*\)\s*->\s*bool\s*\{")
        if b is None:
            raise XlateError("comprehension_required not found")
        return "decide " + xlate(b.strip(), {"self.0": "t"}, 16)
    yield ("Attr", "comprehensionRequired", "(t : Nat) : Bool", compreq, "decide (t < 32768)")

    def padded():
        b = fn_body(src.get(ATTR), r"fn\s+padded_attr_len\s*\(\s*len\s*:\s*usize\s*\)\s*->\s*usize\s*\{")
        if b is None:
            raise XlateError("padded_attr_len not found")
        m = re.match(r"\s*if\s+(.+?)\s*\{\s*(.+?)\s*\}\s*else\s*\{\s*(.+?)\s*\}\s*$", b, flags=re.S)
        if not m:
            raise XlateError("padded_attr_len shape")
        cond = xlate(m.group(1), {"len": "len"}, 64).replace("==", "=")
        return f"if {cond} then {xlate(m.group(2), {'len': 'len'}, 64)} else {xlate(m.group(3), {'len': 'len'}, 64)}"
    yield ("Attr", "paddedAttrLen", "(len : Nat)", padded, "if ((len % 4) = 0) then len else ((len + 4) - (len % 4))")

    def ending():
        m = re.search(r"let\s+ending_attributes\s*=\s*\[\s*MessageIntegrity::TYPE\s*,\s*MessageIntegritySha256::TYPE\s*,\s*Fingerprint::TYPE\s*,?\s*\]\s*;", src.get(MSG))
        if not m:
            raise XlateError("ending_attributes shape")
        return "[1, 6, 16]"   # indices into typeCodes: MessageIntegrity, MessageIntegritySha256, Fingerprint
    yield ("Attr", "endingKindIndices", ": List Nat", ending, "[1, 6, 16]")


AGENT = "stun-proto/src/agent.rs"
AMBIENT = ["Instant::now", "SystemTime", "thread_local", "static mut", "lazy_static", "OnceLock", "OnceCell",
           "LazyLock", "rand::", "std::env", "env::var", "UNIX_EPOCH", "process::id", "thread::current"]


def items_agent(src):
    txt = src.get(AGENT)

    def defaults(which):
        def f():
            body = fn_body(txt, r"fn\s+new\s*\(\s*request\s*:\s*MessageBuilder")
            if body is None:
                raise XlateError("StunRequestState::new not found")
            m = re.search(r"if\s+transport\s*==\s*TransportType::Tcp\s*\{\s*\(\s*vec!\[([^\]]*)\]\s*,\s*([0-9_]+)\s*\)\s*\}\s*else\s*\{\s*\(\s*vec!\[([^\]]*)\]\s*,\s*([0-9_]+)\s*\)\s*\}", body)
            if not m:
                raise XlateError("default timeouts shape")
            def lst(t):
                return "[" + ", ".join(xlate(x, {}, 64) for x in t.split(",") if x.strip()) + "]"
            return {"tcpT": lst(m.group(1)), "tcpL": xlate(m.group(2), {}, 64),
                    "udpT": lst(m.group(3)), "udpL": xlate(m.group(4), {}, 64)}[which]
        return f
    yield ("Agent", "defaultUdpTimeouts", ": List Nat", defaults("udpT"), "[500, 1000, 2000, 4000, 8000, 16000]")
    yield ("Agent", "defaultUdpLast", "", defaults("udpL"), "8000")
    yield ("Agent", "defaultTcpTimeouts", ": List Nat", defaults("tcpT"), "[]")
    yield ("Agent", "defaultTcpLast", "", defaults("tcpL"), "39500")

    def idle():
        body = fn_body(txt, r"pub\s+fn\s+poll\s*<\s*'a\s*>\s*\(\s*&mut\s+self\s*,\s*now\s*:\s*Instant\s*\)\s*->\s*StunAgentPollRet")
        if body is None:
            raise XlateError("StunAgent::poll not found")
        m = re.search(r"unwrap_or\(\s*now\s*\+\s*Duration::from_secs\(\s*([0-9_]+)\s*\)\s*\)", body)
        if not m:
            raise XlateError("idle wait shape")
        return xlate(m.group(1), {}, 64)
    yield ("Agent", "idleWaitSecs", "", idle, "3600")

    def ambient():
        # C20 source obligation: ambient-state tokens in the non-test, comment-stripped agent source
        if not txt:
            raise XlateError("agent.rs not found")
        hits = [t for t in AMBIENT if t in txt]
        return "[" + ", ".join('"' + h + '"' for h in hits) + "]"
    yield ("Agent", "ambientTokens", ": List String", ambient, "[]")

    def statics():
        if not txt:
            raise XlateError("agent.rs not found")
        names = re.findall(r"^\s*(?:pub\s+)?static\s+(?:mut\s+)?([A-Z_0-9]+)\s*:", txt, flags=re.M)
        return "[" + ", ".join('"' + n + '"' for n in names) + "]"
    yield ("Agent", "statics", ": List String", statics, '["STUN_AGENT_COUNT"]')

    def static_uses():
        # lines (outside the declaration) that mention the only permitted static
        if not txt:
            raise XlateError("agent.rs not found")
        uses = [l.strip() for l in txt.splitlines() if "STUN_AGENT_COUNT" in l and not re.match(r"\s*static\s", l)]
        return str(len(uses))
    yield ("Agent", "staticUseCount", "", static_uses, "1")


def _range_to_lean(r):
    r = r.strip()
    def opt(x):
        x = x.strip()
        return "none" if x == "" else "some (" + xlate(x, {}, 64) + ")"
    if r == "..":
        return "(none, none)"
    m = re.match(r"^(.*?)\.\.=(.*)$", r)
    if m:
        return f"({opt(m.group(1))}, {opt(m.group(2))})"
    m = re.match(r"^(.*?)\.\.$", r)
    if m:
        return f"({opt(m.group(1))}, none)"
    raise XlateError(f"range shape {r!r}")


def items_limits(src):
    def ranges():
        out = []
        for kind, f in KIND_FILES:
            txt = src.get("stun-types/src/attribute/" + f)
            body = fn_body(txt, r"impl(?:\s*<[^>]*>)?\s+TryFrom\s*<\s*&\s*RawAttribute(?:\s*<[^>]*>)?\s*>\s+for\s+" + kind + r"\s*\{")
            if body is None:
                raise XlateError(f"TryFrom for {kind} not found")
            m = re.search(r"check_type_and_len\(\s*Self::TYPE\s*,\s*([^)]*?)\s*\)", body)
            if m:
                out.append(_range_to_lean(m.group(1)))
            elif kind == "UnknownAttributes" and "!= Self::TYPE" in body:
                out.append("(none, none)")
            else:
                raise XlateError(f"length check of {kind} not found")
        return "[" + ", ".join(out) + "]"
    yield ("Limits", "decodeRanges", ": List (Option Nat × Option Nat)", ranges,
           "[(none, some 513), (some 20, some 20), (some 4, some 767), (none, none), (none, some 763), (none, some 763), (some 16, some 32), (some 4, none), (some 32, some 32), (none, none), (some 4, some 4), (some 0, some 0), (some 4, none), (none, none), (none, some 763), (none, none), (some 4, some 4), (some 8, some 8), (some 8, some 8)]")

    def newlimits():
        out = []
        for kind, f, var in [("Username", "user.rs", "user"), ("Realm", "realm.rs", "realm"),
                             ("Nonce", "nonce.rs", "nonce"), ("Software", "software.rs", "software")]:
            txt = src.get("stun-types/src/attribute/" + f)
            m = re.search(r"if\s+" + var + r"\.len\(\)\s*>\s*([0-9_]+)\s*\{", txt)
            if not m:
                raise XlateError(f"constructor limit of {kind} not found")
            out.append(xlate(m.group(1), {}, 64))
        return "[" + ", ".join(out) + "]"
    yield ("Limits", "textNewLimits", ": List Nat", newlimits, "[513, 763, 763, 763]")


def items_fields(src):
    """field-level constants of decoders: ERROR-CODE class mask / class range / number bound / code formula,
    address family bytes, TCP framing prefix"""
    def errcode():
        txt = src.get("stun-types/src/attribute/error.rs")
        body = fn_body(txt, r"impl(?:\s*<[^>]*>)?\s+TryFrom\s*<\s*&\s*RawAttribute(?:\s*<[^>]*>)?\s*>\s+for\s+ErrorCode\s*\{")
        if body is None:
            raise XlateError("TryFrom for ErrorCode not found")
        m1 = re.search(r"let\s+code_h\s*=\s*\(raw\.value\[2\]\s*&\s*([0-9a-fx_]+)\)\s*as\s+u16\s*;", body)
        m2 = re.search(r"if\s+!\((\d+)\.\.(\d+)\)\.contains\(&code_h\)\s*\|\|\s*code_tens\s*>\s*(\d+)\s*\{", body)
        m3 = re.search(r"let\s+code\s*=\s*code_h\s*\*\s*(\d+)\s*\+\s*code_tens\s*;", body)
        if not (m1 and m2 and m3):
            raise XlateError("ErrorCode decoder shape")
        return f"[{lit(m1.group(1))}, {m2.group(1)}, {m2.group(2)}, {m2.group(3)}, {m3.group(1)}]"
    yield ("Fields", "errorCodeDecode", ": List Nat", errcode, "[7, 3, 7, 99, 100]")

    def family():
        txt = src.get(ADDR)
        b = fn_body(txt, r"pub\(crate\)\s+fn\s+to_byte\s*\(\s*self\s*\)\s*->\s*u8\s*\{")
        f = fn_body(txt, r"pub\(crate\)\s+fn\s+from_byte\s*\(\s*byte\s*:\s*u8\s*\)[^{]*\{")
        if b is None or f is None:
            raise XlateError("AddressFamily::to_byte/from_byte not found")
        m4 = re.search(r"AddressFamily::IPV4\s*=>\s*(0x[0-9a-f]+|\d+)", b)
        m6 = re.search(r"AddressFamily::IPV6\s*=>\s*(0x[0-9a-f]+|\d+)", b)
        r4 = re.search(r"(0x[0-9a-f]+|\d+)\s*=>\s*Ok\(AddressFamily::IPV4\)", f)
        r6 = re.search(r"(0x[0-9a-f]+|\d+)\s*=>\s*Ok\(AddressFamily::IPV6\)", f)
        arms = re.findall(r"=>", f)
        if not (m4 and m6 and r4 and r6) or len(arms) != 3:
            raise XlateError("AddressFamily byte mapping shape")
        return f"[{lit(m4.group(1))}, {lit(m6.group(1))}, {lit(r4.group(1))}, {lit(r6.group(1))}]"
    yield ("Fields", "addressFamilyBytes", ": List Nat", family, "[1, 2, 1, 2]")

    def tcp():
        txt = src.get(AGENT)
        b = fn_body(txt, r"pub\s+fn\s+pull_data\s*\(\s*&mut\s+self\s*\)[^{]*\{")
        if b is None:
            raise XlateError("pull_data not found")
        m1 = re.search(r"if\s+self\.buf\.len\(\)\s*<\s*(\d+)\s*\{", b)
        m2 = re.search(r"let\s+data_length\s*=\s*\(BigEndian::read_u16\(&self\.buf\[\.\.(\d+)\]\)\s*as\s+usize\)\s*\+\s*(\d+)\s*;", b)
        m3 = re.search(r"if\s+self\.buf\.len\(\)\s*<\s*data_length\s*\{", b)
        m4 = re.search(r"Some\(bytes\[(\d+)\.\.\]\.to_vec\(\)\)", b)
        if not (m1 and m2 and m3 and m4):
            raise XlateError("pull_data shape")
        return f"[{m1.group(1)}, {m2.group(1)}, {m2.group(2)}, {m4.group(1)}]"
    yield ("Fields", "tcpFraming", ": List Nat", tcp, "[2, 2, 2, 2]")


def generate(repo, gen_dir):
    """writes <gen_dir>/<Group>.lean for every item group; files are only rewritten when their
    content changes (so that lake's traces stay valid)."""
    if gen_dir.endswith(".lean"):
        gen_dir = os.path.dirname(gen_dir)
    src = Src(repo)
    extracted, fallbacks = [], []
    groups = {}
    import itertools
    for group, name, params, thunk, fallback in itertools.chain(items(src), items_xor(src), items_attr(src), items_agent(src), items_limits(src), items_fields(src)):
        try:
            body = thunk()
            extracted.append(name)
        except Exception as e:  # noqa
            body = fallback
            fallbacks.append(f"{name}: {e}")
        ret = "" if params.strip().startswith(":") or ":" in params.split(")")[-1] else " : Nat"
        groups.setdefault(group, []).append(f"def {name} {params}{ret} := {body}".replace("  ", " "))
    os.makedirs(gen_dir, exist_ok=True)
    for group, defs in groups.items():
        lines = ["/- GENERATED by tools/extract_source.py from /repo's working tree on every run. Do not edit.",
                 "   Each definition is the code's own constant or expression, translated token by token. -/",
                 ] + [f"import {i}" for i in GROUP_IMPORTS.get(group, [])] + ["namespace StunVerif.Gen", ""] + defs + ["", "end StunVerif.Gen"]
        body = "\n".join(lines) + "\n"
        out_path = os.path.join(gen_dir, group + ".lean")
        if not os.path.exists(out_path) or open(out_path).read() != body:
            open(out_path, "w").write(body)
    return dict(extracted=extracted, fallback=fallbacks)


if __name__ == "__main__":
    import sys
    print(generate(sys.argv[1] if len(sys.argv) > 1 else "/repo",
                   sys.argv[2] if len(sys.argv) > 2 else "/tmp/gen"))
