#!/usr/bin/env python3
"""seedkeep.py [--from DIR] <name>...: keep confirmed seeded changes from /tmp/seed/out/<name> as /verif/seeded/<name>/
(patch.diff, demo.rs, meta.json extended with the confirmation and with which checks caught it)."""
import sys, os, json, shutil
V = os.path.dirname(os.path.dirname(os.path.abspath(__file__)))
BASE = "/tmp/seed"
args = sys.argv[1:]
if args and args[0] == "--from":
    BASE = args[1]
    args = args[2:]
for n in args:
    src = f"{BASE}/out/{n}"
    c = json.load(open(f"{BASE}/res/{n}.confirm.json"))
    r = json.load(open(f"{BASE}/res/{n}.run.json"))
    if not c.get("confirmed"):
        print(n, "NOT confirmed, skipped")
        continue
    dst = os.path.join(V, "seeded", n)
    os.makedirs(dst, exist_ok=True)
    for f in ("patch.diff", "demo.rs"):
        shutil.copy(os.path.join(src, f), os.path.join(dst, f))
    meta = json.load(open(os.path.join(src, "meta.json")))
    meta["confirmed_by_me"] = dict(
        how="tools/seedtest.py confirm: scratch worktree of /repo under /tmp, git apply patch.diff, "
            "cargo test --workspace --no-fail-fast --offline (all pass), demo copied to <crate>/tests/zz_seed_demo.rs "
            "and run with the change (fails) and after git apply -R (passes); worktree removed afterwards",
        suite_with_change=c.get("suite_with_change"), demo_with_change_fails=c.get("demo_with_change_fails"),
        demo_without_change_passes=c.get("demo_without_change_passes"))
    meta["checks_run"] = "tools/seedtest.py run: git -C /repo apply patch.diff; ./check <id> --tier quick for every claimed property; git -C /repo checkout -- ."
    meta["caught_by"] = r["caught_by"]
    meta["caught_with_failing_input"] = r.get("caught_with_failing_input")
    meta["caught_tie_only_no_failing_input_found"] = r.get("caught_tie_only")
    if os.path.exists(os.path.join(dst, "meta.json")):
        old = json.load(open(os.path.join(dst, "meta.json")))
        if "history" in old:
            meta["history"] = old["history"]
    meta["verdict_lines"] = {k: v["violation"] for k, v in r["results"].items() if v["violation"]}
    json.dump(meta, open(os.path.join(dst, "meta.json"), "w"), indent=1)
    print(n, "kept; caught by", r["caught_by"])
