#!/usr/bin/env python3
"""Re-run every kept seeded change (seeded/<name>/) against the check of its own property and every check
that caught it before; print one line per seed.  `seedmatrix.py --all` runs every claimed check instead, `--own` only the seed's own property.
Development tool (applies each patch to /repo and undoes it; /repo must be clean); never part of a
registered check."""
import sys, os, json, subprocess
V = os.path.dirname(os.path.dirname(os.path.abspath(__file__)))
sys.path.insert(0, os.path.join(V, "tools"))
import seedtest
full = "--all" in sys.argv
own_only = "--own" in sys.argv
only = [a for a in sys.argv[1:] if not a.startswith("--")]
missed = []
for n in sorted(os.listdir(os.path.join(V, "seeded"))):
    if only and n not in only:
        continue
    d = os.path.join(V, "seeded", n)
    if not os.path.isdir(d):
        continue
    meta = json.load(open(os.path.join(d, "meta.json")))
    ids = [] if full else ([meta["property"]] if own_only else sorted(set(meta.get("caught_by", [])) | {meta["property"]}))
    r = seedtest.run(d, ids)
    own = meta["property"] in r["caught_with_failing_input"]
    if not own:
        missed.append(n)
    print(n, "| failing-input:", r["caught_with_failing_input"], "| tie-only:", r["caught_tie_only"],
          "| silent:", [p for p in r["results"] if p not in r["caught_by"]], "" if own else "  <-- OWN PROPERTY MISSED", flush=True)
print("seeds whose own property's check did not produce a failing input:", missed)
