#!/usr/bin/env python3
"""Self-test of the model-free oracles of tools/project.py: on the unchanged tree no oracle may object to
any generated history (an objection there is a bug of the oracle).  Development tool, not a registered check."""
import sys, subprocess, os
V = os.path.dirname(os.path.dirname(os.path.abspath(__file__)))
sys.path.insert(0, os.path.join(V, "tools"))
import project
tot = 0
obj = {}
for fam, seed, count in [("ag.hist", 5, 3000), ("ag.time", 6, 2000), ("ag.exh", 1, 0), ("ag.pure", 7, 500)]:
    out = subprocess.run([os.path.join(V, "harness/target/release/stunharness"), "run", fam, str(seed), str(count), "quick", "0", "4"],
                         capture_output=True, text=True).stdout
    groups = {}
    lines = out.splitlines()
    for l in lines:
        lhs, _, impl = l.partition(" => ")
        groups.setdefault(project.history_key(lhs), []).append(impl)
    for l in lines:
        lhs, _, impl = l.partition(" => ")
        tot += 1
        for pid, orc in project.ORACLE.items():
            g = groups[project.history_key(lhs)] if pid == "C20" and fam == "ag.pure" else None
            o = orc(lhs, impl, g)
            if o:
                obj.setdefault(pid, []).append((fam, o[:300], lhs[:400]))
print("histories", tot, "objections", {k: len(v) for k, v in obj.items()})
for k, v in obj.items():
    for x in v[:3]:
        print("   ", k, x)
sys.exit(1 if obj else 0)
