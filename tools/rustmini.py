"""A small parser for the subset of Rust that the translated function bodies use, and a
continuation-style emitter that turns a parsed body into a Lean term.

The parser is a plain recursive-descent parser over tokens (comments are stripped beforehand).
It knows: let / let-else, assignments (=, +=, -=), if / if let / else, match, return, break,
continue, for, blocks, closures, method calls, field access, indexing, ranges, casts, unary and
binary operators, struct literals, tuple expressions, macro invocations (kept as opaque nodes),
turbofish.  Anything else raises `XlateError`, and the caller falls back to the committed snapshot
(the item is then covered by the correspondence run only).

The emitter (class `Emitter`) is driven by *templates*: source patterns with metavariables
(`$x`) written in Rust syntax, each mapped to a Lean expression.  Only the leaves are given by
templates (field names, library calls, enum constructors); all control flow -- the order of
tests, early returns, which assignments happen on which path -- is taken from the source text.
"""
import re


class XlateError(Exception):
    pass


TOKEN = re.compile(r"""\s*(
    b?"(?:[^"\\]|\\.)*"                 |   # string literal
    b?'(?:[^'\\]|\\.)'                   |   # char literal
    '[A-Za-z_][A-Za-z0-9_]*              |   # lifetime
    0x[0-9a-fA-F_]+(?:[ui]\d+|usize)?    |
    \d[\d_]*(?:[ui]\d+|usize)?           |
    \$?[A-Za-z_][A-Za-z0-9_]*            |
    \.\.=|\.\.\.|\.\.|::|->|=>|==|!=|<=|>=|&&|\|\||\+=|-=|\*=|<<|>>|
    [-+*/%&|^!=<>(){}\[\],;:.?\#@]
)""", re.X)


def tokenize(src):
    out, i = [], 0
    n = len(src)
    while i < n:
        m = TOKEN.match(src, i)
        if not m:
            if src[i:].strip() == "":
                break
            raise XlateError(f"cannot tokenise at {src[i:i+30]!r}")
        out.append(m.group(1))
        i = m.end()
    return out


MACRO_DROP = {"trace", "debug", "info", "warn", "error", "debug_assert", "debug_assert_eq"}
BIN = [  # (level, ops) low -> high
    ("||",), ("&&",), ("==", "!=", "<", ">", "<=", ">="), ("|",), ("^",), ("&",), ("<<", ">>"),
    ("+", "-"), ("*", "/", "%"),
]


class P:
    def __init__(self, toks):
        self.t, self.i = toks, 0

    def peek(self, k=0):
        j = self.i + k
        return self.t[j] if j < len(self.t) else None

    def next(self):
        tok = self.peek()
        if tok is None:
            raise XlateError("unexpected end of input")
        self.i += 1
        return tok

    def expect(self, tok):
        got = self.next()
        if got != tok:
            raise XlateError(f"expected {tok!r}, got {got!r} near {' '.join(self.t[max(0,self.i-6):self.i+3])}")

    def accept(self, tok):
        if self.peek() == tok:
            self.i += 1
            return True
        return False

    # ---------------------------------------------------------------- helpers
    def skip_balanced(self, open_, close):
        depth = 0
        start = self.i
        while True:
            tok = self.next()
            if tok == open_:
                depth += 1
            elif tok == close:
                depth -= 1
                if depth == 0:
                    return self.t[start + 1:self.i - 1]

    def skip_angle(self):
        depth = 0
        while True:
            tok = self.next()
            if tok == "<":
                depth += 1
            elif tok == ">":
                depth -= 1
            elif tok == ">>":
                depth -= 2
            if depth <= 0:
                return

    def skip_type(self):
        """skip a type up to one of , ; = ) { at depth 0"""
        depth = 0
        while True:
            tok = self.peek()
            if tok is None:
                return
            if depth == 0 and tok in (",", ";", "=", ")", "{", "|"):
                return
            if tok in ("<", "(", "["):
                depth += 1
            elif tok in (">", ")", "]"):
                depth -= 1
            elif tok == ">>":
                depth -= 2
            self.i += 1

    # ---------------------------------------------------------------- patterns
    def pattern(self):
        p = self.pattern1()
        if self.peek() == "|":
            alts = [p]
            while self.accept("|"):
                alts.append(self.pattern1())
            return ("por", alts)
        return p

    def pattern1(self):
        tok = self.peek()
        if tok == "&":
            self.next()
            self.accept("mut")
            return self.pattern1()
        if tok == "_":
            self.next()
            return ("pwild",)
        if tok == "(":
            self.next()
            ps = []
            while not self.accept(")"):
                ps.append(self.pattern())
                self.accept(",")
            return ("ptuple", ps)
        if tok in ("ref", "mut"):
            self.next()
            return self.pattern1()
        if re.match(r"(0x|\d)", tok) or tok in ("true", "false"):
            self.next()
            lo = ("plit", tok)
            if self.peek() in ("..=", ".."):
                op = self.next()
                hi = self.next()
                return ("prange", tok, hi, op == "..=")
            return lo
        if re.match(r"\$?[A-Za-z_]", tok):
            path = self.path()
            if self.peek() == "(":
                self.next()
                ps = []
                while not self.accept(")"):
                    ps.append(self.pattern())
                    self.accept(",")
                return ("pctor", path, ps)
            if self.peek() == "{":
                self.next()
                fs = []
                while not self.accept("}"):
                    if self.accept(".."):
                        continue
                    name = self.next()
                    if self.accept(":"):
                        fs.append((name, self.pattern()))
                    else:
                        fs.append((name, ("pbind", name)))
                    self.accept(",")
                return ("pstruct", path, fs)
            if "::" in path or path[0].isupper():
                return ("ppath", path)
            return ("pbind", path)
        raise XlateError(f"pattern at {tok!r}")

    def path(self):
        parts = [self.next()]
        while self.peek() == "::":
            self.next()
            if self.peek() == "<":
                self.skip_angle()
                continue
            parts.append(self.next())
        return "::".join(parts)

    # ---------------------------------------------------------------- expressions
    def expr(self, no_struct=False):
        return self.range_(no_struct)

    def range_(self, ns):
        if self.peek() in ("..", "..="):
            op = self.next()
            hi = None
            if self.peek() not in (None, ")", "]", ",", ";", "{", "}"):
                hi = self.binary(0, ns)
            return ("range", None, hi, op == "..=")
        lo = self.binary(0, ns)
        if self.peek() in ("..", "..="):
            op = self.next()
            hi = None
            if self.peek() not in (None, ")", "]", ",", ";", "{", "}"):
                hi = self.binary(0, ns)
            return ("range", lo, hi, op == "..=")
        return lo

    def binary(self, lvl, ns):
        if lvl == len(BIN):
            return self.cast(ns)
        lhs = self.binary(lvl + 1, ns)
        while self.peek() in BIN[lvl]:
            op = self.next()
            rhs = self.binary(lvl + 1, ns)
            lhs = ("bin", op, lhs, rhs)
        return lhs

    def cast(self, ns):
        e = self.unary(ns)
        while self.peek() == "as":
            self.next()
            start = self.i
            # a cast type here is a simple path
            ty = self.path()
            e = ("cast", e, ty)
        return e

    def unary(self, ns):
        tok = self.peek()
        if tok in ("!", "-", "*"):
            self.next()
            return ("unary", tok, self.unary(ns))
        if tok in ("&", "&&"):
            self.next()
            self.accept("mut")
            return ("ref", self.unary(ns))
        return self.postfix(ns)

    def args(self):
        out = []
        while not self.accept(")"):
            out.append(self.expr())
            self.accept(",")
        return out

    def postfix(self, ns):
        e = self.primary(ns)
        while True:
            tok = self.peek()
            if tok == ".":
                self.next()
                name = self.next()
                if name == "await":
                    raise XlateError("await")
                if self.peek() == "::":
                    self.next()
                    self.skip_angle()
                if self.peek() == "(":
                    self.next()
                    e = ("mcall", e, name, self.args())
                else:
                    e = ("field", e, name)
            elif tok == "(":
                self.next()
                e = ("call", e, self.args())
            elif tok == "[":
                self.next()
                ix = self.expr()
                self.expect("]")
                e = ("index", e, ix)
            elif tok == "?":
                self.next()
                e = ("try", e)
            else:
                return e

    def primary(self, ns):
        tok = self.peek()
        if tok is None:
            raise XlateError("unexpected end in expression")
        if tok == "(":
            self.next()
            if self.accept(")"):
                return ("tuple", [])
            e = self.expr()
            if self.accept(")"):
                return e
            es = [e]
            while self.accept(","):
                if self.peek() == ")":
                    break
                es.append(self.expr())
            self.expect(")")
            return ("tuple", es)
        if tok == "[":
            self.next()
            es = []
            while not self.accept("]"):
                es.append(self.expr())
                if self.accept(";"):
                    n = self.expr()
                    self.expect("]")
                    return ("repeat", es[0], n)
                self.accept(",")
            return ("array", es)
        if tok == "{":
            return ("block", self.block())
        if tok == "if":
            return self.if_()
        if tok == "match":
            return self.match_()
        if tok in ("|", "||", "move"):
            if tok == "move":
                self.next()
                tok = self.peek()
            self.next()
            params = []
            if tok == "|":
                while not self.accept("|"):
                    params.append(self.pattern1())
                    if self.accept(":"):
                        self.skip_type()
                    self.accept(",")
            body = self.expr()
            return ("closure", params, body)
        if tok in ("return", "break", "continue", "loop", "while", "for", "unsafe", "let"):
            raise XlateError(f"{tok} in expression position")
        if re.match(r"(0x|\d)", tok):
            self.next()
            return ("lit", tok)
        if tok[0] in "\"'" or tok.startswith('b"') or tok.startswith("b'"):
            self.next()
            return ("str", tok)
        if re.match(r"\$?[A-Za-z_]", tok):
            path = self.path()
            if self.peek() == "!":
                self.next()
                open_ = self.peek()
                close = {"(": ")", "[": "]", "{": "}"}.get(open_)
                if close is None:
                    raise XlateError("macro delimiter")
                toks = self.skip_balanced(open_, close)
                return ("macro", path, toks)
            if self.peek() == "{" and not ns and (path[0].isupper() or "::" in path):
                # struct literal
                self.next()
                fs = []
                base = None
                while not self.accept("}"):
                    if self.accept(".."):
                        base = self.expr()
                        continue
                    name = self.next()
                    if self.accept(":"):
                        fs.append((name, self.expr()))
                    else:
                        fs.append((name, ("path", name)))
                    self.accept(",")
                return ("struct", path, fs, base)
            return ("path", path)
        raise XlateError(f"expression at {tok!r}")

    def if_(self):
        self.expect("if")
        if self.accept("let"):
            pat = self.pattern()
            self.expect("=")
            e = self.expr(no_struct=True)
            then = self.block()
            els = self.else_()
            return ("iflet", pat, e, then, els)
        c = self.expr(no_struct=True)
        then = self.block()
        els = self.else_()
        return ("if", c, then, els)

    def else_(self):
        if self.accept("else"):
            if self.peek() == "if":
                return [("expr", self.if_(), False)]
            return self.block()
        return None

    def match_(self):
        self.expect("match")
        e = self.expr(no_struct=True)
        self.expect("{")
        arms = []
        while not self.accept("}"):
            pat = self.pattern()
            guard = None
            if self.accept("if"):
                guard = self.expr(no_struct=True)
            self.expect("=>")
            if self.peek() == "{":
                body = self.block()
                self.accept(",")
            elif self.peek() in ("return", "break", "continue"):
                body = [self.stmt_kw()]
                self.accept(",")
            else:
                body = [("expr", self.expr(), False)]
                if not self.accept(","):
                    if self.peek() != "}":
                        raise XlateError("match arm separator")
            arms.append((pat, guard, body))
        return ("match", e, arms)

    # ---------------------------------------------------------------- statements
    def block(self):
        self.expect("{")
        out = []
        while not self.accept("}"):
            s = self.stmt()
            if s is not None:
                out.append(s)
        return out

    def stmt_kw(self):
        tok = self.next()
        if tok == "return":
            if self.peek() in (";", "}", ","):
                return ("return", None)
            return ("return", self.expr())
        if tok == "break":
            return ("break",)
        return ("continue",)

    def stmt(self):
        tok = self.peek()
        if tok == ";":
            self.next()
            return None
        if tok == "#":          # attribute on a statement
            self.next()
            self.skip_balanced("[", "]")
            return None
        if tok == "let":
            self.next()
            pat = self.pattern()
            if self.accept(":"):
                self.skip_type()
            init = None
            els = None
            if self.accept("="):
                init = self.expr()
                if self.accept("else"):
                    els = self.block()
            self.expect(";")
            return ("let", pat, init, els)
        if tok in ("return", "break", "continue"):
            s = self.stmt_kw()
            self.accept(";")
            return s
        if tok == "for":
            self.next()
            pat = self.pattern()
            self.expect("in")
            it = self.expr(no_struct=True)
            body = self.block()
            return ("for", pat, it, body)
        if tok == "while":
            self.next()
            c = self.expr(no_struct=True)
            body = self.block()
            return ("while", c, body)
        if tok == "loop":
            self.next()
            return ("loop", self.block())
        e = self.expr()
        if self.peek() in ("=", "+=", "-=", "*="):
            op = self.next()
            rhs = self.expr()
            self.accept(";")
            return ("assign", e, op, rhs)
        if self.accept(";"):
            return ("expr", e, True)
        if e[0] in ("if", "iflet", "match", "block") and self.peek() != "}":
            return ("expr", e, True)        # block-like expression statement
        return ("expr", e, False)


def parse_body(src):
    p = P(tokenize("{" + src + "}"))
    b = p.block()
    if p.peek() is not None:
        raise XlateError("trailing tokens after body")
    return b


def parse_expr(src):
    p = P(tokenize(src))
    e = p.expr()
    if p.peek() is not None:
        raise XlateError(f"trailing tokens in template {src!r}")
    return e


def parse_pat(src):
    p = P(tokenize(src))
    e = p.pattern()
    if p.peek() is not None:
        raise XlateError(f"trailing tokens in pattern template {src!r}")
    return e


# ------------------------------------------------------------------------------------ matching

def strip_ref(e):
    while isinstance(e, tuple) and e and e[0] == "ref":
        e = e[1]
    return e


def match(pat, e, b):
    """structural match of template `pat` (metavariables are paths starting with $) against `e`;
    references (&, &mut) are transparent"""
    pat, e = strip_ref(pat), strip_ref(e)
    if isinstance(pat, tuple) and len(pat) == 2 and pat[0] == "path" and pat[1].startswith("$"):
        if e is None:
            return False
        if pat[1] in b:
            return b[pat[1]] == e
        b[pat[1]] = e
        return True
    if isinstance(pat, tuple) and len(pat) == 2 and pat[0] == "pbind" and pat[1].startswith("$"):
        b[pat[1]] = e
        return True
    if type(pat) != type(e):
        return False
    if isinstance(pat, (tuple, list)):
        if len(pat) != len(e):
            return False
        return all(match(x, y, b) for x, y in zip(pat, e))
    return pat == e


def lit(tok):
    t = re.sub(r"([ui]\d+|usize)$", "", tok).replace("_", "")
    return str(int(t, 16)) if t.lower().startswith("0x") else str(int(t))


CMP = {"==": "=", "!=": "≠", "<": "<", ">": ">", "<=": "≤", ">=": "≥"}
ARITH = {"+": "+", "-": "-", "*": "*", "/": "/", "%": "%", "&": "&&&", "|": "|||", "^": "^^^", "<<": "<<<", ">>": ">>>"}


LEAN_RESERVED = {"at", "from", "end", "in", "do", "then", "else", "fun", "open", "show", "have", "where", "with", "by", "local",
                 "instance", "variable", "example", "theorem", "def", "match", "if", "let", "for", "return", "import", "namespace",
                 "section", "using", "class", "structure", "inductive", "abbrev", "macro", "syntax", "private", "protected", "partial", "universe", "attribute", "prefix", "infix", "notation", "extends", "calc", "suffices", "obtain", "exists", "forall", "Type", "Prop", "Sort", "deriving", "mutual"}


def ident(name):
    return name + "_" if name in LEAN_RESERVED else name


class Emitter:
    """
    exprs : list of (rust template, lean template)      pure expressions
    stmts : list of (rust template, lean template)      expression statements that update the state
    lets  : list of (rust template, value, state)       `let p = <call that also updates the state>`
    pats  : list of (rust pattern template, lean pattern)
    fields: dict rust lvalue template -> lean field name (for assignments through `self`)
    state : name of the Lean state variable (or None for a pure function)
    ret   : format of a result, e.g. "({s}, {v})" or "{v}"
    """

    def __init__(self, exprs=(), stmts=(), lets=(), pats=(), assigns=(), state=None, ret="{v}", locals_=()):
        self.exprs = [(parse_expr(a), b) for a, b in exprs]
        self.stmts = [(parse_expr(a), b) for a, b in stmts]   # b: lean text updating the state, or (variable, lean text)
        self._tn = 0
        self.lets = [(parse_expr(a), v, s) for a, v, s in lets]
        self.pats = [(parse_pat(a), b) for a, b in pats]
        self.assigns = [(parse_expr(a), b) for a, b in assigns]
        self.state, self.ret = state, ret
        self.locals = set(locals_)
        self.on_break = self.on_continue = self.on_end = None   # Lean terms for loop bodies
        self.on_while = None                                    # callback (stmt, rest) -> Lean term
        self.on_for = None                                      # callback (stmt, rest) -> Lean term
        self.on_assert = None     # Lean term for a failed debug_assert! (None: assertions are dropped)
        self.on_unreachable = None
        self.consts = {}          # rust path -> lean term, for constant patterns (`Some(MessageIntegrity::TYPE) =>`)
        self.preconditions = []   # contract panics dropped from the translation (recorded, stated in the theorem)

    # -------------------------------------------------------------- expressions
    def subst(self, tmpl, b, ctx="v"):
        for q in b.values():
            if isinstance(q, tuple) and q and q[0] == "pbind":
                self.locals.add(q[1])
        def rep(m):
            q = b[m.group(0)]
            if isinstance(q, tuple) and q and q[0] == "pbind":
                return ident(q[1])
            return self.tx(q, "v")
        return re.sub(r"\$[A-Za-z_][A-Za-z0-9_]*", rep, tmpl)

    def tx(self, e, ctx="v"):
        """ctx 'v' = value position (Bool for conditions), 'c' = condition position (Prop)"""
        e = strip_ref(e)
        for pat, out in self.exprs:
            b = {}
            if match(pat, e, b):
                return self.subst(out, b)
        k = e[0]
        if k == "lit":
            return lit(e[1])
        if k == "path":
            if e[1] in ("true", "false"):
                return e[1]
            if e[1] == "None":
                return "none"
            if e[1] in self.locals:
                return ident(e[1])
            raise XlateError(f"unknown name {e[1]}")
        if k == "call" and e[1] == ("path", "Some") and len(e[2]) == 1:
            return f"(some {self.tx(e[2][0])})"
        if k == "bin":
            op = e[1]
            if op in CMP:
                s = f"({self.tx(e[2])} {CMP[op]} {self.tx(e[3])})"
                return s if ctx == "c" else f"(decide {s})"
            if op in ("&&", "||"):
                if ctx == "c":
                    return f"({self.tx(e[2], 'c')} {'∧' if op == '&&' else '∨'} {self.tx(e[3], 'c')})"
                return f"({self.tx(e[2])} {op} {self.tx(e[3])})"
            if op in ARITH:
                return f"({self.tx(e[2])} {ARITH[op]} {self.tx(e[3])})"
        if k == "unary" and e[1] == "*":
            return self.tx(e[2], ctx)
        if k == "unary" and e[1] == "!":
            if ctx == "c":
                return f"(¬ {self.tx(e[2], 'c')})"
            return f"(!{self.tx(e[2])})"
        if k == "cast" and e[2] == "usize":
            return self.tx(e[1])
        if k == "cast" and re.match(r"u\d+$", e[2]):
            return f"({self.tx(e[1])} % {2 ** int(e[2][1:])})"
        if k == "tuple":
            return "(" + ", ".join(self.tx(x) for x in e[1]) + ")"
        if k == "array":
            return "[" + ", ".join(self.tx(x) for x in e[1]) + "]"
        if k == "repeat":
            return f"(List.replicate {self.tx(e[2])} {self.tx(e[1])})"
        if k == "str" and e[1].startswith('"') and re.fullmatch(r'"[ -!#-\[\]-~]*"', e[1]):
            return e[1]          # a plain ASCII string literal without escapes reads the same in Lean
        if k == "macro" and e[1] == "vec":
            q = P(["["] + list(e[2]) + ["]"])
            arr = q.primary(False)
            if q.peek() is not None:
                raise XlateError("vec! contents")
            return self.tx(arr)
        if k == "closure":
            raise XlateError("closure outside a template")
        if k in ("if", "iflet", "match", "block"):
            return "(" + self.blk([("expr", e, False)], pure=True) + ")"
        raise XlateError(f"untranslatable expression {render(e)[:80]}")

    def pat(self, p):
        for tp, out in self.pats:
            b = {}
            if match(tp, p, b):
                def rep(m):
                    q = b[m.group(0)]
                    return self.pat(q)
                return re.sub(r"\$[A-Za-z_][A-Za-z0-9_]*", rep, out)
        k = p[0]
        if k == "pwild":
            return "_"
        if k == "pbind":
            self.locals.add(p[1])
            return ident(p[1])
        if k == "pctor" and p[1] == "Some" and len(p[2]) == 1:
            return f"some {self.pat(p[2][0])}"
        if k == "ppath" and p[1] == "None":
            return "none"
        if k == "ptuple":
            return "(" + ", ".join(self.pat(x) for x in p[1]) + ")"
        if k == "plit":
            return lit(p[1]) if p[1] not in ("true", "false") else p[1]
        raise XlateError(f"untranslatable pattern {p}")

    # -------------------------------------------------------------- statements (continuation style)
    def result(self, e, pure):
        v = "()" if e is None else self.tx(e)
        if pure:
            return v
        return self.ret.format(s=self.state, v=v)

    def blk(self, stmts, pure=False):
        """translate a statement list in tail position"""
        if not stmts:
            if self.on_end is not None and not pure:
                return self.on_end
            return self.result(None, pure)
        s, rest = stmts[0], stmts[1:]
        k = s[0]
        if not pure and k in ("let", "expr", "return", "assign") and len(s) > 1 and s[1] is not None:
            which = 2 if k == "let" else (3 if k == "assign" else 1)
            if (k != "let" or not any(match(pt, s[2], {}) for pt, _, _ in self.lets)) and \
                    not self._leaf_with_exit(s[which]):
                e2, pre = self._hoist(s[which], keep_root=(k != "assign"))
                if pre:
                    s2 = list(s)
                    s2[which] = e2
                    return self.blk(pre + [tuple(s2)] + rest, pure)
        if k == "break" and self.on_break is not None and not pure:
            return self.on_break
        if k == "continue" and self.on_continue is not None and not pure:
            return self.on_continue
        if k == "return":
            return self.result(s[1], pure=False) if not pure else self._no("return inside a value block")
        if k == "expr":
            e = s[1]
            if e[0] == "macro" and e[1] == "debug_assert" and self.on_assert is not None and not pure:
                toks, depth, cut = e[2], 0, len(e[2])
                for i, t in enumerate(toks):
                    if t in ("(", "[", "{"):
                        depth += 1
                    elif t in (")", "]", "}"):
                        depth -= 1
                    elif t == "," and depth == 0:
                        cut = i
                        break
                q = P(toks[:cut])
                cond = q.expr()
                if q.peek() is not None:
                    raise XlateError("debug_assert! condition")
                return f"(if {self.tx(cond, 'c')} then {self.blk(rest, pure)} else {self.on_assert})"
            if e[0] == "macro" and e[1] == "unreachable" and self.on_unreachable is not None and not pure:
                return self.on_unreachable
            if e[0] == "macro" and not any(match(pt, e, {}) for pt, _ in self.exprs):
                if e[1] in MACRO_DROP:
                    return self.blk(rest, pure)
                if e[1] in ("unreachable", "panic", "unimplemented", "todo"):
                    raise XlateError(f"{e[1]}! on a translated path")
                raise XlateError(f"macro {e[1]}!")
            if e[0] == "if":
                c = self.tx(e[1], "c")
                els = e[3] if e[3] is not None else []
                return f"(if {c} then {self.blk(list(e[2]) + rest, pure)} else {self.blk(list(els) + rest, pure)})"
            if e[0] == "iflet":
                scrut, pre = self.scrutinee(e[2])
                els = e[4] if e[4] is not None else []
                saved = set(self.locals)
                p = self.pat(e[1])
                a = self.blk(list(e[3]) + rest, pure)
                self.locals = saved
                bb = self.blk(list(els) + rest, pure)
                return f"{pre}(match {scrut} with | {p} => {a} | _ => {bb})"
            if e[0] == "match" and self._panic_only(e[2]):
                # `match x { A => panic!(..), B => panic!(..), _ => () }`: a documented contract check; the
                # translation assumes the contract and records it
                self.preconditions.append(f"{render(e[1])} not in {[render(a[0]) for a in e[2][:-1]]}")
                return self.blk(rest, pure)
            if e[0] == "match" and self._needs_chain(e[2]):
                return self._chain(e, rest, pure)
            if e[0] == "match":
                scrut, pre = self.scrutinee(e[1])
                arms = []
                for p, guard, body in e[2]:
                    if guard is not None:
                        raise XlateError("match guard")
                    saved = set(self.locals)
                    lp = self.pat(p)
                    arms.append(f"| {lp} => {self.blk(list(body) + rest, pure)}")
                    self.locals = saved
                return f"{pre}(match {scrut} with " + " ".join(arms) + ")"
            if e[0] == "block":
                return self.blk(list(e[1]) + rest, pure)
            if e == ("tuple", []):
                return self.blk(rest, pure)
            if not s[2] and not rest:
                return self.result(e, pure)
            if e[0] == "try" and s[2]:
                return f"(match {self.tx(e[1])} with | Except.ok _ => {self.blk(rest, pure)} | Except.error __e => Except.error __e)"
            # expression statement with an effect on the state
            for pat, out in self.stmts:
                b = {}
                if match(pat, e, b):
                    if isinstance(out, tuple):
                        return f"let {out[0]} := {self.subst(out[1], b)}; {self.blk(rest, pure)}"
                    return f"let {self.state} := {self.subst(out, b)}; {self.blk(rest, pure)}"
            raise XlateError(f"statement without a template: {render(e)[:80]}")
        if k == "let":
            _, p, init, els = s
            if init is None:
                raise XlateError("let without initialiser")
            for pat, val, st in self.lets:
                b = {}
                if match(pat, init, b):
                    v = self.subst(val, b)
                    pre = f"let __v := {v}; {self.subst(st, b)} "
                    return pre + self._bind(p, "__v", els, rest, pure)
            if init[0] in ("match", "if", "iflet", "block") and els is None and not pure and self._has_exit(init):
                return self._cps_let(p, init, rest, pure)
            if init[0] == "try":
                lp = self.pat(p)
                return f"(match {self.tx(init[1])} with | Except.ok {lp} => {self.blk(rest, pure)} | Except.error __e => Except.error __e)"
            return self._bind(p, self.tx(init), els, rest, pure)
        if k == "while":
            if self.on_while is None:
                raise XlateError("while loop without a loop function")
            return self.on_while(s, rest)
        if k == "for":
            if self.on_for is None:
                raise XlateError("for loop without a loop function")
            return self.on_for(s, rest)
        if k == "assign":
            _, lhs, op, rhs = s
            for pat, fieldname in self.assigns:
                b = {}
                if match(pat, lhs, b):
                    r = self.tx(rhs)
                    if fieldname is None:      # the whole state is replaced
                        if op != "=":
                            raise XlateError("compound assignment to the whole state")
                        return f"let {self.state} := {r}; {self.blk(rest, pure)}"
                    if op == "+=":
                        r = f"({self.state}.{fieldname} + {r})"
                    elif op == "-=":
                        r = f"({self.state}.{fieldname} - {r})"
                    elif op != "=":
                        raise XlateError(f"assignment operator {op}")
                    return f"let {self.state} := {{ {self.state} with {fieldname} := {r} }}; {self.blk(rest, pure)}"
            if lhs[0] == "path" and lhs[1] in self.locals and op in ("=", "+=", "-="):
                r = self.tx(rhs)
                if op != "=":
                    r = f"({lhs[1]} {op[0]} {r})"
                return f"let {lhs[1]} := {r}; {self.blk(rest, pure)}"
            if lhs[0] == "index" and lhs[1][0] == "path" and lhs[1][1] in self.locals and op == "=":
                return f"let {lhs[1][1]} := ({lhs[1][1]}.set {self.tx(lhs[2])} {self.tx(rhs)}); {self.blk(rest, pure)}"
            raise XlateError(f"assignment target {render(lhs)}")
        raise XlateError(f"statement kind {k}")

    def _leaf_with_exit(self, e):
        """is `e` as a whole a leaf template whose early exit is part of the template (nothing to hoist)?"""
        for pt, _ in self.exprs:
            b = {}
            if match(pt, e, b):
                return not any(self._has_exit(q) for q in b.values())
        return False

    def _hoist(self, e, keep_root=True):
        """`f(a?, g(b?)?)` -> `let __t0 = a?; let __t1 = b?; let __t2 = g(__t1)?; f(__t0, __t2)`: every nested `?` that is
        evaluated unconditionally becomes a `let … = …?;` statement in evaluation order (a `?` at the root stays)"""
        pre = []

        def walk(x, top):
            if isinstance(x, list):
                return [walk(y, False) for y in x]
            if not isinstance(x, tuple) or not x:
                return x
            if x[0] in ("closure", "if", "iflet", "match", "block", "macro"):
                if top:
                    return x            # a block-like statement: its own statements are translated in turn
                if self._has_exit(x):
                    raise XlateError("`?` under a conditional sub-expression")
                return x
            if x[0] == "bin" and x[1] in ("&&", "||"):
                lhs = walk(x[2], False)
                if self._has_exit(x[3]):
                    raise XlateError("`?` on the lazy side of && / ||")
                return ("bin", x[1], lhs, x[3])
            if x[0] == "try":
                inner = walk(x[1], False)
                if top:
                    return ("try", inner)
                name = f"__t{self._tn}"
                self._tn += 1
                pre.append(("let", ("pbind", name), ("try", inner), None))
                return ("path", name)
            return tuple(walk(y, False) if isinstance(y, (tuple, list)) else y for y in x)
        return walk(e, keep_root), pre

    def _has_exit(self, e):
        """does the block-like expression contain `?` or `return` (so that it cannot be a pure value)?"""
        if isinstance(e, tuple):
            if e and e[0] in ("try", "return"):
                return True
            return any(self._has_exit(x) for x in e)
        if isinstance(e, list):
            return any(self._has_exit(x) for x in e)
        return False

    def _cps_let(self, p, init, rest, pure):
        """`let p = match … { … };  rest`  with early exits inside the arms: the continuation moves into the arms"""
        def arm(stmts):
            stmts = list(stmts)
            if stmts and stmts[-1][0] == "expr" and not stmts[-1][2]:
                tail = stmts[-1][1]
                return self.blk(stmts[:-1] + [("let", p, tail, None)] + rest, pure)
            return self.blk(stmts, pure)      # ends in return / break
        if init[0] == "block":
            return arm(init[1])
        if init[0] == "if":
            if init[3] is None:
                raise XlateError("let from an if without else")
            return f"(if {self.tx(init[1], 'c')} then {arm(init[2])} else {arm(init[3])})"
        if init[0] == "match":
            scrut, pre = self.scrutinee(init[1])
            arms = []
            for q, guard, body in init[2]:
                if guard is not None:
                    raise XlateError("match guard")
                saved = set(self.locals)
                lp = self.pat(q)
                arms.append(f"| {lp} => {arm(body)}")
                self.locals = saved
            return f"{pre}(match {scrut} with " + " ".join(arms) + ")"
        raise XlateError("let from if-let")

    def _const(self, p):
        if p[0] == "ppath" and p[1] in self.consts:
            return self.consts[p[1]]
        return None

    def _panic_only(self, arms):
        if len(arms) < 2 or arms[-1][0] != ("pwild",):
            return False
        last = arms[-1][2]
        if not (len(last) == 1 and last[0][0] == "expr" and last[0][1] == ("tuple", [])):
            return False
        for p, g, body in arms[:-1]:
            if g is not None or self._const(p) is None:
                return False
            if not (len(body) == 1 and body[0][0] == "expr" and body[0][1][0] == "macro" and body[0][1][1] == "panic"):
                return False
        return True

    def _needs_chain(self, arms):
        for p, g, body in arms:
            if g is not None or self._const(p) is not None:
                return True
            if p[0] == "pctor" and p[1] == "Some" and len(p[2]) == 1 and self._const(p[2][0]) is not None:
                return True
        return False

    def _chain(self, e, rest, pure):
        """match with constant patterns and guards -> if-chain (constants are definitions, not literals).
        Supported arm patterns: CONST, Some(CONST), Some(x) [if guard], None, _"""
        scrut, pre = self.scrutinee(e[1])
        arms = e[2]
        is_opt = any(p[0] == "pctor" and p[1] == "Some" for p, _, _ in arms) or any(p == ("ppath", "None") for p, _, _ in arms)

        def body_of(b):
            return self.blk(list(b) + rest, pure)

        def chain(i, var, in_some):
            if i == len(arms):
                raise XlateError("match chain without a catch-all arm")
            p, g, b = arms[i]
            if p == ("pwild",):
                if g is not None:
                    raise XlateError("guarded wildcard")
                return body_of(b)
            if in_some:
                if p[0] == "pctor" and p[1] == "Some" and len(p[2]) == 1:
                    q = p[2][0]
                    c = self._const(q)
                    if c is not None and g is None:
                        return f"(if {var} = {c} then {body_of(b)} else {chain(i + 1, var, True)})"
                    if q[0] == "pbind":
                        saved = set(self.locals)
                        self.locals.add(q[1])
                        name = ident(q[1])
                        if g is None:
                            r = f"(let {name} := {var}; {body_of(b)})"
                        else:
                            r = f"(let {name} := {var}; if {self.tx(g, 'c')} then {body_of(b)} else {chain(i + 1, var, True)})"
                        self.locals = saved
                        return r
                    raise XlateError("Some(..) pattern shape")
                if p == ("ppath", "None"):
                    return chain(i + 1, var, True)
                raise XlateError("pattern in an Option chain")
            c = self._const(p)
            if c is not None and g is None:
                return f"(if {var} = {c} then {body_of(b)} else {chain(i + 1, var, False)})"
            raise XlateError("pattern in a constant chain")

        if not is_opt:
            return f"{pre}(let __m := {scrut}; {chain(0, '__m', False)})"
        # the None case: first arm that is `None` or `_`
        none_body = None
        for p, g, b in arms:
            if (p == ("ppath", "None") or p == ("pwild",)) and g is None:
                none_body = body_of(b)
                break
        if none_body is None:
            raise XlateError("Option match without a None/_ arm")
        return f"{pre}(match {scrut} with | some __t => {chain(0, '__t', True)} | none => {none_body})"

    def scrutinee(self, e):
        for pat, val, st in self.lets:
            b = {}
            if match(pat, e, b):
                return "__v", f"let __v := {self.subst(val, b)}; {self.subst(st, b)} "
        return self.tx(e), ""

    def _bind(self, p, v, els, rest, pure):
        if els is not None:
            saved = set(self.locals)
            bb = self.blk(list(els), pure)
            lp = self.pat(p)
            return f"(match {v} with | {lp} => {self.blk(rest, pure)} | _ => {bb})"
        lp = self.pat(p)
        return f"let {lp} := {v}; {self.blk(rest, pure)}"

    def _no(self, why):
        raise XlateError(why)


def render(e):
    """canonical text of an AST node (diagnostics only)"""
    if isinstance(e, tuple):
        return "(" + " ".join(render(x) for x in e) + ")"
    if isinstance(e, list):
        return "[" + " ".join(render(x) for x in e) + "]"
    return str(e)
