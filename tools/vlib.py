"""Shared machinery of ./check: translator call, lake/cargo builds, axiom audit, correspondence runs,
verdicts, replays, evidence.  Nothing here is property specific; the per-property table is in
tools/props.py."""
import json, os, re, subprocess, sys, time, hashlib, shutil, concurrent.futures

VERIF = os.path.dirname(os.path.dirname(os.path.abspath(__file__)))
REPO = os.environ.get("VERIF_REPO", "/repo")
LEAN = os.path.join(VERIF, "lean")
HARNESS = os.path.join(VERIF, "harness")
WORK = os.path.join(VERIF, "work")
DRIVER = os.path.join(LEAN, ".lake", "build", "bin", "stunmodel")
HBIN = os.path.join(HARNESS, "target", "release", "stunharness")
ALLOWED_AXIOMS = {"propext", "Classical.choice", "Quot.sound"}
NPROC = min(16, os.cpu_count() or 4)

ENV = dict(os.environ)
ENV["CARGO_NET_OFFLINE"] = "true"


def sh(cmd, cwd=None, timeout=None, input=None):
    p = subprocess.run(cmd, cwd=cwd, env=ENV, stdout=subprocess.PIPE, stderr=subprocess.STDOUT,
                       timeout=timeout, input=input, text=True, shell=isinstance(cmd, str))
    return p.returncode, p.stdout


# ------------------------------------------------------------------------------- translator

def run_translator():
    """Regenerate lean/StunVerif/Gen/Source.lean from /repo's working tree.  Returns the
    translator's report (items extracted / fallen back)."""
    sys.path.insert(0, os.path.join(VERIF, "tools"))
    import extract_source, extract_fns
    rep = extract_source.generate(REPO, os.path.join(LEAN, "StunVerif", "Gen"))
    rep2 = extract_fns.generate(REPO, os.path.join(LEAN, "StunVerif", "Gen"))
    return dict(extracted=rep["extracted"] + rep2["extracted"], fallback=rep["fallback"] + rep2["fallback"])


# ------------------------------------------------------------------------------- lean

def lake_build(targets, timeout=3000):
    t0 = time.time()
    rc, out = sh(["lake", "build"] + targets, cwd=LEAN, timeout=timeout)
    return rc == 0, out, time.time() - t0


def theorem_names(props_file):
    """(namespace-qualified) names of every theorem in a Props file"""
    txt = open(props_file).read()
    txt = strip_lean_comments(txt)
    ns = []
    names = []
    for line in txt.splitlines():
        m = re.match(r"\s*namespace\s+(\S+)", line)
        if m:
            ns.append(m.group(1))
            continue
        m = re.match(r"\s*end\s+(\S+)", line)
        if m and ns and ns[-1] == m.group(1):
            ns.pop()
            continue
        m = re.match(r"\s*(?:@\[[^\]]*\]\s*)?(?:private\s+|protected\s+)?theorem\s+(\S+)", line)
        if m:
            names.append(".".join(ns + [m.group(1)]))
    return names


def strip_lean_comments(txt):
    # block comments (nested) and line comments
    out = []
    i, depth = 0, 0
    n = len(txt)
    while i < n:
        if txt.startswith("/-", i):
            depth += 1
            i += 2
        elif depth and txt.startswith("-/", i):
            depth -= 1
            i += 2
        elif depth:
            if txt[i] == "\n":
                out.append("\n")
            i += 1
        elif txt.startswith("--", i):
            while i < n and txt[i] != "\n":
                i += 1
        else:
            out.append(txt[i])
            i += 1
    return "".join(out)


FORBIDDEN = [r"\bsorry\b", r"\badmit\b", r"^\s*axiom\s", r"\bnative_decide\b", r"\bbv_decide\b",
             r"\bimplemented_by\b", r"\bunsafe\s", r"maxHeartbeats\s+0\b"]


def import_closure(modules):
    """files (relative to lean/) of the project-local import closure of the given modules"""
    seen, todo = set(), list(modules)
    while todo:
        m = todo.pop()
        if m in seen:
            continue
        path = os.path.join(LEAN, *m.split(".")) + ".lean"
        if not os.path.exists(path):
            continue
        seen.add(m)
        for line in open(path):
            mm = re.match(r"\s*import\s+(\S+)", line)
            if mm and (mm.group(1).startswith("StunVerif") or mm.group(1).startswith("Driver")):
                todo.append(mm.group(1))
    return sorted(seen)


def grep_forbidden(modules):
    """forbidden tokens in the import closure of the property's modules and of the driver"""
    hits = []
    for m in import_closure(list(modules) + ["Driver.Main"]):
        p = os.path.join(LEAN, *m.split(".")) + ".lean"
        txt = strip_lean_comments(open(p).read())
        for ln, line in enumerate(txt.splitlines(), 1):
            for pat in FORBIDDEN:
                if re.search(pat, line):
                    hits.append(f"{os.path.relpath(p, LEAN)}:{ln}: {line.strip()[:100]}")
    return hits


def audit(pid, modules):
    """#print axioms for every theorem of the property's Props modules.  Returns
    (list of (theorem, axioms)), problems)"""
    names = []
    for mod in modules:
        path = os.path.join(LEAN, *mod.split(".")) + ".lean"
        names += theorem_names(path)
    os.makedirs(os.path.join(LEAN, "StunVerif", "Audit"), exist_ok=True)
    apath = os.path.join(LEAN, "StunVerif", "Audit", f"{pid}.lean")
    body = "".join(f"import {m}\n" for m in modules) + "".join(f"#print axioms {n}\n" for n in names)
    if not os.path.exists(apath) or open(apath).read() != body:
        open(apath, "w").write(body)
    rc, out = sh(["lake", "env", "lean", apath], cwd=LEAN, timeout=600)
    results = {}
    problems = []
    # output: 'X' depends on axioms: [a, b]   |   'X' does not depend on any axioms
    flat = re.sub(r"\n\s+", " ", out)
    for m in re.finditer(r"'([^']+)' depends on axioms: \[([^\]]*)\]", flat):
        results[m.group(1)] = [a.strip() for a in m.group(2).split(",") if a.strip()]
    for m in re.finditer(r"'([^']+)' does not depend on any axioms", flat):
        results[m.group(1)] = []
    if rc != 0:
        problems.append("audit file failed to elaborate: " + out[-400:])
    for n in names:
        if n not in results:
            problems.append(f"no axiom report for {n}")
        else:
            bad = [a for a in results[n] if a not in ALLOWED_AXIOMS]
            if bad:
                problems.append(f"{n} depends on disallowed axioms {bad}")
    return [(n, results.get(n)) for n in names], problems


def leanchecker(modules):
    """independent re-check of the .olean files of the given modules (thorough tier)"""
    def one(m):
        rc, out = sh(["lake", "env", "leanchecker", m], cwd=LEAN, timeout=1800)
        return m, (rc, out[-300:])
    with concurrent.futures.ThreadPoolExecutor(max_workers=4) as ex:
        return dict(ex.map(one, modules))


def interpreter_crosscheck(sample):
    """re-judge a sample of this run's case lines with `lean --run` (interpreter) and compare with the
    compiled driver's verdicts"""
    lines = [c for c, _ in sample]
    verdicts = [v for _, v in sample]
    p = subprocess.run(["lake", "env", "lean", "--run", "Driver/Main.lean"], cwd=LEAN, input="".join(lines),
                       stdout=subprocess.PIPE, stderr=subprocess.PIPE, text=True, env=ENV, timeout=3000)
    got = p.stdout.splitlines()
    differ = sum(1 for a, b in zip(verdicts, got) if a != b) + abs(len(verdicts) - len(got))
    return dict(lines=len(lines), differ=differ)


# ------------------------------------------------------------------------------- rust

def cargo_build(timeout=1800):
    t0 = time.time()
    lock = os.path.join(HARNESS, "Cargo.lock")
    if not os.path.exists(lock):
        shutil.copy(os.path.join(REPO, "Cargo.lock"), lock)
    rc, out = sh(["cargo", "build", "--release", "--offline"], cwd=HARNESS, timeout=timeout)
    return rc == 0, out, time.time() - t0


# ------------------------------------------------------------------------------- correspondence

def _worker(args):
    fam, seed, count, tier, wdir, idx, corpus, parts = args
    cases = os.path.join(wdir, f"{fam}.{idx}.cases")
    verd = os.path.join(wdir, f"{fam}.{idx}.verdicts")
    t0 = time.time()
    # last-resort watchdog around the whole harness process (the harness has its own per-case watchdog)
    limit = 1500 if tier == "quick" else 6000
    with open(cases, "w") as f:
        try:
            if corpus is not None:
                p = subprocess.run([HBIN, "exec"], stdin=open(corpus), stdout=f, stderr=subprocess.PIPE, env=ENV, timeout=limit)
            else:
                p = subprocess.run([HBIN, "run", fam, str(seed), str(count), tier, str(idx), str(parts)], stdout=f,
                                   stderr=subprocess.PIPE, env=ENV, timeout=limit)
            hrc = p.returncode
            herr = p.stderr.decode(errors="replace")[-500:]
        except subprocess.TimeoutExpired:
            hrc, herr = -9, f"harness process exceeded {limit} s and was killed"
    with open(cases) as fin, open(verd, "w") as fout:
        p2 = subprocess.run([DRIVER], stdin=fin, stdout=fout, stderr=subprocess.PIPE, env=ENV)
    return dict(fam=fam, seed=seed, idx=idx, cases=cases, verdicts=verd, hrc=hrc, herr=herr,
                drc=p2.returncode, derr=p2.stderr.decode(errors="replace")[-500:], wall=time.time() - t0)


def split_verdict(c, v):
    """(lhs, implementation observation, model observation or None) of a case line and its verdict line"""
    lhs, _, impl = c.partition(" => ")
    model = v.split("|| model=", 1)[1] if "|| model=" in v else None
    return lhs, impl, model


class Tally:
    def __init__(self, pid=None):
        self.pid = pid
        self.unrelated = 0          # disagreements invisible at this property's observation level
        self.confirmed = []         # (case, verdict, what the oracle / the pinned observation says)
        self.unconfirmed = []       # relevant disagreements the model-free oracle does not object to
        self.groups = {}            # C20: history -> implementation observations of its executions
        self.interp_sample = []     # (case line, verdict) pairs re-judged by the interpreter in the thorough tier
        self.evaluations = 0
        self.tags = {}
        self.distinct = set()
        self.bad = []          # (case line, impl obs, verdict line)
        self.samples = []
        self.errors = []
        self.by_family = {}

    def absorb(self, res, nontrivial):
        if res["hrc"] != 0:
            self.errors.append(f"harness {res['fam']} seed {res['seed']} exited {res['hrc']}: {res['herr']}")
        if res["drc"] != 0:
            self.errors.append(f"driver {res['fam']} seed {res['seed']} exited {res['drc']}: {res['derr']}")
        with open(res["cases"]) as fc, open(res["verdicts"]) as fv:
            cl = fc.readlines()
            vl = fv.readlines()
        if len(cl) != len(vl):
            self.errors.append(f"{res['fam']} seed {res['seed']}: {len(cl)} cases but {len(vl)} verdicts")
        # sample for the interpreter cross-check of the thorough tier; then free the disk
        step = max(1, len(cl) // 40)
        for i in range(0, min(len(cl), len(vl)), step):
            if len(cl[i]) < 20000 and len(self.interp_sample) < 2000:
                self.interp_sample.append((cl[i], vl[i].rstrip("\n")))
        for f in (res["cases"], res["verdicts"]):
            try:
                os.remove(f)
            except OSError:
                pass
        import project
        if self.pid == "C20":
            for c in cl:
                lhs, _, impl = c.rstrip("\n").partition(" => ")
                self.groups.setdefault(project.history_key(lhs), []).append(impl)
        for c, v in zip(cl, vl):
            c = c.rstrip("\n")
            v = v.rstrip("\n")
            self.evaluations += 1
            self.by_family[res["fam"]] = self.by_family.get(res["fam"], 0) + 1
            if v.startswith("ok"):
                tag = v[3:]
                # histogram key: tag with numbers bucketed away
                key = re.sub(r"\d+", "#", tag)
                self.tags[key] = self.tags.get(key, 0) + 1
                if nontrivial(tag):
                    self.distinct.add(hashlib.blake2b(c.split(" => ")[0].encode(), digest_size=8).digest())
                if len(self.samples) < 6 and (self.evaluations % 997 == 1 or len(self.samples) < 2):
                    self.samples.append(c if len(c) < 400 else c[:400] + "…")
            else:
                self.judge(c, v)

    def judge(self, c, v):
        """a driver BAD line: does it concern this property, and does the implementation's own trace
        violate the property (model-free oracle), or is only the tie broken?"""
        import project
        lhs, impl, model = split_verdict(c, v)
        if model is not None and self.pid:
            if not project.relevant(self.pid, lhs, impl, model):
                self.unrelated += 1
                return
        self.bad.append((c, v))
        orc = project.ORACLE.get(self.pid)
        if orc is None or model is None:
            self.confirmed.append((c, v, "the implementation's observation differs from the one the theorems pin"))
            return
        try:
            group = self.groups.get(project.history_key(lhs)) if self.pid == "C20" else None
            obj = orc(lhs, impl, group)
        except Exception as e:
            obj = f"oracle could not read the observation ({e})"
        if obj:
            self.confirmed.append((c, v, obj))
        else:
            self.unconfirmed.append((c, v))


def run_families(pid, fams, seed, tier, nontrivial, corpus_first=True):
    """fams: list of (family, count_per_worker, workers).  Runs corpus lines first."""
    wdir = os.path.join(WORK, pid)
    shutil.rmtree(wdir, ignore_errors=True)
    os.makedirs(wdir, exist_ok=True)
    jobs = []
    for fam, count, workers in fams:
        corpus = os.path.join(VERIF, "corpus", f"{fam}.txt")
        if corpus_first and os.path.exists(corpus):
            jobs.append((fam, 0, 0, tier, wdir, "corpus", corpus, 1))
        for w in range(workers):
            jobs.append((fam, seed * 1000 + w, count, tier, wdir, w, None, workers))
    tally = Tally(pid)
    with concurrent.futures.ThreadPoolExecutor(max_workers=NPROC) as ex:
        for res in ex.map(_worker, jobs):
            tally.absorb(res, nontrivial)
    return tally


def exec_lines(lines):
    """run case lines (without observation) through the real code and the driver"""
    inp = "\n".join(l.split(" => ")[0] for l in lines) + "\n"
    p = subprocess.run([HBIN, "exec"], input=inp, stdout=subprocess.PIPE, stderr=subprocess.PIPE, text=True, env=ENV)
    cases = p.stdout.splitlines()
    p2 = subprocess.run([DRIVER], input=p.stdout, stdout=subprocess.PIPE, stderr=subprocess.PIPE, text=True, env=ENV)
    return list(zip(cases, p2.stdout.splitlines()))


def shrink(case_line, budget_s=20, pid=None):
    """delta-debug the comma/semicolon separated lists and hex strings of a BAD case line while
    the driver still says BAD"""
    t0 = time.time()
    lhs = case_line.split(" => ")[0]

    def is_bad(l):
        r = exec_lines([l])
        if not (bool(r) and r[0][1].startswith("BAD")):
            return False
        if pid is None:
            return True
        import project
        lhs2, impl, model = split_verdict(r[0][0], r[0][1])
        if model is None or not project.relevant(pid, lhs2, impl, model):
            return model is None
        orc = project.ORACLE.get(pid)
        if orc is None or pid == "C20":
            return True
        try:
            return bool(orc(lhs2, impl, None))
        except Exception:
            return True

    best = lhs
    improved = True
    while improved and time.time() - t0 < budget_s:
        improved = False
        toks = best.split(" ")
        for ti, tok in enumerate(toks):
            if "=" not in tok:
                continue
            k, v = tok.split("=", 1)
            for sep in (";", ","):
                if sep in v:
                    items = v.split(sep)
                    i = 0
                    while i < len(items) and time.time() - t0 < budget_s:
                        cand_items = items[:i] + items[i + 1:]
                        cand = " ".join(toks[:ti] + [k + "=" + sep.join(cand_items)] + toks[ti + 1:])
                        if cand_items and is_bad(cand):
                            items = cand_items
                            toks[ti] = k + "=" + sep.join(items)
                            best = cand
                            improved = True
                        else:
                            i += 1
                    break
    return best


# ------------------------------------------------------------------------------- findings / replays

def load_known():
    p = os.path.join(VERIF, "known_findings.json")
    if not os.path.exists(p):
        return []
    return json.load(open(p)).get("findings", [])


def matches_known(pid, case, verdict, known):
    for k in known:
        if k.get("status") != "open" or k.get("property") != pid:
            continue
        if re.search(k["case_regex"], case) and re.search(k.get("verdict_regex", ""), verdict):
            return k
    return None


def write_replay(pid, seed, n, payload):
    d = os.environ.get("VERIF_REPLAY_DIR") or os.path.join(VERIF, "replays")
    os.makedirs(d, exist_ok=True)
    p = os.path.join(d, f"{pid}-{seed}-{n}.json")
    json.dump(payload, open(p, "w"), indent=1)
    return p


def write_evidence(pid, ev):
    d = os.environ.get("VERIF_EVIDENCE_DIR") or os.path.join(VERIF, "evidence")
    os.makedirs(d, exist_ok=True)
    json.dump(ev, open(os.path.join(d, f"{pid}.json"), "w"), indent=1)
