"""Record a genuine defect: run case lines on the real code (current /repo tree) and the model,
write findings/<id>.json with both observations.  Used once per finding, before the fix commit."""
import sys, os, json, subprocess
sys.path.insert(0, os.path.dirname(os.path.abspath(__file__)))
import vlib

fid, prop, what = sys.argv[1], sys.argv[2], sys.argv[3]
lines = [l.strip() for l in sys.stdin if l.strip()]
res = vlib.exec_lines(lines)
head = subprocess.run(["git", "-C", vlib.REPO, "rev-parse", "HEAD"], capture_output=True, text=True).stdout.strip()
out = dict(id=fid, property=prop, what=what, repo_commit_exhibiting=head,
           cases=[dict(case=c.split(" => ")[0], implementation=c.split(" => ", 1)[1] if " => " in c else None, driver=v) for c, v in res])
os.makedirs(os.path.join(vlib.VERIF, "findings"), exist_ok=True)
json.dump(out, open(os.path.join(vlib.VERIF, "findings", fid + ".json"), "w"), indent=1)
for c, v in res:
    print(c[:300], "||", v[:200])
