"""MANIFEST.setup_cmd: regenerate Gen, build the Lean project (all proofs + driver) and the harness."""
import sys, os
sys.path.insert(0, os.path.dirname(os.path.abspath(__file__)))
import vlib

rep = vlib.run_translator()
print("translator:", rep)
from props import PROPS
mods = sorted({m for c in PROPS.values() for m in c["modules"]})
ok, out, dt = vlib.lake_build(["StunVerif", "stunmodel"] + mods)
print(out[-3000:])
print(f"lake build: ok={ok} {dt:.0f}s")
ok2, out2, dt2 = vlib.cargo_build()
print(out2[-2000:])
print(f"cargo build: ok={ok2} {dt2:.0f}s")
sys.exit(0 if ok and ok2 else 1)
