#!/usr/bin/env python3
"""Regenerate seeded/INDEX.md from the meta.json of every kept seeded change."""
import os, json
V = os.path.dirname(os.path.dirname(os.path.abspath(__file__)))
rows = []
for n in sorted(os.listdir(os.path.join(V, "seeded"))):
    p = os.path.join(V, "seeded", n, "meta.json")
    if not os.path.exists(p):
        continue
    m = json.load(open(p))
    cut = lambda s, k: (s or "").replace("|", "/").replace("\n", " ")[:k]
    h = m.get("history")
    missed = "yes" if (isinstance(h, str) and h) or (isinstance(h, list) and h) else ""
    rows.append(f"| {n} | {cut(m.get('summary'), 230)} | {cut(m.get('needs'), 160)} | {', '.join(m.get('caught_with_failing_input') or []) or '-'} | "
                f"{', '.join(m.get('caught_tie_only_no_failing_input_found') or []) or '-'} | {missed} |")
head = """# Seeded changes

Each directory holds `patch.diff` (applies to /repo with `git apply`), `demo.rs` (fails with the change, passes without), `meta.json` (what it breaks, what it needs to manifest, what was run, which checks catch it).
Columns 4/5: checks that were run against the seed (its own property and those that had caught it in an earlier full run) and reported a VIOLATION with a concrete failing input / with `no-failing-input-found`.

| seed | change | needs | failing input | tie only | first run missed |
|---|---|---|---|---|---|
"""
open(os.path.join(V, "seeded", "INDEX.md"), "w").write(head + "\n".join(rows) + "\n")
print(len(rows), "seeds indexed")
