"""Per-property configuration of ./check."""

COMMON_TRUST = [
    "Lean 4.33.0 kernel (thorough tier: re-checked with leanchecker)",
    "axioms: at most propext, Quot.sound, Classical.choice (audited with #print axioms on every run)",
    "hand-written Lean model of the code, tied to /repo by the differential correspondence run of this check (Rust harness calling the real crates in-process vs the compiled Lean driver)",
    "tools/extract_source.py for the constants/expressions it translates into Gen/Source.lean",
    "leanc-compiled driver executes the same definitions the theorems are about",
    "rustc/std/cargo; the harness is built with overflow-checks and debug-assertions on",
]

PROPS = {
    "C14": dict(
        title="TCP framing buffer returns exactly the frames that were sent",
        modules=["StunVerif.Props.C14"],
        families={"quick": [("tcp", 1500, 4)], "thorough": [("tcp", 30000, 16)]},
        nontrivial=lambda tag: "some=0" not in tag,
        rule="random frame lists (lengths 0,1,2,3,255..257,65534,65535,random) cut into chunks (drip, whole, 1-3 bytes, random) with pulls interleaved, plus every split pattern of six short streams and streams with junk/incomplete tails; non-trivial = at least one frame was returned; distinct = distinct case line",
        trusted=COMMON_TRUST,
        assumptions=["Vec<u8> behaves as a list of bytes (std is trusted)",
                     "buffer sizes stay below usize::MAX"],
        explanation="Theorems pull_complete, pull_sound, pull_none_iff, pull_none_intact, stream_prefix, stream_exact(_from) hold for every frame list, chunking and push/pull schedule of the model Tcp.pull/Tcp.run; the correspondence run executes the same schedules on the real TcpBuffer and compares every pull result exactly.",
    ),
    "C19": dict(
        title="Message type and transaction id fields are encoded bijectively per the RFC",
        modules=["StunVerif.Props.C19"],
        families={"quick": [("mtype", 300, 4)], "thorough": [("mtype", 50000, 16)]},
        nontrivial=lambda tag: "notstun" not in tag,
        rule="EXHAUSTIVE through the real code in both tiers: all 65536 two-byte inputs of MessageType::from_bytes and all 4x4096 (class, method) pairs of from_class_method/class/method/to_bytes/write_into; transaction ids: boundary patterns (0, 2^96-1, 2^96, 2^128-1, every single bit set/cleared) plus random u128 through From<u128>, build, MessageHeader and Message::transaction_id; TransactionId::generate 10^4 (thorough 2*10^5) times; non-trivial = accepted type / every fcm and tid case; distinct = distinct case line",
        trusted=COMMON_TRUST,
        assumptions=["Rust u16/u128 arithmetic is modelled by Nat arithmetic with explicit masks (the translator inserts % 2^w after every shift-left and cast)",
                     "generated ids: the theorem covers conversion from any u128; that generate() goes through that conversion is checked by the translator-independent run of 10^4 calls"],
        explanation="Theorems rfc_layout, decode_encode, refuse_iff, unique, decode_spec, injective, tid_mask, tid_fits, constants are stated about Gen.* -- the code's own expressions, re-translated from /repo on this run -- and are checked by kernel evaluation over the complete finite domains (4x4096, 65536, 16384 values; tid_mask for every natural number). The correspondence run pushes the same complete domains through the real code and compares with the RFC-level Spec.",
    ),
    "C17": dict(
        title="A prefix of a message is reported as truncated with the length still needed",
        modules=["StunVerif.Props.C17"],
        families={"quick": [("msg.cut", 12, 8)], "thorough": [("msg.cut", 400, 16)]},
        nontrivial=lambda tag: True,
        rule="well-formed messages assembled from TLVs (0-3 ordinary attributes from all typed kinds/unknown types x tails over MI, MI-SHA256, FP) cut at EVERY point 0..len, plus MessageHeader::from_bytes on every prefix up to 24 bytes, on the full buffer, on bit-mutated headers and on 20-byte prefixes with zero length (stand-alone decoder vs full parser 'not STUN' verdict); a 65 552-byte message at 40 (thorough 2000) cut points; every case non-trivial; distinct = distinct case line",
        trusted=COMMON_TRUST,
        assumptions=["usize arithmetic does not overflow (lengths < 2^63)"],
        explanation="Theorems prefix_truncated (every well-formed message per the independent Spec.WellFormed, every cut point: Truncated(20 below 20 bytes, else exactly len m; available = prefix length)), header_iff, header_iff_not_nonstun, header_agrees hold for all byte strings of the model headerFromBytes/msgFromBytes; the correspondence run executes all cut points of generated messages on the real parser and header decoder and compares error fields exactly.",
    ),
    "C13": dict(
        title="XOR-MAPPED-ADDRESS returns the address that was put in",
        modules=["StunVerif.Props.C13"],
        families={"quick": [("xor", 3000, 4)], "thorough": [("xor", 200000, 16)]},
        nontrivial=lambda tag: True,
        rule="real XorMappedAddress::{new, addr, to_raw, from_raw} and a trip through MessageBuilder/Message: boundary addresses (all-zero, all-one, cookie-equal, every single bit) x ports (quick: 4096 spread ports per boundary address, thorough: all 65536) x transaction ids (0, 2^96-1, cookie-valued, random) decoded under the same and under a different id, plus random (address, port, tid); distinct = distinct case line",
        trusted=COMMON_TRUST,
        assumptions=["IPv6 flowinfo/scope_id are not on the wire and outside the property's quantifier",
                     "std::net address types carry the bytes unchanged (std trusted)"],
        explanation="Theorems xor_involutive, built_decodes, xor_wf, wire_layout (RFC 8489 s14.2 against literal constants), wire_roundtrip, v6_tid_sensitive, v4_tid_insensitive hold for all addresses, ports and transaction ids (byte-list algebra, no enumeration); src_port, src_const4, src_const6(_value), src_fp_const prove that the code's own mask/key expressions, re-translated from address.rs on this run, are the model's constants. The correspondence run compares wire bytes and decoded addresses exactly.",
    ),
}
