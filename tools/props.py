"""Per-property configuration of ./check."""

COMMON_TRUST = [
    "Lean 4.33.0 kernel (thorough tier: re-checked with leanchecker)",
    "axioms: at most propext, Quot.sound, Classical.choice (audited with #print axioms on every run)",
    "hand-written Lean model of the code, tied to /repo by the differential correspondence run of this check (Rust harness calling the real crates in-process vs the compiled Lean driver)",
    "tools/extract_source.py for the constants/expressions it translates into Gen/Source.lean",
    "leanc-compiled driver executes the same definitions the theorems are about",
    "rustc/std/cargo; the harness is built with overflow-checks and debug-assertions on",
]

PROPS = {
    "C14": dict(
        title="TCP framing buffer returns exactly the frames that were sent",
        modules=["StunVerif.Props.C14"],
        families={"quick": [("tcp", 1500, 4)], "thorough": [("tcp", 30000, 16)]},
        nontrivial=lambda tag: "some=0" not in tag,
        rule="random frame lists (lengths 0,1,2,3,255..257,65534,65535,random) cut into chunks (drip, whole, 1-3 bytes, random) with pulls interleaved, plus every split pattern of six short streams and streams with junk/incomplete tails; non-trivial = at least one frame was returned; distinct = distinct case line",
        trusted=COMMON_TRUST,
        assumptions=["Vec<u8> behaves as a list of bytes (std is trusted)",
                     "buffer sizes stay below usize::MAX"],
        explanation="Theorems pull_complete, pull_sound, pull_none_iff, pull_none_intact, stream_prefix, stream_exact(_from) hold for every frame list, chunking and push/pull schedule of the model Tcp.pull/Tcp.run; the correspondence run executes the same schedules on the real TcpBuffer and compares every pull result exactly.",
    ),
}
