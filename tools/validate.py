"""validate MANIFEST.json and evidence/*.json against the given schemas (uses python3-vt's jsonschema)"""
import json, sys, glob, os
import jsonschema
V = os.path.dirname(os.path.dirname(os.path.abspath(__file__)))
ms = json.load(open("/root/.vp/MANIFEST.schema.json"))
es = json.load(open("/root/.vp/EVIDENCE.schema.json"))
bad = 0
try:
    jsonschema.validate(json.load(open(os.path.join(V, "MANIFEST.json"))), ms)
    print("MANIFEST ok")
except Exception as e:
    bad += 1
    print("MANIFEST INVALID", str(e)[:500])
for f in sorted(glob.glob(os.path.join(V, "evidence", "*.json"))):
    try:
        jsonschema.validate(json.load(open(f)), es)
        print(os.path.basename(f), "ok")
    except Exception as e:
        bad += 1
        print(os.path.basename(f), "INVALID", str(e)[:500])
sys.exit(1 if bad else 0)
