"""Per-property projections and model-free oracles.

A correspondence line is `family k=v… => <implementation observation>`; the driver answers `ok <tag>` or
`BAD <reason> || model=<model observation>`.  A disagreement belongs to a property only if it is visible
at the observation level that property talks about: `project(pid, lhs, obs)` maps an observation to that
level, and a BAD line counts for `pid` iff the projections of the implementation's and the model's
observation differ.  Disagreements that vanish under the projection are counted as `unrelated` in the
evidence (they are some other property's business).

For the history properties whose statement can be evaluated on the implementation's own trace without
the model (C05, C15, C18, C20) there is in addition an `oracle(pid, lhs, obs, group)`: it returns a
description of the violated clause, or None.  A relevant disagreement on which the oracle has no
objection means the tie is broken but no failing input is exhibited (no-failing-input-found)."""
import re

ADDRS = ["4:c0000201:3478", "4:c0000201:3479", "6:20010db8000000000000000000000001:3478", "4:0a000001:9",
         "6:00000000000000000000ffffc0000207:3478", "4:c0000207:3478",
         "6:fe800000000000000000000000000001%2:3478", "6:fe800000000000000000000000000001%3:3478",
         "6:fe800000000000000000000000000001%3.4660:3478", "6:20010db8000000000000000000000001%0.7:3478"]
TIDS = [0x01, 0x0203_0405_0607_0809_0a0b_0c0d, 0xffff_ffff_ffff_ffff_ffff_ffff, 0x2112_a442, 0x7000_0000_0000_0000_0000_0001,
        0x1_0000_0001_0000_0000, 0x8000_0000_0000_0000_0000_0001]


def kv_of(lhs):
    d = {}
    for tok in lhs.split(" ")[1:]:
        if "=" in tok:
            k, v = tok.split("=", 1)
            d[k] = v
    return d


def fam_of(lhs):
    return lhs.split(" ", 1)[0]


# ------------------------------------------------------------------------------ codec projections

def _panic_only(lhs, obs):
    return "panic" if "panic" in obs or "timeout" in obs else "returned"


def _only_ops(ops, inner=None):
    def f(lhs, obs):
        op = kv_of(lhs).get("op", "")
        if fam_of(lhs) == "msg" and op not in ops:
            return ""
        return inner(lhs, obs) if inner else obs
    return f


def _c02(lhs, obs):
    """parse lines in full; typed extraction only as found / decoding error / missing per kind (lookups
    return the first match; what the value decodes to is C08's business)"""
    op = kv_of(lhs).get("op", "")
    if op == "parse":
        return obs
    if op == "typed":
        return "|".join(e.split(":")[0] for e in obs.split("|"))
    return ""


def _c10(lhs, obs):
    op = kv_of(lhs).get("op", "")
    if op == "parse":
        if not obs.startswith("ok "):
            return "not-accepted"          # whether a buffer is accepted is C02's business
        m = re.search(r"attrs=(\S+) look=(\S+)", obs)
        return m.group(0) if m else obs
    if op == "typed":
        if obs == "noparse":
            return "not-accepted"
        return "|".join("missing" if e == "missing" else "present" for e in obs.split("|"))
    return ""


def _c04_msg(lhs, obs):
    op = kv_of(lhs).get("op", "")
    if op != "validate":
        return ""
    if obs.startswith("ok "):
        return obs
    if obs.startswith("err missing"):
        return "missing"
    return "fails"                          # refused by the parser or by validation: the property does not say which


def _bld_fields(obs):
    """list of per-op outputs of a bld line"""
    return obs.split(";")


def _q_fields(o):
    d = {}
    # b=..,len=..,has=..,btid=..,cls=..,p=ok,c,m,tid,attrs,v=...
    m = re.match(r"b=([0-9a-f-]*),len=(\d+),has=([01]*)(?:,btid=([0-9a-f]+),cls=(\d+))?,p=(.*),v=(.*)$", o)
    if not m:
        return None
    d["b"], d["len"], d["has"], d["p"], d["v"] = m.group(1), m.group(2), m.group(3), m.group(6), m.group(7)
    return d


def _c04_bld(lhs, obs):
    ops = kv_of(lhs).get("ops", "").split(";")
    outs = _bld_fields(obs)
    keep = []
    for op, o in zip(ops, outs):
        if op.startswith("m1/") or op.startswith("m2/"):
            keep.append(o)
        elif op.startswith("q/"):
            q = _q_fields(o)
            keep.append(("v=" + q["v"] + ",p=" + q["p"].split(",")[0]) if q else o)
        elif op.startswith("wp/"):
            keep.append(o.rsplit(",v=", 1)[-1] if ",v=" in o else o)
    return ";".join(keep)


def _c09_bld(lhs, obs):
    ops = kv_of(lhs).get("ops", "").split(";")
    outs = _bld_fields(obs)
    has_fp = "fp" in ops
    keep = []
    for op, o in zip(ops, outs):
        if op == "fp":
            keep.append(o)
        elif op.startswith("q/") and has_fp:
            q = _q_fields(o)
            # the bytes (the CRC is the last attribute) and whether the parser accepts them
            keep.append(("b=" + q["b"] + ",p=" + q["p"].split(",")[0]) if q else o)
        elif op.startswith("wp/") and has_fp:
            keep.append(o.split(",")[0])       # wp=ok / wp=err_…: does the in-place image still parse
    return ";".join(keep)


def _c11_bld(lhs, obs):
    """accept/refuse of every operation, the builder's queries, and whether bytes changed — bytes are
    replaced by their first-occurrence index within the line, so that 'unchanged after a refused
    operation' stays visible while the encoding of individual attributes (C08/C12) does not matter"""
    ops = kv_of(lhs).get("ops", "").split(";")
    outs = _bld_fields(obs)
    seen = {}
    keep = []
    for op, o in zip(ops, outs):
        if op.startswith("q/"):
            q = _q_fields(o)
            if not q:
                keep.append(o)
                continue
            idx = seen.setdefault(q["b"], len(seen))
            keep.append(f"b#{idx},len={q['len']},has={q['has']},p={q['p'].split(',')[0]},v={q['v']}")
        elif op == "t" or op.startswith("w/") or op.startswith("wp/"):
            keep.append("")
        else:
            keep.append(o)
    return ";".join(keep)


def _c09_msg(lhs, obs):
    return "accepted" if obs.startswith("ok") else "refused"


def _c09_attr(lhs, obs):
    return obs if kv_of(lhs).get("k") == "Fingerprint" else ""


def _c16(lhs, obs):
    return "" if obs == "noparse" else obs


# ------------------------------------------------------------------------------ agent projections

def _ag_split(obs):
    """[(reply, snapshot dict)] per op"""
    out = []
    for part in obs.split(";"):
        if "|" in part:
            reply, snap = part.split("|", 1)
        else:
            reply, snap = part, ""
        d = {}
        for tok in snap.split(" "):
            if "=" in tok:
                k, v = tok.split("=", 1)
                d[k] = v
        out.append((reply, d))
    return out


def _reply_kind(reply, instants, txfull):
    r = reply.split(" ")[0]
    if r.startswith("tx:"):
        return r if txfull else ":".join(r.split(":")[:2])
    if r.startswith("wait:"):
        return r if instants else "wait"
    return r


def _ag_proj(instants, txfull, fields, extra=False):
    def f(lhs, obs):
        res = []
        for reply, snap in _ag_split(obs):
            s = _reply_kind(reply, instants, txfull)
            if extra:
                s += " " + " ".join(reply.split(" ")[1:])
            res.append(s + "|" + ",".join(f"{k}={snap.get(k, '')}" for k in fields))
        return ";".join(res)
    return f


def _c15_proj(lhs, obs):
    ops = kv_of(lhs).get("ops", "").split(";")
    res = []
    for op, (reply, snap) in zip(ops, _ag_split(obs)):
        r = reply.split(" ")[0].split(":")[0] if op.startswith("H/") else ""
        res.append(r + "|v=" + snap.get("v", ""))
    return ";".join(res)


# ------------------------------------------------------------------------------ agent oracles (model-free)

def _tid_index(hexs):
    try:
        return TIDS.index(int(hexs, 16))
    except ValueError:
        return None


def oracle_c15(lhs, obs, group=None):
    """is_validated_peer(a) after every call == some earlier call handed over a request/indication from a
    or delivered a response from a"""
    ops = kv_of(lhs).get("ops", "").split(";")
    exp = [False] * len(ADDRS)
    for i, (op, (reply, snap)) in enumerate(zip(ops, _ag_split(obs))):
        p = op.split("/")
        if p[0] == "H":
            kind = reply.split(" ")[0].split(":")[0]
            if kind in ("resp", "incoming") and p[5] in ADDRS:
                exp[ADDRS.index(p[5])] = True
        want = "".join("1" if x else "0" for x in exp)
        if snap.get("v", want) != want:
            return f"call {i} ({op[:40]}): validated peers {snap.get('v')} but the accepted-message history gives {want}"
    return None


def oracle_c18(lhs, obs, group=None):
    """every transmission = bytes of the most recent accepted send of that id, from local to that send's
    destination over the agent's transport; peer_address = that destination; non-requests once"""
    kv = kv_of(lhs)
    ops = kv.get("ops", "").split(";")
    local, tr = kv.get("local", ""), kv.get("tr", "udp")
    origin = {}     # tid int -> (built hex, to)
    for i, (op, (reply, snap)) in enumerate(zip(ops, _ag_split(obs))):
        p = op.split("/")
        head = reply.split(" ")[0]
        built = None
        m = re.search(r"built=([0-9a-f]*)", reply)
        if m:
            built = m.group(1)
        if p[0] == "S" and head.startswith("tx:"):
            f = head.split(":")
            # tx:<tid>:<hex>:<fam>:<ip>:<port>:<fam>:<ip>:<port>:<tr>
            data, frm, to, t = f[2], ":".join(f[3:6]), ":".join(f[6:9]), f[9]
            if data != built or frm != local or to != p[4] or t != tr:
                return f"call {i}: send transmitted {data[:24]}… from {frm} to {to} over {t}, expected the built message from {local} to {p[4]} over {tr}"
            if p[2] == "0":
                origin[int(p[1], 16)] = (built, p[4])
        elif p[0] == "S" and p[2] != "0":
            return f"call {i}: an indication/response handed to send was not transmitted ({head})"
        elif p[0] == "P" and head.startswith("tx:"):
            f = head.split(":")
            tid = int(f[1], 16) if f[1] != "short" else None
            data, frm, to, t = f[2], ":".join(f[3:6]), ":".join(f[6:9]), f[9]
            served = None
            for k, (b, dst) in origin.items():
                if b == data and dst == to:
                    served = k
            if served is None or frm != local or t != tr:
                return f"call {i}: poll transmitted {data[:24]}… from {frm} to {to} over {t}: not the bytes/destination of any accepted send still on record"
        # peer addresses of outstanding ids
        o, pp = snap.get("o"), snap.get("p")
        if o and pp:
            for j, (bit, pa) in enumerate(zip(o, pp.split(","))):
                if bit == "1" and TIDS[j] in origin:
                    dst = origin[TIDS[j]][1]
                    want = str(ADDRS.index(dst)) if dst in ADDRS else dst
                    if pa != want:
                        return f"call {i}: peer_address of id #{j} is {pa}, the send's destination was {want}"
    return None


def oracle_c05(lhs, obs, group=None):
    """outstanding == last life-cycle event is an accepted send; ends at most once; transmissions only
    while live; responses for ids that are not outstanding change nothing; duplicate send refused
    without a trace"""
    ops = kv_of(lhs).get("ops", "").split(";")
    live = {}
    asked = set()      # tids for which cancel / cancel_retransmissions was called since their (last accepted) send
    prev_snap = None
    for i, (op, (reply, snap)) in enumerate(zip(ops, _ag_split(obs))):
        p = op.split("/")
        head = reply.split(" ")[0]
        snaps = (snap.get("o"), snap.get("p"), snap.get("v"))
        if p[0] in ("C", "R") and head == "ok":
            asked.add(int(p[1], 16))
        if p[0] == "S" and p[2] == "0" and head.startswith("tx:"):
            asked.discard(int(p[1], 16))
        if p[0] == "P" and head.startswith("cancelled:") and int(head.split(":")[1], 16) not in asked:
            return (f"call {i}: transaction {head.split(':')[1]} ended as 'cancelled' although neither cancel nor cancel_retransmissions "
                    f"was called for it since it was sent (a request handed to the agent must end by its own response, time-out or cancellation)")
        if p[0] == "S" and p[2] == "0":
            tid = int(p[1], 16)
            if live.get(tid):
                if head != "inprogress":
                    return f"call {i}: send of an outstanding id answered {head}, not AlreadyInProgress"
                if prev_snap is not None and snaps != prev_snap:
                    return f"call {i}: refused duplicate send changed the agent's observable state"
            else:
                if not head.startswith("tx:"):
                    return f"call {i}: send of a free id answered {head}"
                live[tid] = True
        elif p[0] == "H":
            tid = int(p[2], 16)
            if head.startswith("resp:"):
                if not live.get(tid):
                    return f"call {i}: response delivered for an id that is not outstanding"
                live[tid] = False
            elif p[1].split("+")[0].split("@")[0] in ("ok", "err") and not live.get(tid):
                if head != "drop" or (prev_snap is not None and snaps != prev_snap):
                    return f"call {i}: response for an id that is not outstanding was not dropped without a trace ({head})"
        elif p[0] == "P":
            if head.startswith("tx:"):
                t = head.split(":")[1]
                tid = int(t, 16) if t != "short" else None
                if not live.get(tid):
                    return f"call {i}: transmission for id {t} which is not outstanding"
            elif head.startswith("timedout:") or head.startswith("cancelled:"):
                tid = int(head.split(":")[1], 16)
                if not live.get(tid):
                    return f"call {i}: {head} for an id that is not outstanding (ended twice or never started)"
                live[tid] = False
        o = snap.get("o")
        if o:
            for j, bit in enumerate(o):
                if (bit == "1") != bool(live.get(TIDS[j])):
                    return f"call {i} ({op[:30]}): request_transaction(id #{j}).is_some() = {bit} but its life-cycle events say {int(bool(live.get(TIDS[j])))}"
        prev_snap = snaps
    return None


def _canon_same_instant_polls(lhs, obs):
    """the hash-map order in which several ready transactions are served differs between agent
    instances; within a run of consecutive polls at one instant the replies are compared as a multiset"""
    ops = kv_of(lhs).get("ops", "").split(";")
    parts = obs.split(";")
    out, i = [], 0
    while i < len(parts):
        j = i
        if i < len(ops) and ops[i].startswith("P/"):
            while j + 1 < len(parts) and j + 1 < len(ops) and ops[j + 1] == ops[i]:
                j += 1
        out.extend(sorted(parts[i:j + 1]))
        i = j + 1
    return ";".join(out)


def oracle_c20(lhs, obs, group=None):
    """the executions of one history (unshifted, shifted, threaded/decoys/interleaved, past base) must give
    the same normalised observation; `group` = observations of the lines that share this history.
    The executions are compared call by call up to their first divergence.  A divergence is legitimate only
    if it is a poll at which every execution served SOME transaction, just not the same one (several were
    ready and the hash-map order differs per agent instance); from there on no verdict is possible without
    the model.  Any other first divergence (a different wake-up, a reply of a different kind, a different
    snapshot) contradicts the property."""
    if not group or len(group) < 2:
        return None
    runs = [g.split(";") for g in group]
    ops = kv_of(lhs).get("ops", "").split(";")
    for i in range(min(len(r) for r in runs)):
        cells = {r[i] for r in runs}
        if len(cells) == 1:
            continue
        heads = [c.split("|")[0].split(" ")[0] for c in cells]
        served = all(h.startswith(("tx:", "timedout:", "cancelled:")) for h in heads)
        if i < len(ops) and ops[i].startswith("P/") and served and len({h.split(":")[1] for h in heads}) > 1:
            return None
        return f"executions of the same history diverge at call {i} ({ops[i][:40] if i < len(ops) else '?'}): " + \
            " / ".join(sorted(c[:100] for c in cells))
    return None


def oracle_c07(lhs, obs, group=None):
    """a response to a sealed request is delivered only with remote credentials under which it validates
    (ground truth from the operation: which key signed it, whether the HMAC was corrupted); an unsealed
    request accepts any response; a dropped response leaves the outstanding set and the validated peers
    alone and does not move the wake-up"""
    ops = kv_of(lhs).get("ops", "").split(";")
    sealed = {}        # tid -> bool for outstanding requests
    asked = set()      # tids for which cancel / cancel_retransmissions was called since their send
    remote = None
    last_wait = None   # (now, wait instant) of the last poll that answered WaitUntil, if only drops happened since
    prev = None
    for i, (op, (reply, snap)) in enumerate(zip(ops, _ag_split(obs))):
        p = op.split("/")
        head = reply.split(" ")[0]
        cur = (snap.get("o"), snap.get("v"))
        if p[0] == "K":
            remote = p[1]
        if p[0] == "S" and p[2] == "0" and head.startswith("tx:"):
            sealed[int(p[1], 16)] = p[3] != "n"
            asked.discard(int(p[1], 16))
        if p[0] in ("C", "R") and head == "ok":
            asked.add(int(p[1], 16))
        if p[0] == "P" and head.startswith("cancelled:"):
            t = int(head.split(":")[1], 16)
            if t not in asked:
                return (f"call {i}: transaction {t:x} was reported cancelled although neither cancel nor cancel_retransmissions "
                        f"was called for it since it was sent (responses must not be able to cancel a transaction)")
        if p[0] == "H" and p[1].split("+")[0].split("@")[0] in ("ok", "err"):
            tid = int(p[2], 16)
            if tid in sealed:
                signkey = p[3].split(":")[1] if ":" in p[3] else None
                # corrupt: 1 = one HMAC bit flipped; 2..4 = an illegal-size integrity attribute appended to an
                # UNSIGNED message (ignored when the message is signed)
                # 5..8 = (SHA-256-signed messages only) the integrity attribute replaced by an illegal-size correct prefix of the HMAC
                genuine = (signkey is not None and signkey == remote and p[4] != "1"
                           and not (p[3].startswith("2:") and p[4] in ("5", "6", "7", "8")))
                if head.startswith("resp:"):
                    if sealed[tid] and not genuine:
                        return f"call {i}: response delivered for a sealed request although it does not validate under the remote credentials (signed {p[3]}, corrupt {p[4]}, remote key {remote})"
                    del sealed[tid]
                elif head == "drop":
                    if not sealed[tid]:
                        return f"call {i}: response to a request sent without integrity was dropped"
                    if genuine:
                        return f"call {i}: genuine response (valid under the remote credentials) was dropped"
                    if prev is not None and cur != prev:
                        return f"call {i}: a dropped response changed the outstanding set or the validated peers"
        if p[0] == "P":
            now = int(p[1])
            if head.startswith("timedout:") or head.startswith("cancelled:"):
                sealed.pop(int(head.split(":")[1], 16), None)
            if head.startswith("wait:") and "1" not in (snap.get("o") or "1"):
                last_wait = None               # idle answer (now + 1 h): not a deadline
            elif head.startswith("wait:"):
                w = int(head.split(":")[1])
                if last_wait is not None and now < last_wait and w != last_wait:
                    return f"call {i}: wake-up moved from {last_wait} to {w} although only dropped responses happened in between"
                last_wait = w
            else:
                last_wait = None
        elif not (p[0] == "H" and head == "drop"):
            last_wait = None
        prev = cur
    return None


def history_key(lhs):
    """ag lines that replay the same history (ag.pure) share this key"""
    kv = kv_of(lhs)
    return (kv.get("tr"), kv.get("local"), kv.get("ra"), kv.get("ops"))


# ------------------------------------------------------------------------------ tables

def _by_family(table, default=None):
    def f(lhs, obs):
        fam = fam_of(lhs)
        g = table.get(fam, default)
        return g(lhs, obs) if g else obs
    return f


PROJECT = {
    "C01": _panic_only,
    "C02": _c02,
    "C17": _only_ops({"parse", "acc", "hdr"}),
    "C10": _c10,
    "C04": _by_family({"msg": _c04_msg, "bld": _c04_bld}),
    "C09": _by_family({"msg": _c09_msg, "bld": _c09_bld, "attr": _c09_attr}),
    "C11": _by_family({"bld": _c11_bld}),
    "C16": _c16,
    "C05": _ag_proj(instants=False, txfull=False, fields=["o"]),
    "C06": _ag_proj(instants=True, txfull=False, fields=["o"]),
    "C07": _ag_proj(instants=True, txfull=False, fields=["o"]),
    "C15": _c15_proj,
    "C18": _ag_proj(instants=False, txfull=True, fields=["o", "p"], extra=True),
    "C20": lambda lhs, obs: obs,
}

ORACLE = {"C05": oracle_c05, "C07": oracle_c07, "C15": oracle_c15, "C18": oracle_c18, "C20": oracle_c20}


def relevant(pid, lhs, impl, model):
    """does a disagreement between the implementation's and the model's observation concern `pid`?"""
    if pid == "C10":
        # C10 speaks about accepted messages; whether a buffer is accepted is C02's business
        a, b = project(pid, lhs, impl), project(pid, lhs, model)
        if "not-accepted" in (a, b):
            return False
        return a != b
    return project(pid, lhs, impl) != project(pid, lhs, model)


def project(pid, lhs, obs):
    f = PROJECT.get(pid)
    try:
        return f(lhs, obs) if f else obs
    except Exception:                      # a malformed observation is never projected away
        return obs
