#!/bin/sh
# MANIFEST.setup_cmd: build everything offline from files on disk.
set -e
cd "$(dirname "$0")"
exec python3 tools/setup.py
