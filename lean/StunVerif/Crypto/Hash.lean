/-
SHA-1 (FIPS 180-4), SHA-256 (FIPS 180-4), MD5 (RFC 1321) and HMAC (RFC 2104) written from the
standards, as the independent implementation C04 asks for.  Executable; no theorem depends on
their internals (the integrity theorems hold for arbitrary hash functions).
-/
import StunVerif.Bytes
namespace StunVerif.Hash

def rotl (x : UInt32) (n : UInt32) : UInt32 := (x <<< n) ||| (x >>> (32 - n))
def rotr (x : UInt32) (n : UInt32) : UInt32 := (x >>> n) ||| (x <<< (32 - n))

def be32 (a b c d : UInt8) : UInt32 :=
  (a.toUInt32 <<< 24) ||| (b.toUInt32 <<< 16) ||| (c.toUInt32 <<< 8) ||| d.toUInt32
def le32 (a b c d : UInt8) : UInt32 := be32 d c b a

def enc32be (x : UInt32) : Bytes :=
  [(x >>> 24).toUInt8, (x >>> 16).toUInt8, (x >>> 8).toUInt8, x.toUInt8]
def enc32le (x : UInt32) : Bytes := (enc32be x).reverse

def wordsBE : Bytes → List UInt32
  | a :: b :: c :: d :: rest => be32 a b c d :: wordsBE rest
  | _ => []
def wordsLE : Bytes → List UInt32
  | a :: b :: c :: d :: rest => le32 a b c d :: wordsLE rest
  | _ => []

/-- Merkle–Damgård padding to a multiple of 64 bytes; the 64-bit bit length is big- or
    little-endian -/
def pad (msg : Bytes) (lenBE : Bool) : Bytes :=
  let l := msg.length
  let k := (119 - l % 64) % 64        -- zero bytes so that l + 1 + k + 8 ≡ 0 (mod 64)
  let lenBytes := encBE 8 (l * 8)
  msg ++ [0x80] ++ zeros k ++ (if lenBE then lenBytes else lenBytes.reverse)

def blocks : Nat → Bytes → List Bytes
  | 0, _ => []
  | n + 1, bs => if bs.isEmpty then [] else bs.take 64 :: blocks n (bs.drop 64)

/-! #### SHA-1 -/

def sha1Schedule (w : Array UInt32) : Array UInt32 :=
  (List.range 64).foldl (fun w i =>
    let t := i + 16
    w.push (rotl (w[t-3]! ^^^ w[t-8]! ^^^ w[t-14]! ^^^ w[t-16]!) 1)) w

structure S5 where (a b c d e : UInt32)

def sha1Block (h : S5) (blk : Bytes) : S5 :=
  let w := sha1Schedule (wordsBE blk).toArray
  let r := (List.range 80).foldl (fun (s : S5) t =>
    let (f, k) :=
      if t < 20 then ((s.b &&& s.c) ||| ((~~~ s.b) &&& s.d), (0x5A827999 : UInt32))
      else if t < 40 then (s.b ^^^ s.c ^^^ s.d, 0x6ED9EBA1)
      else if t < 60 then ((s.b &&& s.c) ||| (s.b &&& s.d) ||| (s.c &&& s.d), 0x8F1BBCDC)
      else (s.b ^^^ s.c ^^^ s.d, 0xCA62C1D6)
    let temp := rotl s.a 5 + f + s.e + k + w[t]!
    ⟨temp, s.a, rotl s.b 30, s.c, s.d⟩) h
  ⟨h.a + r.a, h.b + r.b, h.c + r.c, h.d + r.d, h.e + r.e⟩

def sha1 (msg : Bytes) : Bytes :=
  let p := pad msg true
  let h := (blocks (p.length / 64 + 1) p).foldl sha1Block
    ⟨0x67452301, 0xEFCDAB89, 0x98BADCFE, 0x10325476, 0xC3D2E1F0⟩
  [h.a, h.b, h.c, h.d, h.e].flatMap enc32be

/-! #### SHA-256 -/

def k256 : Array UInt32 := #[
  0x428a2f98, 0x71374491, 0xb5c0fbcf, 0xe9b5dba5, 0x3956c25b, 0x59f111f1, 0x923f82a4, 0xab1c5ed5,
  0xd807aa98, 0x12835b01, 0x243185be, 0x550c7dc3, 0x72be5d74, 0x80deb1fe, 0x9bdc06a7, 0xc19bf174,
  0xe49b69c1, 0xefbe4786, 0x0fc19dc6, 0x240ca1cc, 0x2de92c6f, 0x4a7484aa, 0x5cb0a9dc, 0x76f988da,
  0x983e5152, 0xa831c66d, 0xb00327c8, 0xbf597fc7, 0xc6e00bf3, 0xd5a79147, 0x06ca6351, 0x14292967,
  0x27b70a85, 0x2e1b2138, 0x4d2c6dfc, 0x53380d13, 0x650a7354, 0x766a0abb, 0x81c2c92e, 0x92722c85,
  0xa2bfe8a1, 0xa81a664b, 0xc24b8b70, 0xc76c51a3, 0xd192e819, 0xd6990624, 0xf40e3585, 0x106aa070,
  0x19a4c116, 0x1e376c08, 0x2748774c, 0x34b0bcb5, 0x391c0cb3, 0x4ed8aa4a, 0x5b9cca4f, 0x682e6ff3,
  0x748f82ee, 0x78a5636f, 0x84c87814, 0x8cc70208, 0x90befffa, 0xa4506ceb, 0xbef9a3f7, 0xc67178f2]

def sha256Schedule (w : Array UInt32) : Array UInt32 :=
  (List.range 48).foldl (fun w i =>
    let t := i + 16
    let x := w[t-15]!
    let y := w[t-2]!
    let s0 := rotr x 7 ^^^ rotr x 18 ^^^ (x >>> 3)
    let s1 := rotr y 17 ^^^ rotr y 19 ^^^ (y >>> 10)
    w.push (w[t-16]! + s0 + w[t-7]! + s1)) w

structure S8 where (a b c d e f g h : UInt32)

def sha256Block (hh : S8) (blk : Bytes) : S8 :=
  let w := sha256Schedule (wordsBE blk).toArray
  let r := (List.range 64).foldl (fun (s : S8) t =>
    let s1 := rotr s.e 6 ^^^ rotr s.e 11 ^^^ rotr s.e 25
    let ch := (s.e &&& s.f) ^^^ ((~~~ s.e) &&& s.g)
    let t1 := s.h + s1 + ch + k256[t]! + w[t]!
    let s0 := rotr s.a 2 ^^^ rotr s.a 13 ^^^ rotr s.a 22
    let maj := (s.a &&& s.b) ^^^ (s.a &&& s.c) ^^^ (s.b &&& s.c)
    let t2 := s0 + maj
    ⟨t1 + t2, s.a, s.b, s.c, s.d + t1, s.e, s.f, s.g⟩) hh
  ⟨hh.a + r.a, hh.b + r.b, hh.c + r.c, hh.d + r.d, hh.e + r.e, hh.f + r.f, hh.g + r.g, hh.h + r.h⟩

def sha256 (msg : Bytes) : Bytes :=
  let p := pad msg true
  let h := (blocks (p.length / 64 + 1) p).foldl sha256Block
    ⟨0x6a09e667, 0xbb67ae85, 0x3c6ef372, 0xa54ff53a, 0x510e527f, 0x9b05688c, 0x1f83d9ab, 0x5be0cd19⟩
  [h.a, h.b, h.c, h.d, h.e, h.f, h.g, h.h].flatMap enc32be

/-! #### MD5 -/

def md5T : Array UInt32 := #[
  0xd76aa478, 0xe8c7b756, 0x242070db, 0xc1bdceee, 0xf57c0faf, 0x4787c62a, 0xa8304613, 0xfd469501,
  0x698098d8, 0x8b44f7af, 0xffff5bb1, 0x895cd7be, 0x6b901122, 0xfd987193, 0xa679438e, 0x49b40821,
  0xf61e2562, 0xc040b340, 0x265e5a51, 0xe9b6c7aa, 0xd62f105d, 0x02441453, 0xd8a1e681, 0xe7d3fbc8,
  0x21e1cde6, 0xc33707d6, 0xf4d50d87, 0x455a14ed, 0xa9e3e905, 0xfcefa3f8, 0x676f02d9, 0x8d2a4c8a,
  0xfffa3942, 0x8771f681, 0x6d9d6122, 0xfde5380c, 0xa4beea44, 0x4bdecfa9, 0xf6bb4b60, 0xbebfbc70,
  0x289b7ec6, 0xeaa127fa, 0xd4ef3085, 0x04881d05, 0xd9d4d039, 0xe6db99e5, 0x1fa27cf8, 0xc4ac5665,
  0xf4292244, 0x432aff97, 0xab9423a7, 0xfc93a039, 0x655b59c3, 0x8f0ccc92, 0xffeff47d, 0x85845dd1,
  0x6fa87e4f, 0xfe2ce6e0, 0xa3014314, 0x4e0811a1, 0xf7537e82, 0xbd3af235, 0x2ad7d2bb, 0xeb86d391]

def md5S : Array UInt32 := #[
  7, 12, 17, 22, 7, 12, 17, 22, 7, 12, 17, 22, 7, 12, 17, 22,
  5, 9, 14, 20, 5, 9, 14, 20, 5, 9, 14, 20, 5, 9, 14, 20,
  4, 11, 16, 23, 4, 11, 16, 23, 4, 11, 16, 23, 4, 11, 16, 23,
  6, 10, 15, 21, 6, 10, 15, 21, 6, 10, 15, 21, 6, 10, 15, 21]

structure S4 where (a b c d : UInt32)

def md5Block (h : S4) (blk : Bytes) : S4 :=
  let m := (wordsLE blk).toArray
  let r := (List.range 64).foldl (fun (s : S4) i =>
    let (f, g) :=
      if i < 16 then ((s.b &&& s.c) ||| ((~~~ s.b) &&& s.d), i)
      else if i < 32 then ((s.d &&& s.b) ||| ((~~~ s.d) &&& s.c), (5 * i + 1) % 16)
      else if i < 48 then (s.b ^^^ s.c ^^^ s.d, (3 * i + 5) % 16)
      else (s.c ^^^ (s.b ||| (~~~ s.d)), (7 * i) % 16)
    let f2 := f + s.a + md5T[i]! + m[g]!
    ⟨s.d, s.b + rotl f2 md5S[i]!, s.b, s.c⟩) h
  ⟨h.a + r.a, h.b + r.b, h.c + r.c, h.d + r.d⟩

def md5 (msg : Bytes) : Bytes :=
  let p := pad msg false
  let h := (blocks (p.length / 64 + 1) p).foldl md5Block ⟨0x67452301, 0xefcdab89, 0x98badcfe, 0x10325476⟩
  [h.a, h.b, h.c, h.d].flatMap enc32le

/-! #### HMAC -/

def hmac (hash : Bytes → Bytes) (key msg : Bytes) : Bytes :=
  let k0 := if key.length > 64 then hash key else key
  let k := k0 ++ zeros (64 - k0.length)
  let ipad := k.map (· ^^^ 0x36)
  let opad := k.map (· ^^^ 0x5c)
  hash (opad ++ hash (ipad ++ msg))

def hmacSha1 (key msg : Bytes) : Bytes := hmac sha1 key msg
def hmacSha256 (key msg : Bytes) : Bytes := hmac sha256 key msg

end StunVerif.Hash
