/-
CRC-32/ISO-HDLC (reflected polynomial 0xEDB88320, init and final xor 0xFFFFFFFF), bit-serial,
written from the catalogue parameters.  Independent of the `crc` crate.
-/
import StunVerif.Bytes
namespace StunVerif.Crc

def poly : UInt32 := 0xEDB88320

/-- one zero-input step of the reflected shift register -/
def shift1 (c : UInt32) : UInt32 := if c &&& 1 = 1 then (c >>> 1) ^^^ poly else c >>> 1

def shift8 (c : UInt32) : UInt32 := shift1 (shift1 (shift1 (shift1 (shift1 (shift1 (shift1 (shift1 c)))))))

/-- feed one byte -/
def step (c : UInt32) (b : UInt8) : UInt32 := shift8 (c ^^^ b.toUInt32)

/-- register after feeding `bs` starting from `c` -/
def feed (c : UInt32) (bs : Bytes) : UInt32 := bs.foldl step c

def crc32 (bs : Bytes) : UInt32 := feed 0xFFFFFFFF bs ^^^ 0xFFFFFFFF

/-- `Fingerprint::compute`: the CRC as four big-endian bytes -/
def crc32Bytes (bs : Bytes) : Bytes := encBE 4 (crc32 bs).toNat

end StunVerif.Crc
