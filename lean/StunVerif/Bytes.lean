/-
Byte strings, big-endian integers and hex text.  Import-free (core Lean only) so that the
driver executable links.
-/
namespace StunVerif

abbrev Bytes := List UInt8

/-- big-endian 16-bit read of two bytes -/
def be16 (a b : UInt8) : Nat := a.toNat * 256 + b.toNat

/-- big-endian 16-bit write; the value is reduced mod 2^16 like a Rust `as u16` cast -/
def enc16 (n : Nat) : Bytes := [UInt8.ofNat (n / 256), UInt8.ofNat n]

/-- big-endian read of an arbitrary number of bytes -/
def beNat (bs : Bytes) : Nat := bs.foldl (fun acc b => acc * 256 + b.toNat) 0

/-- big-endian write of `n` into exactly `k` bytes (value reduced mod 256^k) -/
def encBE : Nat → Nat → Bytes
  | 0, _ => []
  | k + 1, n => encBE k (n / 256) ++ [UInt8.ofNat n]

/-- padding needed to reach the next multiple of four -/
def pad4 (n : Nat) : Nat := (4 - n % 4) % 4

/-- `n` rounded up to a multiple of four -/
def round4 (n : Nat) : Nat := n + pad4 n

def zeros (n : Nat) : Bytes := List.replicate n 0

/-- overwrite bytes 2 and 3 (the STUN length field) of a buffer with `enc16 n`;
    buffers shorter than 4 are returned unchanged (the callers never have those) -/
def setLen (b : Bytes) (n : Nat) : Bytes :=
  match b with
  | t0 :: t1 :: _ :: _ :: rest => t0 :: t1 :: UInt8.ofNat (n / 256) :: UInt8.ofNat n :: rest
  | _ => b

/-! ### hex text -/

def hexDigit (n : Nat) : Char :=
  if n < 10 then Char.ofNat (48 + n) else Char.ofNat (87 + n)

def toHex (bs : Bytes) : String :=
  bs.foldl (fun s b => (s.push (hexDigit (b.toNat / 16))).push (hexDigit (b.toNat % 16))) ""

def hexVal (c : UInt8) : Option Nat :=
  if 48 ≤ c ∧ c ≤ 57 then some (c.toNat - 48)
  else if 97 ≤ c ∧ c ≤ 102 then some (c.toNat - 87)
  else if 65 ≤ c ∧ c ≤ 70 then some (c.toNat - 55)
  else none

/-- decode `k` hex pairs of `ba`, last pair first, consing onto `acc` -/
def ofHexGo (ba : ByteArray) : Nat → Bytes → Option Bytes
  | 0, acc => some acc
  | k + 1, acc =>
    match hexVal (ba.get! (2 * k)), hexVal (ba.get! (2 * k + 1)) with
    | some x, some y => ofHexGo ba k (UInt8.ofNat (x * 16 + y) :: acc)
    | _, _ => none

/-- `-` denotes the empty byte string in the line protocol -/
def ofHex (s : String) : Option Bytes :=
  if s = "-" then some [] else
  let ba := s.toUTF8
  if ba.size % 2 ≠ 0 then none else ofHexGo ba (ba.size / 2) []

def hexOrDash (bs : Bytes) : String := if bs.isEmpty then "-" else toHex bs

end StunVerif
