/-
Independent, declarative description of a well-formed STUN message (RFC 8489 §5, §14, §14.5–14.7)
and of which attributes are exposed (C10).  Written against byte lists and a list of TLV records,
not against the parser's code.
-/
import StunVerif.Msg.Parse
namespace StunVerif.Spec

/-- one attribute as it lies in the buffer: type, value and the padding bytes that follow -/
structure Tlv where
  ty : Nat
  value : Bytes
  pad : Bytes
  deriving DecidableEq, Repr

def Tlv.wf (t : Tlv) : Prop :=
  t.ty < 65536 ∧ t.value.length < 65536 ∧ t.pad.length = pad4 t.value.length

def Tlv.enc (t : Tlv) : Bytes := enc16 t.ty ++ enc16 t.value.length ++ t.value ++ t.pad

def Tlv.raw (t : Tlv) : RawAttr := ⟨t.ty, t.value⟩

def isIntegrity (t : Nat) : Bool := t = tyMI || t = tyMI256
def isEnding (t : Nat) : Bool := t = tyMI || t = tyMI256 || t = tyFP

/-- ordering rule on the sequence of attribute types: after an integrity attribute only
    integrity/fingerprint attributes, nothing after a FINGERPRINT, none of the three repeated -/
def orderOk : List Nat → Bool
  | [] => true
  | t :: rest =>
    if t = tyFP then rest.isEmpty
    else if isIntegrity t then rest.all isEnding && !rest.contains t && orderOk rest
    else orderOk rest

/-- every FINGERPRINT attribute has a 4-byte value equal to the CRC-32 of the bytes before it
    (length field covering the attribute) XOR 0x5354554e.  `off` is the offset of the head. -/
def fpOk (b : Bytes) : Nat → List Tlv → Prop
  | _, [] => True
  | off, t :: rest =>
    (t.ty = tyFP → t.value.length = 4 ∧
      xorBytes t.value [0x53, 0x54, 0x55, 0x4e] = Crc.crc32Bytes (fpInput b off t.enc.length)) ∧
    fpOk b (off + t.enc.length) rest

/-- a buffer is a well-formed message with attribute records `ts` -/
def WellFormedAs (b : Bytes) (ts : List Tlv) : Prop :=
  20 ≤ b.length ∧
  beNat (b.take 2) < 0x4000 ∧                         -- two most significant bits zero
  (b.drop 4).take 4 = [0x21, 0x12, 0xA4, 0x42] ∧      -- magic cookie
  beNat ((b.drop 2).take 2) + 20 = b.length ∧         -- declared length = bytes that follow
  (∀ t ∈ ts, t.wf) ∧ b.drop 20 = ts.flatMap Tlv.enc ∧ -- body tiled exactly by padded TLVs
  orderOk (ts.map (·.ty)) = true ∧
  fpOk b 20 ts

def WellFormed (b : Bytes) : Prop := ∃ ts, WellFormedAs b ts

/-- C10: the attributes exposed by iteration and lookup: everything up to and including the first
    integrity attribute, then a MESSAGE-INTEGRITY-SHA256 that directly follows a MESSAGE-INTEGRITY,
    then the FINGERPRINT; nothing else -/
def exposed : List RawAttr → List RawAttr
  | [] => []
  | a :: rest =>
    if isIntegrity a.ty then
      a :: ((match rest with
             | n :: _ => if a.ty = tyMI ∧ n.ty = tyMI256 then [n] else []
             | [] => []) ++
            (match rest with
             | n :: rest' =>
               if a.ty = tyMI ∧ n.ty = tyMI256 then rest'.filter (·.ty = tyFP)
               else rest.filter (·.ty = tyFP)
             | [] => []))
    else a :: exposed rest

end StunVerif.Spec
