/-
Independent specification of UTF-8 (RFC 3629 §3): the encoder of Unicode scalar values, written from
the RFC's bit-distribution table.  `Props/Utf8.lean` proves that the validator used by the text
attributes (`utf8Valid`, the model of `std::str::from_utf8`'s accept set) accepts exactly the
concatenations of encodings of scalar values.
-/
import StunVerif.Bytes
namespace StunVerif.Spec

/-- Unicode scalar values: code points up to U+10FFFF except the surrogates U+D800..U+DFFF -/
def isScalar (c : Nat) : Bool := c < 0xD800 || (0xE000 ≤ c && c < 0x110000)

/-- RFC 3629 §3: 1 to 4 octets depending on the magnitude of the scalar value -/
def utf8Encode (c : Nat) : Bytes :=
  if c < 0x80 then [UInt8.ofNat c]
  else if c < 0x800 then [UInt8.ofNat (0xC0 + c / 64), UInt8.ofNat (0x80 + c % 64)]
  else if c < 0x10000 then
    [UInt8.ofNat (0xE0 + c / 4096), UInt8.ofNat (0x80 + c / 64 % 64), UInt8.ofNat (0x80 + c % 64)]
  else
    [UInt8.ofNat (0xF0 + c / 262144), UInt8.ofNat (0x80 + c / 4096 % 64), UInt8.ofNat (0x80 + c / 64 % 64),
     UInt8.ofNat (0x80 + c % 64)]

end StunVerif.Spec
