/-
History-level vocabulary for the agent properties (C05, C06, C07, C15, C18, C20): the caller-visible
trace of a call history, transaction life-cycle events, reachable states, the order-insensitive
state equivalence (the real agent keeps its transactions in a hash map whose iteration order is
arbitrary), and time shifts.
-/
import StunVerif.Agent.Agent
namespace StunVerif.Agent

/-! ### traces and life-cycle events -/

/-- what the caller sees of a history: every call with its reply -/
def trace : State → List Op → List (Op × Out)
  | _, [] => []
  | s, op :: ops => (op, (step s op).2) :: trace (step s op).1 ops

/-- the state after a history -/
def after (s : State) (ops : List Op) : State := (run s ops).1

inductive Ev where
  | started | delivered | timedOut | cancelled
  deriving DecidableEq, Repr

/-- the life-cycle event, if any, that a call with its reply constitutes, and for which transaction -/
def event : Op → Out → Option (Nat × Ev)
  | .sendReq tid _ _ _ _, .transmit _ _ => some (tid, .started)
  | .handle m _, .response => some (m.tid, .delivered)
  | .poll _ _, .timedOut t => some (t, .timedOut)
  | .poll _ _, .cancelled t => some (t, .cancelled)
  | _, _ => none

def events (tr : List (Op × Out)) : List (Nat × Ev) := tr.filterMap fun p => event p.1 p.2

/-- the life-cycle events of one transaction id, in order -/
def eventsOf (tr : List (Op × Out)) (tid : Nat) : List Ev :=
  ((events tr).filter (·.1 = tid)).map (·.2)

/-- a transaction id is live when its last life-cycle event is `started` -/
def live (tr : List (Op × Out)) (tid : Nat) : Bool :=
  (eventsOf tr tid).getLast? = some .started

/-- start, one ending, start, one ending, …: every accepted request ends at most once, nothing ends
    that was not started, and an id is started again only after it ended -/
def Alternates : List Ev → Prop
  | [] => True
  | [.started] => True
  | .started :: e :: rest => e ≠ .started ∧ Alternates rest
  | _ => False

/-- states reachable from a fresh agent by any call history -/
def Reachable (s : State) : Prop := ∃ tr loc ops, s = after (State.init tr loc) ops

/-! ### the request a transmission stems from (C18) -/

/-- the most recent accepted `send` of a request with id `tid` in a (chronological) trace: its bytes
    and destination -/
def origin (tid : Nat) : List (Op × Out) → Option (Bytes × SockAddr)
  | [] => none
  | (op, o) :: rest =>
    match origin tid rest with
    | some x => some x
    | none =>
      match op, o with
      | .sendReq t b _ to _, .transmit _ _ => if t = tid then some (b, to) else none
      | _, _ => none

/-! ### invariants of reachable states -/

/-- transaction ids are unique keys -/
def KeysNodup (s : State) : Prop := (s.out.map (·.1)).Nodup

/-- every outstanding request has been transmitted at least once -/
def AllSent (s : State) : Prop := ∀ p ∈ s.out, p.2.lastSend.isSome = true

/-! ### order-insensitive equivalence -/

/-- same agent up to the (unobservable) storage order of the outstanding transactions and of the
    validated peers -/
def State.Equiv (s s' : State) : Prop :=
  s.transport = s'.transport ∧ s.localAddr = s'.localAddr ∧ s.remoteCreds = s'.remoteCreds ∧
  (∀ a, s.validated.contains a = s'.validated.contains a) ∧ s.out.Perm s'.out

/-- two calls that differ at most in which ready transaction a `poll` is asked to serve first -/
def SameCall : Op → Op → Prop
  | .poll n _, .poll n' _ => n = n'
  | .sendReq t b h a n, .sendReq t' b' h' a' n' => t = t' ∧ b = b' ∧ h = h' ∧ a = a' ∧ n = n'
  | .sendOther b a, .sendOther b' a' => b = b' ∧ a = a'
  | .handle m a, .handle m' a' => m.isResponse = m'.isResponse ∧ m.tid = m'.tid ∧ (∀ k, m.validUnder k = m'.validUnder k) ∧ a = a'
  | .cancel t, .cancel t' => t = t'
  | .cancelRtx t, .cancelRtx t' => t = t'
  | .configure t a b c, .configure t' a' b' c' => t = t' ∧ a = a' ∧ b = b' ∧ c = c'
  | .setRemoteCreds k, .setRemoteCreds k' => k = k'
  | _, _ => False

/-- two histories that differ at most in the serving choices of their polls -/
def SameCalls : List Op → List Op → Prop
  | [], [] => True
  | a :: as, b :: bs => SameCall a b ∧ SameCalls as bs
  | _, _ => False

/-! ### retransmission schedule -/

/-- the instant from which the request's next `poll` does something other than wait -/
def Req.deadline (r : Req) : Option Time :=
  r.lastSend.map fun h =>
    h + msNs (if r.timeoutI < r.timeouts.length then r.timeouts.getD r.timeoutI 0 else r.lastRto)

/-- successive polls of one request: the replies, in order -/
def reqPolls : Req → List Time → List ReqRet
  | _, [] => []
  | r, now :: nows => (reqPoll r now).2 :: reqPolls (reqPoll r now).1 nows

/-! ### time shifts -/

def shiftReq (d : Nat) (r : Req) : Req := { r with lastSend := r.lastSend.map (· + d) }

def shiftState (d : Nat) (s : State) : State :=
  { s with out := s.out.map fun p => (p.1, shiftReq d p.2) }

def shiftOp (d : Nat) : Op → Op
  | .sendReq tid b h to now => .sendReq tid b h to (now + d)
  | .poll now pick => .poll (now + d) pick
  | op => op

def shiftOut (d : Nat) : Out → Out
  | .waitUntil t => .waitUntil (t + d)
  | o => o

/-! ### two independent agents driven by one interleaved history -/

/-- a call addressed to the first or the second of two agents -/
abbrev Op2 := Bool × Op

def run2 : State × State → List Op2 → (State × State) × List (Bool × Out)
  | ss, [] => (ss, [])
  | (s1, s2), (w, op) :: ops =>
    if w then
      let r := step s1 op
      let rest := run2 (r.1, s2) ops
      (rest.1, (w, r.2) :: rest.2)
    else
      let r := step s2 op
      let rest := run2 (s1, r.1) ops
      (rest.1, (w, r.2) :: rest.2)

end StunVerif.Agent
