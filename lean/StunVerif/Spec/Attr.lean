/-
The RFC encodings of the 19 built-in attributes, as one table written from RFC 8489 §14
(and RFC 8445 §7.1.1 / §16.1 for the ICE attributes), independently of the decoders' code:
for every type, which value byte strings are allowed and which fields they encode.
-/
import StunVerif.Attr.Typed
namespace StunVerif.Spec

/-- n-th byte as a number (0 when absent; only used under a length guard) -/
def byteAt (v : Bytes) (i : Nat) : Nat := (v.getD i 0).toNat

/-- address family 1 with 8 bytes, or family 2 with 20 bytes (first byte ignored) -/
def addrOk (v : Bytes) : Bool :=
  (byteAt v 1 == 1 && v.length == 8) || (byteAt v 1 == 2 && v.length == 20)

/-- PASSWORD-ALGORITHM(S) entries: algorithm 1 (MD5) or 2 (SHA-256), parameter length 0 -/
def algoEntryOk (e : Bytes) : Bool :=
  e.length == 4 && (byteAt e 0 * 256 + byteAt e 1 == 1 || byteAt e 0 * 256 + byteAt e 1 == 2) &&
  byteAt e 2 == 0 && byteAt e 3 == 0

def chunks4 : Bytes → List Bytes
  | a :: b :: c :: d :: rest => [a, b, c, d] :: chunks4 rest
  | _ => []

/-- which value encodings the RFCs allow for each attribute type -/
def accept : Kind → Bytes → Bool
  | .username, v => v.length ≤ 513 && utf8Valid v
  | .realm, v | .nonce, v | .software, v => v.length ≤ 763 && utf8Valid v
  | .alternateDomain, v => utf8Valid v
  | .messageIntegrity, v => v.length == 20
  | .messageIntegritySha256, v => 16 ≤ v.length && v.length ≤ 32 && v.length % 4 == 0
  | .userhash, v => v.length == 32
  | .errorCode, v =>
    4 ≤ v.length && v.length ≤ 767 &&
    3 ≤ byteAt v 2 % 8 && byteAt v 2 % 8 ≤ 6 && byteAt v 3 ≤ 99 && utf8Valid (v.drop 4)
  | .unknownAttributes, v => v.length % 2 == 0
  | .passwordAlgorithm, v => algoEntryOk v
  | .passwordAlgorithms, v => 4 ≤ v.length && v.length % 4 == 0 && (chunks4 v).all algoEntryOk
  | .xorMappedAddress, v | .alternateServer, v => addrOk v
  | .priority, v => v.length == 4
  | .useCandidate, v => v.length == 0
  | .fingerprint, v => v.length == 4
  | .iceControlled, v | .iceControlling, v => v.length == 8

def addrFields (v : Bytes) : Addr :=
  ⟨byteAt v 1 == 2, v.drop 4, byteAt v 2 * 256 + byteAt v 3⟩

def u16s : Bytes → List Nat
  | a :: b :: rest => (a.toNat * 256 + b.toNat) :: u16s rest
  | _ => []

/-- the fields an allowed value encodes -/
def fields : Kind → Bytes → AttrVal
  | .username, v => .username v
  | .realm, v => .realm v
  | .nonce, v => .nonce v
  | .software, v => .software v
  | .alternateDomain, v => .alternateDomain v
  | .messageIntegrity, v => .messageIntegrity v
  | .messageIntegritySha256, v => .messageIntegritySha256 v
  | .userhash, v => .userhash v
  | .errorCode, v => .errorCode (byteAt v 2 % 8 * 100 + byteAt v 3) (v.drop 4)
  | .unknownAttributes, v => .unknownAttributes (u16s v)
  | .passwordAlgorithm, v => .passwordAlgorithm (byteAt v 0 * 256 + byteAt v 1)
  | .passwordAlgorithms, v => .passwordAlgorithms ((chunks4 v).map fun e => byteAt e 0 * 256 + byteAt e 1)
  | .xorMappedAddress, v => .xorMappedAddress (addrFields v)
  | .alternateServer, v => .alternateServer (addrFields v)
  | .priority, v => .priority (beNat v)
  | .useCandidate, _ => .useCandidate
  | .fingerprint, v => .fingerprint (xorBytes v [0x53, 0x54, 0x55, 0x4e])
  | .iceControlled, v => .iceControlled (beNat v)
  | .iceControlling, v => .iceControlling (beNat v)

/-- the RFC type codes -/
def code : Kind → Nat
  | .username => 0x0006 | .messageIntegrity => 0x0008 | .errorCode => 0x0009
  | .unknownAttributes => 0x000A | .realm => 0x0014 | .nonce => 0x0015
  | .messageIntegritySha256 => 0x001C | .passwordAlgorithm => 0x001D | .userhash => 0x001E
  | .xorMappedAddress => 0x0020 | .priority => 0x0024 | .useCandidate => 0x0025
  | .passwordAlgorithms => 0x8002 | .alternateDomain => 0x8003 | .software => 0x8022
  | .alternateServer => 0x8023 | .fingerprint => 0x8028 | .iceControlled => 0x8029
  | .iceControlling => 0x802A

end StunVerif.Spec
