/-
RFC 8489 §5: the 16-bit message type field, written bit by bit from Figure 3
        0                 1
        2  3  4 5 6 7 8 9 0 1 2 3 4 5
       +--+--+-+-+-+-+-+-+-+-+-+-+-+-+
       |M |M |M|M|M|C|M|M|M|C|M|M|M|M|
       |11|10|9|8|7|1|6|5|4|0|3|2|1|0|
       +--+--+-+-+-+-+-+-+-+-+-+-+-+-+
Independent of the code (plain arithmetic, no bit operators).  Classes: 0 request, 1 indication,
2 success response, 3 error response.
-/
namespace StunVerif.Spec

def bit (n i : Nat) : Nat := n / 2 ^ i % 2

def interleave (c m : Nat) : Nat :=
  bit m 0 + 2 * bit m 1 + 4 * bit m 2 + 8 * bit m 3 + 16 * bit c 0 +
  32 * bit m 4 + 64 * bit m 5 + 128 * bit m 6 + 256 * bit c 1 +
  512 * bit m 7 + 1024 * bit m 8 + 2048 * bit m 9 + 4096 * bit m 10 + 8192 * bit m 11

end StunVerif.Spec

namespace StunVerif.Spec

/-- class bits C1 C0 of a type field -/
def classOfType (v : Nat) : Nat := bit v 4 + 2 * bit v 8

/-- method bits M11..M0 of a type field -/
def methodOfType (v : Nat) : Nat :=
  bit v 0 + 2 * bit v 1 + 4 * bit v 2 + 8 * bit v 3 + 16 * bit v 5 + 32 * bit v 6 + 64 * bit v 7 +
  128 * bit v 9 + 256 * bit v 10 + 512 * bit v 11 + 1024 * bit v 12 + 2048 * bit v 13

/-- a type field is STUN iff its two most significant bits are zero -/
def isStunType (v : Nat) : Bool := v < 16384

/-- the RFC magic cookie -/
def cookie : Nat := 0x2112A442

end StunVerif.Spec
