/-
C02: "a rejection names its cause".  A buffer that is malformed in two ways has two true causes and
the statement does not say which one is named; the code names the one its checks meet first.
`Spec.causes b` lists every cause that is true of `b` at the point where it stops being well-formed:
all header-level causes, or — with a sound header — all violations of all attributes up to the first one
that cannot be delimited.
`Props/C02Causes.lean` proves that the parser's error is always one of them and that the list is empty
exactly for accepted buffers; the correspondence run accepts any member of the list from the
implementation (a different member than the model's is counted as drift, not as a disagreement).
-/
import StunVerif.Msg.Parse
namespace StunVerif.Spec

/-- every violation of the attribute at the head of `data` (at offset `off`, with the ending attribute
    types `seen` so far); `none` for the attribute itself if it cannot even be delimited -/
def attrCauses (orig data : Bytes) (off : Nat) (seen : List Nat) : List PErr × Option RawAttr :=
  match rawFromBytes data with
  | .error (.truncated e a) => ([.truncated (e + 4 + off) (a + 4 + off)], none)
  | .error (.tooLarge e a) => ([.tooLarge (e + 4 + off) (a + 4 + off)], none)
  | .error e => ([e], none)
  | .ok attr =>
    let afterErr : PErr :=
      if seen.contains tyFP then .afterFingerprint attr.ty else .afterIntegrity attr.ty
    let order : List PErr :=
      if (!seen.isEmpty && !endingTypes.contains attr.ty) ||
         (endingTypes.contains attr.ty && (seen.contains attr.ty || seen.contains tyFP)) then [afterErr] else []
    let p := attr.paddedLen
    let size : List PErr := if p > data.length then [.truncated (off + p) (off + data.length)] else []
    let fp : List PErr :=
      if attr.ty = tyFP then
        match fromRaw .fingerprint attr with
        | .error e => [e]
        | .ok (.fingerprint crc) => if Crc.crc32Bytes (fpInput orig off p) ≠ crc then [.fpMismatch] else []
        | .ok _ => []
      else []
    (order ++ size ++ fp, some attr)

/-- walk the attributes and collect the violations of every attribute, for as long as the attributes can
    be delimited (a check that is deferred — e.g. the FINGERPRINT comparison done after the walk — may
    meet a later violation first): stop at the first attribute that cannot be delimited or does not fit -/
def walkCauses : Nat → Bytes → Bytes → Nat → List Nat → List PErr
  | 0, _, _, _, _ => []
  | fuel + 1, orig, data, off, seen =>
    if data.isEmpty then [] else
    match attrCauses orig data off seen with
    | (cs, none) => cs
    | (cs, some attr) =>
      if attr.paddedLen > data.length then cs
      else
        let seen' := if endingTypes.contains attr.ty then seen ++ [attr.ty] else seen
        cs ++ walkCauses fuel orig (data.drop attr.paddedLen) (off + attr.paddedLen) seen'

/-- every true cause at the point where `b` stops being a well-formed message; `[]` iff well-formed -/
def causes (b : Bytes) : List PErr :=
  let badType : Bool := match b with
    | x :: y :: _ => decide (be16 x y ≥ 0x4000)
    | _ => false
  let badCookie : Bool := decide (8 ≤ b.length) && decide ((b.drop 4).take 4 ≠ cookieBytes)
  let notStun : List PErr := if badType || badCookie then [.notStun] else []
  if b.length < 20 then .truncated 20 b.length :: notStun
  else
    let d := beNat ((b.drop 2).take 2)
    let len : List PErr :=
      if d + 20 > b.length then [.truncated (d + 20) b.length]
      else if d + 20 < b.length then [.tooLarge (d + 20) b.length] else []
    match notStun ++ len with
    | [] => walkCauses b.length b (b.drop 20) 20 []
    | cs => cs

end StunVerif.Spec
