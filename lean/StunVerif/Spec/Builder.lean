/-
Reachable builders: the states the public builder operations can produce from `Message::builder`
with in-limit attribute values (the quantifier of C03 / C11).
-/
import StunVerif.Msg.Builder
import StunVerif.Spec.Msg
namespace StunVerif.Spec

/-- the hash functions produce digests of the standard sizes -/
def HashesOk (H : Hashes) : Prop :=
  ∀ k m, (H.hmacSha1 k m).length = 20 ∧ (H.hmacSha256 k m).length = 32

/-- an attribute the caller may hand to `add_attribute` / `add_raw_attribute`: not one of the three
    ending types (those panic by contract), in-limit typed value or raw value of at most 65535 bytes -/
def Addable : BAttr → Prop
  | .typed v => v.inLimit = true ∧ isEnding v.kind.code = false
  | .raw a => a.value.length < 65536 ∧ a.ty < 65536 ∧ isEnding a.ty = false

/-- builder states reachable through the public operations (refused operations leave the state
    unchanged, so they do not add states) -/
inductive Reach (H : Hashes) : Builder → Prop
  | new (ty tid : Nat) : ty < 0x4000 → tid < 2 ^ 96 → Reach H (Builder.new ty tid)
  | add (b b' : Builder) (a : BAttr) : Reach H b → Addable a → b.add a = .ok b' → Reach H b'
  | integrity (b b' : Builder) (c : Creds) (algo : Algo) :
      Reach H b → b.addIntegrity H c algo = .ok b' → Reach H b'
  | fingerprint (b b' : Builder) : Reach H b → b.addFingerprint = .ok b' → Reach H b'
  | owned (b : Builder) : Reach H b → Reach H b.intoOwned

/-- the same, remembering that every integrity attribute was added with credentials `c` -/
inductive ReachWith (H : Hashes) (c : Creds) : Builder → Prop
  | new (ty tid : Nat) : ty < 0x4000 → tid < 2 ^ 96 → ReachWith H c (Builder.new ty tid)
  | add (b b' : Builder) (a : BAttr) : ReachWith H c b → Addable a → b.add a = .ok b' → ReachWith H c b'
  | integrity (b b' : Builder) (algo : Algo) :
      ReachWith H c b → b.addIntegrity H c algo = .ok b' → ReachWith H c b'
  | fingerprint (b b' : Builder) : ReachWith H c b → b.addFingerprint = .ok b' → ReachWith H c b'
  | owned (b : Builder) : ReachWith H c b → ReachWith H c b.intoOwned

/-- builder operations as data (C11's operation sequences) -/
inductive BOp where
  | add (a : BAttr)
  | integrity (c : Creds) (algo : Algo)
  | fingerprint
  | intoOwned
  | clone

/-- apply one operation: new state and whether it was accepted; a refused operation returns the
    state it was given -/
def applyOp (H : Hashes) (b : Builder) : BOp → Builder × Bool
  | .add a => match b.add a with
    | .ok b' => (b', true)
    | .error _ => (b, false)
  | .integrity c algo => match b.addIntegrity H c algo with
    | .ok b' => (b', true)
    | .error _ => (b, false)
  | .fingerprint => match b.addFingerprint with
    | .ok b' => (b', true)
    | .error _ => (b, false)
  | .intoOwned => (b.intoOwned, true)
  | .clone => (b, true)

def runOps (H : Hashes) (b : Builder) (ops : List BOp) : Builder :=
  ops.foldl (fun s op => (applyOp H s op).1) b

def opAddable : BOp → Prop
  | .add a => Addable a
  | _ => True

/-- integrity verdict of an accepted message, as RFC 8489 §14.5/14.6 define it, computed from the
    attribute records: the first MESSAGE-INTEGRITY-SHA256 if there is one, else the first
    MESSAGE-INTEGRITY, else "missing" -/
def firstOfType (ty : Nat) : Nat → List Tlv → Option (Nat × Tlv)
  | _, [] => none
  | off, t :: rest => if t.ty = ty then some (off, t) else firstOfType ty (off + t.enc.length) rest

def validate (H : Hashes) (b : Bytes) (ts : List Tlv) (c : Creds) : Except PErr Algo :=
  match firstOfType tyMI256 20 ts with
  | some (off, x) =>
    if x.value.length < 16 then .error (.truncated 16 x.value.length)
    else if x.value.length > 32 then .error (.tooLarge 32 x.value.length)
    else if x.value.length % 4 ≠ 0 then .error .invalid
    else if (H.hmacSha256 (hmacKey H c) (hmacInput b off (x.value.length + 4))).take x.value.length = x.value
      then .ok .sha256 else .error .integrityFailed
  | none =>
    match firstOfType tyMI 20 ts with
    | some (off, x) =>
      if x.value.length < 20 then .error (.truncated 20 x.value.length)
      else if x.value.length > 20 then .error (.tooLarge 20 x.value.length)
      else if H.hmacSha1 (hmacKey H c) (hmacInput b off 24) = x.value then .ok .sha1
      else .error .integrityFailed
    | none => .error (.missing tyMI)

end StunVerif.Spec
