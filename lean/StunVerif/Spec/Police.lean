/-
RFC 8489 §6.3.1 attribute policing, as a function of the exposed attribute types.
-/
import StunVerif.Msg.Police
namespace StunVerif.Spec

inductive Verdict where
  | unknown420 (types : List Nat)
  | bad400
  | pass
  deriving DecidableEq, Repr

/-- unknown comprehension-required (value below 0x8000) types not supported, in message order ->
    420; otherwise a required type absent -> 400; otherwise nothing -/
def police (types supported required : List Nat) : Verdict :=
  let u := types.filter fun t => t < 0x8000 ∧ t ∉ supported
  if u ≠ [] then .unknown420 u
  else if ∃ r ∈ required, r ∉ types then .bad400
  else .pass

end StunVerif.Spec
