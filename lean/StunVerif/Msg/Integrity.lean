/-
Model of `MessageIntegrityCredentials::make_hmac_key`, `Message::validate_integrity`,
`MessageIntegrity{,Sha256}::{compute,verify}`.  Parametric in the hash functions: the theorems hold
for any `Hashes`; the driver instantiates the reference implementations of `Crypto/Hash.lean`.
-/
import StunVerif.Msg.Parse
namespace StunVerif

structure Hashes where
  hmacSha1 : Bytes → Bytes → Bytes     -- key, message
  hmacSha256 : Bytes → Bytes → Bytes
  md5 : Bytes → Bytes

inductive Creds where
  | short (password : Bytes)
  | long (username realm password : Bytes)
  deriving DecidableEq, Repr

inductive Algo where
  | sha1 | sha256
  deriving DecidableEq, Repr

/-- `make_hmac_key`: short-term = password; long-term = MD5(username ":" realm ":" password) -/
def hmacKey (H : Hashes) : Creds → Bytes
  | .short p => p
  | .long u r p => H.md5 (u ++ [58] ++ r ++ [58] ++ p)

/-- HMAC input for an integrity attribute at offset `off` whose end is `attrEnd` bytes further:
    the message up to the attribute with the length field covering the attribute -/
def hmacInput (data : Bytes) (off attrEnd : Nat) : Bytes := setLen (data.take off) (off + attrEnd - 20)

/-- the location scan of `validate_integrity` -/
def validateScan (H : Hashes) (key : Bytes) (algo : Algo) (mac : Bytes) :
    Nat → Bytes → Bytes → Nat → Except PErr Algo
  | 0, _, _, _ => .error (.fault .hang)
  | fuel + 1, orig, data, off =>
    if data.isEmpty then .error (.fault .unreachable) else
    match rawFromBytes data with
    | .error e => .error e
    | .ok attr =>
      if algo = .sha1 && attr.ty = tyMI then
        match fromRaw .messageIntegrity attr with
        | .error e => .error e
        | .ok (.messageIntegrity h) =>
          if h ≠ mac then .error (.fault .panic)      -- debug_assert!
          else if off + 24 - 20 ≥ 65536 then .error (.fault .overflow)
          else if H.hmacSha1 key (hmacInput orig off 24) = mac then .ok algo
          else .error .integrityFailed
        | .ok _ => .error (.fault .unreachable)
      else if algo = .sha256 && attr.ty = tyMI256 then
        match fromRaw .messageIntegritySha256 attr with
        | .error e => .error e
        | .ok (.messageIntegritySha256 h) =>
          if h ≠ mac then .error (.fault .panic)      -- debug_assert!
          else if off + (attr.value.length + 4) - 20 ≥ 65536 then .error (.fault .overflow)
          else if (H.hmacSha256 key (hmacInput orig off (attr.value.length + 4))).take mac.length = mac
            then .ok algo
          else .error .integrityFailed
        | .ok _ => .error (.fault .unreachable)
      else
        validateScan H key algo mac fuel orig (data.drop attr.paddedLen) (off + attr.paddedLen)

/-- `Message::validate_integrity` -/
def Msg.validateIntegrity (H : Hashes) (m : Msg) (c : Creds) : Except PErr Algo :=
  let sel : Except PErr (Algo × Bytes) :=
    match m.rawAttribute tyMI, m.rawAttribute tyMI256 with
    | _, some s256 =>
      match fromRaw .messageIntegritySha256 s256 with
      | .ok (.messageIntegritySha256 h) => .ok (.sha256, h)
      | .ok _ => .error (.fault .unreachable)
      | .error e => .error e
    | some s1, none =>
      match fromRaw .messageIntegrity s1 with
      | .ok (.messageIntegrity h) => .ok (.sha1, h)
      | .ok _ => .error (.fault .unreachable)
      | .error e => .error e
    | none, none => .error (.missing tyMI)
  match sel with
  | .error e => .error e
  | .ok (algo, mac) =>
    validateScan H (hmacKey H c) algo mac m.data.length m.data (m.data.drop 20) 20

end StunVerif
