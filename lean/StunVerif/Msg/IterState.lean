/-
State of `MessageAttributesIter` (`stun-types/src/message.rs`): the cursor into the message bytes and
the two flags of the exposure rule.  The transition function `next` is not written here: it is
re-translated from the source on every run (`Gen/FnMsg.lean`, `Gen.iterNext`) and proved to produce
exactly `Msg.iter` (`Props/SrcFnIter.lean`).
-/
import StunVerif.Msg.Parse
namespace StunVerif

structure IterSt where
  dataI : Nat          -- `data_i`
  seen : Bool          -- `seen_message_integrity`
  lastMI : Bool        -- `last_was_message_integrity`
  deriving DecidableEq, Repr

/-- `Message::iter_attributes`: the initial iterator state -/
def IterSt.init : IterSt := ⟨20, false, false⟩

/-- `Fingerprint::from_raw(&attr)` followed by `.fingerprint()`: the stored (un-XORed) CRC bytes -/
def fpFromRaw (a : RawAttr) : Except PErr Bytes :=
  match fromRaw .fingerprint a with
  | .error e => .error e
  | .ok (.fingerprint crc) => .ok crc
  | .ok _ => .error (.fault .unreachable)

end StunVerif
