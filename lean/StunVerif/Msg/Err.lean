/-
Error values of the codec (`StunParseError`, `StunWriteError`) plus explicit faults: the places
where the Rust code would panic (`unwrap`, `unreachable!`, checked arithmetic, slice bounds) or
where a fuel-bounded loop of the model would not finish.
-/
namespace StunVerif

inductive Fault where
  | unreachable | unwrap | overflow | oob | hang | panic
  deriving DecidableEq, Repr

/-- `StunParseError` (+ `fault`, which is not a Rust value but a panic / non-termination) -/
inductive PErr where
  | notStun
  | truncated (expected actual : Nat)
  | tooLarge (expected actual : Nat)
  | integrityFailed
  | missing (ty : Nat)
  | afterIntegrity (ty : Nat)
  | afterFingerprint (ty : Nat)
  | fpMismatch
  | dataMismatch
  | invalid
  | wrongImpl
  | fault (f : Fault)
  deriving DecidableEq, Repr

deriving instance DecidableEq for Except

def PErr.isFault : PErr → Bool
  | .fault _ => true
  | _ => false

/-- `StunWriteError` -/
inductive WErr where
  | attributeExists (ty : Nat)
  | fingerprintExists
  | messageIntegrityExists
  | tooLarge (expected actual : Nat)
  | tooSmall (expected actual : Nat)
  | integrityFailed
  | outOfRange (value min max : Nat)
  deriving DecidableEq, Repr

def hex4s (n : Nat) : String :=
  let d (k : Nat) : Char := if k < 10 then Char.ofNat (48 + k) else Char.ofNat (87 + k)
  String.ofList [d (n / 4096 % 16), d (n / 256 % 16), d (n / 16 % 16), d (n % 16)]

def PErr.render : PErr → String
  | .notStun => "err notstun"
  | .truncated e a => s!"err trunc {e} {a}"
  | .tooLarge e a => s!"err toolarge {e} {a}"
  | .integrityFailed => "err integrity"
  | .missing t => s!"err missing {hex4s t}"
  | .afterIntegrity t => s!"err afterint {hex4s t}"
  | .afterFingerprint t => s!"err afterfp {hex4s t}"
  | .fpMismatch => "err fpmismatch"
  | .dataMismatch => "err datamismatch"
  | .invalid => "err invalid"
  | .wrongImpl => "err wrongimpl"
  | .fault _ => "panic"

end StunVerif
