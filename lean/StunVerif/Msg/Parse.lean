/-
Model of `MessageType::from_bytes`, `MessageHeader::from_bytes`, `Message::from_bytes`,
`MessageAttributesIter`, `raw_attribute`, `attribute`, `has_attribute`.
-/
import StunVerif.Attr.Typed
import StunVerif.Crypto.Crc32
namespace StunVerif

def tyMI : Nat := 0x0008
def tyMI256 : Nat := 0x001C
def tyFP : Nat := 0x8028

/-- `ending_attributes` of `Message::from_bytes` -/
def endingTypes : List Nat := [tyMI, tyMI256, tyFP]

/-- the RFC magic cookie as four bytes -/
def cookieBytes : Bytes := [0x21, 0x12, 0xA4, 0x42]

/-- `MessageType::from_bytes`: the 16-bit type value, refused if one of the top two bits is set -/
def msgTypeFromBytes (d : Bytes) : Except PErr Nat :=
  match d with
  | a :: b :: _ => if be16 a b ≥ 0x4000 then .error .notStun else .ok (be16 a b)
  | _ => .error (.truncated 2 d.length)

structure Header where
  ty : Nat
  len : Nat
  tid : Nat
  deriving DecidableEq, Repr

/-- `MessageHeader::from_bytes` -/
def headerFromBytes (d : Bytes) : Except PErr Header :=
  if d.length < 20 then .error (.truncated 20 d.length) else do
  let ty ← msgTypeFromBytes d
  let len := beNat ((d.drop 2).take 2)
  if (d.drop 4).take 4 ≠ cookieBytes then .error .notStun
  else .ok ⟨ty, len, beNat ((d.drop 8).take 12)⟩

/-- the bytes the fingerprint of an attribute at offset `off` (padded length `p`) is computed
    over: everything before it, with the length field covering the attribute -/
def fpInput (orig : Bytes) (off p : Nat) : Bytes := setLen (orig.take off) (off + p - 20)

/-- the attribute walk of `Message::from_bytes`.  `seen` = ending attribute types met so far. -/
def walk : Nat → Bytes → Bytes → Nat → List Nat → Except PErr Unit
  | 0, _, data, _, _ => if data.isEmpty then .ok () else .error (.fault .hang)
  | fuel + 1, orig, data, off, seen =>
    if data.isEmpty then .ok () else
    match rawFromBytes data with
    | .error (.truncated e a) => .error (.truncated (e + 4 + off) (a + 4 + off))
    | .error (.tooLarge e a) => .error (.tooLarge (e + 4 + off) (a + 4 + off))
    | .error e => .error e
    | .ok attr =>
      let afterErr : PErr :=
        if seen.contains tyFP then .afterFingerprint attr.ty else .afterIntegrity attr.ty
      if !seen.isEmpty && !endingTypes.contains attr.ty then .error afterErr
      else if endingTypes.contains attr.ty && (seen.contains attr.ty || seen.contains tyFP) then
        .error afterErr
      else
        let seen' := if endingTypes.contains attr.ty then seen ++ [attr.ty] else seen
        let p := attr.paddedLen
        if p > data.length then .error (.truncated (off + p) (off + data.length))
        else
          let fpCheck : Except PErr Unit :=
            if attr.ty = tyFP then
              match fromRaw .fingerprint attr with
              | .error e => .error e
              | .ok (.fingerprint crc) =>
                if Crc.crc32Bytes (fpInput orig off p) ≠ crc then .error .fpMismatch else .ok ()
              | .ok _ => .error (.fault .unreachable)
            else .ok ()
          match fpCheck with
          | .error e => .error e
          | .ok () => walk fuel orig (data.drop p) (off + p) seen'

/-- an accepted message is its buffer -/
structure Msg where
  data : Bytes
  deriving DecidableEq, Repr

/-- `Message::from_bytes` -/
def msgFromBytes (b : Bytes) : Except PErr Msg := do
  let h ← headerFromBytes b
  if h.len + 20 > b.length then .error (.truncated (h.len + 20) b.length)
  else if h.len + 20 < b.length then .error (.tooLarge (h.len + 20) b.length)
  else
    walk b.length b (b.drop 20) 20 [] |>.map fun _ => ⟨b⟩

/-- `Message::get_type`, `class`, `method`, `transaction_id` -/
def Msg.typeField (m : Msg) : Nat := beNat (m.data.take 2)
def Msg.tid (m : Msg) : Nat := beNat ((m.data.drop 8).take 12)

/-- `MessageAttributesIter`: the attributes produced by calling `next` until the first `None`.
    `seen` = an integrity attribute was produced, `lastMI` = the previous attribute was the
    MESSAGE-INTEGRITY that started the integrity tail. -/
def iterGo : Nat → Bytes → Bool → Bool → List RawAttr
  | 0, _, _, _ => []
  | fuel + 1, data, seen, lastMI =>
    if data.isEmpty then [] else
    match rawFromBytes data with
    | .error _ => []
    | .ok a =>
      let rest := data.drop a.paddedLen
      if seen then
        if lastMI && a.ty = tyMI256 then a :: iterGo fuel rest true false
        else if a.ty = tyFP then a :: iterGo fuel rest true false
        else iterGo fuel rest true false
      else
        a :: iterGo fuel rest (a.ty = tyMI || a.ty = tyMI256) (a.ty = tyMI)

def Msg.iter (m : Msg) : List RawAttr := iterGo m.data.length (m.data.drop 20) false false

/-- `Message::raw_attribute` -/
def Msg.rawAttribute (m : Msg) (ty : Nat) : Option RawAttr := m.iter.find? (·.ty = ty)

/-- `Message::has_attribute` -/
def Msg.hasAttribute (m : Msg) (ty : Nat) : Bool := m.iter.any (·.ty = ty)

/-- `Message::attribute::<A>` -/
def Msg.attribute (m : Msg) (k : Kind) : Except PErr AttrVal :=
  match m.rawAttribute k.code with
  | none => .error (.missing k.code)
  | some raw => fromRaw k raw

/-- every attribute of the body in wire order, exposed or not (reference for the specs) -/
def allAttrsGo : Nat → Bytes → List RawAttr
  | 0, _ => []
  | fuel + 1, data =>
    if data.isEmpty then [] else
    match rawFromBytes data with
    | .error _ => []
    | .ok a => a :: allAttrsGo fuel (data.drop a.paddedLen)

def Msg.allAttrs (m : Msg) : List RawAttr := allAttrsGo m.data.length (m.data.drop 20)

end StunVerif
