/-
Model of `Message::check_attribute_types`, `unknown_attributes`, `bad_request`,
`AttributeType::comprehension_required`.
-/
import StunVerif.Msg.Builder
namespace StunVerif

def comprehensionRequired (t : Nat) : Bool := t < 0x8000

def asciiBytes (s : String) : Bytes := s.toUTF8.toList

def Msg.method (m : Msg) : Nat := Spec.methodOfType m.typeField
def Msg.cls (m : Msg) : Nat := Spec.classOfType m.typeField

/-- builder for an error response to `src` (class 3 = error) -/
def errorBuilder (src : Msg) : Builder := Builder.new (Spec.interleave 3 src.method) src.tid

def addOrSame (b : Builder) (a : BAttr) : Builder :=
  match b.add a with
  | .ok b' => b'
  | .error _ => b     -- `unwrap()` panic; unreachable on a fresh builder (theorem)

/-- `Message::unknown_attributes` -/
def unknownAttributesResp (src : Msg) (types : List Nat) : Builder :=
  let b := errorBuilder src
  let b := addOrSame b (.typed (.software (asciiBytes "stun-types")))
  let b := addOrSame b (.typed (.errorCode 420 (asciiBytes "Unknown Attributes")))
  let b := if !types.isEmpty then addOrSame b (.typed (.unknownAttributes types)) else b
  b.intoOwned

/-- `Message::bad_request` -/
def badRequestResp (src : Msg) : Builder :=
  let b := errorBuilder src
  let b := addOrSame b (.typed (.software (asciiBytes "stun-types")))
  let b := addOrSame b (.typed (.errorCode 400 (asciiBytes "Bad Request")))
  b.intoOwned

/-- `Message::check_attribute_types` -/
def checkAttributeTypes (m : Msg) (supported required : List Nat) : Option Builder :=
  let unsupported := (m.iter.map (·.ty)).filter fun t => comprehensionRequired t && !supported.contains t
  if !unsupported.isEmpty then some (unknownAttributesResp m unsupported)
  else if required.any (fun t => !(m.iter.map (·.ty)).contains t) then some (badRequestResp m)
  else none

end StunVerif
