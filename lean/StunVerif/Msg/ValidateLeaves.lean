/-
Leaves of the translated `Message::validate_integrity` (`Gen.validateIntegrity`, `Gen/FnIntegrity.lean`):
the typed integrity decoders reduced to the HMAC bytes, and the two `verify` functions (which call into
the `hmac` crate and stay model).
-/
import StunVerif.Msg.Integrity
namespace StunVerif

/-- `MessageIntegrity::try_from(&raw)` followed by `.hmac()` -/
def miFromRaw (a : RawAttr) : Except PErr Bytes :=
  match fromRaw .messageIntegrity a with
  | .error e => .error e
  | .ok (.messageIntegrity h) => .ok h
  | .ok _ => .error (.fault .unreachable)

/-- `MessageIntegritySha256::try_from(&raw)` followed by `.hmac()` -/
def mi256FromRaw (a : RawAttr) : Except PErr Bytes :=
  match fromRaw .messageIntegritySha256 a with
  | .error e => .error e
  | .ok (.messageIntegritySha256 h) => .ok h
  | .ok _ => .error (.fault .unreachable)

/-- `MessageIntegrity::verify` -/
def verifySha1 (H : Hashes) (data key mac : Bytes) : Except PErr Unit :=
  if H.hmacSha1 key data = mac then .ok () else .error .integrityFailed

/-- `MessageIntegritySha256::verify` (`verify_truncated_left`) -/
def verifySha256 (H : Hashes) (data key mac : Bytes) : Except PErr Unit :=
  if (H.hmacSha256 key data).take mac.length = mac then .ok () else .error .integrityFailed

end StunVerif
