/-
Model of `MessageBuilder`: `add_attribute`, `add_raw_attribute`, `add_message_integrity`,
`add_fingerprint`, `has_attribute`, `has_any_attribute`, `byte_len`, `write_into`, `build`,
`into_owned` (`clone` is the identity on a value model).
-/
import StunVerif.Msg.Integrity
import StunVerif.Spec.MsgType
namespace StunVerif

/-- `AttrOrRaw` -/
inductive BAttr where
  | typed (v : AttrVal)
  | raw (a : RawAttr)
  deriving DecidableEq, Repr

def BAttr.ty : BAttr → Nat
  | .typed v => v.kind.code
  | .raw a => a.ty

def BAttr.paddedLen : BAttr → Nat
  | .typed v => v.paddedLen
  | .raw a => a.paddedLen

def BAttr.writeInto : BAttr → Bytes → Except WErr (Nat × Bytes)
  | .typed v, dest => v.writeInto dest
  | .raw a, dest => a.writeInto dest

def BAttr.intoOwned : BAttr → BAttr
  | .typed v => .raw v.toRaw
  | .raw a => .raw a

/-- what the attribute looks like once parsed back: its type and value bytes -/
def BAttr.asRaw : BAttr → RawAttr
  | .typed v => v.toRaw
  | .raw a => a

structure Builder where
  ty : Nat            -- 16-bit message type field
  tid : Nat           -- 96-bit transaction id
  attrs : List BAttr
  types : List Nat    -- `attribute_types`, kept in parallel by the code
  deriving DecidableEq, Repr

def Builder.new (ty tid : Nat) : Builder := ⟨ty, tid, [], []⟩

def Builder.hasAttribute (b : Builder) (t : Nat) : Bool := b.types.any (· = t)

/-- `has_any_attribute`: the first of the builder's types that is in `ts` -/
def Builder.hasAnyAttribute (b : Builder) (ts : List Nat) : Option Nat := b.types.find? (ts.contains ·)

def Builder.byteLen (b : Builder) : Nat := 20 + (b.attrs.map BAttr.paddedLen).sum

/-- the attribute loop of `write_into`: each attribute writes into `dest[offset..]` -/
def writeAttrs : List BAttr → Bytes → Nat → Except WErr (Nat × Bytes)
  | [], dest, off => .ok (off, dest)
  | a :: as, dest, off =>
    match a.writeInto (dest.drop off) with
    | .error e => .error e
    | .ok (n, sub) => writeAttrs as (dest.take off ++ sub) (off + n)

/-- `MessageBuilder::write_into`; on success the number of bytes written and the new destination -/
def Builder.writeInto (b : Builder) (dest : Bytes) : Except WErr (Nat × Bytes) :=
  let len := b.byteLen
  if len > dest.length then .error (.tooSmall len dest.length) else
  let hdr := enc16 b.ty ++ enc16 (len - 20) ++ cookieBytes ++ encBE 12 b.tid
  writeAttrs b.attrs (hdr ++ dest.drop 20) 20

/-- `MessageBuilder::build`: write into a zeroed buffer of the exact size -/
def Builder.build (b : Builder) : Bytes :=
  let dest := zeros b.byteLen
  match b.writeInto dest with
  | .ok (_, d) => d
  | .error _ => dest

def Builder.intoOwned (b : Builder) : Builder := { b with attrs := b.attrs.map BAttr.intoOwned }

/-- shared guard of `add_attribute` / `add_raw_attribute` -/
def Builder.addGuard (b : Builder) (ty : Nat) : Except WErr Unit :=
  match b.hasAnyAttribute [ty, tyMI, tyMI256, tyFP] with
  | some t =>
    if t = tyMI then .error .messageIntegrityExists
    else if t = tyMI256 then .error .messageIntegrityExists
    else if t = tyFP then .error .fingerprintExists
    else if t = ty then .error (.attributeExists ty)
    else .ok ()
  | none => .ok ()

/-- `add_attribute` / `add_raw_attribute` (types MI, MI-SHA256, FP are outside the contract:
    the Rust code panics on them and the model is never asked) -/
def Builder.add (b : Builder) (a : BAttr) : Except WErr Builder :=
  match b.addGuard a.ty with
  | .error e => .error e
  | .ok () => .ok { b with attrs := b.attrs ++ [a], types := b.types ++ [a.ty] }

/-- `integrity_bytes_from_message`: the built bytes with the length field raised by `extra`;
    `none` is the checked-`u16` overflow panic -/
def Builder.bytesWithExtraLen (b : Builder) (extra : Nat) : Option Bytes :=
  let bytes := b.build
  let existing := beNat ((bytes.drop 2).take 2)
  if existing + extra ≥ 65536 then none else some (setLen bytes (existing + extra))

/-- `add_message_integrity` -/
def Builder.addIntegrity (H : Hashes) (b : Builder) (c : Creds) (algo : Algo) :
    Except WErr Builder :=
  let ts := match algo with
    | .sha1 => [tyMI, tyMI256, tyFP]
    | .sha256 => [tyMI256, tyFP]
  match b.hasAnyAttribute ts with
  | some t =>
    if t = tyMI then .error (.attributeExists tyMI)
    else if t = tyMI256 then .error (.attributeExists tyMI256)
    else .error .fingerprintExists
  | none =>
    let key := hmacKey H c
    match algo with
    | .sha1 =>
      match b.bytesWithExtraLen 24 with
      | none => .error .integrityFailed    -- stands for the overflow panic (size limit exceeded)
      | some bytes =>
        let a : RawAttr := ⟨tyMI, H.hmacSha1 key bytes⟩
        .ok { b with attrs := b.attrs ++ [.raw a], types := b.types ++ [tyMI] }
    | .sha256 =>
      match b.bytesWithExtraLen 36 with
      | none => .error .integrityFailed
      | some bytes =>
        let a : RawAttr := ⟨tyMI256, H.hmacSha256 key bytes⟩
        .ok { b with attrs := b.attrs ++ [.raw a], types := b.types ++ [tyMI256] }

/-- `add_fingerprint` -/
def Builder.addFingerprint (b : Builder) : Except WErr Builder :=
  if b.hasAttribute tyFP then .error (.attributeExists tyFP) else
  match b.bytesWithExtraLen 8 with
  | none => .error .integrityFailed
  | some bytes =>
    let a : BAttr := (BAttr.typed (.fingerprint (Crc.crc32Bytes bytes))).intoOwned
    .ok { b with attrs := b.attrs ++ [a], types := b.types ++ [tyFP] }

end StunVerif
