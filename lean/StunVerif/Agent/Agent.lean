/-
Model of `stun_proto::agent`: `StunRequestState::{new,poll}`, `StunAgent::{send, handle_stun,
poll, is_validated_peer, request_transaction, set_remote_credentials}`,
`StunRequestMut::{cancel, cancel_retransmissions, configure_timeout}`, `Transmit`.

Time is a natural number of nanoseconds; configured timeouts are integer milliseconds.  Socket
addresses and credentials are opaque identifiers.  Incoming messages are descriptors: whether the
message is a response, its transaction id, and under which credentials its integrity validates.
The hash-map iteration order of `StunAgent::poll` is not modelled as a fixed order: `poll` takes
the transaction the caller wants served (`pick`); it is honoured when that transaction is ready,
and every theorem quantifies over all picks.
-/
import StunVerif.Bytes
namespace StunVerif.Agent

inductive Transport where
  | udp | tcp
  deriving DecidableEq, Repr

abbrev SockAddr := Nat
abbrev Key := Nat
abbrev Time := Nat

def msNs (ms : Nat) : Nat := ms * 1000000

structure Transmit where
  data : Bytes
  transport : Transport
  src : SockAddr
  dst : SockAddr
  deriving DecidableEq, Repr

/-- `StunRequestState` -/
structure Req where
  hadCreds : Bool
  bytes : Bytes
  to : SockAddr
  timeouts : List Nat         -- `timeouts_ms`
  lastRto : Nat               -- `last_retransmit_timeout_ms`
  recvCancelled : Bool
  sendCancelled : Bool
  timeoutI : Nat
  lastSend : Option Time
  deriving DecidableEq, Repr

inductive ReqRet where
  | waitUntil (t : Time)
  | cancelled
  | sendData
  | timedOut
  deriving DecidableEq, Repr

/-- `StunRequestState::new` -/
def Req.new (tr : Transport) (bytes : Bytes) (hadCreds : Bool) (to : SockAddr) : Req :=
  match tr with
  | .tcp => ⟨hadCreds, bytes, to, [], 39500, false, false, 0, none⟩
  | .udp => ⟨hadCreds, bytes, to, [500, 1000, 2000, 4000, 8000, 16000], 8000, false, false, 0, none⟩

/-- `StunRequestState::poll` -/
def reqPoll (r : Req) (now : Time) : Req × ReqRet :=
  if r.recvCancelled then (r, .cancelled) else
  let send (r : Req) : Req × ReqRet :=
    if r.sendCancelled then (r, .cancelled) else ({ r with lastSend := some now }, .sendData)
  match r.lastSend with
  | some h =>
    if r.timeoutI ≥ r.timeouts.length then
      if h + msNs r.lastRto > now then (r, .waitUntil (h + msNs r.lastRto)) else (r, .timedOut)
    else
      let next := h + msNs (r.timeouts.getD r.timeoutI 0)
      if next > now then (r, .waitUntil next)
      else send { r with timeoutI := r.timeoutI + 1 }
  | none => send r

/-- incoming message descriptor -/
structure InMsg where
  isResponse : Bool
  tid : Nat
  validUnder : Key → Bool

structure State where
  transport : Transport
  localAddr : SockAddr
  remoteCreds : Option Key
  validated : List SockAddr
  out : List (Nat × Req)        -- outstanding requests by transaction id (no duplicate ids)

def State.init (tr : Transport) (localAddr : SockAddr) : State := ⟨tr, localAddr, none, [], []⟩

def lookup (out : List (Nat × Req)) (tid : Nat) : Option Req := (out.find? (·.1 = tid)).map (·.2)
def remove (out : List (Nat × Req)) (tid : Nat) : List (Nat × Req) := out.filter (·.1 ≠ tid)
def insert (out : List (Nat × Req)) (tid : Nat) (r : Req) : List (Nat × Req) := (tid, r) :: remove out tid
def update (out : List (Nat × Req)) (tid : Nat) (f : Req → Req) : List (Nat × Req) :=
  out.map fun p => if p.1 = tid then (p.1, f p.2) else p

def validatedPeer (s : State) (a : SockAddr) : State :=
  if s.validated.contains a then s else { s with validated := a :: s.validated }

inductive Op where
  | sendReq (tid : Nat) (bytes : Bytes) (hadCreds : Bool) (to : SockAddr) (now : Time)
  | sendOther (bytes : Bytes) (to : SockAddr)
  | handle (m : InMsg) (src : SockAddr)
  | poll (now : Time) (pick : Option Nat)
  | cancel (tid : Nat)
  | cancelRtx (tid : Nat)
  | configure (tid : Nat) (rtoMs retransmits lastMs : Nat)
  | setRemoteCreds (k : Key)

inductive Out where
  | transmit (tid : Option Nat) (tx : Transmit)   -- `tid` = the request it belongs to, if any
  | inProgress
  | protocolViolation
  | response
  | incoming
  | drop
  | waitUntil (t : Time)
  | timedOut (tid : Nat)
  | cancelled (tid : Nat)
  | unit
  deriving DecidableEq, Repr

def mkTransmit (s : State) (r : Req) : Transmit := ⟨r.bytes, s.transport, s.localAddr, r.to⟩

/-- transactions whose `poll` would not answer WaitUntil at `now` -/
def ready (s : State) (now : Time) : List Nat :=
  (s.out.filter fun p => match (reqPoll p.2 now).2 with
    | .waitUntil _ => false
    | _ => true).map (·.1)

/-- earliest wake-up among the outstanding requests -/
def minWait (s : State) (now : Time) : Option Time :=
  s.out.foldl (fun acc p => match (reqPoll p.2 now).2 with
    | .waitUntil t => (match acc with
      | none => some t
      | some a => if t < a then some t else some a)
    | _ => acc) none

/-- `StunAgent::poll`: serve one ready transaction (the picked one if it is ready, else the first
    ready one in list order), or report the earliest wake-up; with nothing outstanding, an hour -/
def agentPoll (s : State) (now : Time) (pick : Option Nat) : State × Out :=
  let rs := ready s now
  let chosen : Option Nat := match pick with
    | some t => if rs.contains t then some t else rs.head?
    | none => rs.head?
  match chosen with
  | none => (s, .waitUntil ((minWait s now).getD (now + msNs 3600000)))
  | some tid =>
    match lookup s.out tid with
    | none => (s, .waitUntil (now + msNs 3600000))     -- unreachable: chosen ∈ ready ⊆ keys
    | some r =>
      let (r', ret) := reqPoll r now
      match ret with
      | .sendData => ({ s with out := update s.out tid fun _ => r' }, .transmit (some tid) (mkTransmit s r'))
      | .timedOut => ({ s with out := remove s.out tid }, .timedOut tid)
      | .cancelled => ({ s with out := remove s.out tid }, .cancelled tid)
      | .waitUntil t => (s, .waitUntil t)              -- unreachable: chosen is ready

/-- `configure_timeout` -/
def configureReq (tr : Transport) (r : Req) (rto n last : Nat) : Req :=
  match tr with
  | .udp => { r with timeouts := (List.range n).map (fun i => rto * 2 ^ i), lastRto := last }
  | .tcp => { r with timeouts := [],
                     lastRto := last + ((List.range n).map (fun i => rto * 2 ^ i)).sum }

def step (s : State) : Op → State × Out
  | .sendReq tid bytes hadCreds to now =>
    if (lookup s.out tid).isSome then (s, .inProgress) else
    let r := Req.new s.transport bytes hadCreds to
    let (r', ret) := reqPoll r now
    match ret with
    | .sendData => ({ s with out := insert s.out tid r' }, .transmit (some tid) (mkTransmit s r'))
    | _ => (s, .protocolViolation)
  | .sendOther bytes to => (s, .transmit none ⟨bytes, s.transport, s.localAddr, to⟩)
  | .handle m src =>
    if m.isResponse then
      match lookup s.out m.tid with
      | none => (s, .drop)
      | some r =>
        let s1 := { s with out := remove s.out m.tid }
        if r.hadCreds then
          match s.remoteCreds with
          | some k =>
            if m.validUnder k then (validatedPeer s1 src, .response)
            else ({ s1 with out := insert s1.out m.tid r }, .drop)
          | none => ({ s1 with out := insert s1.out m.tid r }, .drop)
        else (validatedPeer s1 src, .response)
    else (validatedPeer s src, .incoming)
  | .poll now pick => agentPoll s now pick
  | .cancel tid =>
    ({ s with out := update s.out tid fun r => { r with sendCancelled := true, recvCancelled := true } }, .unit)
  | .cancelRtx tid =>
    ({ s with out := update s.out tid fun r => { r with sendCancelled := true } }, .unit)
  | .configure tid rto n last =>
    ({ s with out := update s.out tid fun r => configureReq s.transport r rto n last }, .unit)
  | .setRemoteCreds k => ({ s with remoteCreds := some k }, .unit)

/-- run a history: final state and every reply in order -/
def run : State → List Op → State × List Out
  | s, [] => (s, [])
  | s, op :: ops =>
    let (s1, o) := step s op
    let (s2, os) := run s1 ops
    (s2, o :: os)

/-- queries -/
def isValidatedPeer (s : State) (a : SockAddr) : Bool := s.validated.contains a
def isOutstanding (s : State) (tid : Nat) : Bool := (lookup s.out tid).isSome
def peerAddress (s : State) (tid : Nat) : Option SockAddr := (lookup s.out tid).map (·.to)

end StunVerif.Agent
