/-
Model of `stun_proto::agent::TcpBuffer` (RFC 4571 framing): `push_data`, `pull_data`, `take`.
-/
import StunVerif.Bytes
namespace StunVerif.Tcp

/-- `TcpBuffer::push_data` -/
def push (buf d : Bytes) : Bytes := buf ++ d

/-- `TcpBuffer::pull_data` (with `take` inlined): result and the new buffer -/
def pull (buf : Bytes) : Option Bytes × Bytes :=
  match buf with
  | a :: b :: rest =>
    -- data_length = be16 + 2;  buf.len() < data_length  ⇔  rest.length < be16
    if rest.length < be16 a b then (none, buf)
    else (some (rest.take (be16 a b)), rest.drop (be16 a b))
  | _ => (none, buf)

/-- the wire form of one frame -/
def frame (f : Bytes) : Bytes := enc16 f.length ++ f

inductive Op where
  | push (d : Bytes)
  | pull
  deriving Repr

/-- run a schedule of pushes and pulls; returns the final buffer and every pull result in order -/
def run : Bytes → List Op → Bytes × List (Option Bytes)
  | buf, [] => (buf, [])
  | buf, .push d :: ops => run (push buf d) ops
  | buf, .pull :: ops =>
    let r := pull buf
    let rr := run r.2 ops
    (rr.1, r.1 :: rr.2)

/-- pull until nothing is returned (fuel = buffer length + 1 always suffices) -/
def drainF : Nat → Bytes → List Bytes
  | 0, _ => []
  | fuel + 1, buf =>
    match pull buf with
    | (some f, buf') => f :: drainF fuel buf'
    | (none, _) => []

def drain (buf : Bytes) : List Bytes := drainF (buf.length + 1) buf

end StunVerif.Tcp
