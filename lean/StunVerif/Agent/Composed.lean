/-
The agent model composed with the codec model: `StunAgent::send` takes a `MessageBuilder`
(class decides request vs. one-shot, `request_had_credentials` is computed from the builder's
attribute types, the bytes are `build()`), and `StunAgent::handle_stun` takes a parsed `Message`
(class decides response vs. incoming, transaction id from the header, integrity verdict from
`Message::validate_integrity`).
-/
import StunVerif.Agent.Agent
import StunVerif.Msg.Builder
import StunVerif.Msg.Police
namespace StunVerif.Agent

/-- `StunAgent::send(msg, to, now)` -/
def sendMsg (s : State) (b : Builder) (to : SockAddr) (now : Time) : State × Out :=
  if Spec.classOfType b.ty = 0 then
    step s (.sendReq b.tid b.build (b.hasAttribute tyMI || b.hasAttribute tyMI256) to now)
  else step s (.sendOther b.build to)

/-- the descriptor of a parsed incoming message; `creds` maps the agent model's opaque keys to
    credentials -/
def inMsgOf (H : Hashes) (creds : Key → Creds) (m : Msg) : InMsg :=
  { isResponse := m.cls = 2 ∨ m.cls = 3
    tid := m.tid
    validUnder := fun k => match m.validateIntegrity H (creds k) with
      | .ok _ => true
      | .error _ => false }

/-- `StunAgent::handle_stun(msg, from)` -/
def handleMsg (H : Hashes) (creds : Key → Creds) (s : State) (m : Msg) (src : SockAddr) : State × Out :=
  step s (.handle (inMsgOf H creds m) src)

end StunVerif.Agent
