/-
Source agreement for the glue between the codec and the agent (C05, C07, C15, C18; C02's faithful fields): the read-only
accessors of `Message` the agent and the observations go through (`get_type`, `class`, `has_class`, `is_response`, `method`,
`has_method`, `transaction_id`, `raw_attribute`, `has_attribute`, with `MessageType::{class, is_response}` and
`MessageClass::is_response`) and `StunRequestState::new` (which bytes are stored, how `request_had_credentials` is computed
from the builder, the default schedule per transport) are re-translated from the source on every run (`Gen/FnGlue.lean`)
and equal what the composed model (`Agent/Composed.lean`: `sendMsg`, `inMsgOf`) assumes, on every accepted message and
every builder.
-/
import StunVerif.Gen.FnGlue
import StunVerif.Agent.Composed
import StunVerif.Lemmas.Parse
import StunVerif.Props.SrcFnDecode
namespace StunVerif.SrcFnGlue
open StunVerif StunVerif.Agent

/-- `StunRequestState::new`: the state `send` stores for a request is the model's `Req.new` on the builder's `build()`
    bytes, with `request_had_credentials` = the builder holds MESSAGE-INTEGRITY or MESSAGE-INTEGRITY-SHA256 -/
theorem src_reqNew (b : Builder) (tr : Transport) (to : SockAddr) :
    Gen.reqNew b tr to = Req.new tr b.build (b.hasAttribute tyMI || b.hasAttribute tyMI256) to := by
  cases tr <;> simp [Gen.reqNew, Req.new]

/-- `MessageType::class` on every type value the parser accepts: the RFC class bits; the `unreachable!()` arm is not taken -/
theorem src_mtypeClass (v : Nat) (hv : v < 16384) : Gen.mtypeClass v = Spec.classOfType v := by
  have h := (C19.decode_spec v hv).1
  unfold Gen.classOf at h
  unfold Gen.mtypeClass
  simp only [h]
  have hb : Spec.classOfType v < 4 := by
    unfold Spec.classOfType Spec.bit
    omega
  match hc : Spec.classOfType v, hb with
  | 0, _ => rfl
  | 1, _ => rfl
  | 2, _ => rfl
  | 3, _ => rfl

/-- what acceptance by the parser gives the accessors: twenty bytes, an accepted type field -/
theorem accepted (b : Bytes) (m : Msg) (h : msgFromBytes b = .ok m) :
    20 ≤ m.data.length ∧ m.typeField < 16384 := by
  obtain ⟨rfl, h20, hty, _⟩ := (msgFromBytes_ok_iff b m).mp h
  exact ⟨h20, hty⟩

theorem src_msgGetType (m : Msg) (h20 : 20 ≤ m.data.length) (hty : m.typeField < 16384) :
    Gen.msgGetType m = m.typeField := by
  unfold Gen.msgGetType Msg.typeField at *
  match hd : m.data, h20 with
  | a :: b :: rest, _ =>
    rw [hd] at hty
    simp only [List.take_succ_cons, List.take_zero, beNat_two] at hty ⊢
    have : ¬ be16 a b ≥ 0x4000 := by omega
    simp [msgTypeFromBytes, this]

theorem src_msgClass (m : Msg) (h20 : 20 ≤ m.data.length) (hty : m.typeField < 16384) : Gen.msgClass m = m.cls := by
  unfold Gen.msgClass Msg.cls
  rw [src_msgGetType m h20 hty, src_mtypeClass _ hty]

theorem src_msgMethod (m : Msg) (h20 : 20 ≤ m.data.length) (hty : m.typeField < 16384) : Gen.msgMethod m = m.method := by
  unfold Gen.msgMethod Msg.method
  rw [src_msgGetType m h20 hty, (C19.decode_spec _ hty).2]

theorem src_msgHasClass (m : Msg) (c : Nat) (h20 : 20 ≤ m.data.length) (hty : m.typeField < 16384) :
    Gen.msgHasClass m c = decide (m.cls = c) := by
  unfold Gen.msgHasClass; rw [src_msgClass m h20 hty]

theorem src_msgHasMethod (m : Msg) (k : Nat) (h20 : 20 ≤ m.data.length) (hty : m.typeField < 16384) :
    Gen.msgHasMethod m k = decide (m.method = k) := by
  unfold Gen.msgHasMethod; rw [src_msgMethod m h20 hty]

/-- `Message::transaction_id`: the 128-bit read at offset 4 reduced by `From<u128>` is the 96 bits at offset 8 -/
theorem src_msgTransactionId (m : Msg) (h20 : 20 ≤ m.data.length) : Gen.msgTransactionId m = m.tid := by
  unfold Gen.msgTransactionId Msg.tid
  have h16 : (m.data.drop 4).take 16 = (m.data.drop 4).take 4 ++ (m.data.drop 8).take 12 := by
    have : (m.data.drop 4).take 16 = (m.data.drop 4).take 4 ++ ((m.data.drop 4).drop 4).take 12 := by
      rw [← List.take_add]
    rw [this, List.drop_drop]
  have ht12 : ((m.data.drop 8).take 12).length = 12 := by simp; omega
  have htl := beNat_lt_of_length 12 _ ht12
  rw [h16, SrcFnDecode.beNat_append, ht12, C19.tid_mask]
  have e1 := SrcFnDecode.pow_256_12
  rw [e1] at htl ⊢
  rw [Nat.mul_comm, Nat.mul_add_mod]
  exact Nat.mod_eq_of_lt htl

theorem src_msgRawAttribute (m : Msg) (t : Nat) : Gen.msgRawAttribute m t = m.rawAttribute t := rfl

theorem src_msgHasAttribute (m : Msg) (t : Nat) : Gen.msgHasAttribute m t = m.hasAttribute t := rfl

/-- the descriptor the composed agent model derives from a parsed message is what the source's accessors answer:
    `handle_stun` branches on `msg.is_response()` and looks the request up under `msg.transaction_id()` -/
theorem src_inMsg (H : Hashes) (creds : Key → Creds) (b : Bytes) (m : Msg) (h : msgFromBytes b = .ok m) :
    Gen.msgIsResponse m = (inMsgOf H creds m).isResponse ∧ Gen.msgTransactionId m = (inMsgOf H creds m).tid := by
  obtain ⟨h20, hty⟩ := accepted b m h
  refine ⟨?_, src_msgTransactionId m h20⟩
  unfold Gen.msgIsResponse Gen.classIsResponse inMsgOf
  rw [src_msgClass m h20 hty]
  simp

/-- non-vacuity: a Binding success response header is accepted and answers `is_response() = true`, id 1 -/
example :
    let b : Bytes := [0x01, 0x01, 0, 0, 0x21, 0x12, 0xA4, 0x42] ++ List.replicate 11 0 ++ [1]
    msgFromBytes b = .ok ⟨b⟩ ∧ Gen.msgIsResponse ⟨b⟩ = true ∧ Gen.msgTransactionId ⟨b⟩ = 1 := by
  decide

end StunVerif.SrcFnGlue
