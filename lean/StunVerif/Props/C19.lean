/-
C19 — message type and transaction id fields are encoded bijectively per the RFC.
Every theorem is about `Gen.*`, i.e. the code's own expressions as translated from /repo on this
run, and is checked over the complete finite domain by kernel evaluation.
-/
import StunVerif.Gen.MsgType
import StunVerif.Spec.MsgType
import StunVerif.Lemmas.Finite
namespace StunVerif.C19
open StunVerif

/-- all 4 classes × all 4096 methods: the type field is the RFC interleaving -/
theorem rfc_layout : ∀ c, c < 4 → ∀ m, m < 4096 →
    Gen.fromClassMethod c m = Spec.interleave c m := by
  have h : allBelow 4 (fun c => allBelow 4096 (fun m =>
      decide (Gen.fromClassMethod c m = Spec.interleave c m))) = true := by decide +kernel
  intro c hc m hm
  exact of_decide_eq_true (allBelow_sound (allBelow_sound h c hc) m hm)

/-- … and decodes back to the same class and method -/
theorem decode_encode : ∀ c, c < 4 → ∀ m, m < 4096 →
    Gen.classOf (Gen.fromClassMethod c m) = c ∧ Gen.methodOf (Gen.fromClassMethod c m) = m ∧
    Gen.fromClassMethod c m < 16384 := by
  have h : allBelow 4 (fun c => allBelow 4096 (fun m =>
      decide (Gen.classOf (Gen.fromClassMethod c m) = c ∧
              Gen.methodOf (Gen.fromClassMethod c m) = m ∧
              Gen.fromClassMethod c m < 16384))) = true := by decide +kernel
  intro c hc m hm
  exact of_decide_eq_true (allBelow_sound (allBelow_sound h c hc) m hm)

/-- every 16-bit value with one of the top two bits set is refused as not STUN, no other is -/
theorem refuse_iff : ∀ v, v < 65536 → (Gen.typeIsNotStun v = true ↔ 16384 ≤ v) := by
  have h : allBelow 65536 (fun v => decide (Gen.typeIsNotStun v = true ↔ 16384 ≤ v)) = true := by
    decide +kernel
  intro v hv
  exact of_decide_eq_true (allBelow_sound h v hv)

/-- every accepted value decodes to a (class, method) pair in range that encodes back to it -/
theorem unique : ∀ v, v < 16384 →
    Gen.classOf v < 4 ∧ Gen.methodOf v < 4096 ∧
    Gen.fromClassMethod (Gen.classOf v) (Gen.methodOf v) = v := by
  have h : allBelow 16384 (fun v => decide (Gen.classOf v < 4 ∧ Gen.methodOf v < 4096 ∧
      Gen.fromClassMethod (Gen.classOf v) (Gen.methodOf v) = v)) = true := by decide +kernel
  intro v hv
  exact of_decide_eq_true (allBelow_sound h v hv)

/-- the code's decoders are the RFC bit positions on every accepted value -/
theorem decode_spec : ∀ v, v < 16384 →
    Gen.classOf v = Spec.classOfType v ∧ Gen.methodOf v = Spec.methodOfType v := by
  have h : allBelow 16384 (fun v => decide (Gen.classOf v = Spec.classOfType v ∧
      Gen.methodOf v = Spec.methodOfType v)) = true := by decide +kernel
  intro v hv
  exact of_decide_eq_true (allBelow_sound h v hv)

/-- hence the encoding is injective on (class, method) -/
theorem injective {c m c' m' : Nat} (hc : c < 4) (hm : m < 4096) (hc' : c' < 4) (hm' : m' < 4096)
    (h : Gen.fromClassMethod c m = Gen.fromClassMethod c' m') : c = c' ∧ m = m' := by
  obtain ⟨h1, h2, _⟩ := decode_encode c hc m hm
  obtain ⟨h1', h2', _⟩ := decode_encode c' hc' m' hm'
  rw [h] at h1 h2
  exact ⟨h1.symm.trans h1', h2.symm.trans h2'⟩

/-- conversion from a wider integer keeps exactly the low 96 bits (all `x`, not sampled) -/
theorem tid_mask (x : Nat) : Gen.tidFromU128 x = x % 2 ^ 96 := by
  unfold Gen.tidFromU128
  exact Nat.and_two_pow_sub_one_eq_mod x 96

theorem tid_fits (x : Nat) : Gen.tidFromU128 x < 2 ^ 96 := by
  rw [tid_mask]; exact Nat.mod_lt _ (by decide)

/-- the header's cookie and length constants are the RFC's -/
theorem constants : Gen.magicCookie = 0x2112A442 ∧ Gen.headerLength = 20 ∧ Gen.binding = 1 := by
  decide

example : Gen.fromClassMethod 2 1 = 0x0101 ∧ Gen.fromClassMethod 3 0xfff = 0x3fff := by decide

end StunVerif.C19
