/-
C05 — every request transaction completes exactly once.
All theorems are about `Agent.step` / `Agent.run` (the mirror of `StunAgent`), for call histories of
any length, any number of concurrent transactions, any instants, and any choice of which ready
transaction a `poll` serves first.  Property theorems only; helper lemmas live in
`Lemmas/Agent*.lean`.
-/
import StunVerif.Spec.Agent
import StunVerif.Lemmas.AgentLife
namespace StunVerif.C05
open StunVerif StunVerif.Agent

/-- one step: a life-cycle event for `tid` flips its outstanding bit the right way, and nothing else
    ever changes it.  (start: not outstanding → outstanding; any ending: outstanding → not) -/
theorem step_lifecycle (s : State) (op : Op) (tid : Nat) :
    match event op (step s op).2 with
    | some (t, .started) =>
        if t = tid then isOutstanding s tid = false ∧ isOutstanding (step s op).1 tid = true
        else isOutstanding (step s op).1 tid = isOutstanding s tid
    | some (t, _) =>
        if t = tid then isOutstanding s tid = true ∧ isOutstanding (step s op).1 tid = false
        else isOutstanding (step s op).1 tid = isOutstanding s tid
    | none => isOutstanding (step s op).1 tid = isOutstanding s tid := by
  sorry

/-- `request_transaction(id).is_some()` after any history = "the last life-cycle event of `id` is an
    accepted send" -/
theorem out_iff_live (tr : Transport) (loc : SockAddr) (ops : List Op) (tid : Nat) :
    isOutstanding (after (State.init tr loc) ops) tid = live (trace (State.init tr loc) ops) tid := by
  sorry

/-- exactly once: along any history the events of one id alternate start, ending, start, ending …
    — a request ends at most once (delivered, timed out or cancelled), only after it was started,
    and an id is started again only after it ended -/
theorem exactly_once (tr : Transport) (loc : SockAddr) (ops : List Op) (tid : Nat) :
    Alternates (eventsOf (trace (State.init tr loc) ops) tid) := by
  sorry

/-- a transmission for `tid` is produced only by the accepted `send` that starts it or by a `poll`
    while it is outstanding; the transaction is still outstanding afterwards -/
theorem tx_only_while_live (s : State) (op : Op) (tid : Nat) (tx : Transmit)
    (h : (step s op).2 = .transmit (some tid) tx) :
    ((∃ b hc to now, op = .sendReq tid b hc to now) ∧ isOutstanding s tid = false ∨
     (∃ now pick, op = .poll now pick) ∧ isOutstanding s tid = true) ∧
    isOutstanding (step s op).1 tid = true := by
  sorry

/-- a response for an id that is not outstanding (unknown, already answered, timed out, cancelled)
    is dropped and changes nothing at all -/
theorem late_or_unknown_response_dropped (s : State) (m : InMsg) (src : SockAddr)
    (hr : m.isResponse = true) (h : isOutstanding s m.tid = false) :
    step s (.handle m src) = (s, .drop) := by
  sorry

/-- a response is delivered only for a transaction outstanding at that moment, which it ends -/
theorem delivered_only_outstanding (s : State) (m : InMsg) (src : SockAddr)
    (h : (step s (.handle m src)).2 = .response) :
    m.isResponse = true ∧ isOutstanding s m.tid = true ∧
    isOutstanding (step s (.handle m src)).1 m.tid = false := by
  sorry

/-- sending a request whose id is outstanding is refused and leaves everything untouched -/
theorem dup_send_refused (s : State) (tid : Nat) (b : Bytes) (hc : Bool) (to : SockAddr) (now : Time)
    (h : isOutstanding s tid = true) :
    step s (.sendReq tid b hc to now) = (s, .inProgress) := by
  sorry

/-- an id that is not outstanding (never used, or completed) can be used: the request is accepted,
    transmitted at once and outstanding afterwards -/
theorem reuse (s : State) (tid : Nat) (b : Bytes) (hc : Bool) (to : SockAddr) (now : Time)
    (h : isOutstanding s tid = false) :
    ∃ tx, (step s (.sendReq tid b hc to now)).2 = .transmit (some tid) tx ∧
      isOutstanding (step s (.sendReq tid b hc to now)).1 tid = true := by
  sorry

/-- transaction ids stay unique keys along every history -/
theorem keys_nodup (s : State) (hr : Reachable s) : KeysNodup s := by
  sorry

/-- calls about one transaction never disturb another: whatever the call, a transaction that is
    neither named by it nor served by the poll keeps its complete retransmission state -/
theorem frame (s : State) (op : Op) (tid : Nat)
    (hnot : match op, (step s op).2 with
      | .sendReq t _ _ _ _, _ => t ≠ tid
      | .handle m _, _ => m.tid ≠ tid
      | .poll _ _, .transmit (some t) _ => t ≠ tid
      | .poll _ _, .timedOut t => t ≠ tid
      | .poll _ _, .cancelled t => t ≠ tid
      | .cancel t, _ => t ≠ tid
      | .cancelRtx t, _ => t ≠ tid
      | .configure t _ _ _, _ => t ≠ tid
      | _, _ => True) :
    lookup (step s op).1.out tid = lookup s.out tid := by
  sorry

/-- liveness: from any reachable state, polling at the instants the agent itself asks for
    (`WaitUntil`) ends every outstanding transaction after finitely many polls: there is a bound,
    depending only on the state, on the number of polls that can return something other than
    "nothing outstanding". `driven s n` polls `n` times, each time at the instant the previous poll
    asked for (or at `now` again after an event). -/
def driven : State → Time → Nat → State
  | s, _, 0 => s
  | s, now, n + 1 =>
    match step s (.poll now none) with
    | (s', .waitUntil t) => driven s' t n
    | (s', _) => driven s' now n

theorem eventually_ends (s : State) (hr : Reachable s) (now : Time) :
    ∃ n, (driven s now n).out = [] := by
  sorry

/-! Non-vacuity: a concrete history with two transactions, a duplicate send, a response, a late
    duplicate response and a time-out. -/
example :
    let h : List Op := [.sendReq 1 [1] false 7 0, .sendReq 2 [2] false 7 0, .sendReq 1 [9] false 8 0,
      .handle ⟨true, 1, fun _ => false⟩ 7, .handle ⟨true, 1, fun _ => false⟩ 7,
      .poll (msNs 39500) none, .poll (msNs 39500) none]
    (trace (State.init .tcp 5) h).map (·.2) =
      [.transmit (some 1) ⟨[1], .tcp, 5, 7⟩, .transmit (some 2) ⟨[2], .tcp, 5, 7⟩, .inProgress,
       .response, .drop, .timedOut 2, .waitUntil (msNs 39500 + msNs 3600000)] := by
  decide

end StunVerif.C05
