/-
C05 — every request transaction completes exactly once.
All theorems are about `Agent.step` / `Agent.run` (the mirror of `StunAgent`), for call histories of
any length, any number of concurrent transactions, any instants, and any choice of which ready
transaction a `poll` serves first.  Property theorems only; helper lemmas live in
`Lemmas/Agent*.lean`.
-/
import StunVerif.Spec.Agent
import StunVerif.Lemmas.AgentLife
namespace StunVerif.C05
open StunVerif StunVerif.Agent

/-- one step: a life-cycle event for `tid` flips its outstanding bit the right way, and nothing else
    ever changes it.  (start: not outstanding → outstanding; any ending: outstanding → not) -/
theorem step_lifecycle (s : State) (op : Op) (tid : Nat) :
    match event op (step s op).2 with
    | some (t, .started) =>
        if t = tid then isOutstanding s tid = false ∧ isOutstanding (step s op).1 tid = true
        else isOutstanding (step s op).1 tid = isOutstanding s tid
    | some (t, _) =>
        if t = tid then isOutstanding s tid = true ∧ isOutstanding (step s op).1 tid = false
        else isOutstanding (step s op).1 tid = isOutstanding s tid
    | none => isOutstanding (step s op).1 tid = isOutstanding s tid :=
  Agent.step_lifecycle s op tid

/-- `request_transaction(id).is_some()` after any history = "the last life-cycle event of `id` is an
    accepted send" -/
theorem out_iff_live (tr : Transport) (loc : SockAddr) (ops : List Op) (tid : Nat) :
    isOutstanding (after (State.init tr loc) ops) tid = live (trace (State.init tr loc) ops) tid := by
  rw [(history_lifecycle ops (State.init tr loc) tid).2]
  have h0 : isOutstanding (State.init tr loc) tid = false := rfl
  rw [h0]
  unfold live lastBit
  cases (eventsOf (trace (State.init tr loc) ops) tid).getLast? <;> simp

/-- exactly once: along any history the events of one id alternate start, ending, start, ending …
    — a request ends at most once (delivered, timed out or cancelled), only after it was started,
    and an id is started again only after it ended -/
theorem exactly_once (tr : Transport) (loc : SockAddr) (ops : List Op) (tid : Nat) :
    Alternates (eventsOf (trace (State.init tr loc) ops) tid) := by
  have h := (history_lifecycle ops (State.init tr loc) tid).1
  have h0 : isOutstanding (State.init tr loc) tid = false := rfl
  rw [h0] at h
  exact AltFrom.alternates _ h

/-- a transmission for `tid` is produced only by the accepted `send` that starts it or by a `poll`
    while it is outstanding; the transaction is still outstanding afterwards -/
theorem tx_only_while_live (s : State) (op : Op) (tid : Nat) (tx : Transmit)
    (h : (step s op).2 = .transmit (some tid) tx) :
    ((∃ b hc to now, op = .sendReq tid b hc to now) ∧ isOutstanding s tid = false ∨
     (∃ now pick, op = .poll now pick) ∧ isOutstanding s tid = true) ∧
    isOutstanding (step s op).1 tid = true := by
  cases op with
  | sendReq t b hc to now =>
    cases hl : (lookup s.out t).isSome with
    | true => rw [step_sendReq_dup _ _ _ _ _ _ hl] at h; cases h
    | false =>
      rw [step_sendReq_new _ _ _ _ _ _ hl] at h ⊢
      injection h with h1 _
      injection h1 with h1
      subst h1
      exact ⟨Or.inl ⟨⟨_, _, _, _, rfl⟩, hl⟩, by simp [isOutstanding, lookup_insert_self]⟩
  | sendOther b to => simp [step] at h
  | handle m src =>
    rcases step_handle_cases s m src with ⟨_, e⟩ | ⟨_, _, e⟩ | ⟨r, _, _, e⟩ | ⟨r, _, _, e⟩ <;>
      (rw [e] at h; cases h)
  | poll now pick =>
    have hs : step s (.poll now pick) = agentPoll s now pick := rfl
    rw [hs] at h ⊢
    rcases agentPoll_cases s now pick with ⟨t, e⟩ | ⟨t, r, hl, ⟨_, e⟩ | ⟨_, e⟩ | ⟨_, e⟩⟩
    · rw [e] at h; cases h
    · rw [e] at h ⊢
      injection h with h1 _
      injection h1 with h1
      subst h1
      have : isOutstanding s t = true := by simp [isOutstanding, hl]
      refine ⟨Or.inr ⟨⟨_, _, rfl⟩, this⟩, ?_⟩
      simpa [isOutstanding, lookup_update_isSome] using this
    · rw [e] at h; cases h
    · rw [e] at h; cases h
  | cancel t => simp [step] at h
  | cancelRtx t => simp [step] at h
  | configure t a b c => simp [step] at h
  | setRemoteCreds k => simp [step] at h

/-- a response for an id that is not outstanding (unknown, already answered, timed out, cancelled)
    is dropped and changes nothing at all -/
theorem late_or_unknown_response_dropped (s : State) (m : InMsg) (src : SockAddr)
    (hr : m.isResponse = true) (h : isOutstanding s m.tid = false) :
    step s (.handle m src) = (s, .drop) := by
  have hn : lookup s.out m.tid = none := by
    simpa [isOutstanding] using h
  rcases step_handle_cases s m src with ⟨h1, _⟩ | ⟨_, _, e⟩ | ⟨r, _, hl, _⟩ | ⟨r, _, hl, _⟩
  · rw [hr] at h1; cases h1
  · exact e
  · rw [hn] at hl; cases hl
  · rw [hn] at hl; cases hl

/-- a response is delivered only for a transaction outstanding at that moment, which it ends -/
theorem delivered_only_outstanding (s : State) (m : InMsg) (src : SockAddr)
    (h : (step s (.handle m src)).2 = .response) :
    m.isResponse = true ∧ isOutstanding s m.tid = true ∧
    isOutstanding (step s (.handle m src)).1 m.tid = false := by
  rcases step_handle_cases s m src with ⟨_, e⟩ | ⟨_, _, e⟩ | ⟨r, hr, hl, e⟩ | ⟨r, _, _, e⟩
  · rw [e] at h; cases h
  · rw [e] at h; cases h
  · rw [e]
    exact ⟨hr, by simp [isOutstanding, hl], by simp [isOutstanding, validatedPeer_out, lookup_remove_self]⟩
  · rw [e] at h; cases h

/-- sending a request whose id is outstanding is refused and leaves everything untouched -/
theorem dup_send_refused (s : State) (tid : Nat) (b : Bytes) (hc : Bool) (to : SockAddr) (now : Time)
    (h : isOutstanding s tid = true) :
    step s (.sendReq tid b hc to now) = (s, .inProgress) :=
  step_sendReq_dup _ _ _ _ _ _ h

/-- an id that is not outstanding (never used, or completed) can be used: the request is accepted,
    transmitted at once and outstanding afterwards -/
theorem reuse (s : State) (tid : Nat) (b : Bytes) (hc : Bool) (to : SockAddr) (now : Time)
    (h : isOutstanding s tid = false) :
    ∃ tx, (step s (.sendReq tid b hc to now)).2 = .transmit (some tid) tx ∧
      isOutstanding (step s (.sendReq tid b hc to now)).1 tid = true := by
  rw [step_sendReq_new _ _ _ _ _ _ h]
  exact ⟨_, rfl, by simp [isOutstanding, lookup_insert_self]⟩

/-- transaction ids stay unique keys along every history -/
theorem keys_nodup (s : State) (hr : Reachable s) : KeysNodup s :=
  KeysNodup.of_reachable hr

/-- calls about one transaction never disturb another: whatever the call, a transaction that is
    neither named by it nor served by the poll keeps its complete retransmission state -/
theorem frame (s : State) (op : Op) (tid : Nat)
    (hnot : match op, (step s op).2 with
      | .sendReq t _ _ _ _, _ => t ≠ tid
      | .handle m _, _ => m.tid ≠ tid
      | .poll _ _, .transmit (some t) _ => t ≠ tid
      | .poll _ _, .timedOut t => t ≠ tid
      | .poll _ _, .cancelled t => t ≠ tid
      | .cancel t, _ => t ≠ tid
      | .cancelRtx t, _ => t ≠ tid
      | .configure t _ _ _, _ => t ≠ tid
      | _, _ => True) :
    lookup (step s op).1.out tid = lookup s.out tid := by
  cases op with
  | sendReq t b hc to now =>
    have e : tid ≠ t := fun x => hnot x.symm
    cases hl : (lookup s.out t).isSome with
    | true => rw [step_sendReq_dup _ _ _ _ _ _ hl]
    | false => rw [step_sendReq_new _ _ _ _ _ _ hl]; exact lookup_insert_ne _ _ _ _ e
  | sendOther b to => rfl
  | handle m src =>
    have e : tid ≠ m.tid := fun x => hnot x.symm
    rcases step_handle_cases s m src with ⟨_, h⟩ | ⟨_, _, h⟩ | ⟨r, _, hl, h⟩ | ⟨r, _, hl, h⟩
    · rw [h, validatedPeer_out]
    · rw [h]
    · rw [h, validatedPeer_out]; exact lookup_remove_ne _ _ _ e
    · rw [h]; exact lookup_insert_remove _ _ _ _ hl
  | poll now pick =>
    have hs : step s (.poll now pick) = agentPoll s now pick := rfl
    rw [hs] at hnot ⊢
    rcases agentPoll_cases s now pick with ⟨t, h⟩ | ⟨t, r, hl, ⟨_, h⟩ | ⟨_, h⟩ | ⟨_, h⟩⟩
    · rw [h]
    · rw [h] at hnot ⊢
      have e : tid ≠ t := fun x => hnot x.symm
      dsimp only
      exact lookup_update_ne s.out t tid _ e
    · rw [h] at hnot ⊢
      have e : tid ≠ t := fun x => hnot x.symm
      exact lookup_remove_ne _ _ _ e
    · rw [h] at hnot ⊢
      have e : tid ≠ t := fun x => hnot x.symm
      exact lookup_remove_ne _ _ _ e
  | cancel t =>
    have e : tid ≠ t := fun x => hnot x.symm
    simp only [step]; exact lookup_update_ne s.out t tid _ e
  | cancelRtx t =>
    have e : tid ≠ t := fun x => hnot x.symm
    simp only [step]; exact lookup_update_ne s.out t tid _ e
  | configure t a b c =>
    have e : tid ≠ t := fun x => hnot x.symm
    simp only [step]; exact lookup_update_ne s.out t tid _ e
  | setRemoteCreds k => rfl

/-- liveness: from any reachable state, polling at the instants the agent itself asks for
    (`WaitUntil`) ends every outstanding transaction after finitely many polls: there is a bound,
    depending only on the state, on the number of polls that can return something other than
    "nothing outstanding". `driven s n` polls `n` times, each time at the instant the previous poll
    asked for (or at `now` again after an event). -/
def driven : State → Time → Nat → State
  | s, _, 0 => s
  | s, now, n + 1 =>
    match step s (.poll now none) with
    | (s', .waitUntil t) => driven s' t n
    | (s', _) => driven s' now n

theorem eventually_ends (s : State) (hr : Reachable s) (now : Time) :
    ∃ n, (driven s now n).out = [] := by
  have hsucc : ∀ (s : State) (now : Time), ∃ x, ∀ k,
      driven s now (k + 1) = driven (step s (.poll now none)).1 x k := by
    intro s now
    cases h : step s (.poll now none) with
    | mk s' o =>
      cases o with
      | waitUntil t => exact ⟨t, fun k => by simp only [driven, h]⟩
      | _ => exact ⟨now, fun k => by simp only [driven, h]⟩
  have hwait : ∀ (s : State) (now t : Time), step s (.poll now none) = (s, .waitUntil t) →
      ∀ k, driven s now (k + 1) = driven s t k := by
    intro s now t h k
    simp only [driven, h]
  have key : ∀ (m : Nat) (s : State) (now : Time), KeysNodup s → weight s.out ≤ m →
      ∃ n, (driven s now n).out = [] := by
    intro m
    induction m with
    | zero =>
      intro s now _ hw
      exact ⟨0, weight_eq_zero _ (Nat.le_zero.1 hw)⟩
    | succ m ih =>
      intro s now hn hw
      by_cases he : s.out = []
      · exact ⟨0, he⟩
      by_cases hrd : ready s now = []
      · obtain ⟨t, h1, h2⟩ := poll_wait s now none hrd he
        have hdec := poll_ready_decreases s t hn h2
        obtain ⟨x, hx⟩ := hsucc s t
        obtain ⟨n, hn'⟩ := ih (step s (.poll t none)).1 x (hn.step _)
          (by have : step s (.poll t none) = agentPoll s t none := rfl
              rw [this]; omega)
        exact ⟨n + 1 + 1, by rw [hwait s now t h1, hx]; exact hn'⟩
      · have hdec := poll_ready_decreases s now hn hrd
        obtain ⟨x, hx⟩ := hsucc s now
        obtain ⟨n, hn'⟩ := ih (step s (.poll now none)).1 x (hn.step _)
          (by have : step s (.poll now none) = agentPoll s now none := rfl
              rw [this]; omega)
        exact ⟨n + 1, by rw [hx]; exact hn'⟩
  exact key _ s now (KeysNodup.of_reachable hr) (Nat.le_refl _)

/-! Non-vacuity: a concrete history with two transactions, a duplicate send, a response, a late
    duplicate response and a time-out. -/
example :
    let h : List Op := [.sendReq 1 [1] false 7 0, .sendReq 2 [2] false 7 0, .sendReq 1 [9] false 8 0,
      .handle ⟨true, 1, fun _ => false⟩ 7, .handle ⟨true, 1, fun _ => false⟩ 7,
      .poll (msNs 39500) none, .poll (msNs 39500) none]
    (trace (State.init .tcp 5) h).map (·.2) =
      [.transmit (some 1) ⟨[1], .tcp, 5, 7⟩, .transmit (some 2) ⟨[2], .tcp, 5, 7⟩, .inProgress,
       .response, .drop, .timedOut 2, .waitUntil (msNs 39500 + msNs 3600000)] := by
  decide

end StunVerif.C05
