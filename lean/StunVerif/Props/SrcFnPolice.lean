/-
Source agreement for `Message::check_attribute_types` (C16): the verdict logic -- which exposed types count
as unsupported (through the translated `comprehension_required`), in which order they are listed, and that
the 420 verdict takes precedence over the 400 verdict -- is re-translated from the source on every run and
equals the model's `checkAttributeTypes`, which `C16.police_eq_spec` relates to RFC 8489 s6.3.1.  The two
response constructors (`unknown_attributes`, `bad_request`) are translated too; what is proved about them is
exactly what C16 pins (error class with the request's method and transaction id, ERROR-CODE 420 / 400, the
UNKNOWN-ATTRIBUTES list and when it is attached, the attribute order) and not the reason phrases, so a
rewrite that only rewords a phrase breaks nothing here.
-/
import StunVerif.Gen.FnPolice
import StunVerif.Props.C19
namespace StunVerif.SrcFnPolice
open StunVerif

theorem src_comprehensionRequired (t : Nat) : Gen.comprehensionRequired t = comprehensionRequired t := by
  simp [Gen.comprehensionRequired, comprehensionRequired]

theorem any_eq_contains (l : List Nat) (t : Nat) : (l.any fun a => decide (a = t)) = l.contains t := by
  induction l with
  | nil => rfl
  | cons x xs ih =>
    simp only [List.any_cons, List.contains_cons, ih]
    congr 1
    by_cases h : x = t
    · subst h; simp
    · have : ¬ t = x := fun e => h e.symm
      simp [h, this]

theorem src_checkAttributeTypes (m : Msg) (sup req : List Nat) :
    Gen.checkAttributeTypes m sup req = checkAttributeTypes m sup req := by
  unfold Gen.checkAttributeTypes checkAttributeTypes
  simp only [any_eq_contains, src_comprehensionRequired]
  split <;> simp_all

/-- every method a type field can carry is below 4096 -/
theorem method_lt (m : Msg) : m.method < 4096 := by
  unfold Msg.method Spec.methodOfType Spec.bit
  omega

/-- `Message::unknown_attributes` as written in the source: the fields C16 pins -/
theorem src_unknownAttributes_fields (src : Msg) (ts : List Nat) :
    let r := Gen.unknownAttributes src ts
    r.ty = Spec.interleave 3 src.method ∧ r.tid = src.tid ∧
    r.types = (if ts.isEmpty then [0x8022, 0x0009] else [0x8022, 0x0009, 0x000A]) ∧
    (∃ reason, (r.attrs.map BAttr.asRaw)[1]? = some (AttrVal.errorCode 420 reason).toRaw) ∧
    (ts.isEmpty = false → (r.attrs.map BAttr.asRaw)[2]? = some (AttrVal.unknownAttributes ts).toRaw) := by
  have hl := C19.rfc_layout 3 (by decide) src.method (method_lt src)
  cases hts : ts.isEmpty <;>
    simp [Gen.unknownAttributes, hts, addOrSame, Builder.add, Builder.addGuard, Builder.hasAnyAttribute, Builder.new,
      Builder.intoOwned, BAttr.ty, BAttr.intoOwned, BAttr.asRaw, AttrVal.kind, Kind.code, AttrVal.toRaw, hl, tyMI, tyMI256, tyFP] <;>
    exact ⟨_, rfl⟩

/-- `Message::bad_request` as written in the source: the fields C16 pins -/
theorem src_badRequest_fields (src : Msg) :
    let r := Gen.badRequest src
    r.ty = Spec.interleave 3 src.method ∧ r.tid = src.tid ∧ r.types = [0x8022, 0x0009] ∧
    (∃ reason, (r.attrs.map BAttr.asRaw)[1]? = some (AttrVal.errorCode 400 reason).toRaw) := by
  have hl := C19.rfc_layout 3 (by decide) src.method (method_lt src)
  simp [Gen.badRequest, addOrSame, Builder.add, Builder.addGuard, Builder.hasAnyAttribute, Builder.new,
    Builder.intoOwned, BAttr.ty, BAttr.intoOwned, BAttr.asRaw, AttrVal.kind, Kind.code, AttrVal.toRaw, hl, tyMI, tyMI256, tyFP]
  exact ⟨_, rfl⟩

end StunVerif.SrcFnPolice
