/-
Source agreement for `Message::check_attribute_types` (C16): the verdict logic -- which exposed types count
as unsupported (through the translated `comprehension_required`), in which order they are listed, and that
the 420 verdict takes precedence over the 400 verdict -- is re-translated from the source on every run and
equals the model's `checkAttributeTypes`, which `C16.police_eq_spec` relates to RFC 8489 s6.3.1.  The two
response constructors (`unknown_attributes`, `bad_request`) are not translated: their reason phrases are
not pinned by the property; the correspondence run compares the fields C16 pins.
-/
import StunVerif.Gen.FnPolice
namespace StunVerif.SrcFnPolice
open StunVerif

theorem src_comprehensionRequired (t : Nat) : Gen.comprehensionRequired t = comprehensionRequired t := by
  simp [Gen.comprehensionRequired, comprehensionRequired]

theorem any_eq_contains (l : List Nat) (t : Nat) : (l.any fun a => decide (a = t)) = l.contains t := by
  induction l with
  | nil => rfl
  | cons x xs ih =>
    simp only [List.any_cons, List.contains_cons, ih]
    congr 1
    by_cases h : x = t
    · subst h; simp
    · have : ¬ t = x := fun e => h e.symm
      simp [h, this]

theorem src_checkAttributeTypes (m : Msg) (sup req : List Nat) :
    Gen.checkAttributeTypes m sup req = checkAttributeTypes m sup req := by
  unfold Gen.checkAttributeTypes checkAttributeTypes
  simp only [any_eq_contains, src_comprehensionRequired]
  split <;> simp_all

end StunVerif.SrcFnPolice
