/-
C18 — every transmission is the unmodified request, addressed as asked.
Property theorems only; helper lemmas live in `Lemmas/AgentTx.lean`.
-/
import StunVerif.Spec.Agent
import StunVerif.Lemmas.AgentTx
namespace StunVerif.C18
open StunVerif StunVerif.Agent

/-- the accepted `send` of a request transmits exactly the given bytes from the local address to
    the given destination over the agent's transport, and remembers exactly those -/
theorem send_tx (s : State) (tid : Nat) (b : Bytes) (hc : Bool) (to : SockAddr) (now : Time)
    (tx : Transmit) (t : Option Nat) (h : (step s (.sendReq tid b hc to now)).2 = .transmit t tx) :
    t = some tid ∧ tx = ⟨b, s.transport, s.localAddr, to⟩ ∧
    ∃ r, lookup (step s (.sendReq tid b hc to now)).1.out tid = some r ∧ r.bytes = b ∧ r.to = to ∧
      r.hadCreds = hc := by
  sorry

/-- a retransmission produced by `poll` carries the remembered bytes and destination, the agent's
    local address and transport -/
theorem poll_tx (s : State) (now : Time) (pick : Option Nat) (tid : Option Nat) (tx : Transmit)
    (h : (step s (.poll now pick)).2 = .transmit tid tx) :
    ∃ t r, tid = some t ∧ lookup s.out t = some r ∧ tx = ⟨r.bytes, s.transport, s.localAddr, r.to⟩ := by
  sorry

/-- nothing ever rewrites the remembered bytes or destination of an outstanding request, and the
    agent's transport and local address never change -/
theorem remembered_fixed (s : State) (op : Op) (tid : Nat) (r r' : Req)
    (hl : lookup s.out tid = some r) (hl' : lookup (step s op).1.out tid = some r') :
    r'.bytes = r.bytes ∧ r'.to = r.to := by
  sorry

theorem endpoint_fixed (s : State) (ops : List Op) :
    (after s ops).transport = s.transport ∧ (after s ops).localAddr = s.localAddr := by
  sorry

/-- only `send` and `poll` produce transmissions -/
theorem tx_sources (s : State) (op : Op) (t : Option Nat) (tx : Transmit)
    (h : (step s op).2 = .transmit t tx) :
    (∃ tid b hc to now, op = .sendReq tid b hc to now) ∨ (∃ b to, op = .sendOther b to) ∨
    (∃ now pick, op = .poll now pick) := by
  sorry

/-- the most recent accepted `send` of a request with id `tid` in a (chronological) trace: its bytes
    and destination -/
def origin (tid : Nat) : List (Op × Out) → Option (Bytes × SockAddr)
  | [] => none
  | (op, o) :: rest =>
    match origin tid rest with
    | some x => some x
    | none =>
      match op, o with
      | .sendReq t b _ to _, .transmit _ _ => if t = tid then some (b, to) else none
      | _, _ => none

/-- whole histories: every transmission for a request — the initial one and each retransmission, in
    a history of any length with any other traffic interleaved — carries byte for byte the message
    of the most recent accepted `send` of that id, from the agent's local address to that send's
    destination over the agent's transport -/
theorem tx_exact (tr : Transport) (loc : SockAddr) (ops : List Op) (i : Nat) (op : Op) (tid : Nat)
    (tx : Transmit)
    (h : (trace (State.init tr loc) ops)[i]? = some (op, .transmit (some tid) tx)) :
    ∃ b to, origin tid ((trace (State.init tr loc) ops).take (i + 1)) = some (b, to) ∧
      tx = ⟨b, tr, loc, to⟩ := by
  sorry

/-- `peer_address()` of an outstanding request is the destination given at send time -/
theorem peer_address_is_destination (tr : Transport) (loc : SockAddr) (ops : List Op) (tid : Nat)
    (a : SockAddr) (h : peerAddress (after (State.init tr loc) ops) tid = some a) :
    ∃ b, origin tid (trace (State.init tr loc) ops) = some (b, a) := by
  sorry

/-- indications and responses are transmitted once, unmodified, and leave no transaction behind -/
theorem non_request_once (s : State) (b : Bytes) (to : SockAddr) :
    step s (.sendOther b to) = (s, .transmit none ⟨b, s.transport, s.localAddr, to⟩) := by
  sorry

/-! Non-vacuity: id 1 is used twice with different contents and destinations. -/
example :
    (trace (State.init .udp 5)
      [.sendReq 1 [1] false 7 0, .poll (msNs 500) none, .cancel 1, .poll (msNs 500) none,
       .sendReq 1 [2, 2] false 8 (msNs 600), .sendOther [3] 9, .poll (msNs 1100) none]).map (·.2) =
    [.transmit (some 1) ⟨[1], .udp, 5, 7⟩, .transmit (some 1) ⟨[1], .udp, 5, 7⟩, .unit, .cancelled 1,
     .transmit (some 1) ⟨[2, 2], .udp, 5, 8⟩, .transmit none ⟨[3], .udp, 5, 9⟩,
     .transmit (some 1) ⟨[2, 2], .udp, 5, 8⟩] := by
  decide

end StunVerif.C18
