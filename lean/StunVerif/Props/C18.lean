/-
C18 — every transmission is the unmodified request, addressed as asked.
Property theorems only; helper lemmas live in `Lemmas/AgentTx.lean`.
-/
import StunVerif.Spec.Agent
import StunVerif.Lemmas.AgentTx
namespace StunVerif.C18
open StunVerif StunVerif.Agent

/-- the accepted `send` of a request transmits exactly the given bytes from the local address to
    the given destination over the agent's transport, and remembers exactly those -/
theorem send_tx (s : State) (tid : Nat) (b : Bytes) (hc : Bool) (to : SockAddr) (now : Time)
    (tx : Transmit) (t : Option Nat) (h : (step s (.sendReq tid b hc to now)).2 = .transmit t tx) :
    t = some tid ∧ tx = ⟨b, s.transport, s.localAddr, to⟩ ∧
    ∃ r, lookup (step s (.sendReq tid b hc to now)).1.out tid = some r ∧ r.bytes = b ∧ r.to = to ∧
      r.hadCreds = hc := by
  rw [step_sendReq] at h ⊢
  split at h
  · cases h
  · next hn =>
    cases h
    rw [if_neg hn]
    exact ⟨rfl, rfl, _, lookup_insert_self _ _ _, Req.new_bytes _ _ _ _, Req.new_to _ _ _ _,
      Req.new_hadCreds _ _ _ _⟩

/-- a retransmission produced by `poll` carries the remembered bytes and destination, the agent's
    local address and transport -/
theorem poll_tx (s : State) (now : Time) (pick : Option Nat) (tid : Option Nat) (tx : Transmit)
    (h : (step s (.poll now pick)).2 = .transmit tid tx) :
    ∃ t r, tid = some t ∧ lookup s.out t = some r ∧ tx = ⟨r.bytes, s.transport, s.localAddr, r.to⟩ := by
  rcases step_transmit s _ tid tx h with ⟨_, _, _, _, _, e, _⟩ | ⟨_, _, e, _⟩ |
    ⟨_, _, t, r, _, ht, hl, htx⟩
  · cases e
  · cases e
  · exact ⟨t, r, ht, hl, htx⟩

/-- nothing ever rewrites the remembered bytes or destination of an outstanding request, and the
    agent's transport and local address never change -/
theorem remembered_fixed (s : State) (op : Op) (tid : Nat) (r r' : Req)
    (hl : lookup s.out tid = some r) (hl' : lookup (step s op).1.out tid = some r') :
    r'.bytes = r.bytes ∧ r'.to = r.to := by
  rcases step_lookup_some s op tid r' hl' with ⟨r0, hl0, hb, hto, _⟩ | ⟨hnone, _⟩
  · rw [hl] at hl0
    cases hl0
    exact ⟨hb, hto⟩
  · rw [hl] at hnone
    cases hnone

theorem endpoint_fixed (s : State) (ops : List Op) :
    (after s ops).transport = s.transport ∧ (after s ops).localAddr = s.localAddr := by
  exact after_endpoint s ops

/-- only `send` and `poll` produce transmissions -/
theorem tx_sources (s : State) (op : Op) (t : Option Nat) (tx : Transmit)
    (h : (step s op).2 = .transmit t tx) :
    (∃ tid b hc to now, op = .sendReq tid b hc to now) ∨ (∃ b to, op = .sendOther b to) ∨
    (∃ now pick, op = .poll now pick) := by
  rcases step_transmit s op t tx h with ⟨tid, b, hc, to, now, e, _⟩ | ⟨b, to, e, _⟩ |
    ⟨now, pick, _, _, e, _⟩
  · exact Or.inl ⟨tid, b, hc, to, now, e⟩
  · exact Or.inr (Or.inl ⟨b, to, e⟩)
  · exact Or.inr (Or.inr ⟨now, pick, e⟩)

/-! `origin tid trace` — the bytes and destination of the most recent accepted `send` of a request
    with id `tid` in a (chronological) trace — is defined in `Spec/Agent.lean`. -/

/-- whole histories: every transmission for a request — the initial one and each retransmission, in
    a history of any length with any other traffic interleaved — carries byte for byte the message
    of the most recent accepted `send` of that id, from the agent's local address to that send's
    destination over the agent's transport -/
theorem tx_exact (tr : Transport) (loc : SockAddr) (ops : List Op) (i : Nat) (op : Op) (tid : Nat)
    (tx : Transmit)
    (h : (trace (State.init tr loc) ops)[i]? = some (op, .transmit (some tid) tx)) :
    ∃ b to, origin tid ((trace (State.init tr loc) ops).take (i + 1)) = some (b, to) ∧
      tx = ⟨b, tr, loc, to⟩ := by
  obtain ⟨ho, htake⟩ := trace_getElem? _ _ _ _ _ h
  have hinv := originInv_history tr loc (ops.take i)
  obtain ⟨b, to, hor, htx⟩ := originInv_transmit hinv op tid tx ho.symm
  have hep := after_endpoint (State.init tr loc) (ops.take i)
  rw [hep.1, hep.2] at htx
  exact ⟨b, to, by rw [htake]; exact hor, htx⟩

/-- `peer_address()` of an outstanding request is the destination given at send time -/
theorem peer_address_is_destination (tr : Transport) (loc : SockAddr) (ops : List Op) (tid : Nat)
    (a : SockAddr) (h : peerAddress (after (State.init tr loc) ops) tid = some a) :
    ∃ b, origin tid (trace (State.init tr loc) ops) = some (b, a) := by
  unfold peerAddress at h
  cases hl : lookup (after (State.init tr loc) ops).out tid with
  | none => rw [hl] at h; cases h
  | some r =>
    rw [hl] at h
    cases h
    exact ⟨r.bytes, originInv_history tr loc ops tid r hl⟩

/-- indications and responses are transmitted once, unmodified, and leave no transaction behind -/
theorem non_request_once (s : State) (b : Bytes) (to : SockAddr) :
    step s (.sendOther b to) = (s, .transmit none ⟨b, s.transport, s.localAddr, to⟩) := by
  rfl

/-! Non-vacuity: id 1 is used twice with different contents and destinations. -/
example :
    (trace (State.init .udp 5)
      [.sendReq 1 [1] false 7 0, .poll (msNs 500) none, .cancel 1, .poll (msNs 500) none,
       .sendReq 1 [2, 2] false 8 (msNs 600), .sendOther [3] 9, .poll (msNs 1100) none]).map (·.2) =
    [.transmit (some 1) ⟨[1], .udp, 5, 7⟩, .transmit (some 1) ⟨[1], .udp, 5, 7⟩, .unit, .cancelled 1,
     .transmit (some 1) ⟨[2, 2], .udp, 5, 8⟩, .transmit none ⟨[3], .udp, 5, 9⟩,
     .transmit (some 1) ⟨[2, 2], .udp, 5, 8⟩] := by
  decide

end StunVerif.C18
