/-
The text attributes (USERNAME, REALM, NONCE, SOFTWARE, ALTERNATE-DOMAIN, the ERROR-CODE reason) accept a
value exactly when it is UTF-8; `utf8Valid` is the model of that accept set (agreement with
`std::str::from_utf8` is validated by the correspondence run).  This file ties `utf8Valid` to RFC 3629:
it accepts exactly the concatenations of encodings of Unicode scalar values — no overlong forms, no
surrogates, nothing above U+10FFFF, no truncated sequence.
-/
import StunVerif.Attr.Utf8
import StunVerif.Spec.Utf8
import StunVerif.Lemmas.Utf8
namespace StunVerif.Utf8
open StunVerif

/-- soundness and completeness of the validator against the RFC 3629 encoder -/
theorem utf8Valid_iff (bs : Bytes) :
    utf8Valid bs = true ↔ ∃ cps : List Nat, (∀ c ∈ cps, Spec.isScalar c = true) ∧ bs = cps.flatMap Spec.utf8Encode := by
  sorry

/-- the encoding of a scalar value is recognised as one sequence of the right length -/
theorem head_of_encode (c : Nat) (h : Spec.isScalar c = true) (rest : Bytes) :
    utf8Head (Spec.utf8Encode c ++ rest) = (Spec.utf8Encode c).length := by
  sorry

/-- decoding is unambiguous: two scalar sequences with the same encoding are equal -/
theorem encode_injective (cps cps' : List Nat) (h : ∀ c ∈ cps, Spec.isScalar c = true)
    (h' : ∀ c ∈ cps', Spec.isScalar c = true)
    (he : cps.flatMap Spec.utf8Encode = cps'.flatMap Spec.utf8Encode) : cps = cps' := by
  sorry

example : utf8Valid [0xE2, 0x82, 0xAC] = true ∧ utf8Valid [0xC0, 0x80] = false ∧
    utf8Valid [0xED, 0xA0, 0x80] = false ∧ utf8Valid [0xF4, 0x90, 0x80, 0x80] = false ∧
    Spec.utf8Encode 0x20AC = [0xE2, 0x82, 0xAC] := by decide

end StunVerif.Utf8
