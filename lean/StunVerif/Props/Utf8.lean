/-
The text attributes (USERNAME, REALM, NONCE, SOFTWARE, ALTERNATE-DOMAIN, the ERROR-CODE reason) accept a
value exactly when it is UTF-8; `utf8Valid` is the model of that accept set (agreement with
`std::str::from_utf8` is validated by the correspondence run).  This file ties `utf8Valid` to RFC 3629:
it accepts exactly the concatenations of encodings of Unicode scalar values — no overlong forms, no
surrogates, nothing above U+10FFFF, no truncated sequence.
-/
import StunVerif.Attr.Utf8
import StunVerif.Spec.Utf8
import StunVerif.Lemmas.Utf8
namespace StunVerif.Utf8
open StunVerif

open Utf8L in
/-- the fuel-bounded scan decides "concatenation of scalar encodings" whenever the fuel covers the length -/
theorem utf8ValidF_iff (fuel : Nat) : ∀ bs : Bytes, bs.length ≤ fuel →
    (utf8ValidF fuel bs = true ↔
      ∃ cps : List Nat, (∀ c ∈ cps, Spec.isScalar c = true) ∧ bs = cps.flatMap Spec.utf8Encode) := by
  induction fuel with
  | zero =>
    intro bs hl
    have : bs = [] := List.eq_nil_of_length_eq_zero (by omega)
    subst this
    simp only [utf8ValidF, true_iff]
    exact ⟨[], by simp, by simp⟩
  | succ fuel ih =>
    intro bs hl
    match bs, hl with
    | [], _ =>
      simp only [utf8ValidF, true_iff]
      exact ⟨[], by simp, by simp⟩
    | b :: bs', hl =>
      generalize hbs : b :: bs' = bs at hl
      have hne : bs ≠ [] := by rw [← hbs]; simp
      have hstep : utf8ValidF (fuel + 1) bs =
          if utf8Head bs = 0 then false else utf8ValidF fuel (bs.drop (utf8Head bs)) := by
        rw [← hbs]; simp only [utf8ValidF]
      rw [hstep]
      by_cases h0 : utf8Head bs = 0
      · rw [if_pos h0]
        constructor
        · intro h; exact absurd h (by simp)
        · rintro ⟨cps, hsc, he⟩
          exfalso
          match cps, hsc, he with
          | [], _, he => exact hne (by simpa using he)
          | c :: cs, hsc, he =>
            rw [List.flatMap_cons] at he
            have := head_encode c (hsc c (by simp)) (cs.flatMap Spec.utf8Encode)
            rw [← he, h0] at this
            have := encode_length_pos c
            omega
      · rw [if_neg h0]
        have hpos : 0 < utf8Head bs := Nat.pos_of_ne_zero h0
        have hlen : (bs.drop (utf8Head bs)).length ≤ fuel := by
          rw [List.length_drop]
          have : 0 < bs.length := List.length_pos_iff.mpr hne
          omega
        rw [ih _ hlen]
        constructor
        · rintro ⟨cps, hsc, he⟩
          obtain ⟨c, hc, hb⟩ := head_decode bs h0
          refine ⟨c :: cps, ?_, ?_⟩
          · intro x hx
            rcases List.mem_cons.mp hx with rfl | hx
            · exact hc
            · exact hsc x hx
          · rw [List.flatMap_cons, ← he]; exact hb
        · rintro ⟨cps, hsc, he⟩
          match cps, hsc, he with
          | [], _, he => exact absurd (by simpa using he) hne
          | c :: cs, hsc, he =>
            refine ⟨cs, fun x hx => hsc x (List.mem_cons_of_mem _ hx), ?_⟩
            rw [List.flatMap_cons] at he
            have hh := head_encode c (hsc c (by simp)) (cs.flatMap Spec.utf8Encode)
            rw [← he] at hh
            rw [hh, he, List.drop_left]

/-- soundness and completeness of the validator against the RFC 3629 encoder -/
theorem utf8Valid_iff (bs : Bytes) :
    utf8Valid bs = true ↔ ∃ cps : List Nat, (∀ c ∈ cps, Spec.isScalar c = true) ∧ bs = cps.flatMap Spec.utf8Encode :=
  utf8ValidF_iff bs.length bs (Nat.le_refl _)

/-- the encoding of a scalar value is recognised as one sequence of the right length -/
theorem head_of_encode (c : Nat) (h : Spec.isScalar c = true) (rest : Bytes) :
    utf8Head (Spec.utf8Encode c ++ rest) = (Spec.utf8Encode c).length :=
  Utf8L.head_encode c h rest

open Utf8L in
/-- decoding is unambiguous: two scalar sequences with the same encoding are equal -/
theorem encode_injective (cps cps' : List Nat) (h : ∀ c ∈ cps, Spec.isScalar c = true)
    (h' : ∀ c ∈ cps', Spec.isScalar c = true)
    (he : cps.flatMap Spec.utf8Encode = cps'.flatMap Spec.utf8Encode) : cps = cps' := by
  induction cps generalizing cps' with
  | nil =>
    match cps', he with
    | [], _ => rfl
    | c' :: cs', he =>
      exfalso
      have := encode_length_pos c'
      have hl := congrArg List.length he
      simp only [List.flatMap_nil, List.flatMap_cons, List.length_nil, List.length_append] at hl
      omega
  | cons c cs ih =>
    match cps', h', he with
    | [], _, he =>
      exfalso
      have := encode_length_pos c
      have hl := congrArg List.length he
      simp only [List.flatMap_nil, List.flatMap_cons, List.length_nil, List.length_append] at hl
      omega
    | c' :: cs', h', he =>
      rw [List.flatMap_cons, List.flatMap_cons] at he
      have hc := h c (by simp)
      have hc' := h' c' (by simp)
      have hd := congrArg decode1 he
      rw [decode_encode c hc, decode_encode c' hc'] at hd
      subst hd
      have := List.append_cancel_left he
      rw [ih cs' (fun x hx => h x (List.mem_cons_of_mem _ hx))
        (fun x hx => h' x (List.mem_cons_of_mem _ hx)) this]

example : utf8Valid [0xE2, 0x82, 0xAC] = true ∧ utf8Valid [0xC0, 0x80] = false ∧
    utf8Valid [0xED, 0xA0, 0x80] = false ∧ utf8Valid [0xF4, 0x90, 0x80, 0x80] = false ∧
    Spec.utf8Encode 0x20AC = [0xE2, 0x82, 0xAC] := by decide

end StunVerif.Utf8
