/-
C17 — a prefix of a message is reported as truncated with the length still needed; the stand-alone
header decoder agrees with the full parser.
-/
import StunVerif.Lemmas.Header
namespace StunVerif.C17
open StunVerif

/-- For every well-formed message `m` and every strict prefix of it, parsing fails as truncated,
    reporting the prefix length as available and, as expected size, 20 below 20 bytes and exactly
    `len m` from 20 bytes on (so: greater than the prefix length and at most `len m`). -/
theorem prefix_truncated (m : Bytes) (hm : Spec.WellFormed m) (k : Nat) (hk : k < m.length) :
    msgFromBytes (m.take k) = .error (.truncated (if k < 20 then 20 else m.length) k) := by
  obtain ⟨ts, h20, htop, hcookie, hlen, _⟩ := hm
  have hlk : (m.take k).length = k := by simp; omega
  by_cases hk20 : k < 20
  · simp only [hk20, if_true]
    unfold msgFromBytes
    rw [header_short _ (by omega)]
    simp [bind, Except.bind, hlk]
  · simp only [hk20, if_false]
    have hk20' : 20 ≤ k := by omega
    obtain ⟨t0, t1, l0, l1, c0, c1, c2, c3, rest, rfl, hr⟩ := split20 m h20
    have htake : (t0 :: t1 :: l0 :: l1 :: c0 :: c1 :: c2 :: c3 :: rest).take k =
        t0 :: t1 :: l0 :: l1 :: c0 :: c1 :: c2 :: c3 :: rest.take (k - 8) := by
      obtain ⟨j, rfl⟩ : ∃ j, k = j + 8 := ⟨k - 8, by omega⟩
      simp
    simp only [List.take_succ_cons, List.take_zero, List.drop_succ_cons, List.drop_zero,
      beNat_two] at htop hcookie hlen
    unfold msgFromBytes
    rw [htake, header_of_cons _ _ _ _ _ _ _ _ _ (by simp; simp at hk; omega)]
    have h1 : ¬ (be16 t0 t1 ≥ 0x4000) := by omega
    have h2 : ¬ ([c0, c1, c2, c3] ≠ cookieBytes) := by simp [hcookie, cookieBytes]
    rw [if_neg h1, if_neg h2]
    simp only [bind, Except.bind, List.length_cons, List.length_take]
    simp only [List.length_cons] at hlen hk
    rw [if_pos (by omega)]
    congr 2 <;> omega

/-- the stand-alone header decoder accepts exactly: at least 20 bytes, zero top two bits, cookie -/
theorem header_iff (p : Bytes) :
    (∃ h, headerFromBytes p = .ok h) ↔
      20 ≤ p.length ∧ beNat (p.take 2) < 0x4000 ∧ (p.drop 4).take 4 = [0x21, 0x12, 0xA4, 0x42] := by
  by_cases h20 : 20 ≤ p.length
  · obtain ⟨t0, t1, l0, l1, c0, c1, c2, c3, rest, rfl, hr⟩ := split20 p h20
    rw [header_of_cons _ _ _ _ _ _ _ _ _ hr]
    simp only [List.take_succ_cons, List.take_zero, List.drop_succ_cons, List.drop_zero, beNat_two]
    constructor
    · intro ⟨h, hh⟩
      split at hh
      · cases hh
      · split at hh
        · cases hh
        · rename_i h1 hc
          exact ⟨h20, by omega, by simpa [cookieBytes] using hc⟩
    · intro ⟨_, ht, hc⟩
      refine ⟨⟨be16 t0 t1, be16 l0 l1, beNat (rest.take 12)⟩, ?_⟩
      rw [if_neg (by omega), if_neg (by simp [hc, cookieBytes])]
  · rw [header_short p (by omega)]
    simp; omega

/-- on exactly 20 bytes, the header decoder accepts iff the full parser does not say "not STUN" -/
theorem header_iff_not_nonstun (p : Bytes) (hp : p.length = 20) :
    (∃ h, headerFromBytes p = .ok h) ↔ msgFromBytes p ≠ .error .notStun := by
  obtain ⟨t0, t1, l0, l1, c0, c1, c2, c3, rest, rfl, hr⟩ := split20 p (by omega)
  unfold msgFromBytes
  rw [header_of_cons _ _ _ _ _ _ _ _ _ hr]
  by_cases h1 : be16 t0 t1 ≥ 0x4000
  · simp [h1, bind, Except.bind]
  · by_cases h2 : [c0, c1, c2, c3] = cookieBytes
    · simp only [h1, h2, if_false, ne_eq, not_true, bind, Except.bind]
      simp
      split
      · simp
      · split
        · simp
        · cases hw : walk _ _ _ _ _ <;> simp [Except.map]
          rename_i e
          -- the body is empty (20 bytes, declared length 0 here), so the walk returns ok
          simp only [List.length_cons] at hp
          have : rest.length = 12 := by omega
          have hd : List.drop 12 rest = [] := List.drop_eq_nil_of_le (by omega)
          rw [hd] at hw
          simp [walk] at hw
    · simp [h1, h2, bind, Except.bind]

/-- the header decoder reports the same type, transaction id and declared length as the full parse -/
theorem header_agrees (b : Bytes) (m : Msg) (h : msgFromBytes b = .ok m) :
    m.data = b ∧ ∃ hd, headerFromBytes (b.take 20) = .ok hd ∧
      hd.ty = m.typeField ∧ hd.tid = m.tid ∧ hd.len + 20 = b.length := by
  by_cases h20 : 20 ≤ b.length
  · rw [header_take20 b h20]
    obtain ⟨t0, t1, l0, l1, c0, c1, c2, c3, rest, rfl, hr⟩ := split20 b h20
    unfold msgFromBytes at h
    rw [header_of_cons _ _ _ _ _ _ _ _ _ hr] at h ⊢
    by_cases h1 : be16 t0 t1 ≥ 0x4000
    · simp [h1, bind, Except.bind] at h
    · by_cases h2 : [c0, c1, c2, c3] = cookieBytes
      · simp only [h1, h2, if_false, ne_eq, not_true, bind, Except.bind] at h ⊢
        split at h
        · simp at h
        · split at h
          · simp at h
          · cases hw : walk _ _ _ _ _ with
            | error e => rw [hw] at h; simp [Except.map] at h
            | ok u =>
              rw [hw] at h
              simp only [Except.map, Except.ok.injEq] at h
              subst h
              refine ⟨rfl, _, rfl, ?_, ?_, ?_⟩
              · simp [Msg.typeField, beNat_two]
              · simp [Msg.tid]
              · simp only [List.length_cons] at *; omega
      · simp [h1, h2, bind, Except.bind] at h
  · unfold msgFromBytes at h
    rw [header_short b (by omega)] at h
    simp [bind, Except.bind] at h

/-! Non-vacuity: a 28-byte well-formed message with one SOFTWARE attribute. -/
def sample : Bytes :=
  [0x00, 0x01, 0x00, 0x08, 0x21, 0x12, 0xA4, 0x42, 1, 2, 3, 4, 5, 6, 7, 8, 9, 10, 11, 12,
   0x80, 0x22, 0x00, 0x03, 0x61, 0x62, 0x63, 0x00]

example : Spec.WellFormed sample :=
  ⟨[⟨0x8022, [0x61, 0x62, 0x63], [0]⟩], by decide, by decide, by decide, by decide,
   by intro t ht; simp at ht; subst ht; exact ⟨by decide, by decide, by decide⟩,
   by decide, by decide, by simp [Spec.fpOk, tyFP]⟩

example : msgFromBytes (sample.take 23) = .error (.truncated 28 23) := by decide

end StunVerif.C17
