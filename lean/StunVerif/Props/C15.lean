/-
C15 — a peer is validated only by a STUN message accepted from it, and stays validated.
Property theorems only; helper lemmas live in `Lemmas/AgentPeers.lean`.
-/
import StunVerif.Spec.Agent
import StunVerif.Lemmas.AgentPeers
namespace StunVerif.C15
open StunVerif StunVerif.Agent

/-- the calls that validate their source address: a request/indication handed to the agent, or a
    response that was delivered -/
def validates (a : SockAddr) (p : Op × Out) : Bool :=
  match p with
  | (.handle _ src, .incoming) => src = a
  | (.handle _ src, .response) => src = a
  | _ => false

/-- one step: the validated set grows by exactly the accepted source address, or not at all -/
theorem step_validated (s : State) (op : Op) (a : SockAddr) :
    isValidatedPeer (step s op).1 a = (isValidatedPeer s a || validates a (op, (step s op).2)) := by
  exact step_acceptedFrom s op a

/-- `is_validated_peer(a)` after any history is true exactly when some earlier call handed the agent
    a request/indication from `a` or delivered a response from `a` -/
theorem validated_iff (tr : Transport) (loc : SockAddr) (ops : List Op) (a : SockAddr) :
    isValidatedPeer (after (State.init tr loc) ops) a = (trace (State.init tr loc) ops).any (validates a) := by
  have h := isValidatedPeer_after (State.init tr loc) ops a
  rw [h]
  rfl

/-- once validated, always validated -/
theorem monotone (s : State) (ops : List Op) (a : SockAddr) (h : isValidatedPeer s a = true) :
    isValidatedPeer (after s ops) a = true := by
  rw [isValidatedPeer_after, h, Bool.true_or]

/-- dropped messages validate nobody; neither do send, poll, cancel, configuration or credential
    calls -/
theorem others_never_validate (s : State) (op : Op) (a : SockAddr)
    (h : match op, (step s op).2 with
      | .handle _ _, .drop => True
      | .handle _ _, _ => False
      | _, _ => True) :
    isValidatedPeer (step s op).1 a = isValidatedPeer s a := by
  have hv : acceptedFrom a (op, (step s op).2) = false := by
    cases op with
    | handle m src =>
      generalize (step s (.handle m src)).2 = o at h
      cases o <;> first | exact h.elim | rfl
    | _ => rfl
  rw [step_acceptedFrom, hv, Bool.or_false]

/-- validation of one address never validates another -/
theorem no_cross (s : State) (m : InMsg) (src a : SockAddr) (h : a ≠ src) :
    isValidatedPeer (step s (.handle m src)).1 a = isValidatedPeer s a := by
  rw [step_acceptedFrom, acceptedFrom_handle_ne m src a _ h, Bool.or_false]

/-! Non-vacuity: sending to 7 does not validate it; a dropped response from 7 does not; an incoming
    request from 8 validates 8 only; the genuine response validates 7. -/
example :
    let h : List Op := [.sendReq 1 [1] true 7 0, .handle ⟨true, 1, fun _ => true⟩ 7,
      .handle ⟨false, 4, fun _ => false⟩ 8, .setRemoteCreds 1, .handle ⟨true, 1, fun _ => true⟩ 7]
    [1, 2, 3, 5].map (fun n => [7, 8, 9].map (isValidatedPeer (after (State.init .udp 5) (h.take n)))) =
      [[false, false, false], [false, false, false], [false, true, false], [true, true, false]] := by
  decide

end StunVerif.C15
