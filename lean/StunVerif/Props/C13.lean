/-
C13 — XOR-MAPPED-ADDRESS returns the address that was put in.
All addresses, all ports, all transaction ids: byte-list algebra, no enumeration.
-/
import StunVerif.Lemmas.Xor
import StunVerif.Gen.Xor
namespace StunVerif.C13
open StunVerif

theorem key_length (a : Addr) (tid : Nat) :
    (if a.v6 then xorCookie ++ encBE 12 (tid % 2 ^ 96) else xorCookie).length =
      (if a.v6 then 16 else 4) := by
  split <;> simp [xorCookie, encBE_length]

/-- XOR-ing twice with the same transaction id is the identity: an XOR-MAPPED-ADDRESS built from
    (a, t) decodes under t to a -/
theorem xor_involutive (a : Addr) (tid : Nat) (h : a.wf = true) :
    xorAddr (xorAddr a tid) tid = a := by
  simp only [Addr.wf, Bool.and_eq_true, beq_iff_eq, decide_eq_true_eq] at h
  have hk := key_length a tid
  unfold xorAddr
  simp only
  rw [xorBytes_cancel _ _ (by rw [hk]; omega), Nat.xor_assoc, Nat.xor_self, Nat.xor_zero]

theorem built_decodes (a : Addr) (tid : Nat) (h : a.wf = true) :
    xorMappedAddr (xorMappedNew a tid) tid = some a := by
  simp [xorMappedAddr, xorMappedNew, xor_involutive a tid h]

/-- the XORed address is again a well-formed address (same family, 4/16 bytes, 16-bit port) -/
theorem xor_wf (a : Addr) (tid : Nat) (h : a.wf = true) : (xorAddr a tid).wf = true := by
  simp only [Addr.wf, Bool.and_eq_true, beq_iff_eq, decide_eq_true_eq] at h ⊢
  have hk := key_length a tid
  unfold xorAddr
  simp only
  refine ⟨?_, Nat.xor_lt_two_pow (n := 16) h.2 (by decide)⟩
  rw [xorBytes_length_of_le _ _ (by rw [hk]; omega)]
  exact h.1

/-- RFC 8489 §14.2 wire value, against literal constants: reserved 0, family, port XOR 0x2112
    (the top 16 bits of the magic cookie), IPv4 address XOR 2112A442, IPv6 address XOR
    (2112A442 ‖ transaction id) -/
theorem wire_layout (a : Addr) (tid : Nat) :
    (xorMappedNew a tid).toRaw =
      ⟨0x0020, [0, if a.v6 then 2 else 1] ++ enc16 (a.port ^^^ 0x2112) ++
        xorBytes (if a.v6 then [0x21, 0x12, 0xA4, 0x42] ++ encBE 12 (tid % 2 ^ 96)
                  else [0x21, 0x12, 0xA4, 0x42]) a.ip⟩ := by
  simp [xorMappedNew, AttrVal.toRaw, AttrVal.kind, Kind.code, AttrVal.valueBytes, Addr.valueBytes,
    xorAddr, xorCookie]

/-- a trip through the wire: decoding the encoded attribute gives the same stored value, which
    decodes under t to a -/
theorem wire_roundtrip (a : Addr) (tid : Nat) (h : a.wf = true) :
    fromRaw .xorMappedAddress (xorMappedNew a tid).toRaw = .ok (xorMappedNew a tid) ∧
    xorMappedAddr (xorMappedNew a tid) tid = some a := by
  refine ⟨?_, built_decodes a tid h⟩
  have hw := xor_wf a tid h
  simp only [Addr.wf, Bool.and_eq_true, beq_iff_eq, decide_eq_true_eq] at hw
  obtain ⟨hlen, hport⟩ := hw
  simp only [xorMappedNew, AttrVal.toRaw, AttrVal.kind, AttrVal.valueBytes, Addr.valueBytes]
  generalize xorAddr a tid = s at hlen hport
  obtain ⟨v6, ip, port⟩ := s
  simp only at hlen hport
  cases v6
  · simp only [Bool.false_eq_true, if_false] at hlen
    simp [fromRaw, RawAttr.checkTypeAndLen, checkLen, addrFromValue, enc16, bind, Except.bind,
      hlen, Kind.code]
    refine ⟨?_, ?_⟩
    · exact List.take_of_length_le (by omega)
    · simp [be16]; omega
  · simp only [if_true] at hlen
    simp [fromRaw, RawAttr.checkTypeAndLen, checkLen, addrFromValue, enc16, bind, Except.bind,
      hlen, Kind.code]
    simp [be16]; omega

/-- decoding an IPv6 value under a different transaction id gives a different address -/
theorem v6_tid_sensitive (s : Addr) (t t' : Nat) (hv6 : s.v6 = true) (h : s.wf = true)
    (hne : t % 2 ^ 96 ≠ t' % 2 ^ 96) : xorAddr s t ≠ xorAddr s t' := by
  simp only [Addr.wf, Bool.and_eq_true, beq_iff_eq, decide_eq_true_eq, hv6, if_true] at h
  intro he
  unfold xorAddr at he
  simp only [hv6, if_true, Addr.mk.injEq, true_and, and_true] at he
  have := xorBytes_key_inj _ _ _ (by simp [xorCookie, encBE_length, h.1])
    (by simp [xorCookie, encBE_length, h.1]) he
  simp only [List.append_cancel_left_eq] at this
  exact hne (encBE_inj 12 _ _ (Nat.mod_lt _ (by decide)) (Nat.mod_lt _ (by decide)) this)

/-- an IPv4 value does not depend on the transaction id -/
theorem v4_tid_insensitive (s : Addr) (t t' : Nat) (hv4 : s.v6 = false) :
    xorAddr s t = xorAddr s t' := by
  simp [xorAddr, hv4]

/-! ### tie to the source: the code's own expressions (translated from /repo on this run) are the
    constants of the model -/

theorem src_const6_value (t : Nat) : Gen.xorConst6 t = 0x2112A442 * 256 ^ 12 + t % 2 ^ 96 := by
  unfold Gen.xorConst6 Gen.magicCookie
  have hm : (79228162514264337593543950335 : Nat) = 2 ^ 96 - 1 := by decide
  rw [hm, Nat.and_two_pow_sub_one_eq_mod]
  have h2 : ((554869826 % 340282366920938463463374607431768211456) <<< 96) % 340282366920938463463374607431768211456 = 554869826 <<< 96 := by decide
  rw [h2, ← Nat.shiftLeft_add_eq_or_of_lt (Nat.mod_lt _ (by decide)), Nat.shiftLeft_eq]

/-- port mask: `(MAGIC_COOKIE >> 16) as u16` is 0x2112, in both the IPv4 and the IPv6 arm -/
theorem src_port (p : Nat) : Gen.xorPortV4 p = p ^^^ 0x2112 ∧ Gen.xorPortV6 p = p ^^^ 0x2112 := by
  constructor <;> rfl

/-- IPv4 key: `MAGIC_COOKIE.to_be_bytes()` -/
theorem src_const4 : encBE 4 Gen.xorConst4 = xorCookie := by decide

/-- IPv6 key: `((MAGIC_COOKIE as u128) << 96 | (transaction & 2^96-1)).to_be_bytes()` is
    cookie ‖ transaction id, for every transaction value -/
theorem src_const6 (t : Nat) : encBE 16 (Gen.xorConst6 t) = xorCookie ++ encBE 12 (t % 2 ^ 96) := by
  rw [src_const6_value, show (16 : Nat) = 4 + 12 from rfl,
    encBE_split 4 12 _ _ (by have : (256:Nat) ^ 12 = 2 ^ 96 := by decide
                             rw [this]; exact Nat.mod_lt _ (by decide))]
  rfl

/-- `Fingerprint::XOR_CONSTANT` -/
theorem src_fp_const : Gen.fingerprintXorConstant = fpXorConst.map (·.toNat) := by decide

/-! Non-vacuity -/
example : (⟨true, List.replicate 16 0xff, 65535⟩ : Addr).wf = true := by decide
example : xorAddr ⟨false, [192, 0, 2, 1], 32853⟩ 0 = ⟨false, [0xe1, 0x12, 0xa6, 0x43], 0xa147⟩ := by
  decide

end StunVerif.C13
