/-
C09, error-detection corollary — corrupting a fingerprinted message gets it rejected.
CRC-32 detects every error confined to a window of 32 consecutive bit positions (in the order the
CRC consumes the bits: byte by byte, least significant bit first): every single-bit flip, every
single-byte substitution, every error inside 4 consecutive bytes.  `Crc.crc32Bytes_burst_pair`
(Lemmas/CrcBurst.lean) is that fact for messages of any length, proved from the linearity of the
shift register; this file lifts it to the parser.
-/
import StunVerif.Props.C09
import StunVerif.Lemmas.CrcBurst
import StunVerif.Lemmas.FpDetect
import StunVerif.Props.C02
namespace StunVerif.C09
open StunVerif

/-- Two accepted buffers of the same length that both end in a FINGERPRINT attribute and differ
    only inside one window of 32 consecutive bit positions — anywhere: header, length field,
    transaction id, attributes, padding, the FINGERPRINT attribute itself — are equal.
    Contrapositive: take an accepted fingerprinted message, corrupt it inside such a window; if the
    result still carries its FINGERPRINT attribute (the attribute framing survived), the parser
    refuses it.  (If the corruption dissolves the FINGERPRINT attribute itself — e.g. turns its type
    code into another one — the result is a message without fingerprint, to which the guarantee
    does not apply; the correspondence run judges those by the reference decoder.) -/
theorem fp_detects (b b' : Bytes) (pre pre' : List Spec.Tlv) (x x' : Spec.Tlv)
    (hw : Spec.WellFormedAs b (pre ++ [x])) (hw' : Spec.WellFormedAs b' (pre' ++ [x']))
    (hx : x.ty = tyFP) (hx' : x'.ty = tyFP) (hlen : b.length = b'.length) (s : Nat)
    (hwin : ∀ i, Crc.bitAt b i ≠ Crc.bitAt b' i → s ≤ i ∧ i < s + 32) : b = b' := by
  obtain ⟨h28, h4, hdrop, hcrc⟩ := wellFormedAs_fp_last b pre x hw hx
  obtain ⟨_, h4', hdrop', hcrc'⟩ := wellFormedAs_fp_last b' pre' x' hw' hx'
  rw [← hlen] at hdrop' hcrc'
  have key : b.take (b.length - 8) = b'.take (b.length - 8) ∧ x.value = x'.value := by
    by_cases hs : s + 32 ≤ 8 * (b.length - 4)
    · -- the window ends before the value bytes: the values agree, so the CRCs agree
      have hv : x.value = x'.value := by
        have hd : b.drop (b.length - 4) = b'.drop (b.length - 4) :=
          drop_eq_of_getD b b' _ hlen (fun k hk => getD_eq_of_bitAt b b' k (fun j _ => by
            apply Classical.byContradiction
            intro hne
            have := hwin _ hne
            omega))
        have e : b.drop (b.length - 4) = x.value := by
          rw [show b.length - 4 = (b.length - 8) + 4 by omega, ← List.drop_drop, hdrop]
          rfl
        have e' : b'.drop (b.length - 4) = x'.value := by
          rw [show b.length - 4 = (b.length - 8) + 4 by omega, ← List.drop_drop, hdrop']
          rfl
        rw [← e, ← e', hd]
      refine ⟨?_, hv⟩
      have hc : Crc.crc32Bytes (fpInput b (b.length - 8) 8) =
          Crc.crc32Bytes (fpInput b' (b.length - 8) 8) := by rw [← hcrc, ← hcrc', hv]
      have hin : fpInput b (b.length - 8) 8 = fpInput b' (b.length - 8) 8 := by
        apply Classical.byContradiction
        intro hne
        exact Crc.crc32Bytes_burst_pair _ _ (by rw [fpInput_length, fpInput_length, hlen]) s
          (fun i hi => hwin i (fpInput_bitAt_ne b b' _ _ i (by omega) (by omega) (by omega) hi))
          hne hc
      apply take_eq_of_fpInput_eq b b' _ 8 (by omega) (by omega) (by omega) _ hin
      rw [wellFormedAs_lenField b _ hw, wellFormedAs_lenField b' _ hw', hlen]
    · -- the window starts after the attribute header: the prefixes agree, so the CRC inputs agree
      have ht : b.take (b.length - 8) = b'.take (b.length - 8) :=
        take_eq_of_getD b b' _ hlen (fun k hk => getD_eq_of_bitAt b b' k (fun j _ => by
          apply Classical.byContradiction
          intro hne
          have := hwin _ hne
          omega))
      refine ⟨ht, ?_⟩
      have hin : fpInput b (b.length - 8) 8 = fpInput b' (b.length - 8) 8 := by
        unfold fpInput
        rw [ht]
      have hxor : xorBytes x.value [0x53, 0x54, 0x55, 0x4e] =
          xorBytes x'.value [0x53, 0x54, 0x55, 0x4e] := by rw [hcrc, hcrc', hin]
      exact xorBytes_key_inj _ _ _ (by rw [h4]; rfl) (by rw [h4']; rfl) hxor
  rw [← List.take_append_drop (b.length - 8) b, ← List.take_append_drop (b.length - 8) b', hdrop,
    hdrop', key.1, key.2]

/-- the same in terms of the parser: if `b` and `b'` are both accepted (`msgFromBytes … = .ok`)
    with a FINGERPRINT as their last attribute, have equal length and differ at all, their
    differing bits do not fit in 32 consecutive positions -/
theorem fp_detects_parser (b b' : Bytes) (m m' : Msg) (hp : msgFromBytes b = .ok m)
    (hp' : msgFromBytes b' = .ok m') (hf : (m.allAttrs.getLast?.map (·.ty)) = some tyFP)
    (hf' : (m'.allAttrs.getLast?.map (·.ty)) = some tyFP) (hlen : b.length = b'.length)
    (hne : b ≠ b') (s : Nat) :
    ∃ i, Crc.bitAt b i ≠ Crc.bitAt b' i ∧ ¬ (s ≤ i ∧ i < s + 32) := by
  apply Classical.byContradiction
  intro hn
  apply hne
  obtain ⟨ts, hw⟩ := (C02.parse_iff b).mp ⟨m, hp⟩
  obtain ⟨ts', hw'⟩ := (C02.parse_iff b').mp ⟨m', hp'⟩
  have ha := (C02.parse_faithful b m ts hp hw).2.2.2.1
  have ha' := (C02.parse_faithful b' m' ts' hp' hw').2.2.2.1
  rw [ha, List.getLast?_map, Option.map_map] at hf
  rw [ha', List.getLast?_map, Option.map_map] at hf'
  obtain ⟨x, hxl, hx⟩ := Option.map_eq_some_iff.mp hf
  obtain ⟨x', hxl', hx'⟩ := Option.map_eq_some_iff.mp hf'
  obtain ⟨pre, rfl⟩ := List.getLast?_eq_some_iff.mp hxl
  obtain ⟨pre', rfl⟩ := List.getLast?_eq_some_iff.mp hxl'
  refine fp_detects b b' pre pre' x x' hw hw' hx hx' hlen s ?_
  intro i hi
  apply Classical.byContradiction
  intro hc
  exact hn ⟨i, hi, hc⟩

end StunVerif.C09
