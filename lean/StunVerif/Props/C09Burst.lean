/-
C09, error-detection corollary — corrupting a fingerprinted message gets it rejected.
CRC-32 detects every error confined to a window of 32 consecutive bit positions (in the order the
CRC consumes the bits: byte by byte, least significant bit first): every single-bit flip, every
single-byte substitution, every error inside 4 consecutive bytes.  `Crc.crc32Bytes_burst_pair`
(Lemmas/CrcBurst.lean) is that fact for messages of any length, proved from the linearity of the
shift register; this file lifts it to the parser.
-/
import StunVerif.Props.C09
import StunVerif.Lemmas.CrcBurst
namespace StunVerif.C09
open StunVerif

/-- Two accepted buffers of the same length that both end in a FINGERPRINT attribute and differ
    only inside one window of 32 consecutive bit positions — anywhere: header, length field,
    transaction id, attributes, padding, the FINGERPRINT attribute itself — are equal.
    Contrapositive: take an accepted fingerprinted message, corrupt it inside such a window; if the
    result still carries its FINGERPRINT attribute (the attribute framing survived), the parser
    refuses it.  (If the corruption dissolves the FINGERPRINT attribute itself — e.g. turns its type
    code into another one — the result is a message without fingerprint, to which the guarantee
    does not apply; the correspondence run judges those by the reference decoder.) -/
theorem fp_detects (b b' : Bytes) (pre pre' : List Spec.Tlv) (x x' : Spec.Tlv)
    (hw : Spec.WellFormedAs b (pre ++ [x])) (hw' : Spec.WellFormedAs b' (pre' ++ [x']))
    (hx : x.ty = tyFP) (hx' : x'.ty = tyFP) (hlen : b.length = b'.length) (s : Nat)
    (hwin : ∀ i, Crc.bitAt b i ≠ Crc.bitAt b' i → s ≤ i ∧ i < s + 32) : b = b' := by
  sorry

/-- the same in terms of the parser: if `b` and `b'` are both accepted (`msgFromBytes … = .ok`)
    with a FINGERPRINT as their last attribute, have equal length and differ at all, their
    differing bits do not fit in 32 consecutive positions -/
theorem fp_detects_parser (b b' : Bytes) (m m' : Msg) (hp : msgFromBytes b = .ok m)
    (hp' : msgFromBytes b' = .ok m') (hf : (m.allAttrs.getLast?.map (·.ty)) = some tyFP)
    (hf' : (m'.allAttrs.getLast?.map (·.ty)) = some tyFP) (hlen : b.length = b'.length)
    (hne : b ≠ b') (s : Nat) :
    ∃ i, Crc.bitAt b i ≠ Crc.bitAt b' i ∧ ¬ (s ≤ i ∧ i < s + 32) := by
  sorry

end StunVerif.C09
