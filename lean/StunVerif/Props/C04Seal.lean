/-
C04 (continued) — sealed messages verify.  Separate from `Props/C04.lean` because it rests on the
builder round trip of C03.
Property theorems only (statements are fixed; helper lemmas live in `Lemmas/Seal.lean`).
-/
import StunVerif.Spec.Builder
import StunVerif.Lemmas.Integrity
import StunVerif.Lemmas.Seal
import StunVerif.Props.C03
import StunVerif.Props.C04
namespace StunVerif.C04
open StunVerif

/-- a message sealed with credentials `c` (SHA-1, SHA-256 or both, with or without a fingerprint,
    with or without `into_owned`) validates with `c` -/
theorem seal_validates (H : Hashes) (hH : Spec.HashesOk H) (c : Creds) (b : Builder)
    (hr : Spec.ReachWith H c b) (hs : b.byteLen ≤ 65535 + 20)
    (hsealed : tyMI ∈ b.types ∨ tyMI256 ∈ b.types) :
    ∃ m, msgFromBytes b.build = .ok m ∧
      m.validateIntegrity H c = .ok (if tyMI256 ∈ b.types then .sha256 else .sha1) := by
  have hreach := reachWith_reach H c b hr
  have hok := reach_ok H hH b hreach
  obtain ⟨m, hp, _, _, hall, _⟩ := C03.roundtrip H hH b hreach hs
  refine ⟨m, hp, ?_⟩
  obtain ⟨hm, h20, ht, hc, hl, hwalk⟩ := (msgFromBytes_ok_iff b.build m).mp hp
  obtain ⟨ts, hw⟩ := walk_wellFormed b.build h20 ht hc hl hwalk
  have hts : ts.map Spec.Tlv.raw = b.attrs.map BAttr.asRaw := by
    rw [← hall, hm]; exact (wellFormedAs_allAttrs b.build ts hw).symm
  have htypes : ts.map (·.ty) = b.types := by
    rw [reach_types H b hreach]
    have := congrArg (List.map (·.ty)) hts
    simp only [List.map_map] at this
    rw [show (fun x : Spec.Tlv => x.ty) = (fun x : RawAttr => x.ty) ∘ Spec.Tlv.raw from rfl, this]
    apply List.map_congr_left
    intro a _
    exact asRaw_ty_seal a
  rw [validate_spec H b.build m ts c hp hw]
  exact sealed_verdict H hH c b hok (reachWith_sealed H hH c b hr hs) ts hw hts htypes hsealed

end StunVerif.C04
