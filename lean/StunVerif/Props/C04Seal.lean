/-
C04, second part — a message sealed by the builder validates (rests on C03's round trip).
-/
import StunVerif.Spec.Builder
import StunVerif.Lemmas.Integrity
import StunVerif.Props.C03
import StunVerif.Props.C04
namespace StunVerif.C04
open StunVerif

/-- a message sealed with credentials `c` (SHA-1, SHA-256 or both, with or without a fingerprint,
    with or without `into_owned`) validates with `c` -/
theorem seal_validates (H : Hashes) (hH : Spec.HashesOk H) (c : Creds) (b : Builder)
    (hr : Spec.ReachWith H c b) (hs : b.byteLen ≤ 65535 + 20)
    (hsealed : tyMI ∈ b.types ∨ tyMI256 ∈ b.types) :
    ∃ m, msgFromBytes b.build = .ok m ∧
      m.validateIntegrity H c = .ok (if tyMI256 ∈ b.types then .sha256 else .sha1) := by
  sorry

end StunVerif.C04
