/-
C06 — retransmission timing follows the configured RFC 8489 schedule exactly.
Time is in nanoseconds (`msNs` converts the configured milliseconds).  Theorems about one request
(`reqPoll`, the mirror of `StunRequestState::poll`) hold for every request state and every instant;
theorems about the agent hold for every reachable state, every number of concurrent transactions
and every choice of which ready transaction is served first.  Property theorems only; helper
lemmas live in `Lemmas/AgentTime.lean`.
-/
import StunVerif.Spec.Agent
import StunVerif.Lemmas.AgentTime
import StunVerif.Gen.Agent
namespace StunVerif.C06
open StunVerif StunVerif.Agent

/-! ### one request -/

/-- before its deadline a request only waits: the reply names the deadline and nothing changes
    (so early and repeated polls are harmless) -/
theorem req_early (r : Req) (now d : Time) (hc : r.recvCancelled = false)
    (hd : r.deadline = some d) (h : now < d) : reqPoll r now = (r, .waitUntil d) := by
  have hl : r.lastSend.isSome = true := by
    cases hl : r.lastSend with
    | none => simp [Req.deadline, hl] at hd
    | some _ => rfl
  have h2 := (reqPoll_wait_iff r now d hl).mpr ⟨hc, hd, h⟩
  have h1 := reqPoll_wait_fst r now d h2
  exact Prod.ext h1 h2

/-- from its deadline on, a request that still has retransmissions left is handed out again:
    the k-th retransmission becomes due exactly `timeouts[k-1]` after the previous transmission was
    handed out at `h`, and the hand-out instant `now` is the base of the next interval -/
theorem req_retransmit (r : Req) (now h : Time) (hc : r.recvCancelled = false)
    (hs : r.sendCancelled = false) (hl : r.lastSend = some h) (hk : r.timeoutI < r.timeouts.length)
    (hd : h + msNs (r.timeouts.getD r.timeoutI 0) ≤ now) :
    reqPoll r now = ({ r with timeoutI := r.timeoutI + 1, lastSend := some now }, .sendData) := by
  rw [reqPoll_some r now h hc hl, if_neg (Nat.not_le.mpr hk), if_neg (Nat.not_lt.mpr hd)]
  simp [hs]

/-- after the last retransmission the request times out exactly `lastRto` after the final
    transmission (and not before: `req_early`) -/
theorem req_timeout (r : Req) (now h : Time) (hc : r.recvCancelled = false)
    (hl : r.lastSend = some h) (hk : r.timeouts.length ≤ r.timeoutI)
    (hd : h + msNs r.lastRto ≤ now) : reqPoll r now = (r, .timedOut) := by
  rw [reqPoll_some r now h hc hl, if_pos hk, if_neg (Nat.not_lt.mpr hd)]

/-- `configure_timeout` on a UDP request: `retransmits` intervals, the k-th being
    `initial_rto * 2^k`, and the given last timeout -/
theorem configure_udp (r : Req) (rto n last : Nat) :
    (configureReq .udp r rto n last).timeouts.length = n ∧
    (∀ k, k < n → (configureReq .udp r rto n last).timeouts.getD k 0 = rto * 2 ^ k) ∧
    (configureReq .udp r rto n last).lastRto = last := by
  refine ⟨by simp [configureReq], fun k hk => ?_, rfl⟩
  exact getD_map_range _ n k hk

/-- `configure_timeout` on a TCP request: no retransmission, one timeout equal to the sum of all
    the UDP intervals, `rto * (2^n - 1) + last` -/
theorem configure_tcp (r : Req) (rto n last : Nat) :
    (configureReq .tcp r rto n last).timeouts = [] ∧
    (configureReq .tcp r rto n last).lastRto = last + rto * (2 ^ n - 1) := by
  refine ⟨rfl, ?_⟩
  show last + _ = _
  rw [geom_sum]

/-- exactly `retransmits` retransmissions, whatever the poll schedule (early, late, repeated, any
    order of instants): a request that has been transmitted once and has `n` intervals is handed out
    at most `n - timeoutI` more times, and if it is seen to time out it was handed out exactly that
    many times before -/
theorem retransmit_count (r : Req) (nows : List Time) (hl : r.lastSend.isSome = true)
    (hs : r.sendCancelled = false) (hk : r.timeoutI ≤ r.timeouts.length) :
    ((reqPolls r nows).filter (· = .sendData)).length ≤ r.timeouts.length - r.timeoutI ∧
    ∀ i, (reqPolls r nows)[i]? = some .timedOut →
      (((reqPolls r nows).take i).filter (· = .sendData)).length = r.timeouts.length - r.timeoutI := by
  exact Agent.retransmit_count r nows hl hs hk

/-- polled exactly when due, a UDP request configured with (`rto`, `n`, `last`) and first sent at
    `t0` is retransmitted at `t0 + rto*(2^k - 1)` for k = 1..n and times out at
    `t0 + rto*(2^n - 1) + last` -/
theorem on_time_schedule (r0 : Req) (rto n last : Nat) (t0 : Time)
    (hc : r0.recvCancelled = false) (hs : r0.sendCancelled = false) :
    let r := configureReq .udp r0 rto n last
    let st (k : Nat) : Req := { r with timeoutI := k, lastSend := some (t0 + msNs (rto * (2 ^ k - 1))) }
    (∀ k, k < n → reqPoll (st k) (t0 + msNs (rto * (2 ^ (k + 1) - 1))) = (st (k + 1), .sendData)) ∧
    reqPoll (st n) (t0 + msNs (rto * (2 ^ n - 1)) + msNs last) = (st n, .timedOut) := by
  exact Agent.on_time_schedule r0 rto n last t0 hc hs

/-- the defaults of `StunRequestState::new` are the RFC values, in the model and in the source as
    translated on this run -/
theorem src_defaults (b : Bytes) (hc : Bool) (to : SockAddr) :
    (Req.new .udp b hc to).timeouts = Gen.defaultUdpTimeouts ∧
    (Req.new .udp b hc to).lastRto = Gen.defaultUdpLast ∧
    (Req.new .tcp b hc to).timeouts = Gen.defaultTcpTimeouts ∧
    (Req.new .tcp b hc to).lastRto = Gen.defaultTcpLast ∧
    Gen.defaultUdpTimeouts = [500, 1000, 2000, 4000, 8000, 16000] ∧ Gen.defaultUdpLast = 8000 ∧
    Gen.defaultTcpTimeouts = [] ∧ Gen.defaultTcpLast = 39500 ∧ Gen.idleWaitSecs = 3600 := by
  refine ⟨rfl, rfl, rfl, rfl, ?_⟩
  decide

/-- default UDP schedule through the agent: 7 transmissions at 0, 0.5, 1.5, 3.5, 7.5, 15.5, 31.5 s
    and the timeout at 39.5 s; polling in between only waits for the next of these instants -/
theorem default_udp_schedule (tid : Nat) (b : Bytes) (to loc : SockAddr) :
    let tx : Out := .transmit (some tid) ⟨b, .udp, loc, to⟩
    (trace (State.init .udp loc)
      [.sendReq tid b false to 0, .poll 0 none, .poll (msNs 499) none, .poll (msNs 500) none,
       .poll (msNs 1500) none, .poll (msNs 3500) none, .poll (msNs 7500) none,
       .poll (msNs 15499) none, .poll (msNs 15500) none, .poll (msNs 31500) none,
       .poll (msNs 39499) none, .poll (msNs 39500) none]).map (·.2) =
    [tx, .waitUntil (msNs 500), .waitUntil (msNs 500), tx, tx, tx, tx, .waitUntil (msNs 15500), tx, tx,
     .waitUntil (msNs 39500), .timedOut tid] := by
  exact Agent.default_udp_schedule tid b to loc

/-- default TCP schedule: one transmission, timeout at 39.5 s -/
theorem default_tcp_schedule (tid : Nat) (b : Bytes) (to loc : SockAddr) :
    (trace (State.init .tcp loc)
      [.sendReq tid b false to 0, .poll 0 none, .poll (msNs 39499) none, .poll (msNs 39500) none]).map (·.2) =
    [.transmit (some tid) ⟨b, .tcp, loc, to⟩, .waitUntil (msNs 39500), .waitUntil (msNs 39500),
     .timedOut tid] := by
  exact Agent.default_tcp_schedule tid b to loc

/-! ### the agent -/

/-- every outstanding request of a reachable agent has been transmitted -/
theorem all_sent (s : State) (hr : Reachable s) : AllSent s := by
  exact allSent_of_reachable s hr

/-- `WaitUntil(t)` with transactions outstanding: `t` is the earliest deadline of any of them,
    nothing changed, and `t` lies in the future -/
theorem wait_is_min_deadline (s : State) (hr : Reachable s) (now t : Time) (pick : Option Nat)
    (hne : s.out ≠ []) (h : (step s (.poll now pick)).2 = .waitUntil t) :
    (step s (.poll now pick)).1 = s ∧ now < t ∧
    (∃ p ∈ s.out, p.2.deadline = some t) ∧ (∀ p ∈ s.out, ∃ d, p.2.deadline = some d ∧ t ≤ d) := by
  obtain ⟨h1, h2, h3, h4⟩ := poll_wait_spec s (keysNodup_of_reachable_time s hr)
    (allSent_of_reachable s hr) now t pick hne h
  refine ⟨?_, h2, h3, fun p hp => (h4 p hp).2⟩
  show (agentPoll s now pick).1 = s
  rw [h1]

/-- polling earlier than `t` yields no event and the same `t` -/
theorem wait_stable (s : State) (hr : Reachable s) (now t : Time) (pick : Option Nat)
    (hne : s.out ≠ []) (h : (step s (.poll now pick)).2 = .waitUntil t)
    (now' : Time) (pick' : Option Nat) (h1 : now ≤ now') (h2 : now' < t) :
    step s (.poll now' pick') = (s, .waitUntil t) := by
  have _ := h1
  exact poll_wait_stable s (keysNodup_of_reachable_time s hr) (allSent_of_reachable s hr) now t pick hne h
    now' pick' h2

/-- polling at `t` yields an event: a transmission, a time-out or a cancellation -/
theorem wait_then_event (s : State) (hr : Reachable s) (now t : Time) (pick : Option Nat)
    (hne : s.out ≠ []) (h : (step s (.poll now pick)).2 = .waitUntil t) (pick' : Option Nat) :
    match (step s (.poll t pick')).2 with
    | .transmit (some _) _ => True
    | .timedOut _ => True
    | .cancelled _ => True
    | _ => False := by
  exact poll_wait_then_event s (keysNodup_of_reachable_time s hr) (allSent_of_reachable s hr) now t pick
    hne h pick'

/-- with nothing outstanding the agent asks to be polled again in an hour (no deadline exists) -/
theorem idle_wait (s : State) (now : Time) (pick : Option Nat) (h : s.out = []) :
    step s (.poll now pick) = (s, .waitUntil (now + msNs (Gen.idleWaitSecs * 1000))) := by
  exact poll_idle s now pick h

/-- after `cancel_retransmissions` nothing further is transmitted for that transaction: as long as
    the request is the same outstanding one, no call produces a transmission for it, and the flag
    stays set -/
theorem cancel_rtx_sets (s : State) (tid : Nat) (r : Req) (h : lookup s.out tid = some r) :
    ∃ r', lookup (step s (.cancelRtx tid)).1.out tid = some r' ∧ r'.sendCancelled = true := by
  refine ⟨{ r with sendCancelled := true }, ?_, rfl⟩
  show lookup (update s.out tid fun r => { r with sendCancelled := true }) tid = _
  rw [lookup_update_self, h]
  rfl

theorem cancel_rtx_silent (s : State) (tid : Nat) (r : Req) (h : lookup s.out tid = some r)
    (hc : r.sendCancelled = true) (op : Op) :
    (∀ tx, (step s op).2 ≠ .transmit (some tid) tx) ∧
    (∀ r', lookup (step s op).1.out tid = some r' → r'.sendCancelled = true) := by
  exact Agent.cancel_rtx_silent s tid r h hc op

/-! Non-vacuity: two overlapping requests with different configurations; the wake-up is the minimum. -/
example :
    (trace (State.init .udp 5)
      [.sendReq 1 [1] false 7 0, .sendReq 2 [2] false 8 (msNs 100), .configure 2 1000 2 3000,
       .poll (msNs 100) none, .poll (msNs 500) none, .poll (msNs 500) none, .poll (msNs 1100) none]).map (·.2) =
    [.transmit (some 1) ⟨[1], .udp, 5, 7⟩, .transmit (some 2) ⟨[2], .udp, 5, 8⟩, .unit,
     .waitUntil (msNs 500), .transmit (some 1) ⟨[1], .udp, 5, 7⟩, .waitUntil (msNs 1100),
     .transmit (some 2) ⟨[2], .udp, 5, 8⟩] := by
  decide

end StunVerif.C06
