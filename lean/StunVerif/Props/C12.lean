/-
C12 — all serialisation paths produce identical bytes.
Property theorems only (statements are fixed; helper lemmas live in `Lemmas/Write.lean`).
-/
import StunVerif.Msg.Builder
import StunVerif.Lemmas.Write
import StunVerif.Gen.Attr
namespace StunVerif.C12
open StunVerif

/-- the wire form every path must produce: header, value, zero padding to a multiple of four -/
def wire (ty : Nat) (value : Bytes) : Bytes :=
  enc16 ty ++ enc16 value.length ++ value ++ zeros (pad4 value.length)

/-- `to_raw().to_bytes()` is exactly the padded length: declared length = value length, zero
    padding (raw attributes of any type, values up to the 16-bit limit) -/
theorem raw_toBytes (a : RawAttr) (h : a.value.length < 65536) :
    a.toBytes = wire a.ty a.value ∧ a.toBytes.length = a.paddedLen ∧
    a.paddedLen = 4 + round4 a.value.length := by
  refine ⟨toBytes_eq a, ?_, raw_paddedLen a h⟩
  rw [toBytes_eq, wireForm_length, raw_paddedLen a h]

/-- writing a raw attribute in place gives the same bytes, whatever the destination held before,
    and touches nothing beyond the padded length -/
theorem raw_write_eq (a : RawAttr) (dest : Bytes) (h : a.value.length < 65536)
    (hd : a.paddedLen ≤ dest.length) :
    a.writeInto dest = .ok (a.paddedLen, a.toBytes ++ dest.drop a.paddedLen) := by
  exact raw_write a dest h hd

/-- a destination that is too short: error with the required and available sizes (the model
    returns no new destination: nothing is written) -/
theorem raw_write_short (a : RawAttr) (dest : Bytes) (hd : dest.length < a.paddedLen) :
    a.writeInto dest = .error (.tooSmall a.paddedLen dest.length) := by
  exact StunVerif.raw_write_short a dest hd

/-- the same for every in-limit value of every one of the 19 typed attributes: the in-place
    writer (header, value, zeroed padding where the type has any) equals `to_raw().to_bytes()` -/
theorem typed_write_eq (v : AttrVal) (dest : Bytes) (hl : v.inLimit = true)
    (hd : v.paddedLen ≤ dest.length) :
    v.writeInto dest = .ok (v.paddedLen, v.toRaw.toBytes ++ dest.drop v.paddedLen) := by
  exact typed_write v dest hl hd

theorem typed_write_short (v : AttrVal) (dest : Bytes) (hd : dest.length < v.paddedLen) :
    v.writeInto dest = .error (.tooSmall v.paddedLen dest.length) := by
  exact StunVerif.typed_write_short v dest hd

theorem typed_toBytes (v : AttrVal) (hl : v.inLimit = true) :
    v.toRaw.toBytes = wire v.kind.code v.valueBytes ∧ v.toRaw.toBytes.length = v.paddedLen ∧
    v.toRaw.paddedLen = v.paddedLen := by
  refine ⟨toBytes_eq v.toRaw, ?_, typed_raw_paddedLen v hl⟩
  rw [toBytes_eq, wireForm_length, typed_paddedLen]
  rfl

/-- builders whose attributes are in-limit (typed) or at most 65535 bytes (raw) -/
def BAttrOk : BAttr → Prop
  | .typed v => v.inLimit = true
  | .raw a => a.value.length < 65536

def BuilderOk (b : Builder) : Prop := ∀ a ∈ b.attrs, BAttrOk a

/-- the 20-byte header `write_into` produces -/
def header (b : Builder) : Bytes :=
  enc16 b.ty ++ enc16 (b.byteLen - 20) ++ cookieBytes ++ encBE 12 b.tid

/-- `build()` is the header followed by the wire form of every attribute, and has the reported
    length -/
theorem build_eq (b : Builder) (hb : BuilderOk b) :
    b.build = header b ++ b.attrs.flatMap (fun a => a.asRaw.toBytes) ∧
    b.build.length = b.byteLen := by
  have hb' : ∀ a ∈ b.attrs, a.Ok := fun a ha => by
    have := hb a ha
    cases a <;> exact this
  exact ⟨builder_build b hb', builder_build_length b hb'⟩

/-- `write_into` an exact or larger buffer gives the same bytes as `build()` and touches nothing
    beyond the reported length, whatever the buffer held before -/
theorem write_into_eq (b : Builder) (dest : Bytes) (hb : BuilderOk b)
    (hd : b.byteLen ≤ dest.length) :
    b.writeInto dest = .ok (b.byteLen, b.build ++ dest.drop b.byteLen) := by
  have hb' : ∀ a ∈ b.attrs, a.Ok := fun a ha => by
    have := hb a ha
    cases a <;> exact this
  rw [builder_writeInto b hb' dest hd, builder_build b hb']

/-- a shorter buffer fails with the required and available sizes (and nothing is written: the
    guard precedes every write) -/
theorem write_into_short (b : Builder) (dest : Bytes) (hd : dest.length < b.byteLen) :
    b.writeInto dest = .error (.tooSmall b.byteLen dest.length) := by
  unfold Builder.writeInto
  simp only []
  rw [if_pos (by omega)]

/-- `into_owned()` (typed attributes replaced by their raw form) serialises identically -/
theorem owned_same (b : Builder) (hb : BuilderOk b) :
    b.intoOwned.build = b.build ∧ b.intoOwned.byteLen = b.byteLen := by
  have hb' : ∀ a ∈ b.attrs, a.Ok := fun a ha => by
    have := hb a ha
    cases a <;> exact this
  obtain ⟨h1, h2, h3⟩ := builder_owned b hb'
  refine ⟨?_, h2⟩
  rw [builder_build _ h1, builder_build b hb', h2, h3]
  rfl

/-- tie to the source: `padded_attr_len` as written in /repo now rounds up to a multiple of four -/
theorem src_padded_attr_len (n : Nat) :
    Gen.paddedAttrLen n = round4 n ∧ Gen.paddedAttrLen n = paddedAttrLen n := by
  unfold Gen.paddedAttrLen paddedAttrLen round4 pad4
  constructor <;> split <;> omega

/-! Non-vacuity -/
example : BuilderOk ⟨1, 5, [.typed (.username [0x61]), .raw ⟨0x8022, [1, 2, 3, 4, 5]⟩], [6, 0x8022]⟩ := by
  intro a ha
  simp at ha
  rcases ha with h | h <;> subst h <;> simp [BAttrOk] <;> decide

end StunVerif.C12
