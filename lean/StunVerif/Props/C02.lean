/-
C02 — the parser accepts exactly the well-formed messages and exposes them faithfully.
Property theorems only (statements are fixed; helper lemmas live in `Lemmas/Parse.lean`).
-/
import StunVerif.Spec.Msg
import StunVerif.Lemmas.Header
import StunVerif.Lemmas.Parse
namespace StunVerif.C02
open StunVerif

/-- A buffer is accepted if and only if it is well formed: at least 20 bytes, zero top two bits,
    the magic cookie, declared length equal to the bytes that follow (so a buffer with excess bytes
    is refused), body tiled exactly by padded TLVs, ordering rule on integrity/fingerprint
    attributes, and a FINGERPRINT (if present) matching the bytes before it. -/
theorem parse_iff (b : Bytes) : (∃ m, msgFromBytes b = .ok m) ↔ Spec.WellFormed b := by
  constructor
  · rintro ⟨m, h⟩
    obtain ⟨_, h20, ht, hc, hl, hw⟩ := (msgFromBytes_ok_iff b m).mp h
    exact walk_wellFormed b h20 ht hc hl hw
  · rintro ⟨ts, hw⟩
    have hwalk := wellFormedAs_walk b ts hw
    obtain ⟨h20, ht, hc, hl, _⟩ := hw
    exact ⟨⟨b⟩, (msgFromBytes_ok_iff b ⟨b⟩).mpr ⟨rfl, h20, ht, hc, hl, hwalk⟩⟩

/-- the attribute records of a well-formed buffer are unique: "the ordered attribute sequence
    encoded in the buffer" is well defined -/
theorem split_unique (b : Bytes) (ts ts' : List Spec.Tlv)
    (h : Spec.WellFormedAs b ts) (h' : Spec.WellFormedAs b ts') : ts = ts' := by
  obtain ⟨_, _, _, _, hwf, htile, _, _⟩ := h
  obtain ⟨_, _, _, _, hwf', htile', _, _⟩ := h'
  exact tile_unique ts ts' hwf hwf' (by rw [← htile, ← htile'])

/-- On acceptance the message is the buffer; class/method bits, transaction id and the ordered
    attribute sequence (types and value bytes) are exactly those encoded in the buffer, and what
    iteration exposes is `Spec.exposed` of that sequence. -/
theorem parse_faithful (b : Bytes) (m : Msg) (ts : List Spec.Tlv)
    (h : msgFromBytes b = .ok m) (hw : Spec.WellFormedAs b ts) :
    m.data = b ∧ m.typeField = beNat (b.take 2) ∧ m.tid = beNat ((b.drop 8).take 12) ∧
    m.allAttrs = ts.map Spec.Tlv.raw ∧ m.iter = Spec.exposed (ts.map Spec.Tlv.raw) := by
  obtain ⟨rfl, _⟩ := (msgFromBytes_ok_iff b m).mp h
  have ha : (⟨b⟩ : Msg).allAttrs = ts.map Spec.Tlv.raw := wellFormedAs_allAttrs b ts hw
  refine ⟨rfl, rfl, rfl, ha, ?_⟩
  rw [← ha]
  exact iterGo_eq_exposed _ _

/-- lookups return the first exposed match -/
theorem lookup_first (m : Msg) (t : Nat) :
    m.rawAttribute t = m.iter.find? (·.ty = t) ∧ m.hasAttribute t = m.iter.any (·.ty = t) := by
  exact ⟨rfl, rfl⟩

/-- the parser never panics and never runs out of fuel, whatever the bytes (C01 for this entry point) -/
theorem parse_total (b : Bytes) : ∀ f, msgFromBytes b ≠ .error (.fault f) := by
  intro f h
  rcases msgFromBytes_err b _ h with h' | h'
  · cases h'
  · exact walkErr_not_fault f h'

/-- causes: fewer than 20 bytes -/
theorem cause_short (b : Bytes) (h : b.length < 20) :
    msgFromBytes b = .error (.truncated 20 b.length) := by
  unfold msgFromBytes
  rw [header_short b h]
  rfl

/-- causes: not STUN exactly when the type's top bits are set or the cookie is wrong -/
theorem cause_not_stun (b : Bytes) (h : 20 ≤ b.length) :
    msgFromBytes b = .error .notStun ↔
      (0x4000 ≤ beNat (b.take 2) ∨ (b.drop 4).take 4 ≠ [0x21, 0x12, 0xA4, 0x42]) := by
  rw [msgFromBytes_unfold b h]
  constructor
  · intro hh
    split at hh
    · rename_i h1; exact Or.inl h1
    · split at hh
      · rename_i h2; exact Or.inr h2
      · split at hh
        · cases hh
        · split at hh
          · cases hh
          · cases hw : walk b.length b (b.drop 20) 20 [] with
            | error e =>
              rw [hw] at hh
              simp only [Except.map] at hh
              injection hh with hh; subst hh
              exact absurd (walk_err_class b _ _ _ _ _ (by rw [List.length_drop]; omega) hw)
                walkErr_not_notStun
            | ok u => rw [hw] at hh; cases hh
  · rintro (h1 | h2)
    · rw [if_pos h1]
    · rw [if_pos h2]; split <;> rfl

/-- causes: a STUN header whose declared length exceeds the buffer is truncated with the byte
    counts; one whose declared length is smaller is refused as too large (excess bytes are never
    interpreted as attributes) -/
theorem cause_length (b : Bytes) (h : 20 ≤ b.length) (ht : beNat (b.take 2) < 0x4000)
    (hc : (b.drop 4).take 4 = [0x21, 0x12, 0xA4, 0x42]) :
    (b.length < beNat ((b.drop 2).take 2) + 20 →
      msgFromBytes b = .error (.truncated (beNat ((b.drop 2).take 2) + 20) b.length)) ∧
    (beNat ((b.drop 2).take 2) + 20 < b.length →
      msgFromBytes b = .error (.tooLarge (beNat ((b.drop 2).take 2) + 20) b.length)) := by
  rw [msgFromBytes_unfold b h, if_neg (by omega), if_neg (by simp [hc])]
  constructor
  · intro hl; rw [if_pos hl]
  · intro hl; rw [if_neg (by omega), if_pos hl]

/-- causes are truthful: "attribute after fingerprint / integrity" names the type of an attribute
    that really follows a FINGERPRINT / an integrity attribute in the body -/
theorem cause_after (b : Bytes) (t : Nat) :
    (msgFromBytes b = .error (.afterFingerprint t) →
      ∃ pre : List Spec.Tlv, ∃ rest : Bytes, (∀ u ∈ pre, u.wf) ∧
        b.drop 20 = pre.flatMap Spec.Tlv.enc ++ enc16 t ++ rest ∧ tyFP ∈ pre.map (·.ty)) ∧
    (msgFromBytes b = .error (.afterIntegrity t) →
      ∃ pre : List Spec.Tlv, ∃ rest : Bytes, (∀ u ∈ pre, u.wf) ∧
        b.drop 20 = pre.flatMap Spec.Tlv.enc ++ enc16 t ++ rest ∧
        (tyMI ∈ pre.map (·.ty) ∨ tyMI256 ∈ pre.map (·.ty))) := by
  constructor
  · intro h
    have hw := msgFromBytes_after b _ t h (Or.inl rfl)
    obtain ⟨post, rest, hwf, hd, h1, _⟩ :=
      walk_after b t _ _ _ _ _ (by simp) hw (Or.inl rfl)
    refine ⟨post, rest, hwf, hd, ?_⟩
    rcases h1 rfl with h1 | h1
    · cases h1
    · exact h1
  · intro h
    have hw := msgFromBytes_after b _ t h (Or.inr rfl)
    obtain ⟨post, rest, hwf, hd, _, h2⟩ :=
      walk_after b t _ _ _ _ _ (by simp) hw (Or.inr rfl)
    refine ⟨post, rest, hwf, hd, ?_⟩
    rcases h2 rfl with (h2 | h2) | h2
    · cases h2
    · cases h2
    · exact h2

/-! Non-vacuity -/
def sample : Bytes :=
  [0x00, 0x01, 0x00, 0x08, 0x21, 0x12, 0xA4, 0x42, 1, 2, 3, 4, 5, 6, 7, 8, 9, 10, 11, 12,
   0x80, 0x22, 0x00, 0x03, 0x61, 0x62, 0x63, 0x00]

example : msgFromBytes sample = .ok ⟨sample⟩ := by decide
example : msgFromBytes (sample ++ [0, 0, 0, 0]) = .error (.tooLarge 28 32) := by decide

end StunVerif.C02
