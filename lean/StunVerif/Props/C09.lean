/-
C09 — FINGERPRINT is the RFC CRC; a buffer carrying a FINGERPRINT is accepted only if the relation
holds for its own bytes.
Property theorems only (statements are fixed; helper lemmas live in `Lemmas/Integrity.lean`).
-/
import StunVerif.Spec.Builder
import StunVerif.Lemmas.Integrity
import StunVerif.Lemmas.Fingerprint
import StunVerif.Gen.Xor
namespace StunVerif.C09
open StunVerif

/-- the XOR constant is 0x5354554e, in the model and in the source as translated on this run -/
theorem xor_constant :
    fpXorConst = [0x53, 0x54, 0x55, 0x4e] ∧ Gen.fingerprintXorConstant = [0x53, 0x54, 0x55, 0x4e] := by
  decide

/-- the CRC is CRC-32/ISO-HDLC: the catalogue check value (a test of the reference implementation,
    not a theorem about all inputs) -/
theorem crc_check_value :
    Crc.crc32 [0x31, 0x32, 0x33, 0x34, 0x35, 0x36, 0x37, 0x38, 0x39] = 0xCBF43926 := by
  decide +kernel

/-- the FINGERPRINT the builder appends equals CRC-32 of the message up to that attribute, computed
    with the length field covering the attribute (+8), XORed with 0x5354554e -/
theorem build_fp (b b' : Builder) (h : b.addFingerprint = .ok b') :
    ∃ bytes, b.bytesWithExtraLen 8 = some bytes ∧
      b'.attrs = b.attrs ++ [.raw ⟨tyFP, xorBytes (Crc.crc32Bytes bytes) [0x53, 0x54, 0x55, 0x4e]⟩] ∧
      b'.types = b.types ++ [tyFP] ∧ b'.ty = b.ty ∧ b'.tid = b.tid := by
  obtain ⟨_, bytes, hb, rfl⟩ := addFingerprint_ok b b' h
  exact ⟨bytes, hb, rfl, rfl, rfl, rfl⟩

theorem build_fp_input (H : Hashes) (hH : Spec.HashesOk H) (b : Builder) (hr : Spec.Reach H b)
    (hs : b.byteLen + 8 ≤ 65535 + 20) :
    b.bytesWithExtraLen 8 = some (setLen b.build (b.byteLen - 20 + 8)) := by
  have hok := reach_ok H hH b hr
  have h20 : 20 ≤ b.byteLen := by unfold Builder.byteLen; omega
  unfold Builder.bytesWithExtraLen
  simp only [build_lenField b hok]
  rw [Nat.mod_eq_of_lt (by omega), if_neg (by omega)]

/-- a buffer that carries a FINGERPRINT is accepted only if the relation holds for its own bytes,
    and nothing follows the FINGERPRINT -/
theorem accepted_fp_relation (b : Bytes) (m : Msg) (ts pre post : List Spec.Tlv) (x : Spec.Tlv)
    (hp : msgFromBytes b = .ok m) (hw : Spec.WellFormedAs b ts) (hts : ts = pre ++ x :: post)
    (hx : x.ty = tyFP) :
    x.value.length = 4 ∧ post = [] ∧
    xorBytes x.value [0x53, 0x54, 0x55, 0x4e] =
      Crc.crc32Bytes (setLen (b.take (20 + (pre.flatMap Spec.Tlv.enc).length))
        ((pre.flatMap Spec.Tlv.enc).length + 8)) := by
  obtain ⟨_, _, _, _, hwf, _, hord, hfp⟩ := hw
  subst hts
  have hxw : x.wf := hwf x (by simp)
  obtain ⟨h4, hcrc⟩ := fpOk_at b pre 20 x post hfp hx
  have hpost : post = [] := by
    have := orderOk_fp_last (pre.map (·.ty)) (post.map (·.ty))
      (by simpa [hx] using hord)
    simpa using this
  refine ⟨h4, hpost, ?_⟩
  rw [hcrc, tlv_fp_enc_length x hxw h4]
  unfold fpInput
  congr 2
  omega

/-- the CRC input determines every byte before the attribute except the length field -/
theorem input_covers (d d' : Bytes) (off p : Nat) (h4 : 4 ≤ off) (hl : off ≤ d.length)
    (hl' : off ≤ d'.length) (h : fpInput d off p = fpInput d' off p) (i : Nat) (hi : i < off)
    (h2 : i ≠ 2) (h3 : i ≠ 3) : d[i]? = d'[i]? := by
  have := congrArg (·[i]?) h
  simpa only [fpInput_getElem? _ _ _ _ hi h2 h3] using this

/-- … and the length field is determined by the buffer length, so a corrupted length field of an
    otherwise intact buffer is refused -/
theorem length_field_checked (b : Bytes) (m : Msg) (hp : msgFromBytes b = .ok m) :
    beNat ((b.drop 2).take 2) + 20 = b.length := by
  exact ((msgFromBytes_ok_iff b m).mp hp).2.2.2.2.1

/-- consequently: two accepted buffers of the same length with a FINGERPRINT at the same offset
    that differ somewhere before the attribute must differ in their CRC input, i.e. acceptance of
    the corrupted one requires a CRC collision between two different inputs of equal length -/
theorem corruption_needs_collision (b b' : Bytes) (m m' : Msg) (ts ts' pre pre' : List Spec.Tlv)
    (x x' : Spec.Tlv)
    (hp : msgFromBytes b = .ok m) (hp' : msgFromBytes b' = .ok m')
    (hw : Spec.WellFormedAs b ts) (hw' : Spec.WellFormedAs b' ts')
    (hts : ts = pre ++ [x]) (hts' : ts' = pre' ++ [x']) (hx : x.ty = tyFP) (hx' : x'.ty = tyFP)
    (hlen : b.length = b'.length) (hne : b.take (b.length - 8) ≠ b'.take (b.length - 8)) :
    fpInput b (b.length - 8) 8 ≠ fpInput b' (b.length - 8) 8 ∧
    (fpInput b (b.length - 8) 8).length = (fpInput b' (b.length - 8) 8).length := by
  have h20 : 20 ≤ b.length := ((msgFromBytes_ok_iff b m).mp hp).2.1
  have hL := length_field_checked b m hp
  have hL' := length_field_checked b' m' hp'
  refine ⟨?_, by rw [fpInput_length, fpInput_length, hlen]⟩
  intro he
  apply hne
  have h23 := lenField_eq_getElem? b b' (by omega) (by omega) (by omega)
  apply List.ext_getElem?
  intro i
  by_cases hi : i < b.length - 8
  · rw [List.getElem?_take_of_lt hi, List.getElem?_take_of_lt hi]
    by_cases h2 : i = 2
    · subst h2; exact h23.1
    · by_cases h3 : i = 3
      · subst h3; exact h23.2
      · exact input_covers b b' (b.length - 8) 8 (by omega) (by omega) (by omega) he i hi h2 h3
  · rw [List.getElem?_eq_none (by rw [List.length_take]; omega),
      List.getElem?_eq_none (by rw [List.length_take]; omega)]

end StunVerif.C09
