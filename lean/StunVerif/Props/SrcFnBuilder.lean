/-
Source agreement for the builder's refusal rules (C11): `MessageBuilder::{has_attribute,
has_any_attribute, add_attribute, add_raw_attribute, add_fingerprint}` are re-translated from the source on
every run (`Gen/FnBuilder.lean`; the `match` on constant attribute types with its guard arm becomes an
if-chain) and equal the model functions `C11.add_refused_iff` & co. are about.  The contract panics of
`add_attribute`/`add_raw_attribute` (types MI, MI-SHA256, FINGERPRINT: "use add_message_integrity()") are
outside C11's operation alphabet; the translator checks that exactly that one contract check is present and
assumes it.  `add_fingerprint` is translated up to its call of `add_fingerprint_unchecked` (a parameter).
-/
import StunVerif.Gen.FnBuilder
namespace StunVerif.SrcFnBuilder
open StunVerif

theorem src_hasAttribute (b : Builder) (t : Nat) : Gen.hasAttribute b t = b.hasAttribute t := by
  simp [Gen.hasAttribute, Builder.hasAttribute]

theorem src_hasAnyAttribute (b : Builder) (ts : List Nat) : Gen.hasAnyAttribute b ts = b.hasAnyAttribute ts := rfl

/-- `add_raw_attribute` as written in the source = the model's `Builder.add` -/
theorem src_addRawAttribute (b : Builder) (a : BAttr) : Gen.addRawAttribute b a = b.add a := by
  unfold Gen.addRawAttribute Builder.add Builder.addGuard
  simp only [src_hasAnyAttribute]
  cases h : b.hasAnyAttribute [a.ty, tyMI, tyMI256, tyFP] with
  | none => rfl
  | some t =>
    simp only
    by_cases h1 : t = tyMI
    · subst h1; simp
    · by_cases h2 : t = tyMI256
      · subst h2; simp [tyMI, tyMI256]
      · by_cases h3 : t = tyFP
        · subst h3; simp [tyMI, tyMI256, tyFP]
        · by_cases h4 : t = a.ty
          · subst h4; simp [h1, h2, h3]
          · simp [h1, h2, h3, h4]

/-- `add_attribute` has the same guard -/
theorem src_addAttribute (b : Builder) (a : BAttr) : Gen.addAttribute b a = b.add a := by
  have : Gen.addAttribute b a = Gen.addRawAttribute b a := rfl
  rw [this, src_addRawAttribute]

/-- `add_fingerprint`: refused exactly when a FINGERPRINT is present, otherwise the unchecked step runs -/
theorem src_addFingerprint (f : Builder → Builder) (b : Builder) :
    Gen.addFingerprint f b = if b.hasAttribute tyFP then .error (.attributeExists tyFP) else .ok (f b) := by
  unfold Gen.addFingerprint
  simp only [src_hasAttribute]

/-- and the model refuses under the same condition with the same error -/
theorem model_addFingerprint_refused (b : Builder) (h : b.hasAttribute tyFP = true) :
    b.addFingerprint = .error (.attributeExists tyFP) := by
  simp [Builder.addFingerprint, h]

end StunVerif.SrcFnBuilder
