/-
Source agreement for the builder's refusal rules (C11): `MessageBuilder::{has_attribute,
has_any_attribute, add_attribute, add_raw_attribute, add_fingerprint}` are re-translated from the source on
every run (`Gen/FnBuilder.lean`; the `match` on constant attribute types with its guard arm becomes an
if-chain) and equal the model functions `C11.add_refused_iff` & co. are about.  The contract panics of
`add_attribute`/`add_raw_attribute` (types MI, MI-SHA256, FINGERPRINT: "use add_message_integrity()") are
outside C11's operation alphabet; the translator checks that exactly that one contract check is present and
assumes it.  `add_fingerprint` is translated up to its call of `add_fingerprint_unchecked` (a parameter), and so is
`add_message_integrity`; the unchecked steps and `integrity_bytes_from_message` are translated separately and composed below.
-/
import StunVerif.Gen.FnBuilder
namespace StunVerif.SrcFnBuilder
open StunVerif

theorem src_hasAttribute (b : Builder) (t : Nat) : Gen.hasAttribute b t = b.hasAttribute t := by
  simp [Gen.hasAttribute, Builder.hasAttribute]

theorem src_hasAnyAttribute (b : Builder) (ts : List Nat) : Gen.hasAnyAttribute b ts = b.hasAnyAttribute ts := rfl

/-- `add_raw_attribute` as written in the source = the model's `Builder.add` -/
theorem src_addRawAttribute (b : Builder) (a : BAttr) : Gen.addRawAttribute b a = b.add a := by
  unfold Gen.addRawAttribute Builder.add Builder.addGuard
  simp only [src_hasAnyAttribute]
  cases h : b.hasAnyAttribute [a.ty, tyMI, tyMI256, tyFP] with
  | none => rfl
  | some t =>
    simp only
    by_cases h1 : t = tyMI
    · subst h1; simp
    · by_cases h2 : t = tyMI256
      · subst h2; simp [tyMI, tyMI256]
      · by_cases h3 : t = tyFP
        · subst h3; simp [tyMI, tyMI256, tyFP]
        · by_cases h4 : t = a.ty
          · subst h4; simp [h1, h2, h3]
          · simp [h1, h2, h3, h4]

/-- `add_attribute` has the same guard -/
theorem src_addAttribute (b : Builder) (a : BAttr) : Gen.addAttribute b a = b.add a := by
  have : Gen.addAttribute b a = Gen.addRawAttribute b a := rfl
  rw [this, src_addRawAttribute]

/-- `add_fingerprint`: refused exactly when a FINGERPRINT is present, otherwise the unchecked step runs -/
theorem src_addFingerprint (f : Builder → Builder) (b : Builder) :
    Gen.addFingerprint f b = if b.hasAttribute tyFP then .error (.attributeExists tyFP) else .ok (f b) := by
  unfold Gen.addFingerprint
  simp only [src_hasAttribute]

/-- and the model refuses under the same condition with the same error -/
theorem model_addFingerprint_refused (b : Builder) (h : b.hasAttribute tyFP = true) :
    b.addFingerprint = .error (.attributeExists tyFP) := by
  simp [Builder.addFingerprint, h]

/-! ### sealing: `add_message_integrity`, `integrity_bytes_from_message`, `add_message_integrity_unchecked`,
`add_fingerprint_unchecked` (C03, C04, C09, C11) -/

/-- the types the guard of `add_message_integrity` looks for, as the source assembles them in its three-slot array -/
theorem src_addMessageIntegrity_guard (f : Builder → Builder) (b : Builder) (algo : Algo) :
    Gen.addMessageIntegrity f b algo =
      (match b.hasAnyAttribute (match algo with | .sha1 => [tyMI, tyMI256, tyFP] | .sha256 => [tyMI256, tyFP]) with
       | some t =>
         if t = tyMI then .error (.attributeExists tyMI)
         else if t = tyMI256 then .error (.attributeExists tyMI256)
         else .error .fingerprintExists
       | none => .ok (f b)) := by
  unfold Gen.addMessageIntegrity
  cases algo
  · simp only [src_hasAnyAttribute, if_true]
    have : List.take (0 + 1 + 1 + 1) (((List.replicate 3 0).set 0 tyMI).set (0 + 1) tyMI256 |>.set (0 + 1 + 1) tyFP)
        = [tyMI, tyMI256, tyFP] := by decide
    simp only [this]
    cases h : b.hasAnyAttribute [tyMI, tyMI256, tyFP] with
    | none => rfl
    | some t =>
      have hm := List.find?_some h
      simp only [List.contains_cons, List.contains_nil, Bool.or_false, Bool.or_eq_true, beq_iff_eq] at hm
      rcases hm with rfl | rfl | rfl <;> simp [tyMI, tyMI256, tyFP]
  · have hne : ¬ (Algo.sha256 = Algo.sha1) := by decide
    simp only [src_hasAnyAttribute, hne, if_false]
    have : List.take (0 + 1 + 1) (((List.replicate 3 0).set 0 tyMI256).set (0 + 1) tyFP) = [tyMI256, tyFP] := by decide
    simp only [this]
    cases h : b.hasAnyAttribute [tyMI256, tyFP] with
    | none => rfl
    | some t =>
      have hm := List.find?_some h
      simp only [List.contains_cons, List.contains_nil, Bool.or_false, Bool.or_eq_true, beq_iff_eq] at hm
      rcases hm with rfl | rfl <;> simp [tyMI, tyMI256, tyFP]

/-- `integrity_bytes_from_message` below the 16-bit limit (at or beyond it the `u16` addition panics under overflow
    checks — the model's `none`) -/
theorem src_integrityBytes (b : Builder) (extra : Nat)
    (h : beNat ((b.build.drop 2).take 2) + extra < 65536) :
    b.bytesWithExtraLen extra = some (Gen.integrityBytesFromMessage b extra) := by
  unfold Builder.bytesWithExtraLen Gen.integrityBytesFromMessage
  have : ¬ (beNat ((b.build.drop 2).take 2) + extra ≥ 65536) := by omega
  simp [this]

/-- the whole of `add_message_integrity` (guard, key, the 24/36 bytes by which the length field is raised, which HMAC,
    the attribute and type pushed) is the model's `addIntegrity` whenever the sealed message stays within 16 bits -/
theorem src_addMessageIntegrity (H : Hashes) (c : Creds) (b : Builder) (algo : Algo)
    (h : beNat ((b.build.drop 2).take 2) + (match algo with | .sha1 => 24 | .sha256 => 36) < 65536) :
    Gen.addMessageIntegrity (fun b => Gen.addMessageIntegrityUnchecked H c b algo) b algo = b.addIntegrity H c algo := by
  rw [src_addMessageIntegrity_guard]
  unfold Builder.addIntegrity
  cases algo
  · simp only
    cases b.hasAnyAttribute [tyMI, tyMI256, tyFP] with
    | some t => rfl
    | none =>
      simp only [src_integrityBytes b 24 h, Gen.addMessageIntegrityUnchecked]
  · simp only
    cases b.hasAnyAttribute [tyMI256, tyFP] with
    | some t => rfl
    | none =>
      simp only [src_integrityBytes b 36 h, Gen.addMessageIntegrityUnchecked]

/-- `add_fingerprint` with its unchecked step: the model's `addFingerprint` (length field raised by 8, CRC of those bytes) -/
theorem src_addFingerprint_full (b : Builder) (h : beNat ((b.build.drop 2).take 2) + 8 < 65536) :
    Gen.addFingerprint Gen.addFingerprintUnchecked b = b.addFingerprint := by
  rw [src_addFingerprint]
  unfold Builder.addFingerprint
  have hb := src_integrityBytes b 8 h
  unfold Gen.integrityBytesFromMessage at hb
  by_cases hf : b.hasAttribute tyFP = true
  · simp [hf]
  · simp only [hf, hb, Gen.addFingerprintUnchecked]

/-- non-vacuity of the size hypothesis: a fresh Binding request is far below the limit -/
example : beNat (((Builder.new 1 0).build.drop 2).take 2) + 36 < 65536 := by decide

end StunVerif.SrcFnBuilder
