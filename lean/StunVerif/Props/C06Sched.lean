/-
C06, whole schedules — for ANY list of poll instants (early, exact, late, repeated, in any order) the
replies of one request are those of the plain reading of RFC 8489 §6.2.1: the remaining intervals are
consumed one per transmission, each measured from the instant the previous transmission was actually
handed out; after the last one the request waits `lastRto` and times out.
-/
import StunVerif.Spec.Agent
import StunVerif.Lemmas.AgentSched
namespace StunVerif.C06
open StunVerif StunVerif.Agent

/-- the schedule as the RFC states it, for a request last handed out at `h` with the intervals `ts`
    (milliseconds) still ahead and final timeout `last` -/
def rfcSchedule : List Nat → Nat → Time → List Time → List ReqRet
  | _, _, _, [] => []
  | t :: ts, last, h, now :: nows =>
    if now < h + msNs t then .waitUntil (h + msNs t) :: rfcSchedule (t :: ts) last h nows
    else .sendData :: rfcSchedule ts last now nows
  | [], last, h, now :: nows =>
    if now < h + msNs last then .waitUntil (h + msNs last) :: rfcSchedule [] last h nows
    else .timedOut :: rfcSchedule [] last h nows

/-- any poll schedule: the request's replies are the RFC schedule of its remaining intervals -/
theorem polls_eq_rfc (r : Req) (h : Time) (nows : List Time) (hc : r.recvCancelled = false)
    (hs : r.sendCancelled = false) (hl : r.lastSend = some h) :
    reqPolls r nows = rfcSchedule (r.timeouts.drop r.timeoutI) r.lastRto h nows := by
  induction nows generalizing r h with
  | nil => cases hd : r.timeouts.drop r.timeoutI <;> rfl
  | cons now nows ih =>
    by_cases hi : r.timeoutI < r.timeouts.length
    · rw [List.drop_eq_getElem_cons hi]
      by_cases hn : now < h + msNs (r.timeouts[r.timeoutI]'hi)
      · have hp := reqPoll_sent_wait r h now hc hs hl hi hn
        have e : reqPolls r (now :: nows) = (reqPoll r now).2 :: reqPolls (reqPoll r now).1 nows := rfl
        rw [e, hp]
        show _ = if now < h + msNs (r.timeouts[r.timeoutI]'hi) then _ else _
        rw [if_pos hn, ih r h hc hs hl, List.drop_eq_getElem_cons hi]
      · have hp := reqPoll_sent_send r h now hc hs hl hi hn
        have e : reqPolls r (now :: nows) = (reqPoll r now).2 :: reqPolls (reqPoll r now).1 nows := rfl
        rw [e, hp]
        show _ = if now < h + msNs (r.timeouts[r.timeoutI]'hi) then _ else _
        rw [if_neg hn, ih { r with timeoutI := r.timeoutI + 1, lastSend := some now } now hc hs rfl]
    · have hi' : r.timeouts.length ≤ r.timeoutI := Nat.le_of_not_lt hi
      have hp := reqPoll_sent_done r h now hc hs hl hi'
      have e : reqPolls r (now :: nows) = (reqPoll r now).2 :: reqPolls (reqPoll r now).1 nows := rfl
      rw [e, hp, ih r h hc hs hl, List.drop_eq_nil_of_le hi']
      show _ = if now < h + msNs r.lastRto then _ else _
      by_cases hn : now < h + msNs r.lastRto
      · rw [if_pos hn, if_pos hn]
      · rw [if_neg hn, if_neg hn]

/-- for a freshly configured UDP request first sent at `t0`: the RFC schedule of `rto·2^0 … rto·2^(n-1)` -/
theorem configured_udp_polls (r0 : Req) (rto n last : Nat) (t0 : Time) (nows : List Time)
    (hc : r0.recvCancelled = false) (hs : r0.sendCancelled = false) :
    reqPolls { configureReq .udp r0 rto n last with timeoutI := 0, lastSend := some t0 } nows =
      rfcSchedule ((List.range n).map fun i => rto * 2 ^ i) last t0 nows :=
  polls_eq_rfc { configureReq .udp r0 rto n last with timeoutI := 0, lastSend := some t0 } t0 nows hc hs rfl

example : rfcSchedule [500, 1000] 8000 0 [msNs 499, msNs 500, msNs 1499, msNs 1700, msNs 9699, msNs 9700] =
    [.waitUntil (msNs 500), .sendData, .waitUntil (msNs 1500), .sendData, .waitUntil (msNs 9700), .timedOut] := by
  decide

end StunVerif.C06
