/-
C18 composed with the codec (C03): what the agent transmits for a request is the builder's
serialisation, and that serialisation parses back to the message that was handed to `send`.
-/
import StunVerif.Agent.Composed
import StunVerif.Spec.Agent
import StunVerif.Spec.Builder
import StunVerif.Props.C03
import StunVerif.Props.C18
import StunVerif.Lemmas.AgentCodec
namespace StunVerif.C18
open StunVerif StunVerif.Agent

/-- `send` of a request builder with a free transaction id transmits `build()` from the local
    address to the destination, and those bytes parse back to the same type field, transaction id
    and attribute sequence -/
theorem send_request_parses (H : Hashes) (hH : Spec.HashesOk H) (s : State) (b : Builder)
    (to : SockAddr) (now : Time) (hreach : Spec.Reach H b) (hsize : b.byteLen ≤ 65535 + 20)
    (hc : Spec.classOfType b.ty = 0) (hfree : isOutstanding s b.tid = false) :
    (sendMsg s b to now).2 = .transmit (some b.tid) ⟨b.build, s.transport, s.localAddr, to⟩ ∧
    ∃ m, msgFromBytes b.build = .ok m ∧ m.typeField = b.ty ∧ m.tid = b.tid ∧
      m.iter = b.attrs.map BAttr.asRaw := by
  refine ⟨?_, ⟨b.build⟩, ?_⟩
  · rw [codec_sendMsg_request s b to now hc hfree]
  · obtain ⟨hp, hty, htid, _, hit⟩ := build_parse H hH b hreach hsize
    exact ⟨hp, hty, htid, hit⟩

/-- a request whose id is outstanding is refused without a transmission -/
theorem send_request_dup (s : State) (b : Builder) (to : SockAddr) (now : Time)
    (hc : Spec.classOfType b.ty = 0) (hbusy : isOutstanding s b.tid = true) :
    sendMsg s b to now = (s, .inProgress) := by
  unfold sendMsg
  rw [if_pos hc]
  exact codec_step_sendReq_dup s _ _ _ _ _ hbusy

/-- indications and responses: one transmission of `build()`, nothing remembered -/
theorem send_other_once (s : State) (b : Builder) (to : SockAddr) (now : Time)
    (hc : Spec.classOfType b.ty ≠ 0) :
    sendMsg s b to now = (s, .transmit none ⟨b.build, s.transport, s.localAddr, to⟩) := by
  unfold sendMsg
  rw [if_neg hc]
  rfl

/-- the transaction id inside every transmitted request is the id the agent files it under -/
theorem transmitted_tid (H : Hashes) (hH : Spec.HashesOk H) (b : Builder) (hreach : Spec.Reach H b)
    (hsize : b.byteLen ≤ 65535 + 20) : beNat ((b.build.drop 8).take 12) = b.tid := by
  exact (build_parse H hH b hreach hsize).2.2.1

end StunVerif.C18
