/-
C07 — responses to authenticated requests are accepted only with valid integrity.
`m.validUnder k` is the verdict of `Message::validate_integrity` on the response under credentials
`k` (C04 says what that verdict means); `r.hadCreds` is whether the request carried an integrity
attribute (`Composed.sendMsg` computes it from the builder as the code does).
The real agent stores its transactions in a hash map, so "unchanged" is stated up to storage order
(`State.Equiv`), and `equiv_step` shows storage order is unobservable except for which ready
transaction a poll serves first.  Property theorems only; helper lemmas live in
`Lemmas/AgentAuth.lean`.
-/
import StunVerif.Spec.Agent
import StunVerif.Lemmas.AgentAuth
namespace StunVerif.C07
open StunVerif StunVerif.Agent

/-- a delivered response to a request that carried integrity validated under the configured remote
    credentials -/
theorem delivered_auth (s : State) (m : InMsg) (src : SockAddr) (r : Req)
    (hl : lookup s.out m.tid = some r) (hc : r.hadCreds = true)
    (h : (step s (.handle m src)).2 = .response) :
    ∃ k, s.remoteCreds = some k ∧ m.validUnder k = true := by
  by_cases hr : m.isResponse = true
  · simp only [step, hr, hl, hc, if_true] at h
    cases hrc : s.remoteCreds with
    | none => rw [hrc] at h; cases h
    | some k =>
      rw [hrc] at h
      dsimp only at h
      by_cases hv : m.validUnder k = true
      · exact ⟨k, rfl, hv⟩
      · rw [if_neg hv] at h; cases h
  · simp only [step, hr] at h
    cases h

/-- a response that does not validate (no integrity, wrong key, corrupted) or arrives while no
    remote credentials are configured is dropped; every transaction keeps its complete state
    (`lookup` returns the identical request state for every id, so no deadline moved and nothing
    was cancelled or completed), no peer is validated, nothing else changes -/
theorem forged_dropped (s : State) (m : InMsg) (src : SockAddr) (r : Req)
    (hr : m.isResponse = true) (hl : lookup s.out m.tid = some r) (hc : r.hadCreds = true)
    (hbad : s.remoteCreds = none ∨ ∃ k, s.remoteCreds = some k ∧ m.validUnder k = false) :
    (step s (.handle m src)).2 = .drop ∧
    (∀ tid, lookup (step s (.handle m src)).1.out tid = lookup s.out tid) ∧
    (step s (.handle m src)).1.validated = s.validated ∧
    (step s (.handle m src)).1.remoteCreds = s.remoteCreds ∧
    (step s (.handle m src)).1.transport = s.transport ∧
    (step s (.handle m src)).1.localAddr = s.localAddr := by
  have hlk : ∀ tid, lookup (insert (remove s.out m.tid) m.tid r) tid = lookup s.out tid := by
    intro tid
    by_cases e : tid = m.tid
    · rw [e, lookup_insert_self, hl]
    · rw [lookup_insert_ne _ _ _ _ e, lookup_remove_ne _ _ _ e]
  rcases hbad with hn | ⟨k, hk, hv⟩
  · simp only [step, hr, hl, hc, hn, if_true]
    exact ⟨trivial, hlk, trivial, trivial, trivial, trivial⟩
  · simp only [step, hr, hl, hc, hk, hv, if_true, Bool.false_eq_true, if_false]
    exact ⟨trivial, hlk, trivial, trivial, trivial, trivial⟩

/-- … and, ids being unique keys, the state after the drop is the state before it up to storage
    order -/
theorem forged_equiv (s : State) (hk : KeysNodup s) (m : InMsg) (src : SockAddr)
    (h : (step s (.handle m src)).2 = .drop) : (step s (.handle m src)).1.Equiv s := by
  exact handle_drop_equiv s hk m src h

/-- storage order is unobservable: equivalent states answer every call alike and stay equivalent,
    given the same choice of which ready transaction a poll serves -/
theorem equiv_step (s s' : State) (he : s.Equiv s') (hk : KeysNodup s) (op : Op) :
    ∃ op', SameCall op op' ∧ (step s op).2 = (step s' op').2 ∧
      (step s op).1.Equiv (step s' op').1 ∧ KeysNodup (step s op).1 := by
  exact step_equiv he hk op

/-- forged responses cannot delay, complete or cancel anything: whatever the caller does after a
    dropped response, the replies are those it would have received had the response never arrived
    (up to which ready transaction polls serve first) -/
theorem forged_no_effect (s : State) (hr : Reachable s) (m : InMsg) (src : SockAddr)
    (h : (step s (.handle m src)).2 = .drop) (ops : List Op) :
    ∃ ops', SameCalls ops ops' ∧
      (trace (step s (.handle m src)).1 ops).map (·.2) = (trace s ops').map (·.2) := by
  have hk := keysNodup_of_reachable hr
  exact trace_equiv ops (handle_drop_equiv s hk m src h) (keysNodup_step hk _)

/-- a later genuine response is still delivered -/
theorem genuine_after_forged (s : State) (m m' : InMsg) (src src' : SockAddr) (r : Req) (k : Key)
    (hl : lookup s.out m.tid = some r) (hd : (step s (.handle m src)).2 = .drop)
    (hr' : m'.isResponse = true) (ht : m'.tid = m.tid) (hk : s.remoteCreds = some k)
    (hv : m'.validUnder k = true) :
    (step (step s (.handle m src)).1 (.handle m' src')).2 = .response := by
  obtain ⟨hr, hc, hv0, e⟩ := handle_drop_some s m src r k hl hk hd
  rw [e]
  simp only [step, hr', ht, lookup_insert_self, hc, hk, hv, if_true]

/-- a request sent without integrity accepts an unauthenticated response -/
theorem plain_accepts (s : State) (m : InMsg) (src : SockAddr) (r : Req)
    (hr : m.isResponse = true) (hl : lookup s.out m.tid = some r) (hc : r.hadCreds = false) :
    (step s (.handle m src)).2 = .response := by
  simp only [step, hr, hl, hc, if_true]
  rfl

/-- `hadCreds` is fixed when the request is sent and never changes while it is outstanding -/
theorem had_creds_fixed (s : State) (op : Op) (tid : Nat) (r r' : Req)
    (hl : lookup s.out tid = some r) (hl' : lookup (step s op).1.out tid = some r') :
    r'.hadCreds = r.hadCreds := by
  exact step_hadCreds s op tid r r' hl hl'

/-! Non-vacuity: a sealed request; a forged response, then a genuine one. -/
example :
    (trace (State.init .udp 5)
      [.setRemoteCreds 2, .sendReq 1 [1] true 7 0, .handle ⟨true, 1, fun k => k == 3⟩ 9,
       .poll 0 none, .handle ⟨true, 1, fun k => k == 2⟩ 7]).map (·.2) =
    [.unit, .transmit (some 1) ⟨[1], .udp, 5, 7⟩, .drop, .waitUntil (msNs 500), .response] := by
  decide

end StunVerif.C07
