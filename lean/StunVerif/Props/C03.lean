/-
C03 — whatever the builder serialises, the parser reads back identically.
Property theorems only (statements are fixed; helper lemmas live in `Lemmas/Builder.lean` and
`Lemmas/Roundtrip.lean`).
-/
import StunVerif.Spec.Builder
import StunVerif.Lemmas.Builder
import StunVerif.Lemmas.Roundtrip
namespace StunVerif.C03
open StunVerif

/-- the serialised length is a multiple of four, equals the reported byte length, and the header
    length field is that length minus 20 -/
theorem build_shape (H : Hashes) (hH : Spec.HashesOk H) (b : Builder) (hr : Spec.Reach H b)
    (hs : b.byteLen ≤ 65535 + 20) :
    b.build.length % 4 = 0 ∧ b.build.length = b.byteLen ∧
    beNat ((b.build.drop 2).take 2) = b.build.length - 20 := by
  have hok := reach_ok H hH b hr
  have hlen := builder_build_length b hok
  have hbl := byteLen_eq b
  have hmod := sumPadded_mod b.attrs
  refine ⟨by omega, hlen, ?_⟩
  rw [build_lenField b hok, hlen, Nat.mod_eq_of_lt (by omega)]

/-- parsing the serialised bytes succeeds and yields the same type field (class and method), the
    same transaction id and the same attributes in the same order — types and value bytes,
    including the integrity and fingerprint attributes the builder added; nothing is hidden -/
theorem roundtrip (H : Hashes) (hH : Spec.HashesOk H) (b : Builder) (hr : Spec.Reach H b)
    (hs : b.byteLen ≤ 65535 + 20) :
    ∃ m, msgFromBytes b.build = .ok m ∧ m.typeField = b.ty ∧ m.tid = b.tid ∧
      m.allAttrs = b.attrs.map BAttr.asRaw ∧ m.iter = b.attrs.map BAttr.asRaw := by
  exact ⟨⟨b.build⟩, build_parse H hH b hr hs⟩

/-- typed values come back equal: every typed attribute handed to the builder is found again by
    its type and decodes to the value that was put in -/
theorem typed_roundtrip (H : Hashes) (hH : Spec.HashesOk H) (b : Builder) (hr : Spec.Reach H b)
    (hs : b.byteLen ≤ 65535 + 20) (v : AttrVal) (hv : BAttr.typed v ∈ b.attrs) :
    ∃ m, msgFromBytes b.build = .ok m ∧ m.attribute v.kind = .ok v := by
  obtain ⟨hp, _, _, _, hiter⟩ := build_parse H hH b hr hs
  refine ⟨⟨b.build⟩, hp, ?_⟩
  have hl : v.inLimit = true := reach_ok H hH b hr _ hv
  have hmem : v.toRaw ∈ b.attrs.map BAttr.asRaw := List.mem_map_of_mem (f := BAttr.asRaw) hv
  have hnd : ((b.attrs.map BAttr.asRaw).map (·.ty)).Nodup := by
    rw [reach_raws_ty H b hr]; exact reach_nodup H b hr
  have hfind := find_of_nodup _ hnd _ hmem
  unfold Msg.attribute Msg.rawAttribute
  rw [hiter]
  have hc : v.toRaw.ty = v.kind.code := rfl
  rw [hc] at hfind
  rw [hfind]
  exact fromRaw_roundtrip v hl

/-- class and method are those given to the builder, for all 4 classes × 4096 methods -/
theorem class_method_roundtrip (H : Hashes) (hH : Spec.HashesOk H) (c meth tid : Nat)
    (hc : c < 4) (hm : meth < 4096) (ht : tid < 2 ^ 96)
    (b : Builder) (hr : Spec.Reach H b) (hb : b.ty = Spec.interleave c meth)
    (hs : b.byteLen ≤ 65535 + 20) :
    ∃ m, msgFromBytes b.build = .ok m ∧ Spec.classOfType m.typeField = c ∧
      Spec.methodOfType m.typeField = meth := by
  have _ := ht
  obtain ⟨hp, hty, _⟩ := build_parse H hH b hr hs
  refine ⟨⟨b.build⟩, hp, ?_, ?_⟩
  · rw [hty, hb]; exact class_interleave c meth hc
  · rw [hty, hb]; exact method_interleave c meth hm

/-! Non-vacuity: a reachable builder with a typed and a raw attribute. -/
example (H : Hashes) : Spec.Reach H
    ⟨1, 5, [.typed (.software [0x61])], [0x8022]⟩ :=
  Spec.Reach.add (Builder.new 1 5) _ (.typed (.software [0x61]))
    (Spec.Reach.new 1 5 (by decide) (by decide)) ⟨by decide, by decide⟩ (by decide)

end StunVerif.C03
