/-
C20 — the agent is a pure function of its inputs (sans-IO).
These are theorems about the model: time enters only through the `now` arguments, so shifting every
instant shifts every reported instant and changes nothing else; a second agent cannot influence
the first; a call touches only the transaction it names or serves.  Whether the *implementation*
reads a clock or a global is a runtime fact covered by the correspondence runs (shifted, threaded,
decoy and interleaved executions) and by the translator's source obligation `src_no_ambient`.
Property theorems only; helper lemmas live in `Lemmas/AgentPure.lean`.
-/
import StunVerif.Spec.Agent
import StunVerif.Lemmas.AgentPure
import StunVerif.Gen.Agent
namespace StunVerif.C20
open StunVerif StunVerif.Agent

/-- one call: shifting the state's instants and the call's instant by `d` shifts the resulting
    state and the reported instant by `d` and changes nothing else -/
theorem step_shift (d : Nat) (s : State) (op : Op) :
    step (shiftState d s) (shiftOp d op) = (shiftState d (step s op).1, shiftOut d (step s op).2) := by
  exact Agent.step_shift d s op

/-- whole histories: replaying a history with every instant shifted by a constant produces the same
    replies with every reported instant shifted by the same constant -/
theorem shift_equivariant (d : Nat) (tr : Transport) (loc : SockAddr) (ops : List Op) :
    (trace (State.init tr loc) (ops.map (shiftOp d))).map (·.2) =
      ((trace (State.init tr loc) ops).map (·.2)).map (shiftOut d) := by
  have h := trace_shift d (State.init tr loc) ops
  rw [shiftState_init] at h
  exact h

/-- presence of other agents: in any interleaving of calls to two agents, each agent's replies and
    final state are those of running its own calls alone -/
theorem independent_agents (s1 s2 : State) (ops : List Op2) :
    (run2 (s1, s2) ops).1 = (after s1 ((ops.filter (·.1)).map (·.2)), after s2 ((ops.filter (!·.1)).map (·.2))) ∧
    ((run2 (s1, s2) ops).2.filter (·.1)).map (·.2) = (trace s1 ((ops.filter (·.1)).map (·.2))).map (·.2) ∧
    ((run2 (s1, s2) ops).2.filter (!·.1)).map (·.2) = (trace s2 ((ops.filter (!·.1)).map (·.2))).map (·.2) := by
  exact run2_independent s1 s2 ops

/-- instants do not leak between transactions: the `now` of a call can only enter the schedule of
    the transaction that call starts or serves; every other transaction keeps its complete state -/
theorem no_leak (s : State) (op : Op) (tid : Nat)
    (hnot : match op, (step s op).2 with
      | .sendReq t _ _ _ _, _ => t ≠ tid
      | .poll _ _, .transmit (some t) _ => t ≠ tid
      | .poll _ _, .timedOut t => t ≠ tid
      | .poll _ _, .cancelled t => t ≠ tid
      | .poll _ _, _ => True
      | .handle m _, _ => m.tid ≠ tid
      | .cancel t, _ => t ≠ tid
      | .cancelRtx t, _ => t ≠ tid
      | .configure t _ _ _, _ => t ≠ tid
      | _, _ => True) :
    lookup (step s op).1.out tid = lookup s.out tid := by
  exact step_untouched s op tid hnot

/-- the only instants stored in a reachable state are instants the caller passed in: every
    `lastSend` is the `now` of some earlier send or poll call -/
theorem stored_instants_are_inputs (tr : Transport) (loc : SockAddr) (ops : List Op) (tid : Nat)
    (r : Req) (t : Time) (h : lookup (after (State.init tr loc) ops).out tid = some r)
    (ht : r.lastSend = some t) :
    ∃ op ∈ ops, (∃ id b hc to, op = .sendReq id b hc to t) ∨ (∃ pick, op = .poll t pick) := by
  rcases lastSend_after (State.init tr loc) ops tid r t h ht with ⟨r0, hl0, _⟩ | h'
  · simp [State.init] at hl0
  · exact h'

/-- source obligation, re-evaluated from /repo on this run by the translator: the non-test text of
    agent.rs mentions no clock, thread-local, mutable static, lazy global, RNG or environment read,
    and its single `static` (the tracing id counter) is used once -/
theorem src_no_ambient :
    Gen.ambientTokens = [] ∧ Gen.statics = ["STUN_AGENT_COUNT"] ∧ Gen.staticUseCount = 1 := by
  decide

/-! Non-vacuity: a shifted history. -/
example :
    (trace (State.init .udp 5) ([Op.sendReq 1 [1] false 7 10, .poll 20 none].map (shiftOp 1000))).map (·.2) =
    [.transmit (some 1) ⟨[1], .udp, 5, 7⟩, .waitUntil (1010 + msNs 500)] := by
  decide

end StunVerif.C20
