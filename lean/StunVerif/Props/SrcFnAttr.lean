/-
Source agreement for the guard shared by all 19 typed decoders (C08, C01): `check_len` and
`RawAttribute::check_type_and_len` are re-translated from the source on every run (`Gen/FnAttr.lean`; the
`RangeBounds` argument becomes its two `Bound`s) and equal the model's `checkLen` / `checkTypeAndLen` on the
inclusive optional bounds every decoder passes (which ranges each decoder passes is tied separately:
`C08.src_decode_ranges`, from the translated `Gen.decodeRanges`).
-/
import StunVerif.Gen.FnAttr
namespace StunVerif.SrcFnAttr
open StunVerif

theorem src_checkLen (len : Nat) (lo hi : Option Nat) :
    Gen.checkLen len (Bound.ofOpt lo) (Bound.ofOpt hi) = checkLen len lo hi := by
  unfold Gen.checkLen checkLen
  cases lo <;> cases hi <;> simp [Bound.ofOpt]

theorem src_checkTypeAndLen (a : RawAttr) (ty : Nat) (lo hi : Option Nat) :
    Gen.checkTypeAndLen a ty (Bound.ofOpt lo) (Bound.ofOpt hi) = a.checkTypeAndLen ty lo hi := by
  unfold Gen.checkTypeAndLen RawAttr.checkTypeAndLen
  rw [src_checkLen]

/-- what the arms no decoder uses answer: an exclusive bound is the inclusive bound next to it -/
theorem checkLen_excluded_end (len e : Nat) (he : 0 < e) :
    Gen.checkLen len .unbounded (.excluded e) = Gen.checkLen len .unbounded (.included (e - 1)) := by
  unfold Gen.checkLen
  simp only
  by_cases h : len ≥ e
  · have : len > e - 1 := by omega
    simp [h, this]
  · have : ¬ len > e - 1 := by omega
    simp [h, this]

end StunVerif.SrcFnAttr
