/-
Source agreement for the typed attribute decoders (C08, C01): the bodies of `impl TryFrom<&RawAttribute> for T`
(all 19 built-in types, including the `for` loop of UNKNOWN-ATTRIBUTES and the `while` walk of PASSWORD-ALGORITHMS), `MappedSocketAddr::from_raw`, `AddressFamily::from_byte` and
`PasswordAlgorithmValue::read` are re-translated from the source on every run (`Gen/FnTyped.lean`: the guard with
the range written in the source, the further tests and their order, which error is returned where, which bytes
become which field) and equal the model's `fromRaw` for every raw attribute.
-/
import StunVerif.Gen.FnTyped
import StunVerif.Props.SrcFnAttr
namespace StunVerif.SrcFnTyped
open StunVerif

theorem ctl_ii (raw : RawAttr) (c a b : Nat) :
    Gen.checkTypeAndLen raw c (.included a) (.included b) = raw.checkTypeAndLen c (some a) (some b) :=
  SrcFnAttr.src_checkTypeAndLen raw c (some a) (some b)
theorem ctl_ui (raw : RawAttr) (c b : Nat) :
    Gen.checkTypeAndLen raw c .unbounded (.included b) = raw.checkTypeAndLen c none (some b) :=
  SrcFnAttr.src_checkTypeAndLen raw c none (some b)
theorem ctl_iu (raw : RawAttr) (c a : Nat) :
    Gen.checkTypeAndLen raw c (.included a) .unbounded = raw.checkTypeAndLen c (some a) none :=
  SrcFnAttr.src_checkTypeAndLen raw c (some a) none
theorem ctl_uu (raw : RawAttr) (c : Nat) :
    Gen.checkTypeAndLen raw c .unbounded .unbounded = raw.checkTypeAndLen c none none :=
  SrcFnAttr.src_checkTypeAndLen raw c none none

/-- what a passed guard says about the value length -/
theorem ctl_ok_len {raw : RawAttr} {c a b : Nat} (h : raw.checkTypeAndLen c (some a) (some b) = .ok ()) :
    a ≤ raw.value.length ∧ raw.value.length ≤ b := by
  unfold RawAttr.checkTypeAndLen checkLen at h
  split at h
  · cases h
  · simp only at h
    split at h
    · cases h
    · split at h
      · cases h
      · omega

theorem ctl_ok_lo {raw : RawAttr} {c a : Nat} (h : raw.checkTypeAndLen c (some a) none = .ok ()) :
    a ≤ raw.value.length := by
  unfold RawAttr.checkTypeAndLen checkLen at h
  split at h
  · cases h
  · simp only at h
    split at h
    · cases h
    · omega

/-- the five text attributes: guard, then UTF-8 validation of the whole value -/
theorem src_fromRaw_username (raw : RawAttr) : Gen.fromRawUsername raw = fromRaw .username raw := by
  unfold Gen.fromRawUsername fromRaw
  simp only [ctl_ui, Kind.code, bind, Except.bind]
  generalize h : raw.checkTypeAndLen 6 none (some 513) = r
  cases r <;> simp <;>
    cases textOf raw.value <;> rfl

theorem src_fromRaw_realm (raw : RawAttr) : Gen.fromRawRealm raw = fromRaw .realm raw := by
  unfold Gen.fromRawRealm fromRaw
  simp only [ctl_ui, Kind.code, bind, Except.bind]
  generalize h : raw.checkTypeAndLen 20 none (some 763) = r
  cases r <;> simp <;>
    cases textOf raw.value <;> rfl

theorem src_fromRaw_nonce (raw : RawAttr) : Gen.fromRawNonce raw = fromRaw .nonce raw := by
  unfold Gen.fromRawNonce fromRaw
  simp only [ctl_ui, Kind.code, bind, Except.bind]
  generalize h : raw.checkTypeAndLen 21 none (some 763) = r
  cases r <;> simp <;>
    cases textOf raw.value <;> rfl

theorem src_fromRaw_software (raw : RawAttr) : Gen.fromRawSoftware raw = fromRaw .software raw := by
  unfold Gen.fromRawSoftware fromRaw
  simp only [ctl_ui, Kind.code, bind, Except.bind]
  generalize h : raw.checkTypeAndLen 32802 none (some 763) = r
  cases r <;> simp <;>
    cases textOf raw.value <;> rfl

theorem src_fromRaw_alternateDomain (raw : RawAttr) : Gen.fromRawAlternateDomain raw = fromRaw .alternateDomain raw := by
  unfold Gen.fromRawAlternateDomain fromRaw
  simp only [ctl_uu, Kind.code, bind, Except.bind]
  generalize h : raw.checkTypeAndLen 32771 none none = r
  cases r <;> simp <;>
    cases textOf raw.value <;> rfl

/-- fixed-size opaque values -/
theorem src_fromRaw_messageIntegrity (raw : RawAttr) : Gen.fromRawMessageIntegrity raw = fromRaw .messageIntegrity raw := by
  unfold Gen.fromRawMessageIntegrity fromRaw
  simp only [ctl_ii, Kind.code, bind, Except.bind]
  generalize h : raw.checkTypeAndLen 8 (some 20) (some 20) = r
  cases r <;> simp

theorem src_fromRaw_messageIntegritySha256 (raw : RawAttr) :
    Gen.fromRawMessageIntegritySha256 raw = fromRaw .messageIntegritySha256 raw := by
  unfold Gen.fromRawMessageIntegritySha256 fromRaw
  simp only [ctl_ii, Kind.code, bind, Except.bind]
  generalize h : raw.checkTypeAndLen 28 (some 16) (some 32) = r
  cases r <;> simp

theorem src_fromRaw_userhash (raw : RawAttr) : Gen.fromRawUserhash raw = fromRaw .userhash raw := by
  unfold Gen.fromRawUserhash fromRaw
  simp only [ctl_ii, Kind.code, bind, Except.bind]
  generalize h : raw.checkTypeAndLen 30 (some 32) (some 32) = r
  cases r <;> simp
  have := ctl_ok_len h
  exact List.take_of_length_le (by omega)

theorem src_fromRaw_useCandidate (raw : RawAttr) : Gen.fromRawUseCandidate raw = fromRaw .useCandidate raw := by
  unfold Gen.fromRawUseCandidate fromRaw
  simp only [ctl_ii, Kind.code, bind, Except.bind]
  generalize h : raw.checkTypeAndLen 37 (some 0) (some 0) = r
  cases r <;> simp

/-- FINGERPRINT: the value XORed with the constant read from the source -/
theorem src_fromRaw_fingerprint (raw : RawAttr) : Gen.fromRawFingerprint raw = fromRaw .fingerprint raw := by
  unfold Gen.fromRawFingerprint fromRaw
  simp only [ctl_ii, Kind.code, bind, Except.bind]
  generalize h : raw.checkTypeAndLen 32808 (some 4) (some 4) = r
  cases r <;> simp
  rfl

/-- big-endian integers -/
theorem src_fromRaw_priority (raw : RawAttr) : Gen.fromRawPriority raw = fromRaw .priority raw := by
  unfold Gen.fromRawPriority fromRaw
  simp only [ctl_ii, Kind.code, bind, Except.bind]
  generalize h : raw.checkTypeAndLen 36 (some 4) (some 4) = r
  cases r <;> simp
  have := ctl_ok_len h
  have e : List.take 4 raw.value = raw.value := List.take_of_length_le (by omega)
  simp only [e]

theorem src_fromRaw_iceControlled (raw : RawAttr) : Gen.fromRawIceControlled raw = fromRaw .iceControlled raw := by
  unfold Gen.fromRawIceControlled fromRaw
  simp only [ctl_ii, Kind.code, bind, Except.bind]
  generalize h : raw.checkTypeAndLen 32809 (some 8) (some 8) = r
  cases r <;> simp
  have := ctl_ok_len h
  have e : List.take 8 raw.value = raw.value := List.take_of_length_le (by omega)
  simp only [e]

theorem src_fromRaw_iceControlling (raw : RawAttr) : Gen.fromRawIceControlling raw = fromRaw .iceControlling raw := by
  unfold Gen.fromRawIceControlling fromRaw
  simp only [ctl_ii, Kind.code, bind, Except.bind]
  generalize h : raw.checkTypeAndLen 32810 (some 8) (some 8) = r
  cases r <;> simp
  have := ctl_ok_len h
  have e : List.take 8 raw.value = raw.value := List.take_of_length_le (by omega)
  simp only [e]

/-- `PasswordAlgorithmValue::read` on at least four bytes (its callers' precondition) -/
theorem src_pwAlgoValueRead (d : Bytes) (h : 4 ≤ d.length) : Gen.pwAlgoValueRead d = pwAlgoRead d := by
  match d, h with
  | t0 :: t1 :: l0 :: l1 :: rest, _ =>
    simp [Gen.pwAlgoValueRead, pwAlgoRead, beNat, be16] <;> rfl

theorem src_fromRaw_passwordAlgorithm (raw : RawAttr) : Gen.fromRawPasswordAlgorithm raw = fromRaw .passwordAlgorithm raw := by
  unfold Gen.fromRawPasswordAlgorithm fromRaw
  simp only [ctl_iu, Kind.code, bind, Except.bind]
  generalize h : raw.checkTypeAndLen 29 (some 4) none = r
  cases r <;> simp
  have hl := ctl_ok_lo h
  rw [src_pwAlgoValueRead _ hl]
  have hp : 4 + Gen.paddedAttrLen Gen.pwAlgoValueLen = 4 := by decide
  rw [hp]
  split <;> first | rfl | (cases pwAlgoRead raw.value <;> rfl)

/-- `AddressFamily::from_byte` on a byte -/
theorem src_addressFamilyFromByte (b : UInt8) :
    Gen.addressFamilyFromByte b.toNat = if b = 1 then .ok false else if b = 2 then .ok true else .error .invalid := by
  unfold Gen.addressFamilyFromByte
  have h1 : b.toNat = 1 ↔ b = 1 := by
    constructor
    · intro h; exact UInt8.toNat_inj.mp (by simpa using h)
    · intro h; subst h; rfl
  have h2 : b.toNat = 2 ↔ b = 2 := by
    constructor
    · intro h; exact UInt8.toNat_inj.mp (by simpa using h)
    · intro h; subst h; rfl
  by_cases e1 : b = 1
  · subst e1; rfl
  · by_cases e2 : b = 2
    · subst e2; rfl
    · have n1 : b.toNat ≠ 1 := fun h => e1 (h1.mp h)
      have n2 : b.toNat ≠ 2 := fun h => e2 (h2.mp h)
      simp only [e1, e2, if_false]

/-- `MappedSocketAddr::from_raw` -/
theorem src_mappedFromRaw (raw : RawAttr) : Gen.mappedFromRaw raw = addrFromValue raw.value := by
  unfold Gen.mappedFromRaw addrFromValue
  match hv : raw.value with
  | [] => simp
  | [_] => simp
  | [_, _] => simp
  | [_, _, _] => simp
  | a :: fam :: p0 :: p1 :: rest =>
    have hnl : ¬ (rest.length + 1 + 1 + 1 + 1 < 4) := by omega
    simp only [List.length_cons, hnl, if_false, List.getD_cons_succ, List.getD_cons_zero, src_addressFamilyFromByte]
    have c8 := SrcFnAttr.src_checkLen (rest.length + 1 + 1 + 1 + 1) (some 8) (some 8)
    have c20 := SrcFnAttr.src_checkLen (rest.length + 1 + 1 + 1 + 1) (some 20) (some 20)
    simp only [Bound.ofOpt] at c8 c20
    by_cases e1 : fam = 1
    · simp only [e1, if_true, c8, bind, Except.bind]
      cases checkLen (rest.length + 1 + 1 + 1 + 1) (some 8) (some 8) <;> simp [beNat, be16, List.take_take]
    · by_cases e2 : fam = 2
      · simp only [e2, if_true, c20, bind, Except.bind]
        cases checkLen (rest.length + 1 + 1 + 1 + 1) (some 20) (some 20) <;> simp [beNat, be16]
      · simp [e1, e2]

theorem src_fromRaw_alternateServer (raw : RawAttr) : Gen.fromRawAlternateServer raw = fromRaw .alternateServer raw := by
  unfold Gen.fromRawAlternateServer fromRaw
  simp only [ctl_uu, Kind.code, bind, Except.bind, src_mappedFromRaw]
  generalize raw.checkTypeAndLen 32803 none none = r
  cases r <;> simp
  cases addrFromValue raw.value <;> rfl

theorem src_fromRaw_xorMappedAddress (raw : RawAttr) : Gen.fromRawXorMappedAddress raw = fromRaw .xorMappedAddress raw := by
  unfold Gen.fromRawXorMappedAddress fromRaw
  simp only [ctl_uu, Kind.code, bind, Except.bind, src_mappedFromRaw]
  generalize raw.checkTypeAndLen 32 none none = r
  cases r <;> simp
  cases addrFromValue raw.value <;> rfl

/-- ERROR-CODE: class from the low three bits of byte 2, number from byte 3, the order of the range test and the
    UTF-8 test -/
theorem src_fromRaw_errorCode (raw : RawAttr) : Gen.fromRawErrorCode raw = fromRaw .errorCode raw := by
  unfold Gen.fromRawErrorCode fromRaw
  simp only [ctl_ii, Kind.code, bind, Except.bind]
  generalize h : raw.checkTypeAndLen 9 (some 4) (some (763 + 4)) = r
  cases r <;> simp only
  have hl := (ctl_ok_len h).1
  match hv : raw.value, hl with
  | a :: b :: b2 :: b3 :: reason, _ =>
    have hb2 : ((b2 &&& 7).toNat) = b2.toNat &&& 7 := by simp [UInt8.toNat_and]
    have hm : (b2.toNat &&& 7) % 65536 = b2.toNat &&& 7 := by
      apply Nat.mod_eq_of_lt
      have : b2.toNat &&& 7 ≤ 7 := Nat.and_le_right
      omega
    have hm3 : b3.toNat % 65536 = b3.toNat := Nat.mod_eq_of_lt (by have := UInt8.toNat_lt b3; omega)
    simp only [List.getD_cons_succ, List.getD_cons_zero, List.drop_succ_cons, List.drop_zero, hb2, hm, hm3]
    by_cases c : (3 ≤ b2.toNat &&& 7 ∧ b2.toNat &&& 7 < 7) ∧ b3.toNat ≤ 99
    · have c1 := c.1.1; have c2 := c.1.2; have c3 := c.2
      have : ¬ b3.toNat > 99 := by omega
      simp [c1, c2, this]
      cases textOf reason <;> rfl
    · have : (¬ (3 ≤ b2.toNat &&& 7 ∧ b2.toNat &&& 7 < 7)) ∨ b3.toNat > 99 := by
        by_cases q : 3 ≤ b2.toNat &&& 7 ∧ b2.toNat &&& 7 < 7
        · right; have := fun h99 => c ⟨q, h99⟩; omega
        · left; exact q
      rcases this with q | q
      · by_cases q1 : 3 ≤ b2.toNat &&& 7
        · have q2 : ¬ b2.toNat &&& 7 < 7 := fun h => q ⟨q1, h⟩
          simp [q1, q2]
        · simp [q1]
      · simp [q]

/-- UNKNOWN-ATTRIBUTES: the fold over `chunks_exact(2)` collects the big-endian 16-bit values in order -/
theorem fold_chunks (v : Bytes) (acc : List Nat) :
    (Gen.chunksExact2 v).foldl (fun attrs attr => attrs ++ [beNat (List.take 2 attr)]) acc = acc ++ u16List v := by
  induction v using Gen.chunksExact2.induct generalizing acc with
  | case1 a b rest ih =>
    simp only [Gen.chunksExact2, List.foldl_cons, u16List]
    rw [ih]
    simp [beNat, be16]
  | case2 v hne =>
    match v, hne with
    | [], _ => simp [Gen.chunksExact2, u16List]
    | [_], _ => simp [Gen.chunksExact2, u16List]
    | a :: b :: rest, hne => exact absurd rfl (hne a b rest)

theorem src_fromRaw_unknownAttributes (raw : RawAttr) :
    Gen.fromRawUnknownAttributes raw = fromRaw .unknownAttributes raw := by
  unfold Gen.fromRawUnknownAttributes fromRaw
  simp only [Kind.code, fold_chunks, List.nil_append]
  by_cases h1 : raw.ty = 10 <;> by_cases h2 : raw.value.length % 2 = 0 <;> simp [h1, h2]

/-- PASSWORD-ALGORITHMS: the `while` walk over the entries.  With `4 * n` bytes left and more than `n` units of
    fuel the source's loop is the model's loop on the remaining bytes (whose own fuel only has to cover `n`) -/
theorem pwAlgosWalk_agree (raw : RawAttr) : ∀ (n fuel mf i : Nat) (algos : List Nat),
    raw.value.length - i = 4 * n → i ≤ raw.value.length → n < fuel → n ≤ mf →
    Gen.pwAlgosWalk raw fuel i algos =
      (match pwAlgosLoop mf (raw.value.drop i) with
       | .ok r => .ok (.passwordAlgorithms (algos ++ r))
       | .error e => .error e) := by
  intro n
  induction n with
  | zero =>
    intro fuel mf i algos hlen hi hf _
    have hil : ¬ i < raw.value.length := by omega
    have hd : raw.value.drop i = [] := List.drop_eq_nil_of_le (by omega)
    match fuel, hf with
    | fuel + 1, _ =>
      unfold Gen.pwAlgosWalk
      simp only [hil, if_false, hd]
      cases mf <;> simp [pwAlgosLoop]
  | succ n ih =>
    intro fuel mf i algos hlen hi hf hmf
    have hil : i < raw.value.length := by omega
    match fuel, hf, mf, hmf with
    | fuel + 1, hf, mf + 1, hmf =>
      unfold Gen.pwAlgosWalk
      simp only [hil, if_true]
      have hdl : (raw.value.drop i).length = 4 * (n + 1) := by simp [List.length_drop]; omega
      rw [src_pwAlgoValueRead _ (by omega)]
      have hp4 : 4 + Gen.paddedAttrLen Gen.pwAlgoValueLen = 4 := by decide
      have hp : i + (4 + Gen.paddedAttrLen Gen.pwAlgoValueLen) = i + 4 := by rw [hp4]
      match hd : raw.value.drop i, hdl with
      | t0 :: t1 :: l0 :: l1 :: rest, hdl =>
        have hrest : rest = raw.value.drop (i + 4) := by
          have := congrArg (List.drop 4) hd
          simp only [List.drop_drop, List.drop_succ_cons, List.drop_zero] at this
          rw [← this]
        simp only [pwAlgosLoop, List.drop_succ_cons, List.drop_zero, bind, Except.bind]
        cases hr : pwAlgoRead (t0 :: t1 :: l0 :: l1 :: rest) with
        | error e => simp
        | ok a =>
          simp only [hp]
          rw [ih fuel mf (i + 4) (algos ++ [a]) (by omega) (by omega) (by omega) (by omega), ← hrest]
          cases pwAlgosLoop mf rest <;> simp

theorem src_fromRaw_passwordAlgorithms (raw : RawAttr) :
    Gen.fromRawPasswordAlgorithms raw = fromRaw .passwordAlgorithms raw := by
  unfold Gen.fromRawPasswordAlgorithms fromRaw
  simp only [ctl_iu, Kind.code, bind, Except.bind]
  generalize h : raw.checkTypeAndLen 32770 (some 4) none = r
  cases r <;> simp only
  by_cases h4 : raw.value.length % 4 = 0
  · have hn : ¬ (raw.value.length % 4 ≠ 0) := by omega
    simp only [hn, if_false]
    rw [pwAlgosWalk_agree raw (raw.value.length / 4) (raw.value.length + 1) raw.value.length 0 [] (by omega) (by omega) (by omega) (by omega)]
    simp only [List.drop_zero, List.nil_append]
    cases pwAlgosLoop raw.value.length raw.value <;> rfl
  · have hn : raw.value.length % 4 ≠ 0 := h4
    rw [if_pos hn, if_pos hn]

/-- the decoder regenerated from the source for each kind (all 19) -/
def genFromRaw : Kind → Option (RawAttr → Except PErr AttrVal)
  | .username => some Gen.fromRawUsername | .realm => some Gen.fromRawRealm | .nonce => some Gen.fromRawNonce
  | .software => some Gen.fromRawSoftware | .alternateDomain => some Gen.fromRawAlternateDomain
  | .messageIntegrity => some Gen.fromRawMessageIntegrity
  | .messageIntegritySha256 => some Gen.fromRawMessageIntegritySha256
  | .userhash => some Gen.fromRawUserhash | .fingerprint => some Gen.fromRawFingerprint
  | .priority => some Gen.fromRawPriority | .useCandidate => some Gen.fromRawUseCandidate
  | .iceControlled => some Gen.fromRawIceControlled | .iceControlling => some Gen.fromRawIceControlling
  | .errorCode => some Gen.fromRawErrorCode | .passwordAlgorithm => some Gen.fromRawPasswordAlgorithm
  | .alternateServer => some Gen.fromRawAlternateServer | .xorMappedAddress => some Gen.fromRawXorMappedAddress
  | .unknownAttributes => some Gen.fromRawUnknownAttributes | .passwordAlgorithms => some Gen.fromRawPasswordAlgorithms

/-- every regenerated decoder is the model's decoder of its kind, on every raw attribute: so `C08.decode_iff`,
    `decode_fields`, `roundtrip`, `stable` and `C01.typed_total` are statements about what these source
    functions say now -/
theorem src_fromRaw (k : Kind) (f : RawAttr → Except PErr AttrVal) (h : genFromRaw k = some f) (raw : RawAttr) :
    f raw = fromRaw k raw := by
  cases k <;> simp only [genFromRaw, Option.some.injEq] at h <;> first | (cases h) | (subst h)
  all_goals first
    | exact src_fromRaw_username raw | exact src_fromRaw_realm raw | exact src_fromRaw_nonce raw
    | exact src_fromRaw_software raw | exact src_fromRaw_alternateDomain raw
    | exact src_fromRaw_messageIntegrity raw | exact src_fromRaw_messageIntegritySha256 raw
    | exact src_fromRaw_userhash raw | exact src_fromRaw_fingerprint raw | exact src_fromRaw_priority raw
    | exact src_fromRaw_useCandidate raw | exact src_fromRaw_iceControlled raw
    | exact src_fromRaw_iceControlling raw | exact src_fromRaw_errorCode raw
    | exact src_fromRaw_passwordAlgorithm raw | exact src_fromRaw_alternateServer raw
    | exact src_fromRaw_xorMappedAddress raw | exact src_fromRaw_unknownAttributes raw
    | exact src_fromRaw_passwordAlgorithms raw

/-- non-vacuity: all 19 kinds have a regenerated decoder -/
example : Kind.all.all (fun k => (genFromRaw k).isSome) = true := by decide

end StunVerif.SrcFnTyped
