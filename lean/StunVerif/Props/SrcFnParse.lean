/-
Source agreement for `Message::from_bytes` (C02, C09, C17, and through acceptance every property about
accepted messages).  `Gen.msgFromBytes` / `Gen.msgWalk` are re-translated from the source on every run:
the header and declared-length checks, then the `while !data.is_empty()` walk with its mutable locals
(`data`, `data_offset`, the three-slot `seen_ending_attributes` array and its fill count), the ordering
rules, the padded-length check and the FINGERPRINT recomputation.  The theorem: the translated function is
the model's `msgFromBytes` on every byte string (same acceptance, same error, same byte counts); the
array-with-fill-count of the source is related to the model's list of seen ending types by an invariant.
-/
import StunVerif.Gen.FnMsg
import StunVerif.Lemmas.Total
import StunVerif.Props.SrcFnDecode
import Batteries.Data.List.Perm
namespace StunVerif.SrcFnParse
open StunVerif

/-- the source's `seen_ending_attributes` / `seen_ending_len` against the model's `seen` list -/
structure ArrInv (seen arr : List Nat) (len : Nat) : Prop where
  arr_eq : arr = seen ++ List.replicate (3 - seen.length) 0
  len_eq : len = seen.length
  nodup : seen.Nodup
  sub : ∀ t ∈ seen, t ∈ endingTypes

theorem ArrInv.init : ArrInv [] (List.replicate 3 0) 0 := ⟨rfl, rfl, List.nodup_nil, by simp⟩

theorem len_le_three {seen : List Nat} (hn : seen.Nodup) (hs : ∀ t ∈ seen, t ∈ endingTypes) : seen.length ≤ 3 := by
  have := (List.subperm_of_subset hn (fun t ht => hs t ht)).length_le
  simpa [endingTypes] using this

theorem ending_ne_zero {t : Nat} (h : t ∈ endingTypes) : t ≠ 0 := by
  intro e; subst e; simp [endingTypes, tyMI, tyMI256, tyFP] at h

theorem ArrInv.contains_eq {seen arr len} (h : ArrInv seen arr len) {t : Nat} (ht : t ∈ endingTypes) :
    arr.contains t = seen.contains t := by
  have hz := ending_ne_zero ht
  rw [h.arr_eq]
  by_cases hm : t ∈ seen
  · simp [hm]
  · simp [hm, List.mem_replicate, hz]

theorem ArrInv.push {seen arr len} (h : ArrInv seen arr len) {t : Nat} (ht : t ∈ endingTypes) (hn : t ∉ seen) :
    ArrInv (seen ++ [t]) (arr.set len t) (len + 1) := by
  have hnd : (seen ++ [t]).Nodup := by
    rw [List.nodup_append]
    exact ⟨h.nodup, by simp, by intro a ha b hb; simp at hb; subst hb; intro e; subst e; exact hn ha⟩
  have hsub : ∀ u ∈ seen ++ [t], u ∈ endingTypes := by
    intro u hu; rw [List.mem_append] at hu; rcases hu with hu | hu
    · exact h.sub u hu
    · simp at hu; subst hu; exact ht
  have hlen : seen.length < 3 := by
    have := len_le_three hnd hsub
    simp at this; omega
  refine ⟨?_, by simp [h.len_eq], hnd, hsub⟩
  rw [h.arr_eq, h.len_eq]
  obtain ⟨k, hk⟩ : ∃ k, 3 - seen.length = k + 1 := ⟨3 - seen.length - 1, by omega⟩
  rw [hk, List.replicate_succ, List.set_append_right _ _ (Nat.le_refl _)]
  simp only [Nat.sub_self, List.set_cons_zero, List.length_append, List.length_cons, List.length_nil]
  have : 3 - (seen.length + (0 + 1)) = k := by omega
  rw [this]; simp

theorem setLen_mod (b : Bytes) (n : Nat) : setLen b (n % 65536) = setLen b n := by
  unfold setLen
  split
  · have h1 : UInt8.ofNat (n % 65536 / 256) = UInt8.ofNat (n / 256) := by
      apply UInt8.toNat_inj.mp
      simp only [UInt8.toNat_ofNat']
      omega
    have h2 : UInt8.ofNat (n % 65536) = UInt8.ofNat n := by
      apply UInt8.toNat_inj.mp
      simp only [UInt8.toNat_ofNat']
      omega
    rw [h1, h2]
  · rfl

theorem endingTypes_eq : [tyMI, tyMI256, tyFP] = endingTypes := rfl

theorem fp_mem : tyFP ∈ endingTypes := by simp [endingTypes]

/-- the walk of the source against the walk of the model, one fuel unit per attribute -/
theorem walk_agree (orig : Bytes) : ∀ (fuel : Nat) (data : Bytes) (off : Nat) (seen arr : List Nat) (len : Nat),
    ArrInv seen arr len → data.length ≤ fuel →
    Gen.msgWalk orig endingTypes (fuel + 1) data off arr len
      = (walk fuel orig data off seen).map (fun _ => (⟨orig⟩ : Msg)) := by
  intro fuel
  induction fuel with
  | zero =>
    intro data off seen arr len _ hl
    have : data = [] := List.length_eq_zero_iff.mp (by omega)
    subst this
    simp [Gen.msgWalk, walk, Except.map]
  | succ fuel ih =>
    intro data off seen arr len hinv hl
    rw [Gen.msgWalk, walk]
    simp only [SrcFnDecode.src_rawFromBytes]
    by_cases hemp : data.isEmpty = true
    · simp [hemp, Except.map]
    · have hne : data ≠ [] := by intro h; subst h; simp at hemp
      simp only [hemp, Bool.false_eq_true, not_false_eq_true, if_true, if_false]
      cases hr : rawFromBytes data with
      | error e =>
        cases e <;> simp [Except.mapError, Except.map]
      | ok attr =>
        simp only [Except.mapError]
        have hfp := hinv.contains_eq fp_mem
        have hlen0 : (len > 0) ↔ seen ≠ [] := by
          rw [hinv.len_eq]; constructor
          · intro h e; subst e; simp at h
          · intro h; exact List.length_pos_iff.mpr h
        have hdrop := drop_paddedLen_length attr data hne
        by_cases hE : endingTypes.contains attr.ty = true
        · have hmemE : attr.ty ∈ endingTypes := by simpa using hE
          have hty := hinv.contains_eq hmemE
          by_cases hdup : (seen.contains attr.ty || seen.contains tyFP) = true
          · -- a repeated ending attribute, or anything after FINGERPRINT
            rw [hty, hfp]
            cases h3 : seen.contains tyFP <;> cases h4 : seen.contains attr.ty <;>
              simp_all [Except.map]
          · have hdup' : ¬ (seen.contains attr.ty = true ∨ seen.contains tyFP = true) := by
              simpa [Bool.or_eq_true] using hdup
            have hnot : attr.ty ∉ seen := by
              intro hm; apply hdup'; left; simpa using hm
            have hinv' := hinv.push hmemE hnot
            simp only [hE, hty, hfp, Bool.not_true, Bool.and_false, Bool.false_eq_true, if_false,
              not_true_eq_false, and_false, Bool.and_true, if_true, hdup', hdup]
            by_cases hp : attr.paddedLen > data.length
            · simp [hp, Except.map]
            · simp only [hp, if_false]
              have ihr := ih (data.drop attr.paddedLen) (off + attr.paddedLen) (seen ++ [attr.ty]) _ _ hinv' (by omega)
              by_cases hF : attr.ty = tyFP
              · simp only [hF, if_true, fpFromRaw]
                cases hv : fromRaw .fingerprint attr with
                | error e => simp [Except.map]
                | ok v =>
                  cases v <;> simp only [Except.map] <;> try rfl
                  rename_i crc
                  simp only [fpInput, Gen.headerLength, setLen_mod]
                  by_cases hc : Crc.crc32Bytes (setLen (List.take off orig) (off + attr.paddedLen - 20)) = crc
                  · simp only [hc, ne_eq, not_true_eq_false, if_false]
                    rw [← hF]; exact ihr
                  · simp [hc]
              · simp only [hF, if_false]
                exact ihr
        · have hE' : endingTypes.contains attr.ty = false := by simpa using hE
          by_cases hs : seen = []
          · subst hs
            have hl0 : ¬ len > 0 := by rw [hinv.len_eq]; simp
            simp only [hE', hl0, false_and, if_false, Bool.false_eq_true, List.isEmpty_nil, Bool.not_true,
              Bool.false_and, Bool.and_false]
            by_cases hp : attr.paddedLen > data.length
            · simp [hp, Except.map]
            · simp only [hp, if_false]
              have hF : attr.ty ≠ tyFP := by
                intro e; rw [e] at hE'; simp [endingTypes] at hE'
              simp only [hF, if_false]
              exact ih (data.drop attr.paddedLen) (off + attr.paddedLen) [] _ _ hinv (by omega)
          · have hl1 : len > 0 := hlen0.mpr hs
            have hse : seen.isEmpty = false := by
              cases seen with
              | nil => exact absurd rfl hs
              | cons => rfl
            simp only [hE', hl1, hfp, hse, Bool.false_eq_true, not_false_eq_true, and_self, if_true, Bool.not_false,
              Bool.and_self]
            cases h3 : seen.contains tyFP <;> simp [Except.map]

/-- **`Message::from_bytes` as written in the source is the model's `msgFromBytes`, on every byte string.** -/
theorem src_msgFromBytes (b : Bytes) : Gen.msgFromBytes b = StunVerif.msgFromBytes b := by
  unfold Gen.msgFromBytes StunVerif.msgFromBytes
  simp only [SrcFnDecode.src_headerFromBytes]
  cases hh : headerFromBytes b with
  | error e => rfl
  | ok h =>
    simp only [Gen.headerLength, bind, Except.bind]
    by_cases h1 : h.len + 20 > b.length
    · simp [h1]
    · by_cases h2 : h.len + 20 < b.length
      · simp [h1, h2]
      · simp only [h1, h2, if_false]
        rw [endingTypes_eq]
        exact walk_agree b b.length (b.drop 20) 20 [] _ _ ArrInv.init (by rw [List.length_drop]; omega)

/-- consequence used by the property theorems: the source's parser accepts exactly `Spec.WellFormed`
    buffers is `C02.parse_iff` composed with this equality; here only the acceptance sets are restated -/
theorem src_accepts_iff (b : Bytes) :
    (∃ m, Gen.msgFromBytes b = .ok m) ↔ (∃ m, StunVerif.msgFromBytes b = .ok m) := by
  rw [src_msgFromBytes]

/-- non-vacuity: a 28-byte binding request with one SOFTWARE attribute goes through the translated loop -/
example : Gen.msgFromBytes [0,1,0,8, 0x21,0x12,0xa4,0x42, 1,2,3,4,5,6,7,8,9,10,11,12, 0x80,0x22,0,3, 97,98,99,0]
    = .ok ⟨[0,1,0,8, 0x21,0x12,0xa4,0x42, 1,2,3,4,5,6,7,8,9,10,11,12, 0x80,0x22,0,3, 97,98,99,0]⟩ := by decide

end StunVerif.SrcFnParse
