/-
Source agreement for `XorSocketAddr::xor_addr` (C13): the whole function is re-translated from the source on every run
(`Gen/FnXor.lean`: per family, which constant is XORed onto the port and which onto the address bytes — the cookie for IPv4,
the 128-bit word `cookie << 96 | tid & mask` for IPv6) and equals the model's `xorAddr` for every address and transaction
id; `C13.xor_involutive`, `wire_layout`, `wire_roundtrip`, `v6_tid_sensitive` are therefore statements about this source text.
-/
import StunVerif.Gen.FnXor
import StunVerif.Props.SrcFnWrite
namespace StunVerif.SrcFnXor
open StunVerif

theorem src_xorAddr (a : Addr) (tid : Nat) : Gen.xorAddr a tid = xorAddr a tid := by
  unfold Gen.xorAddr xorAddr
  have hport : (Gen.magicCookie >>> 16) % 65536 = 0x2112 := by decide
  have hc4 : encBE 4 Gen.magicCookie = xorCookie := by decide
  have hck : cookieBytes = xorCookie := rfl
  cases h : a.v6
  · simp only [hport, hc4]
    simp
  · simp only [hport, SrcFnWrite.tid_word, hck]
    have := SrcFnWrite.encBE_mod 12 tid
    rw [SrcFnDecode.pow_256_12] at this
    simp [this]

/-- non-vacuity / RFC 5769 style spot value: an IPv4 address under the cookie -/
example : Gen.xorAddr ⟨false, [192, 0, 2, 1], 32853⟩ 0 = ⟨false, [0xE1, 0x12, 0xA6, 0x43], 32853 ^^^ 0x2112⟩ := by decide

end StunVerif.SrcFnXor
