/-
C04 — integrity: sealed messages verify, anything else does not.
All theorems hold for arbitrary hash functions `H` (hence for the real ones); that HMAC is a MAC
is not provable and not assumed: `tamper_changes_hmac_triple` says that acceptance after tampering
is, exactly, a new valid HMAC triple (a forgery).
Property theorems only (statements are fixed; helper lemmas live in `Lemmas/Integrity.lean`).
-/
import StunVerif.Spec.Builder
import StunVerif.Lemmas.Integrity
namespace StunVerif.C04
open StunVerif

/-- keys of RFC 8489 §14.5/9.2.2: short-term key = password; long-term key =
    MD5(username ":" realm ":" password) -/
theorem key_def (H : Hashes) (u r p : Bytes) :
    hmacKey H (.short p) = p ∧ hmacKey H (.long u r p) = H.md5 (u ++ [0x3a] ++ r ++ [0x3a] ++ p) :=
  ⟨rfl, rfl⟩

/-- On every accepted message, `validate_integrity` is exactly the RFC verdict `Spec.validate`:
    the first MESSAGE-INTEGRITY-SHA256 if present (16..32 bytes in steps of 4, compared with the
    left-truncated HMAC-SHA256), else the first MESSAGE-INTEGRITY (HMAC-SHA1), else "missing"; the
    HMAC input is the message up to the attribute with the length field set to the end of the
    attribute. -/
theorem validate_spec (H : Hashes) (b : Bytes) (m : Msg) (ts : List Spec.Tlv) (c : Creds)
    (hp : msgFromBytes b = .ok m) (hw : Spec.WellFormedAs b ts) :
    m.validateIntegrity H c = Spec.validate H b ts c := by
  obtain ⟨rfl, _⟩ := (msgFromBytes_ok_iff b m).mp hp
  exact validateIntegrity_wellFormed H b ts c hw

/-- a message without an integrity attribute reports it as missing -/
theorem missing (H : Hashes) (b : Bytes) (m : Msg) (ts : List Spec.Tlv) (c : Creds)
    (hp : msgFromBytes b = .ok m) (hw : Spec.WellFormedAs b ts)
    (hno : ∀ t ∈ ts, t.ty ≠ tyMI ∧ t.ty ≠ tyMI256) :
    m.validateIntegrity H c = .error (.missing tyMI) := by
  rw [validate_spec H b m ts c hp hw]
  unfold Spec.validate
  rw [(firstOfType_none tyMI256 ts 20).mpr (fun t ht => (hno t ht).2),
    (firstOfType_none tyMI ts 20).mpr (fun t ht => (hno t ht).1)]

/-- validation never panics and never runs out of fuel on an accepted message, whatever the
    credentials (C01 for this operation) -/
theorem validate_total (H : Hashes) (b : Bytes) (m : Msg) (c : Creds)
    (hp : msgFromBytes b = .ok m) : ∀ f, m.validateIntegrity H c ≠ .error (.fault f) := by
  obtain ⟨_, h20, ht, hc, hl, hwalk⟩ := (msgFromBytes_ok_iff b m).mp hp
  obtain ⟨ts, hw⟩ := walk_wellFormed b h20 ht hc hl hwalk
  intro f
  rw [validate_spec H b m ts c hp hw]
  exact validate_no_fault H b ts c f

/-- the reported algorithm's attribute is really present and correct -/
theorem reported_present (H : Hashes) (b : Bytes) (m : Msg) (ts : List Spec.Tlv) (c : Creds)
    (hp : msgFromBytes b = .ok m) (hw : Spec.WellFormedAs b ts) :
    (m.validateIntegrity H c = .ok .sha1 →
      ∃ off x, Spec.firstOfType tyMI 20 ts = some (off, x) ∧
        H.hmacSha1 (hmacKey H c) (hmacInput b off 24) = x.value) ∧
    (m.validateIntegrity H c = .ok .sha256 →
      ∃ off x, Spec.firstOfType tyMI256 20 ts = some (off, x) ∧
        (H.hmacSha256 (hmacKey H c) (hmacInput b off (x.value.length + 4))).take x.value.length = x.value) := by
  rw [validate_spec H b m ts c hp hw]
  unfold Spec.validate
  constructor
  · intro h
    cases hf : Spec.firstOfType tyMI256 20 ts with
    | some p =>
      rw [hf] at h
      simp only at h
      repeat' split at h
      all_goals cases h
    | none =>
      rw [hf] at h
      simp only at h
      cases hf1 : Spec.firstOfType tyMI 20 ts with
      | some p =>
        obtain ⟨off, x⟩ := p
        rw [hf1] at h
        simp only at h
        refine ⟨off, x, rfl, ?_⟩
        repeat' split at h
        all_goals first | assumption | cases h
      | none => rw [hf1] at h; cases h
  · intro h
    cases hf : Spec.firstOfType tyMI256 20 ts with
    | some p =>
      obtain ⟨off, x⟩ := p
      rw [hf] at h
      simp only at h
      refine ⟨off, x, rfl, ?_⟩
      repeat' split at h
      all_goals first | assumption | cases h
    | none =>
      rw [hf] at h
      simp only at h
      repeat' split at h
      all_goals cases h

/-- the HMAC input determines every byte before the attribute except the length field -/
theorem input_covers (d d' : Bytes) (off e : Nat) (h4 : 4 ≤ off) (hl : off ≤ d.length)
    (hl' : off ≤ d'.length) (h : hmacInput d off e = hmacInput d' off e) (i : Nat) (hi : i < off)
    (h2 : i ≠ 2) (h3 : i ≠ 3) : d[i]? = d'[i]? := by
  -- `h4`, `hl`, `hl'` are not needed: `setLen` leaves every byte other than 2 and 3 alone
  have _ := h4; have _ := hl; have _ := hl'
  have e1 : ∀ (l : Bytes), (l.take off)[i]? = l[i]? := fun l => by
    rw [List.getElem?_take, if_pos hi]
  have := congrArg (·[i]?) h
  simp only [hmacInput, setLen_getElem? _ _ _ h2 h3, e1] at this
  exact this

/-- Tampering is forgery: let `b`, `b'` be well-formed buffers of the same length whose first
    attribute of integrity type `ty` lies at `off` / `off'`.  If the HMAC input and the MAC are the
    same for both, then the buffers agree on every byte up to and including that integrity
    attribute.  Contrapositive: after changing any such byte (header, transaction id, attributes,
    padding, the HMAC itself), a buffer that still parses can only validate with an HMAC triple
    (key, input, mac) different from the sealed one. -/
theorem tamper_changes_hmac_triple (b b' : Bytes) (ts ts' : List Spec.Tlv) (ty : Nat)
    (off off' : Nat) (x x' : Spec.Tlv)
    (hw : Spec.WellFormedAs b ts) (hw' : Spec.WellFormedAs b' ts') (hlen : b.length = b'.length)
    (hf : Spec.firstOfType ty 20 ts = some (off, x))
    (hf' : Spec.firstOfType ty 20 ts' = some (off', x'))
    (hin : hmacInput b off (x.value.length + 4) = hmacInput b' off' (x'.value.length + 4))
    (hmac : x.value = x'.value) :
    b.take (off + 4 + x.value.length) = b'.take (off + 4 + x.value.length) := by
  exact tamper_core b b' ts ts' ty off off' x x' hw hw' hlen hf hf' hin hmac

end StunVerif.C04
