/-
C03 through the in-place path (C12 ∘ C03): writing any reachable builder into any destination that is
large enough — whatever it contained before, however much larger it is — leaves, in the first
`byte_len()` bytes, a message that parses back to exactly what was built; sealed messages still
validate (C04).
-/
import StunVerif.Props.C03
import StunVerif.Props.C12
import StunVerif.Props.C04Seal
import StunVerif.Lemmas.WriteParse
namespace StunVerif.C03
open StunVerif

theorem roundtrip_write_into (H : Hashes) (hH : Spec.HashesOk H) (b : Builder) (hr : Spec.Reach H b)
    (hs : b.byteLen ≤ 65535 + 20) (dest : Bytes) (hd : b.byteLen ≤ dest.length) :
    ∃ d, b.writeInto dest = .ok (b.byteLen, d) ∧ d.length = dest.length ∧
      d.drop b.byteLen = dest.drop b.byteLen ∧
      ∃ m, msgFromBytes (d.take b.byteLen) = .ok m ∧ m.typeField = b.ty ∧ m.tid = b.tid ∧
        m.iter = b.attrs.map BAttr.asRaw := by
  obtain ⟨hw, hl⟩ := reach_writeInto H hH b hr dest hd
  obtain ⟨h1, h2, h3⟩ := prefix_write_facts b.build dest b.byteLen hl hd
  obtain ⟨m, hp, hty, htid, _, hiter⟩ := roundtrip H hH b hr hs
  refine ⟨_, hw, h1, h2, m, ?_, hty, htid, hiter⟩
  rw [h3]; exact hp

theorem sealed_write_into_validates (H : Hashes) (hH : Spec.HashesOk H) (c : Creds) (b : Builder)
    (hr : Spec.ReachWith H c b) (hs : b.byteLen ≤ 65535 + 20)
    (hsealed : tyMI ∈ b.types ∨ tyMI256 ∈ b.types) (dest : Bytes) (hd : b.byteLen ≤ dest.length) :
    ∃ d m, b.writeInto dest = .ok (b.byteLen, d) ∧ msgFromBytes (d.take b.byteLen) = .ok m ∧
      m.validateIntegrity H c = .ok (if tyMI256 ∈ b.types then .sha256 else .sha1) := by
  obtain ⟨hw, hl⟩ := reach_writeInto H hH b (reachWith_reach H c b hr) dest hd
  obtain ⟨_, _, h3⟩ := prefix_write_facts b.build dest b.byteLen hl hd
  obtain ⟨m, hp, hv⟩ := C04.seal_validates H hH c b hr hs hsealed
  refine ⟨_, m, hw, ?_, hv⟩
  rw [h3]; exact hp

end StunVerif.C03
