/-
C01 — decoding and inspection never panic or hang, whatever the bytes.
In the model a panic (unwrap, unreachable!, checked arithmetic, debug_assert!, slice bounds in the
places modelled with checked primitives) or an exhausted loop is the error value `.fault _`; the
theorems say no entry point and no read-only operation ever produces one.  The parts of the
truth that live in the runtime (stack, allocator, panics inside std / hmac / crc / fmt / tracing)
are covered by the correspondence run only.
-/
import StunVerif.Props.C02
import StunVerif.Props.C04
import StunVerif.Props.C08
import StunVerif.Lemmas.Total
import StunVerif.Lemmas.Police
namespace StunVerif.C01
open StunVerif

/-- `MessageType::from_bytes` on any byte string -/
theorem msg_type_total (d : Bytes) : ∀ f, msgTypeFromBytes d ≠ .error (.fault f) := by
  exact fun f => msgTypeFromBytes_no_fault d f

/-- `MessageHeader::from_bytes` on any byte string -/
theorem header_total (d : Bytes) : ∀ f, headerFromBytes d ≠ .error (.fault f) := by
  exact fun f => headerFromBytes_no_fault d f

/-- `RawAttribute::from_bytes` on any byte string (no length bound: also beyond 65535 bytes) -/
theorem raw_total (d : Bytes) : ∀ f, rawFromBytes d ≠ .error (.fault f) := by
  exact fun f => rawFromBytes_no_fault d f

/-- `Message::from_bytes` on any byte string -/
theorem message_total (b : Bytes) : ∀ f, msgFromBytes b ≠ .error (.fault f) := C02.parse_total b

/-- all 19 typed decoders on any raw attribute -/
theorem typed_total (k : Kind) (raw : RawAttr) : ∀ f, fromRaw k raw ≠ .error (.fault f) :=
  C08.decode_total k raw

/-- every step of an attribute walk consumes at least four bytes: the termination argument of the
    parser, the iterator and the integrity scan -/
theorem walk_progress (a : RawAttr) : 4 ≤ a.paddedLen := by
  exact paddedLen_ge a

/-- fuel = buffer length always suffices: giving the iterator more fuel changes nothing -/
theorem iter_fuel_suffices (data : Bytes) (extra : Nat) (seen lastMI : Bool) :
    iterGo (data.length + extra) data seen lastMI = iterGo data.length data seen lastMI := by
  exact iterGo_fuel_irrel _ _ data seen lastMI (by omega) (by omega)

/-- typed extraction on an accepted message never faults -/
theorem attribute_total (m : Msg) (k : Kind) : ∀ f, m.attribute k ≠ .error (.fault f) := by
  intro f
  unfold Msg.attribute
  split
  · intro h; cases h
  · exact C08.decode_total k _ f

/-- `Display`/`Debug` of a message: the control flow (the text is not modelled) iterates the exposed
    attributes and, for each attribute whose type is one of the built-in kinds, attempts that kind's
    typed decoder, falling back to a "malformed" rendering on error.  Every decode it attempts
    returns a value or an error. -/
def displayDecodes (m : Msg) : List (Except PErr AttrVal) :=
  m.iter.flatMap fun a => (Kind.all.filter fun k => k.code = a.ty).map fun k => fromRaw k a

theorem display_total (m : Msg) : ∀ r ∈ displayDecodes m, ∀ f, r ≠ .error (.fault f) := by
  intro r hr f
  simp only [displayDecodes, List.mem_flatMap, List.mem_map, List.mem_filter] at hr
  obtain ⟨a, _, k, _, rfl⟩ := hr
  exact C08.decode_total k a f

/-- `validate_integrity` on an accepted message with arbitrary credentials -/
theorem validate_total (H : Hashes) (b : Bytes) (m : Msg) (c : Creds) (hp : msgFromBytes b = .ok m) :
    ∀ f, m.validateIntegrity H c ≠ .error (.fault f) := C04.validate_total H b m c hp

/-- attribute-type policing on an accepted message of any class: the response builder's
    `unwrap()`s all succeed (its attributes are all there) and the UNKNOWN-ATTRIBUTES length
    arithmetic cannot overflow its u16 -/
theorem police_total (b : Bytes) (m : Msg) (sup req : List Nat) (hp : msgFromBytes b = .ok m) :
    match checkAttributeTypes m sup req with
    | none => True
    | some r => (r.attrs.map BAttr.ty = [0x8022, 0x0009] ∨ r.attrs.map BAttr.ty = [0x8022, 0x0009, 0x000A]) ∧
                ∀ u, BAttr.raw ⟨0x000A, u⟩ ∈ r.attrs → u.length < 65536 := by
  rw [checkAttributeTypes_eq]
  cases h : Spec.police (m.iter.map (·.ty)) sup req with
  | unknown420 u =>
    simp only
    obtain ⟨hne, rfl⟩ := police_unknown _ _ _ _ h
    have h1 := iter_length_lt hp
    have h2 := List.length_filter_le (fun t => decide (t < 0x8000 ∧ t ∉ sup)) (m.iter.map (·.ty))
    rw [List.length_map] at h2
    rw [unknownAttributesResp_cons m _ hne]
    refine ⟨Or.inr rfl, ?_⟩
    intro v hv
    simp only [List.mem_cons, BAttr.raw.injEq, RawAttr.mk.injEq, List.not_mem_nil, or_false] at hv
    rcases hv with hv | hv | hv
    · exact absurd hv.1 (by decide)
    · exact absurd hv.1 (by decide)
    · rw [hv.2, flatMap_enc16_length]; omega
  | bad400 =>
    simp only
    rw [badRequestResp_eq]
    refine ⟨Or.inl rfl, ?_⟩
    intro v hv
    simp only [List.mem_cons, BAttr.raw.injEq, RawAttr.mk.injEq, List.not_mem_nil, or_false] at hv
    rcases hv with hv | hv
    · exact absurd hv.1 (by decide)
    · exact absurd hv.1 (by decide)
  | pass => trivial

end StunVerif.C01
