/-
Source agreement for `StunAgent::poll`.  `Gen.agentPoll` is re-translated from the source on every
run: the accumulators, the `for` loop over the outstanding requests (with its `break`s and the early
`return`), and the code after the loop.  `HashMap::values_mut` visits the requests in an unspecified
order, so the translated function takes the visiting order `ord` as a parameter.  The theorem: for
EVERY order that enumerates the outstanding transaction ids, the source's `poll` is the model's
`agentPoll` serving the first transaction of that order that is ready -- so every theorem about
`agentPoll` (which quantify over all picks) is a theorem about the source's loop under any hash order.
-/
import StunVerif.Gen.FnAgent
import StunVerif.Props.SrcFnAgent
import StunVerif.Lemmas.AgentTime
import StunVerif.Lemmas.AgentLife
import StunVerif.Lemmas.AgentAuth
namespace StunVerif.SrcFnPoll
open StunVerif StunVerif.Agent

theorem lookup_some_mem {out : List (Nat × Req)} {k : Nat} {r : Req} (h : lookup out k = some r) :
    (k, r) ∈ out := by
  unfold lookup at h
  cases hf : out.find? (·.1 = k) with
  | none => simp [hf] at h
  | some p =>
    simp only [hf, Option.map_some, Option.some.injEq] at h
    have hm := List.mem_of_find?_eq_some hf
    have hp := List.find?_some hf
    have : p = (k, r) := by
      cases p; simp at hp h; simp [hp, h]
    rw [← this]; exact hm

theorem update_same {out : List (Nat × Req)} {k : Nat} {r : Req} (hn : (out.map (·.1)).Nodup)
    (h : lookup out k = some r) : update out k (fun _ => r) = out := by
  induction out with
  | nil => rfl
  | cons p out ih =>
    rw [update_cons]
    rw [List.map_cons, List.nodup_cons] at hn
    by_cases e : p.1 = k
    · have : lookup (p :: out) k = some p.2 := by rw [lookup_cons, if_pos e]
      rw [this] at h
      have hr : p.2 = r := by simpa using h
      rw [if_pos e, update_of_not_mem out k _ (e ▸ hn.1)]
      cases p; simp at hr e; simp [hr]
    · have : lookup (p :: out) k = lookup out k := by rw [lookup_cons, if_neg e]
      rw [this] at h
      rw [if_neg e, ih hn.2 h]

theorem remove_update (out : List (Nat × Req)) (k : Nat) (f : Req → Req) :
    remove (update out k f) k = remove out k := by
  induction out with
  | nil => rfl
  | cons p out ih =>
    rw [update_cons]
    by_cases e : p.1 = k
    · rw [if_pos e, remove_cons, remove_cons, ih]; simp [e]
    · rw [if_neg e, remove_cons, remove_cons, ih]

theorem idle_eq (now : Time) : now + msNs (3600 * 1000) = now + msNs 3600000 := rfl

/-! ### the four shapes of one loop iteration (these are the statements about the generated text) -/

theorem loop_nil (now : Time) (s : State) (a : Option Time) :
    Gen.agentPollLoop now [] s a none none = (s, .waitUntil (a.getD (now + msNs 3600000))) := by
  unfold Gen.agentPollLoop Gen.agentPollAfter
  simp [idle_eq]

theorem loop_absent (now : Time) (s : State) (a : Option Time) (k : Nat) (l : List Nat)
    (h : lookup s.out k = none) :
    Gen.agentPollLoop now (k :: l) s a none none = Gen.agentPollLoop now l s a none none := by
  rw [Gen.agentPollLoop]
  simp [h]

theorem loop_wait (now : Time) (s : State) (hk : KeysNodup s) (a : Option Time) (k : Nat) (l : List Nat)
    (r : Req) (w : Time) (h : lookup s.out k = some r) (hw : (reqPoll r now).2 = .waitUntil w) :
    Gen.agentPollLoop now (k :: l) s a none none
      = Gen.agentPollLoop now l s (accWait a (.waitUntil w)) none none := by
  have h1 : (reqPoll r now).1 = r := reqPoll_wait_fst r now w hw
  have hs : ({ s with out := update s.out k (fun _ => r) } : State) = s := by
    rw [update_same hk h]
  rw [Gen.agentPollLoop]
  simp only [h, SrcFnAgent.src_reqPoll, hw, h1, hs]
  cases a with
  | none => simp [accWait]
  | some x =>
    simp only [Option.all_some, decide_eq_true_eq, accWait]
    split <;> rfl

theorem loop_ready (now : Time) (s : State) (a : Option Time) (k : Nat) (l : List Nat)
    (r : Req) (h : lookup s.out k = some r) (hr : ∀ w, (reqPoll r now).2 ≠ .waitUntil w) :
    Gen.agentPollLoop now (k :: l) s a none none = serve s now (some k) := by
  rw [Gen.agentPollLoop]
  unfold serve
  simp only [h, SrcFnAgent.src_reqPoll]
  cases hp : reqPoll r now with
  | mk r' ret =>
    cases ret with
    | waitUntil w => exact absurd (by rw [hp]) (hr w)
    | sendData => simp [mkTransmit]
    | cancelled =>
      simp only [Gen.agentPollAfter, lookup_update_self, h, remove_update]
      simp
    | timedOut =>
      simp only [Gen.agentPollAfter, lookup_update_self, h, remove_update]
      simp

/-! ### the loop as a whole -/

/-- what a request contributes to the wake-up fold -/
def retOf (s : State) (now : Time) (k : Nat) : ReqRet :=
  match lookup s.out k with
  | some r => (reqPoll r now).2
  | none => .timedOut

def Waiting (s : State) (now : Time) (k : Nat) : Prop :=
  ∀ r, lookup s.out k = some r → ∃ w, (reqPoll r now).2 = .waitUntil w

theorem loop_all_waiting (now : Time) (s : State) (hk : KeysNodup s) (l : List Nat) (a : Option Time)
    (hw : ∀ k ∈ l, Waiting s now k) :
    Gen.agentPollLoop now l s a none none
      = (s, .waitUntil (((l.map (retOf s now)).foldl accWait a).getD (now + msNs 3600000))) := by
  induction l generalizing a with
  | nil => simp [loop_nil]
  | cons k l ih =>
    have hl : ∀ k ∈ l, Waiting s now k := fun k hk' => hw k (List.mem_cons_of_mem _ hk')
    cases h : lookup s.out k with
    | none =>
      rw [loop_absent now s a k l h, ih a hl]
      simp [retOf, h, accWait]
    | some r =>
      obtain ⟨w, hw'⟩ := hw k List.mem_cons_self r h
      rw [loop_wait now s hk a k l r w h hw', ih _ hl]
      simp [retOf, h, hw']

theorem loop_first_ready (now : Time) (s : State) (hk : KeysNodup s) (l1 l2 : List Nat) (t : Nat) (a : Option Time)
    (hw : ∀ k ∈ l1, Waiting s now k) (r : Req) (h : lookup s.out t = some r)
    (hr : ∀ w, (reqPoll r now).2 ≠ .waitUntil w) :
    Gen.agentPollLoop now (l1 ++ t :: l2) s a none none = serve s now (some t) := by
  induction l1 generalizing a with
  | nil => exact loop_ready now s a t l2 r h hr
  | cons k l ih =>
    have hl : ∀ k ∈ l, Waiting s now k := fun k hk' => hw k (List.mem_cons_of_mem _ hk')
    rw [List.cons_append]
    cases h' : lookup s.out k with
    | none => rw [loop_absent now s a k _ h', ih a hl]
    | some r' =>
      obtain ⟨w, hw'⟩ := hw k List.mem_cons_self r' h'
      rw [loop_wait now s hk a k _ r' w h' hw', ih _ hl]

theorem not_ready_waiting (s : State) (now : Time) (k : Nat) (h : (ready s now).contains k = false) :
    Waiting s now k := by
  intro r hl
  have hm := lookup_some_mem hl
  cases hp : (reqPoll r now).2 with
  | waitUntil w => exact ⟨w, rfl⟩
  | _ =>
    exfalso
    have : k ∈ ready s now := (mem_ready_iff s now k).mpr ⟨(k, r), hm, rfl, by intro t e; simp [hp] at e⟩
    simp [this] at h

theorem foldl_congr_mem {α β γ : Type} (h : γ → β → γ) (f g : α → β) (l : List α) (z : γ)
    (hfg : ∀ p ∈ l, f p = g p) :
    l.foldl (fun a p => h a (f p)) z = l.foldl (fun a p => h a (g p)) z := by
  induction l generalizing z with
  | nil => rfl
  | cons x xs ih =>
    simp only [List.foldl_cons]
    rw [hfg x List.mem_cons_self]
    exact ih _ (fun p hp => hfg p (List.mem_cons_of_mem _ hp))

theorem minWait_as_map (s : State) (now : Time) (hk : KeysNodup s) :
    minWait s now = (((s.out.map (·.1)).map (retOf s now)).foldl accWait none) := by
  rw [minWait_eq_auth, List.map_map, List.foldl_map]
  apply foldl_congr_mem
  intro p hp
  have := lookup_of_mem_nodup s.out p hk hp
  simp [retOf, this]

/-- **`StunAgent::poll` as written in the source, under any visiting order, is the model's `agentPoll`
    serving the first ready transaction of that order.** -/
theorem src_agentPoll (s : State) (now : Time) (ord : List Nat) (hk : KeysNodup s)
    (hperm : ord.Perm (s.out.map (·.1))) :
    Gen.agentPoll s now ord = Agent.agentPoll s now (ord.find? fun t => (ready s now).contains t) := by
  unfold Gen.agentPoll
  rw [agentPoll_eq]
  cases hf : ord.find? (fun t => (ready s now).contains t) with
  | none =>
    have hall : ∀ k ∈ ord, Waiting s now k := by
      intro k hm
      apply not_ready_waiting
      have := List.find?_eq_none.mp hf k hm
      simpa using this
    have hrs : ready s now = [] := by
      cases hr : ready s now with
      | nil => rfl
      | cons t ts =>
        exfalso
        have ht : t ∈ ready s now := by rw [hr]; exact List.mem_cons_self
        obtain ⟨p, hp, hpt, _⟩ := (mem_ready_iff s now t).mp ht
        have hmem : t ∈ ord := hperm.mem_iff.mpr (by rw [← hpt]; exact List.mem_map_of_mem hp)
        have := List.find?_eq_none.mp hf t hmem
        simp [ht] at this
    rw [loop_all_waiting now s hk ord none hall, hrs]
    simp only [chosenOf, List.head?_nil, serve]
    rw [minWait_as_map s now hk]
    congr 3
    exact (hperm.map _).foldl_eq' (fun x _ y _ z => accWait_comm z _ _) none
  | some t =>
    obtain ⟨l1, l2, rfl, hl1⟩ : ∃ l1 l2, ord = l1 ++ t :: l2 ∧ ∀ k ∈ l1, (ready s now).contains k = false := by
      obtain ⟨_, l1, l2, e, hno⟩ := List.find?_eq_some_iff_append.mp hf
      exact ⟨l1, l2, e, fun k hk' => by simpa using hno k hk'⟩
    have htr : t ∈ ready s now := by
      have := List.find?_some hf
      simpa using this
    obtain ⟨p, hp, hpt, hnw⟩ := (mem_ready_iff s now t).mp htr
    have hlk : lookup s.out t = some p.2 := by
      rw [← hpt]; exact lookup_of_mem_nodup s.out p hk hp
    rw [loop_first_ready now s hk l1 l2 t none (fun k hk' => not_ready_waiting s now k (hl1 k hk')) p.2 hlk hnw]
    have hc : chosenOf (ready s now) (some t) = some t := by
      simp [chosenOf, htr]
    rw [hc]

/-- the hypotheses are satisfiable on a non-trivial state: two outstanding requests visited in the order
    opposite to the storage order; the second one visited is the one that is due -/
example :
    let r1 : Req := Req.new .udp [1] false 7
    let r2 : Req := { Req.new .udp [2] false 8 with lastSend := some 0 }
    let s : State := { State.init .udp 5 with out := [(1, { r1 with lastSend := some 1000000000 }), (2, r2)] }
    KeysNodup s ∧ [2, 1].Perm (s.out.map (·.1)) ∧
      (Gen.agentPoll s (msNs 500) [2, 1]).2 = .transmit (some 2) ⟨[2], .udp, 5, 8⟩ := by
  refine ⟨by simp [KeysNodup, State.init], by decide, by decide⟩

end StunVerif.SrcFnPoll
