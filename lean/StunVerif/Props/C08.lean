/-
C08 — each built-in attribute decodes exactly the RFC encodings and round-trips.
Property theorems only (statements are fixed; helper lemmas live in `Lemmas/Attr.lean`).
-/
import StunVerif.Spec.Attr
import StunVerif.Lemmas.Attr
import StunVerif.Gen.Attr
import StunVerif.Gen.Limits
import StunVerif.Gen.Fields
namespace StunVerif.C08
open StunVerif

/-- decoding succeeds exactly for the right type code and an RFC-allowed value … -/
theorem decode_iff (k : Kind) (raw : RawAttr) :
    (∃ v, fromRaw k raw = .ok v) ↔ raw.ty = Spec.code k ∧ Spec.accept k raw.value = true := by
  exact fromRaw_decode_iff k raw

/-- … and then exposes exactly the encoded fields -/
theorem decode_fields (k : Kind) (raw : RawAttr) (v : AttrVal) (h : fromRaw k raw = .ok v) :
    v = Spec.fields k raw.value := by
  exact ((fromRaw_ok_iff k raw v).mp h).2.2

/-- a raw attribute of another type is refused as the wrong implementation -/
theorem wrong_type (k : Kind) (raw : RawAttr) (h : raw.ty ≠ Spec.code k) :
    fromRaw k raw = .error .wrongImpl := by
  exact fromRaw_wrong_type k raw h

/-- no decoder faults (panics / fails to terminate) on any value of any length -/
theorem decode_total (k : Kind) (raw : RawAttr) : ∀ f, fromRaw k raw ≠ .error (.fault f) := by
  exact fun f => fromRaw_no_fault k raw f

/-- encoding yields the right type code, and the declared length is the value length -/
theorem encode_layout (v : AttrVal) :
    v.toRaw.ty = Spec.code v.kind ∧ v.length = v.toRaw.value.length := by
  exact ⟨code_eq v.kind, rfl⟩

/-- every in-limit value is RFC-allowed on the wire -/
theorem encode_allowed (v : AttrVal) (h : v.inLimit = true) :
    Spec.accept v.kind v.toRaw.value = true := by
  exact accept_valueBytes v h

/-- decode (encode v) = v for every in-limit value -/
theorem roundtrip (v : AttrVal) (h : v.inLimit = true) : fromRaw v.kind v.toRaw = .ok v := by
  exact fromRaw_roundtrip v h

/-- every decoded value is in-limit and of the decoder's kind (for every value that fits the
    16-bit attribute length field, i.e. everything that can come out of a message; the three
    decoders without an upper length check would otherwise produce lists beyond the constructors'
    own u16 length arithmetic) … -/
theorem decoded_inLimit (k : Kind) (raw : RawAttr) (v : AttrVal) (h : fromRaw k raw = .ok v)
    (hl : raw.value.length < 65536) :
    v.inLimit = true ∧ v.kind = k :=
  fromRaw_inLimit k raw v h (Or.inl hl)

/-- … and re-encoding a decoded value is stable (any length) -/
theorem stable (k : Kind) (raw : RawAttr) (v : AttrVal) (h : fromRaw k raw = .ok v) :
    fromRaw k v.toRaw = .ok v := by
  exact fromRaw_stable k raw v h

/-- and, for every type but the addresses (whose reserved first byte is ignored on receipt) and
    ERROR-CODE (reserved bits), re-encoding gives back the very bytes that were decoded -/
theorem reencode_exact (k : Kind) (raw : RawAttr) (v : AttrVal) (h : fromRaw k raw = .ok v)
    (hk : k ≠ .xorMappedAddress ∧ k ≠ .alternateServer ∧ k ≠ .errorCode) :
    v.toRaw = raw := by
  exact fromRaw_reencode_exact k raw v h hk

/-- tie to the source: the 19 `TYPE` constants, as read from /repo on this run, are the RFC codes of
    the table (and hence of the model) -/
theorem src_type_codes :
    Gen.typeCodes = Kind.all.map Spec.code ∧ Kind.all.map Kind.code = Kind.all.map Spec.code := by
  decide


/-- the value-length range each decoder checks first, as the RFC table implies it -/
def lenRange : Kind → Option Nat × Option Nat
  | .username => (none, some 513)
  | .messageIntegrity => (some 20, some 20)
  | .errorCode => (some 4, some 767)
  | .unknownAttributes => (none, none)
  | .realm | .nonce | .software => (none, some 763)
  | .messageIntegritySha256 => (some 16, some 32)
  | .passwordAlgorithm | .passwordAlgorithms => (some 4, none)
  | .userhash => (some 32, some 32)
  | .xorMappedAddress | .alternateServer | .alternateDomain => (none, none)
  | .priority | .fingerprint => (some 4, some 4)
  | .useCandidate => (some 0, some 0)
  | .iceControlled | .iceControlling => (some 8, some 8)

def inRange (r : Option Nat × Option Nat) (n : Nat) : Prop :=
  (∀ lo, r.1 = some lo → lo ≤ n) ∧ (∀ hi, r.2 = some hi → n ≤ hi)

/-- tie to the source: the length range handed to `check_type_and_len` by each of the 19 decoders,
    as read from /repo on this run, is the range of the RFC table; likewise the limits the text
    constructors enforce -/
theorem src_decode_ranges :
    Gen.decodeRanges = Kind.all.map lenRange ∧ Gen.textNewLimits = [513, 763, 763, 763] := by
  decide

/-- field-level constants of the decoders as read from /repo on this run: ERROR-CODE takes the class
    from `b2 & 7`, accepts classes `3..7` (exclusive) and numbers `≤ 99`, and computes
    `class * 100 + number`; address families are written and read as 1 (IPv4) and 2 (IPv6) and nothing
    else is accepted.  These are the numbers of the RFC table `Spec.accept` / `Spec.fields`. -/
theorem src_field_constants :
    Gen.errorCodeDecode = [7, 3, 7, 99, 100] ∧ Gen.addressFamilyBytes = [1, 2, 1, 2] := by
  decide

/-- the table's ranges are implied by the RFC accept sets (so the range check refuses nothing the
    RFCs allow) -/
theorem accept_in_range (k : Kind) (v : Bytes) (h : Spec.accept k v = true) : inRange (lenRange k) v.length := by
  unfold inRange
  cases k <;> simp only [Spec.accept, Spec.addrOk, Spec.algoEntryOk, Bool.and_eq_true, Bool.or_eq_true,
    decide_eq_true_eq, beq_iff_eq] at h <;> simp only [lenRange] <;>
    refine ⟨fun lo hlo => ?_, fun hi hhi => ?_⟩ <;>
    first
      | (simp at hlo; done)
      | (simp at hhi; done)
      | (simp at hlo; omega)
      | (simp at hhi; omega)

/-! Non-vacuity: concrete accepted encodings. -/
example : fromRaw .errorCode ⟨9, [0, 0, 4, 20, 0x6f, 0x6b]⟩ = .ok (.errorCode 420 [0x6f, 0x6b]) := by
  decide
example : fromRaw .passwordAlgorithm ⟨0x1d, [0, 1, 0, 0, 9, 9, 9, 9]⟩ = .error (.tooLarge 4 8) := by
  decide
example : (AttrVal.username [0x61]).inLimit = true := by decide

end StunVerif.C08
