/-
Source agreement for `Message::validate_integrity` (C04, C07 through the agent, C01).  `Gen.validateIntegrity`
and `Gen.validateScan` are re-translated from the source on every run: the selection `match (raw_sha1,
raw_sha256)`, the location scan (`while !data.is_empty()`), the rewritten length field of the HMAC input,
the calls of the two `verify` functions, and the `debug_assert!`s (as explicit panics, which is what the
harness build with debug assertions executes).

The model (`Msg.validateIntegrity`) carries fault branches for things the code no longer does (a checked
16-bit addition) or only asserts, so the statement is: for every message of at most 65 555 bytes (the 16-bit
length field plus the header) the two results are equal, or both are faults; and wherever the model does not
fault -- which `C01.inspect_total` proves for every accepted message -- they are equal.
-/
import StunVerif.Gen.FnIntegrity
import StunVerif.Props.SrcFnParse
import StunVerif.Lemmas.Attr
import StunVerif.Lemmas.BE
import StunVerif.Props.C04
namespace StunVerif.SrcFnIntegrity
open StunVerif

def IsFault {α : Type} : Except PErr α → Prop
  | .error (.fault _) => True
  | _ => False

/-- equal, or both a fault (panic / unreachable / hang) -/
def FaultEq {α : Type} (a b : Except PErr α) : Prop := a = b ∨ (IsFault a ∧ IsFault b)

theorem FaultEq.refl {α : Type} (a : Except PErr α) : FaultEq a a := Or.inl rfl

theorem FaultEq.of_faults {α : Type} {a b : Except PErr α} (ha : IsFault a) (hb : IsFault b) : FaultEq a b :=
  Or.inr ⟨ha, hb⟩

theorem FaultEq.eq_of_not_fault {α : Type} {a b : Except PErr α} (h : FaultEq a b) (hb : ¬ IsFault b) : a = b := by
  rcases h with h | h
  · exact h
  · exact absurd h.2 hb

theorem match_ite {α : Type} (P : Prop) [Decidable P] (a : α) (e : PErr) :
    (match (if P then (Except.ok () : Except PErr Unit) else .error e) with
      | .ok _ => (Except.ok a : Except PErr α)
      | .error x => .error x) = if P then .ok a else .error e := by
  by_cases h : P <;> simp [h]

theorem scan_nil_fault (H : Hashes) (key : Bytes) (algo : Algo) (mac : Bytes) (fuel : Nat) (orig : Bytes) (off : Nat) :
    IsFault (validateScan H key algo mac fuel orig [] off) := by
  cases fuel <;> simp [validateScan, IsFault]

theorem raw_value_le {d : Bytes} {a : RawAttr} (h : rawFromBytes d = .ok a) : a.value.length + 4 ≤ d.length := by
  unfold rawFromBytes at h
  match d, h with
  | t0 :: t1 :: l0 :: l1 :: rest, h =>
    simp only at h
    split at h
    · cases h
    · cases h
      simp only [List.length_take, List.length_cons]
      omega

theorem mi_len {a : RawAttr} {h : Bytes} (hm : fromRaw .messageIntegrity a = .ok (.messageIntegrity h)) :
    a.value.length = 20 := by
  rcases dec_mi a with h1 | h2 | h3
  · rw [h1.2] at hm; cases hm
  · have := h2.2.1
    simpa [Spec.accept] using this
  · have := h3.2.2
    rw [hm] at this
    simp [NF] at this

/-- the scan of the source against the scan of the model -/
theorem scan_agree (H : Hashes) (m : Msg) (c : Creds) (algo : Algo) (mac : Bytes) (hsz : m.data.length ≤ 65555) :
    ∀ (fuel : Nat) (data : Bytes) (off : Nat), data.length ≤ fuel → off + data.length = m.data.length → 20 ≤ off →
    FaultEq (Gen.validateScan H m c algo mac (fuel + 1) data off)
      (validateScan H (hmacKey H c) algo mac fuel m.data data off) := by
  intro fuel
  induction fuel with
  | zero =>
    intro data off hl _ _
    have : data = [] := List.length_eq_zero_iff.mp (by omega)
    subst this
    apply FaultEq.of_faults
    · simp [Gen.validateScan, IsFault]
    · simp [validateScan, IsFault]
  | succ fuel ih =>
    intro data off hl hoff h20
    rw [Gen.validateScan, validateScan]
    by_cases hemp : data.isEmpty = true
    · apply FaultEq.of_faults <;> simp [hemp, IsFault]
    · have hne : data ≠ [] := by intro h; subst h; simp at hemp
      simp only [hemp, Bool.false_eq_true, not_false_eq_true, if_true, if_false]
      cases hr : rawFromBytes data with
      | error e => exact FaultEq.refl _
      | ok attr =>
        simp only
        have hv := raw_value_le hr
        by_cases h1 : algo = .sha1 ∧ attr.ty = tyMI
        · have h1' : (decide (algo = Algo.sha1) && decide (attr.ty = tyMI)) = true := by simp [h1.1, h1.2]
          simp only [h1, and_self, if_true, h1', miFromRaw]
          cases hf : fromRaw .messageIntegrity attr with
          | error e => exact FaultEq.refl _
          | ok v =>
            cases v with
            | messageIntegrity h =>
            by_cases hh : h = mac
            · have hlen := mi_len hf
              have hov : ¬ (off + 24 - 20 ≥ 65536) := by omega
              simp only [hh, ne_eq, not_true_eq_false, if_false, if_true, hov, verifySha1, hmacInput,
                Gen.headerLength, SrcFnParse.setLen_mod]
              left
              simp only [h1.1, h1.2, decide_true, Bool.and_self, if_true]
              exact match_ite _ _ _
            · simp only [hh, ne_eq, not_false_eq_true, if_true, if_false]
              exact FaultEq.refl _
            | _ => apply FaultEq.of_faults <;> simp [IsFault]
        · have h1' : (decide (algo = Algo.sha1) && decide (attr.ty = tyMI)) = false := by
            simp only [Bool.and_eq_false_iff, decide_eq_false_iff_not]
            by_cases ha : algo = Algo.sha1
            · right; exact fun e => h1 ⟨ha, e⟩
            · left; exact ha
          simp only [h1, if_false, h1', Bool.false_eq_true]
          by_cases h2 : algo = .sha256 ∧ attr.ty = tyMI256
          · have h2' : (decide (algo = Algo.sha256) && decide (attr.ty = tyMI256)) = true := by simp [h2.1, h2.2]
            simp only [h2, and_self, if_true, h2', mi256FromRaw]
            cases hf : fromRaw .messageIntegritySha256 attr with
            | error e => exact FaultEq.refl _
            | ok v =>
              cases v with
              | messageIntegritySha256 h =>
              by_cases hh : h = mac
              · have hov : ¬ (off + (attr.value.length + 4) - 20 ≥ 65536) := by omega
                have hmod : attr.value.length % 65536 = attr.value.length := Nat.mod_eq_of_lt (by omega)
                simp only [hh, ne_eq, not_true_eq_false, if_false, if_true, hov, verifySha256, hmacInput,
                  Gen.headerLength, SrcFnParse.setLen_mod, hmod, Nat.add_assoc]
                left
                simp only [h2.1, h2.2, decide_true, Bool.and_self, if_true]
                exact match_ite _ _ _
              · simp only [hh, ne_eq, not_false_eq_true, if_true, if_false]
                exact FaultEq.refl _
              | _ => apply FaultEq.of_faults <;> simp [IsFault]
          · have h2' : (decide (algo = Algo.sha256) && decide (attr.ty = tyMI256)) = false := by
              simp only [Bool.and_eq_false_iff, decide_eq_false_iff_not]
              by_cases ha : algo = Algo.sha256
              · right; exact fun e => h2 ⟨ha, e⟩
              · left; exact ha
            simp only [h2, if_false, h2', Bool.false_eq_true]
            by_cases hp : attr.paddedLen ≤ data.length
            · simp only [hp, if_true]
              have hd := drop_paddedLen_length attr data hne
              exact ih (data.drop attr.paddedLen) (off + attr.paddedLen) (by omega)
                (by rw [List.length_drop]; omega) (by omega)
            · simp only [hp, if_false]
              apply FaultEq.of_faults
              · simp [IsFault]
              · have : data.drop attr.paddedLen = [] := List.drop_eq_nil_of_le (by omega)
                rw [this]; exact scan_nil_fault _ _ _ _ _ _ _

/-- `validate_integrity` as written in the source against the model, for every message that fits the
    16-bit length field: equal, or both a fault -/
theorem src_validateIntegrity_faultEq (H : Hashes) (m : Msg) (c : Creds) (hsz : m.data.length ≤ 65555) :
    FaultEq (Gen.validateIntegrity H m c) (m.validateIntegrity H c) := by
  unfold Gen.validateIntegrity Msg.validateIntegrity
  simp only [Gen.headerLength]
  have key : ∀ (algo : Algo) (mac : Bytes),
      FaultEq (if m.data.length ≥ 20 then
                 Gen.validateScan H m c algo mac (m.data.length + 1) (m.data.drop 20) 20
               else Except.error (PErr.fault Fault.panic))
        (validateScan H (hmacKey H c) algo mac m.data.length m.data (m.data.drop 20) 20) := by
    intro algo mac
    by_cases h20 : m.data.length ≥ 20
    · simp only [h20, if_true]
      exact scan_agree H m c algo mac hsz m.data.length (m.data.drop 20) 20
        (by rw [List.length_drop]; omega) (by rw [List.length_drop]; omega) (Nat.le_refl _)
    · simp only [h20, if_false]
      apply FaultEq.of_faults
      · simp [IsFault]
      · have : m.data.drop 20 = [] := List.drop_eq_nil_of_le (by omega)
        rw [this]; exact scan_nil_fault _ _ _ _ _ _ _
  cases h1 : m.rawAttribute tyMI <;> cases h2 : m.rawAttribute tyMI256
  · exact FaultEq.refl _
  · rename_i s256
    simp only [mi256FromRaw]
    cases hf : fromRaw .messageIntegritySha256 s256 with
    | error e => exact FaultEq.refl _
    | ok v =>
      cases v with
      | messageIntegritySha256 h => exact key _ _
      | _ => exact FaultEq.refl _
  · rename_i s1
    simp only [miFromRaw]
    cases hf : fromRaw .messageIntegrity s1 with
    | error e => exact FaultEq.refl _
    | ok v =>
      cases v with
      | messageIntegrity h => exact key _ _
      | _ => exact FaultEq.refl _
  · rename_i s1 s256
    simp only [mi256FromRaw]
    cases hf : fromRaw .messageIntegritySha256 s256 with
    | error e => exact FaultEq.refl _
    | ok v =>
      cases v with
      | messageIntegritySha256 h => exact key _ _
      | _ => exact FaultEq.refl _

theorem accepted_size (b : Bytes) (m : Msg) (hp : msgFromBytes b = .ok m) : m.data.length ≤ 65555 := by
  unfold msgFromBytes at hp
  cases hh : headerFromBytes b with
  | error e => simp [hh, bind, Except.bind] at hp
  | ok h =>
    simp only [hh, bind, Except.bind] at hp
    have hlen : h.len < 65536 := by
      unfold headerFromBytes at hh
      split at hh
      · cases hh
      · simp only [bind, Except.bind] at hh
        cases hm : msgTypeFromBytes b with
        | error e => simp [hm] at hh
        | ok ty =>
          simp only [hm] at hh
          split at hh
          · cases hh
          · cases hh
            have := beNat_lt_of_length 2 ((b.drop 2).take 2) (by simp; omega)
            simpa using this
    split at hp
    · cases hp
    · split at hp
      · cases hp
      · have : m.data = b := by
          cases hw : walk b.length b (b.drop 20) 20 [] with
          | error e => simp [hw, Except.map] at hp
          | ok u => simp [hw, Except.map] at hp; rw [← hp]
        rw [this]; omega

/-- **On every accepted message the source's `validate_integrity` is the model's, exactly**
    (the model does not fault there: `C01.validate_total`). -/
theorem src_validateIntegrity (H : Hashes) (b : Bytes) (m : Msg) (c : Creds) (hp : msgFromBytes b = .ok m) :
    Gen.validateIntegrity H m c = m.validateIntegrity H c := by
  apply (src_validateIntegrity_faultEq H m c (accepted_size b m hp)).eq_of_not_fault
  intro hf
  cases hv : m.validateIntegrity H c with
  | ok a => rw [hv] at hf; exact hf
  | error e =>
    rw [hv] at hf
    cases e with
    | fault f => exact C04.validate_total H b m c hp f hv
    | _ => exact hf

end StunVerif.SrcFnIntegrity
