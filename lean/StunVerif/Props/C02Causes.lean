/-
C02, causes — the parser's error is always a true cause (`Spec.causes`), and there is a true cause
exactly when the parser refuses.
-/
import StunVerif.Spec.Causes
import StunVerif.Props.C02
import StunVerif.Lemmas.Causes
namespace StunVerif.C02
open StunVerif

/-- the cause the parser names is one of the true causes -/
theorem cause_admissible (b : Bytes) (e : PErr) (h : msgFromBytes b = .error e) : e ∈ Spec.causes b := by
  by_cases h20 : 20 ≤ b.length
  · rw [msgFromBytes_unfold b h20] at h
    rw [causes_unfold b h20]
    by_cases h1 : 0x4000 ≤ beNat (b.take 2)
    · rw [if_pos h1] at h
      injection h with h; subst h
      rw [if_pos (Or.inl h1)]; simp
    · rw [if_neg h1] at h
      by_cases h2 : (b.drop 4).take 4 ≠ [0x21, 0x12, 0xA4, 0x42]
      · rw [if_pos h2] at h
        injection h with h; subst h
        rw [if_pos (Or.inr h2)]; simp
      · rw [if_neg h2] at h
        rw [if_neg (by intro hh; rcases hh with hh | hh; exact h1 hh; exact h2 hh)]
        unfold lenCauses
        by_cases h3 : beNat ((b.drop 2).take 2) + 20 > b.length
        · rw [if_pos h3] at h
          injection h with h; subst h
          simp [h3]
        · rw [if_neg h3] at h
          by_cases h4 : beNat ((b.drop 2).take 2) + 20 < b.length
          · rw [if_pos h4] at h
            injection h with h; subst h
            simp [h3, h4]
          · rw [if_neg h4] at h
            simp only [h3, h4, if_false, if_true]
            cases hw : walk b.length b (b.drop 20) 20 [] with
            | error e' =>
              rw [hw] at h
              simp only [Except.map] at h
              injection h with h; subst h
              exact (walk_causes b.length b (b.drop 20) 20 []
                (by rw [List.length_drop]; omega)).1 _ hw
            | ok u => rw [hw] at h; cases h
  · have hlt : b.length < 20 := by omega
    rw [cause_short b hlt] at h
    injection h with h; subst h
    obtain ⟨cs, hc⟩ := causes_short b hlt
    rw [hc]; simp

/-- no cause can be named for an accepted buffer, and some cause is true of every refused one -/
theorem causes_nil_iff (b : Bytes) : Spec.causes b = [] ↔ ∃ m, msgFromBytes b = .ok m := by
  by_cases h20 : 20 ≤ b.length
  · rw [causes_unfold b h20]
    have hwc := (walk_causes b.length b (b.drop 20) 20 []
      (by rw [List.length_drop]; omega)).2
    constructor
    · intro h
      by_cases h12 : 0x4000 ≤ beNat (b.take 2) ∨ (b.drop 4).take 4 ≠ [0x21, 0x12, 0xA4, 0x42]
      · rw [if_pos h12] at h; cases h
      · rw [if_neg h12] at h
        by_cases hl : lenCauses b = []
        · rw [if_pos hl] at h
          refine ⟨⟨b⟩, (msgFromBytes_ok_iff b ⟨b⟩).2 ⟨rfl, h20, by omega, ?_, ?_, hwc.2 h⟩⟩
          · by_cases hc : (b.drop 4).take 4 = [0x21, 0x12, 0xA4, 0x42]
            · exact hc
            · exact absurd (Or.inr hc) h12
          · unfold lenCauses at hl
            by_cases h3 : beNat ((b.drop 2).take 2) + 20 > b.length
            · simp [h3] at hl
            · by_cases h4 : beNat ((b.drop 2).take 2) + 20 < b.length
              · simp [h3, h4] at hl
              · omega
        · rw [if_neg hl] at h; exact absurd h hl
    · rintro ⟨m, hm⟩
      obtain ⟨_, _, h1, h2, h3, h4⟩ := (msgFromBytes_ok_iff b m).1 hm
      rw [if_neg (by intro hh; rcases hh with hh | hh; omega; exact hh h2)]
      have hl : lenCauses b = [] := by
        unfold lenCauses
        rw [if_neg (by omega), if_neg (by omega)]
      rw [if_pos hl]
      exact hwc.1 h4
  · have hlt : b.length < 20 := by omega
    obtain ⟨cs, hc⟩ := causes_short b hlt
    rw [hc, cause_short b hlt]
    constructor
    · intro h; cases h
    · rintro ⟨m, hm⟩; cases hm

/-- two true causes at once: a 19-byte buffer with a type field that is not STUN either -/
example : Spec.causes (0xC0 :: List.replicate 18 0) = [.truncated 20 19, .notStun] := by decide

end StunVerif.C02
