/-
C02, causes — the parser's error is always a true cause (`Spec.causes`), and there is a true cause
exactly when the parser refuses.
-/
import StunVerif.Spec.Causes
import StunVerif.Props.C02
import StunVerif.Lemmas.Causes
namespace StunVerif.C02
open StunVerif

/-- the cause the parser names is one of the true causes -/
theorem cause_admissible (b : Bytes) (e : PErr) (h : msgFromBytes b = .error e) : e ∈ Spec.causes b := by
  sorry

/-- no cause can be named for an accepted buffer, and some cause is true of every refused one -/
theorem causes_nil_iff (b : Bytes) : Spec.causes b = [] ↔ ∃ m, msgFromBytes b = .ok m := by
  sorry

/-- two true causes at once: a 19-byte buffer with a type field that is not STUN either -/
example : Spec.causes (0xC0 :: List.replicate 18 0) = [.truncated 20 19, .notStun] := by decide

end StunVerif.C02
