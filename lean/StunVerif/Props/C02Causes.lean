/-
C02, causes — the parser's error is always a true cause (`Spec.causes`), and there is a true cause
exactly when the parser refuses.
-/
import StunVerif.Spec.Causes
import StunVerif.Props.C02
import StunVerif.Lemmas.Causes
namespace StunVerif.C02
open StunVerif

/-- the cause the parser names is one of the true causes -/
theorem cause_admissible (b : Bytes) (e : PErr) (h : msgFromBytes b = .error e) : e ∈ Spec.causes b := by
  by_cases h20 : 20 ≤ b.length
  · have hwc := walk_causes b.length b (b.drop 20) 20 [] (by rw [List.length_drop]; omega)
    rw [msgFromBytes_unfold b h20] at h
    rw [causes_unfold b h20]
    unfold lenCauses
    split at h
    · injection h with h; subst h
      rename_i h1
      rw [if_pos (Or.inl h1)]; simp
    · split at h
      · injection h with h; subst h
        rename_i h1 h2
        rw [if_pos (Or.inr h2)]; simp
      · rename_i h1 h2
        rw [if_neg (fun h => h.elim h1 h2)]
        split at h
        · injection h with h; subst h
          rename_i h3
          simp [h3]
        · split at h
          · injection h with h; subst h
            rename_i h3 h4
            simp [h3, h4]
          · rename_i h3 h4
            simp only [h3, h4, if_false, if_true]
            cases hw : walk b.length b (b.drop 20) 20 [] with
            | error e' =>
              rw [hw] at h
              simp only [Except.map] at h
              injection h with h; subst h
              exact hwc.1 _ hw
            | ok u => rw [hw] at h; cases h
  · have hs : b.length < 20 := by omega
    unfold msgFromBytes at h
    rw [header_short b hs] at h
    simp only [bind, Except.bind] at h
    injection h with h; subst h
    obtain ⟨cs, hc⟩ := causes_short b hs
    rw [hc]; simp

/-- no cause can be named for an accepted buffer, and some cause is true of every refused one -/
theorem causes_nil_iff (b : Bytes) : Spec.causes b = [] ↔ ∃ m, msgFromBytes b = .ok m := by
  by_cases h20 : 20 ≤ b.length
  · have hwc := walk_causes b.length b (b.drop 20) 20 [] (by rw [List.length_drop]; omega)
    rw [causes_unfold b h20]
    unfold lenCauses
    constructor
    · intro h
      split at h
      · cases h
      · rename_i h1
        have h1a : beNat (b.take 2) < 0x4000 := by
          have := fun x => h1 (Or.inl x); omega
        have h1b : (b.drop 4).take 4 = [0x21, 0x12, 0xA4, 0x42] := by
          have := fun x => h1 (Or.inr x); simpa using this
        by_cases h3 : beNat ((b.drop 2).take 2) + 20 > b.length
        · simp [h3] at h
        · by_cases h4 : beNat ((b.drop 2).take 2) + 20 < b.length
          · simp [h3, h4] at h
          · simp only [h3, h4, if_false, if_true] at h
            exact ⟨⟨b⟩, (msgFromBytes_ok_iff b ⟨b⟩).mpr
              ⟨rfl, h20, h1a, h1b, by omega, hwc.2.mpr h⟩⟩
    · rintro ⟨m, hm⟩
      obtain ⟨_, _, h1, h2, h3, h4⟩ := (msgFromBytes_ok_iff b m).mp hm
      rw [if_neg (fun h => h.elim (by omega) (fun h => h h2))]
      simp only [show ¬ beNat ((b.drop 2).take 2) + 20 > b.length by omega,
        show ¬ beNat ((b.drop 2).take 2) + 20 < b.length by omega, if_false, if_true]
      exact hwc.2.mp h4
  · have hs : b.length < 20 := by omega
    obtain ⟨cs, hc⟩ := causes_short b hs
    rw [hc]
    constructor
    · intro h; cases h
    · rintro ⟨m, hm⟩
      obtain ⟨_, h, _⟩ := (msgFromBytes_ok_iff b m).mp hm
      omega

/-- two true causes at once: a 19-byte buffer with a type field that is not STUN either -/
example : Spec.causes (0xC0 :: List.replicate 18 0) = [.truncated 20 19, .notStun] := by decide

end StunVerif.C02
