/-
C07 composed with the codec (C03, C04): `validUnder` in the agent model is instantiated with the real
`Message::validate_integrity` on the parsed bytes (`Agent.inMsgOf`), `hadCreds` with the builder's
own attribute types (`Agent.sendMsg`).  Theorems for arbitrary hash functions of the standard sizes.
-/
import StunVerif.Agent.Composed
import StunVerif.Spec.Agent
import StunVerif.Spec.Builder
import StunVerif.Props.C03
import StunVerif.Props.C04
import StunVerif.Props.C04Seal
import StunVerif.Props.C07
import StunVerif.Lemmas.AgentCodec
namespace StunVerif.C07
open StunVerif StunVerif.Agent

/-- `request_had_credentials` is exactly "the request carries MESSAGE-INTEGRITY or
    MESSAGE-INTEGRITY-SHA256": sending a request builder with a free id stores that flag -/
theorem had_creds_def (s : State) (b : Builder) (to : SockAddr) (now : Time)
    (hc : Spec.classOfType b.ty = 0) (hfree : isOutstanding s b.tid = false) :
    ∃ r, lookup (sendMsg s b to now).1.out b.tid = some r ∧
      r.hadCreds = (b.hasAttribute tyMI || b.hasAttribute tyMI256) ∧ r.bytes = b.build ∧ r.to = to := by
  rw [codec_sendMsg_request s b to now hc hfree]
  exact ⟨_, lookup_insert_self _ _ _, codec_new_fields _ _ _ _ _⟩

/-- a response built and sealed with the credentials the agent expects is delivered: the bytes of
    any reachable response builder (success or error class, the request's transaction id, sealed
    with SHA-1, SHA-256 or both under `creds k`, with or without fingerprint) parse, validate, and
    complete the outstanding sealed request -/
theorem sealed_response_delivered (H : Hashes) (hH : Spec.HashesOk H) (creds : Key → Creds)
    (s : State) (k : Key) (req : Req) (rb : Builder) (src : SockAddr)
    (hreach : Spec.ReachWith H (creds k) rb) (hsize : rb.byteLen ≤ 65535 + 20)
    (hcls : Spec.classOfType rb.ty = 2 ∨ Spec.classOfType rb.ty = 3)
    (hsealed : tyMI ∈ rb.types ∨ tyMI256 ∈ rb.types)
    (hout : lookup s.out rb.tid = some req) (hrc : s.remoteCreds = some k) :
    ∃ m, msgFromBytes rb.build = .ok m ∧ (handleMsg H creds s m src).2 = .response := by
  have hr := reachWith_reach H (creds k) rb hreach
  obtain ⟨m, hp, hv⟩ := C04.seal_validates H hH (creds k) rb hreach hsize hsealed
  refine ⟨m, hp, ?_⟩
  have hm := codec_parse_eq H hH rb hr hsize m hp
  have hcl : m.cls = Spec.classOfType rb.ty := by rw [hm]; exact codec_cls_build H hH rb hr hsize
  have htid : m.tid = rb.tid := by rw [hm]; exact (build_parse H hH rb hr hsize).2.2.1
  unfold handleMsg
  apply codec_handle_response s (inMsgOf H creds m) src req k
  · simp only [inMsgOf, hcl]; exact decide_eq_true hcls
  · simp only [inMsgOf, htid]; exact hout
  · exact hrc
  · simp only [inMsgOf, hv]

/-- a response that carries no integrity attribute at all is never delivered to a sealed request,
    whatever credentials are configured: the transaction stays outstanding, untouched -/
theorem unsigned_response_dropped (H : Hashes) (hH : Spec.HashesOk H) (creds : Key → Creds)
    (s : State) (req : Req) (rb : Builder) (src : SockAddr)
    (hreach : Spec.Reach H rb) (hsize : rb.byteLen ≤ 65535 + 20)
    (hcls : Spec.classOfType rb.ty = 2 ∨ Spec.classOfType rb.ty = 3)
    (hplain : tyMI ∉ rb.types ∧ tyMI256 ∉ rb.types)
    (hout : lookup s.out rb.tid = some req) (hsealedReq : req.hadCreds = true) :
    ∃ m, msgFromBytes rb.build = .ok m ∧ (handleMsg H creds s m src).2 = .drop ∧
      lookup (handleMsg H creds s m src).1.out rb.tid = some req := by
  obtain ⟨hp, hty, htid, _, _⟩ := build_parse H hH rb hreach hsize
  refine ⟨⟨rb.build⟩, hp, ?_⟩
  have hw := build_wellFormedAs H hH rb hreach hsize
  have hno : ∀ t ∈ (rb.attrs.map BAttr.asRaw).map toTlv, t.ty ≠ tyMI ∧ t.ty ≠ tyMI256 := by
    intro t ht
    have hmem : t.ty ∈ rb.types := by
      rw [← reach_raws_ty H rb hreach, ← map_toTlv_ty]
      exact List.mem_map_of_mem ht
    exact ⟨fun e => hplain.1 (e ▸ hmem), fun e => hplain.2 (e ▸ hmem)⟩
  have hmiss : ∀ c, (⟨rb.build⟩ : Msg).validateIntegrity H c = .error (.missing tyMI) :=
    fun c => C04.missing H rb.build _ _ c hp hw hno
  have hcl : (⟨rb.build⟩ : Msg).cls = Spec.classOfType rb.ty := codec_cls_build H hH rb hreach hsize
  unfold handleMsg
  have := codec_handle_drop s (inMsgOf H creds ⟨rb.build⟩) src req
    (by simp only [inMsgOf, hcl]; exact decide_eq_true hcls)
    (by simp only [inMsgOf, htid]; exact hout) hsealedReq
    (by intro k; simp only [inMsgOf, hmiss])
  simp only [inMsgOf, htid] at this ⊢
  exact this

/-- requests and indications handed to the agent are never treated as responses -/
theorem non_response_incoming (H : Hashes) (hH : Spec.HashesOk H) (creds : Key → Creds)
    (s : State) (rb : Builder) (src : SockAddr)
    (hreach : Spec.Reach H rb) (hsize : rb.byteLen ≤ 65535 + 20)
    (hcls : Spec.classOfType rb.ty = 0 ∨ Spec.classOfType rb.ty = 1) :
    ∃ m, msgFromBytes rb.build = .ok m ∧ (handleMsg H creds s m src).2 = .incoming ∧
      (handleMsg H creds s m src).1.out = s.out := by
  obtain ⟨hp, _⟩ := build_parse H hH rb hreach hsize
  refine ⟨⟨rb.build⟩, hp, ?_⟩
  have hcl : (⟨rb.build⟩ : Msg).cls = Spec.classOfType rb.ty := codec_cls_build H hH rb hreach hsize
  unfold handleMsg
  apply codec_handle_incoming
  simp only [inMsgOf, hcl]
  apply decide_eq_false
  omega

end StunVerif.C07
