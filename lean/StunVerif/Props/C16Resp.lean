/-
C16, second part — the 420 / 400 error responses parse back with the promised contents (rests on C03's round trip).
-/
import StunVerif.Spec.Police
import StunVerif.Spec.Builder
import StunVerif.Lemmas.Police
import StunVerif.Gen.Attr
import StunVerif.Props.C03
import StunVerif.Props.C16
import StunVerif.Lemmas.PoliceResp
namespace StunVerif.C16
open StunVerif

/-- the 420 response: class error, the request's method and transaction id, ERROR-CODE 420,
    UNKNOWN-ATTRIBUTES listing exactly `u`; it parses back -/
theorem unknown_resp_shape (b : Bytes) (m : Msg) (u : List Nat) (hp : msgFromBytes b = .ok m)
    (hu : u ≠ [] ∧ u.length < 16384 ∧ ∀ t ∈ u, t < 65536) :
    ∃ m', msgFromBytes (unknownAttributesResp m u).build = .ok m' ∧
      m'.cls = 3 ∧ m'.method = m.method ∧ m'.tid = m.tid ∧
      m'.attribute .errorCode = .ok (.errorCode 420 (asciiBytes "Unknown Attributes")) ∧
      m'.attribute .unknownAttributes = .ok (.unknownAttributes u) ∧
      m'.attribute .software = .ok (.software (asciiBytes "stun-types")) := by
  have _ := hp
  obtain ⟨hne, hl, ht⟩ := hu
  have hr := unknownAttributesResp_reach constHashes m u hne hl ht
  have hs := unknownAttributesResp_byteLen m u hne hl
  obtain ⟨hpb, hty, htid, _, hiter⟩ :=
    build_parse constHashes constHashes_ok _ hr hs
  have hT : (unknownAttributesResp m u).ty = Spec.interleave 3 m.method := by
    rw [unknownAttributesResp_cons m u hne]
  have hI : (unknownAttributesResp m u).tid = m.tid := by
    rw [unknownAttributesResp_cons m u hne]
  have hA : (unknownAttributesResp m u).attrs.map BAttr.asRaw =
      [(AttrVal.software (asciiBytes "stun-types")).toRaw,
       (AttrVal.errorCode 420 (asciiBytes "Unknown Attributes")).toRaw,
       (AttrVal.unknownAttributes u).toRaw] := by
    rw [unknownAttributesResp_cons m u hne]; rfl
  rw [hT] at hty
  rw [hI] at htid
  rw [hA] at hiter
  refine ⟨⟨(unknownAttributesResp m u).build⟩, hpb, ?_, ?_, htid, ?_, ?_, ?_⟩
  · unfold Msg.cls; rw [hty]; exact class_interleave 3 _ (by omega)
  · unfold Msg.method; rw [hty]; exact method_interleave 3 _ m.method_lt
  · unfold Msg.attribute Msg.rawAttribute
    rw [hiter]
    simp only [List.find?, AttrVal.toRaw, AttrVal.kind, Kind.code]
    exact fromRaw_roundtrip (.errorCode 420 (asciiBytes "Unknown Attributes")) error420_inLimit
  · unfold Msg.attribute Msg.rawAttribute
    rw [hiter]
    simp only [List.find?, AttrVal.toRaw, AttrVal.kind, Kind.code]
    exact fromRaw_roundtrip (.unknownAttributes u) (unknownAttributes_inLimit u hl ht)
  · unfold Msg.attribute Msg.rawAttribute
    rw [hiter]
    simp only [List.find?, AttrVal.toRaw, AttrVal.kind, Kind.code]
    exact fromRaw_roundtrip (.software (asciiBytes "stun-types")) software_inLimit

/-- the 400 response -/
theorem bad_resp_shape (b : Bytes) (m : Msg) (hp : msgFromBytes b = .ok m) :
    ∃ m', msgFromBytes (badRequestResp m).build = .ok m' ∧
      m'.cls = 3 ∧ m'.method = m.method ∧ m'.tid = m.tid ∧
      m'.attribute .errorCode = .ok (.errorCode 400 (asciiBytes "Bad Request")) ∧
      m'.hasAttribute 0x000A = false := by
  have _ := hp
  have hr := badRequestResp_reach constHashes m
  have hs : (badRequestResp m).byteLen ≤ 65535 + 20 := by
    rw [badRequestResp_byteLen]; omega
  obtain ⟨hpb, hty, htid, _, hiter⟩ :=
    build_parse constHashes constHashes_ok _ hr hs
  have hT : (badRequestResp m).ty = Spec.interleave 3 m.method := by
    rw [badRequestResp_eq m]
  have hI : (badRequestResp m).tid = m.tid := by
    rw [badRequestResp_eq m]
  have hA : (badRequestResp m).attrs.map BAttr.asRaw =
      [(AttrVal.software (asciiBytes "stun-types")).toRaw,
       (AttrVal.errorCode 400 (asciiBytes "Bad Request")).toRaw] := by
    rw [badRequestResp_eq m]; rfl
  rw [hT] at hty
  rw [hI] at htid
  rw [hA] at hiter
  refine ⟨⟨(badRequestResp m).build⟩, hpb, ?_, ?_, htid, ?_, ?_⟩
  · unfold Msg.cls; rw [hty]; exact class_interleave 3 _ (by omega)
  · unfold Msg.method; rw [hty]; exact method_interleave 3 _ m.method_lt
  · unfold Msg.attribute Msg.rawAttribute
    rw [hiter]
    simp only [List.find?, AttrVal.toRaw, AttrVal.kind, Kind.code]
    exact fromRaw_roundtrip (.errorCode 400 (asciiBytes "Bad Request")) error400_inLimit
  · unfold Msg.hasAttribute
    rw [hiter]
    simp [AttrVal.toRaw, AttrVal.kind, Kind.code]

end StunVerif.C16
