/-
C16, second part — the 420 / 400 error responses parse back with the promised contents (rests on C03's round trip).
-/
import StunVerif.Spec.Police
import StunVerif.Spec.Builder
import StunVerif.Lemmas.Police
import StunVerif.Gen.Attr
import StunVerif.Props.C03
import StunVerif.Props.C16
namespace StunVerif.C16
open StunVerif

/-- the 420 response: class error, the request's method and transaction id, ERROR-CODE 420,
    UNKNOWN-ATTRIBUTES listing exactly `u`; it parses back -/
theorem unknown_resp_shape (b : Bytes) (m : Msg) (u : List Nat) (hp : msgFromBytes b = .ok m)
    (hu : u ≠ [] ∧ u.length < 16384 ∧ ∀ t ∈ u, t < 65536) :
    ∃ m', msgFromBytes (unknownAttributesResp m u).build = .ok m' ∧
      m'.cls = 3 ∧ m'.method = m.method ∧ m'.tid = m.tid ∧
      m'.attribute .errorCode = .ok (.errorCode 420 (asciiBytes "Unknown Attributes")) ∧
      m'.attribute .unknownAttributes = .ok (.unknownAttributes u) ∧
      m'.attribute .software = .ok (.software (asciiBytes "stun-types")) := by
  sorry

/-- the 400 response -/
theorem bad_resp_shape (b : Bytes) (m : Msg) (hp : msgFromBytes b = .ok m) :
    ∃ m', msgFromBytes (badRequestResp m).build = .ok m' ∧
      m'.cls = 3 ∧ m'.method = m.method ∧ m'.tid = m.tid ∧
      m'.attribute .errorCode = .ok (.errorCode 400 (asciiBytes "Bad Request")) ∧
      m'.hasAttribute 0x000A = false := by
  sorry

end StunVerif.C16
