/-
Source agreement for `TcpBuffer::{push_data, pull_data, take}`: `Gen/FnTcp.lean` is re-translated,
statement by statement, from /repo's `stun-proto/src/agent.rs` on every run; the theorems say
the translated functions are the model functions C14's theorems are about.
-/
import StunVerif.Gen.FnTcp
import StunVerif.Agent.Tcp
namespace StunVerif.SrcFnTcp
open StunVerif

theorem src_push (buf d : Bytes) : Gen.tcpPush buf d = Tcp.push buf d := rfl

/-- `TcpBuffer::take` within its guard is `split_at` -/
theorem src_take (buf : Bytes) (k : Nat) (h : k ≤ buf.length) : Gen.tcpTake buf k = (buf.take k, buf.drop k) := by
  unfold Gen.tcpTake
  split
  · omega
  · rfl

/-- `TcpBuffer::pull_data` as written in the source = `Tcp.pull` -/
theorem src_pull (buf : Bytes) : Gen.tcpPull buf = Tcp.pull buf := by
  unfold Gen.tcpPull Tcp.pull
  match buf with
  | [] => simp
  | [a] => simp
  | a :: b :: rest =>
    simp only [List.length_cons, List.getD_cons_zero, List.getD_cons_succ]
    split
    · omega
    · split
      · rename_i h; split
        · rfl
        · omega
      · rename_i h
        rw [src_take _ _ (by simp only [List.length_cons]; omega)]
        have : ¬ rest.length < be16 a b := by omega
        simp [this]

end StunVerif.SrcFnTcp
