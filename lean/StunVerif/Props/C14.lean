/-
C14 — TCP framing buffer returns exactly the frames that were sent.
Property theorems only; helper lemmas are in `Lemmas/Tcp.lean`.
-/
import StunVerif.Lemmas.Tcp
import StunVerif.Gen.Fields
namespace StunVerif.C14
open StunVerif StunVerif.Tcp

/-- A complete frame at the head of the buffer is returned whole and removed; the rest stays. -/
theorem pull_complete (f rest : Bytes) (h : f.length < 65536) :
    pull (frame f ++ rest) = (some f, rest) := pull_frame f rest h

/-- A successful pull returned a frame that really was at the head of the buffer. -/
theorem pull_sound {b f b' : Bytes} (h : pull b = (some f, b')) :
    f.length < 65536 ∧ b = frame f ++ b' := pull_some h

/-- A pull returns nothing exactly when the buffer holds no complete frame … -/
theorem pull_none_iff (b : Bytes) :
    (pull b).1 = none ↔ ¬ ∃ f rest, f.length < 65536 ∧ b = frame f ++ rest := by
  constructor
  · intro h ⟨f, rest, hf, hb⟩
    rw [hb, pull_frame f rest hf] at h
    simp at h
  · intro h
    cases hp : pull b with
    | mk r b' =>
      cases r with
      | none => rfl
      | some f => exact absurd ⟨f, b', pull_some hp⟩ h

/-- … and then leaves the buffered bytes intact. -/
theorem pull_none_intact (b : Bytes) (h : (pull b).1 = none) : (pull b).2 = b :=
  pull_none_keeps b h

/-- For every list of frames, every chunking of their concatenation and every interleaving of the
    pushes (in order) with pulls — even when only a prefix of the stream has arrived (`tail` is
    what has not been pushed yet) — the successful pulls return a prefix of the frame list, in
    order, unaltered. -/
theorem stream_prefix (fs : List Bytes) (hfs : ∀ f ∈ fs, f.length < 65536)
    (ops : List Op) (tail : Bytes)
    (hops : (pushes ops).flatten ++ tail = fs.flatMap frame) :
    ∃ k, pulled (run [] ops).2 = fs.take k := by
  obtain ⟨k, h1, _⟩ := run_inv ops [] tail fs hfs (by simpa using hops)
  exact ⟨k, h1⟩

/-- Once the whole stream has been pushed, the pulled frames followed by a final drain are exactly
    the frame list: none lost, duplicated, merged, reordered or altered. -/
theorem stream_exact (fs : List Bytes) (hfs : ∀ f ∈ fs, f.length < 65536)
    (ops : List Op) (hops : (pushes ops).flatten = fs.flatMap frame) :
    pulled (run [] ops).2 ++ drain (run [] ops).1 = fs := by
  obtain ⟨k, h1, h2⟩ := run_inv ops [] [] fs hfs (by simpa using hops)
  simp only [List.append_nil] at h2
  rw [h1, h2, drain_frames _ (fun f hf => hfs f (List.mem_of_mem_drop hf))]
  exact List.take_append_drop k fs

/-- The same from an arbitrary starting buffer that holds whole frames `pre` (history-independent). -/
theorem stream_exact_from (pre fs : List Bytes) (hpre : ∀ f ∈ pre, f.length < 65536)
    (hfs : ∀ f ∈ fs, f.length < 65536)
    (ops : List Op) (hops : (pushes ops).flatten = fs.flatMap frame) :
    pulled (run (pre.flatMap frame) ops).2 ++ drain (run (pre.flatMap frame) ops).1 = pre ++ fs := by
  obtain ⟨k, h1, h2⟩ := run_inv ops (pre.flatMap frame) [] (pre ++ fs)
    (by intro f hf; rcases List.mem_append.mp hf with h | h; exact hpre f h; exact hfs f h)
    (by simp [hops])
  simp only [List.append_nil] at h2
  rw [h1, h2, drain_frames _ (fun f hf => by
    have := List.mem_of_mem_drop hf
    rcases List.mem_append.mp this with h | h; exact hpre f h; exact hfs f h)]
  exact List.take_append_drop k _

/-! Non-vacuity: an empty frame, a one-byte frame, split in the middle of a length prefix, with
    pulls interleaved. -/
example :
    let fs : List Bytes := [[], [7], [1, 2, 3]]
    let ops := [Op.push [0], .pull, .push [0, 0], .pull, .pull, .push [1, 7, 0, 3, 1], .pull,
                .pull, .push [2, 3]]
    (pushes ops).flatten = fs.flatMap frame ∧
      pulled (run [] ops).2 = [[], [7]] ∧ drain (run [] ops).1 = [[1, 2, 3]] := by
  decide

/-- the framing constants of `TcpBuffer::pull_data` as read from /repo on this run: nothing is returned
    with fewer than 2 buffered bytes, the length prefix is the first 2 bytes, a frame occupies
    `prefix + 2` bytes, and the returned data starts after the first 2 bytes — RFC 4571's 16-bit
    length prefix, as in `Tcp.pull` / `Tcp.frame` -/
theorem src_framing : Gen.tcpFraming = [2, 2, 2, 2] ∧ ∀ f : Bytes, (Tcp.frame f).length = f.length + 2 := by
  refine ⟨by decide, fun f => ?_⟩
  simp [Tcp.frame, enc16]

end StunVerif.C14
