/-
C11, second part — the builder's attribute queries agree with what its bytes parse to (rests on C03's round trip).
-/
import StunVerif.Spec.Builder
import StunVerif.Lemmas.Builder
import StunVerif.Props.C03
import StunVerif.Lemmas.Roundtrip
import StunVerif.Props.C11
namespace StunVerif.C11
open StunVerif

/-- after any sequence the builder's own attribute queries agree with what it serialises … -/
theorem queries_agree (H : Hashes) (hH : Spec.HashesOk H) (b : Builder) (hr : Spec.Reach H b)
    (hs : b.byteLen ≤ 65535 + 20) (t : Nat) :
    ∃ m, msgFromBytes b.build = .ok m ∧ m.hasAttribute t = b.hasAttribute t := by
  obtain ⟨hp, _, _, _, hit⟩ := build_parse H hH b hr hs
  refine ⟨_, hp, ?_⟩
  unfold Msg.hasAttribute Builder.hasAttribute
  rw [hit, reach_types H b hr, List.any_map, List.any_map]
  congr 1
  funext a
  simp [asRaw_ty]

end StunVerif.C11
