/-
C11 — builder ordering rules hold and refused operations leave no trace.
Property theorems only (statements are fixed; helper lemmas live in `Lemmas/Builder.lean`).
-/
import StunVerif.Spec.Builder
import StunVerif.Lemmas.Builder
namespace StunVerif.C11
open StunVerif

/-- the parallel type list the refusal decisions are taken on is always the list of the attributes'
    types (any operation sequence, any length) -/
theorem types_inv (H : Hashes) (b : Builder) (hr : Spec.Reach H b) :
    b.types = b.attrs.map BAttr.ty := by
  exact reach_types H b hr

/-- adding an attribute is refused exactly when its type is already present or the message is
    already sealed by an integrity or fingerprint attribute -/
theorem add_refused_iff (b : Builder) (a : BAttr) :
    (∃ e, b.add a = .error e) ↔
      (a.ty ∈ b.types ∨ tyMI ∈ b.types ∨ tyMI256 ∈ b.types ∨ tyFP ∈ b.types) := by
  rw [add_err_iff, addGuard_ok_iff]
  constructor
  · intro h
    apply Classical.byContradiction
    intro hn
    apply h
    intro t ht hm
    simp only [List.mem_cons, List.not_mem_nil, or_false] at hm
    apply hn
    rcases hm with rfl | rfl | rfl | rfl
    · exact Or.inl ht
    · exact Or.inr (Or.inl ht)
    · exact Or.inr (Or.inr (Or.inl ht))
    · exact Or.inr (Or.inr (Or.inr ht))
  · intro h hall
    rcases h with h | h | h | h <;> exact hall _ h (by simp)

/-- SHA-1 integrity is refused exactly once any integrity or fingerprint is present (builders
    within the 16-bit size limit) -/
theorem sha1_refused_iff (H : Hashes) (hH : Spec.HashesOk H) (b : Builder) (hr : Spec.Reach H b)
    (c : Creds) (hs : b.byteLen + 24 ≤ 65535 + 20) :
    (∃ e, b.addIntegrity H c .sha1 = .error e) ↔
      (tyMI ∈ b.types ∨ tyMI256 ∈ b.types ∨ tyFP ∈ b.types) := by
  rw [addIntegrity_err_iff H b c .sha1
    (bytesWithExtraLen_some b (reach_ok H hH b hr) 24 hs)]
  simp only [integrityBlockers, List.mem_cons, List.not_mem_nil, or_false]
  constructor
  · rintro ⟨t, ht, rfl | rfl | rfl⟩
    · exact Or.inl ht
    · exact Or.inr (Or.inl ht)
    · exact Or.inr (Or.inr ht)
  · rintro (h | h | h)
    · exact ⟨_, h, Or.inl rfl⟩
    · exact ⟨_, h, Or.inr (Or.inl rfl)⟩
    · exact ⟨_, h, Or.inr (Or.inr rfl)⟩

/-- SHA-256 integrity is refused exactly once a SHA-256 integrity or fingerprint is present -/
theorem sha256_refused_iff (H : Hashes) (hH : Spec.HashesOk H) (b : Builder) (hr : Spec.Reach H b)
    (c : Creds) (hs : b.byteLen + 36 ≤ 65535 + 20) :
    (∃ e, b.addIntegrity H c .sha256 = .error e) ↔ (tyMI256 ∈ b.types ∨ tyFP ∈ b.types) := by
  rw [addIntegrity_err_iff H b c .sha256
    (bytesWithExtraLen_some b (reach_ok H hH b hr) 36 hs)]
  simp only [integrityBlockers, List.mem_cons, List.not_mem_nil, or_false]
  constructor
  · rintro ⟨t, ht, rfl | rfl⟩
    · exact Or.inl ht
    · exact Or.inr ht
  · rintro (h | h)
    · exact ⟨_, h, Or.inl rfl⟩
    · exact ⟨_, h, Or.inr rfl⟩

/-- a second fingerprint is refused, a first one is not -/
theorem fp_refused_iff (H : Hashes) (hH : Spec.HashesOk H) (b : Builder) (hr : Spec.Reach H b)
    (hs : b.byteLen + 8 ≤ 65535 + 20) :
    (∃ e, b.addFingerprint = .error e) ↔ tyFP ∈ b.types := by
  exact addFingerprint_err_iff b (bytesWithExtraLen_some b (reach_ok H hH b hr) 8 hs)

/-- a refused operation leaves the builder exactly as it was -/
theorem refused_unchanged (H : Hashes) (b : Builder) (op : Spec.BOp)
    (h : (Spec.applyOp H b op).2 = false) : (Spec.applyOp H b op).1 = b := by
  cases op with
  | add a =>
    simp only [Spec.applyOp] at h ⊢
    cases hh : b.add a with
    | ok b' => rw [hh] at h; cases h
    | error e => rfl
  | integrity c algo =>
    simp only [Spec.applyOp] at h ⊢
    cases hh : b.addIntegrity H c algo with
    | ok b' => rw [hh] at h; cases h
    | error e => rfl
  | fingerprint =>
    simp only [Spec.applyOp] at h ⊢
    cases hh : b.addFingerprint with
    | ok b' => rw [hh] at h; cases h
    | error e => rfl
  | intoOwned => simp [Spec.applyOp] at h
  | clone => rfl

/-- any operation sequence (any length, refused operations included) from a fresh builder stays
    within the reachable states -/
theorem runOps_reach (H : Hashes) (ty tid : Nat) (hty : ty < 0x4000) (htid : tid < 2 ^ 96)
    (ops : List Spec.BOp) (hops : ∀ op ∈ ops, Spec.opAddable op) :
    Spec.Reach H (Spec.runOps H (Builder.new ty tid) ops) := by
  exact runOps_reach_of H ops _ (Spec.Reach.new ty tid hty htid) hops

/-- … and the ending attributes of a reachable builder are, in order, an optional
    MESSAGE-INTEGRITY, an optional MESSAGE-INTEGRITY-SHA256 and an optional FINGERPRINT, after all
    other attributes -/
theorem tail_shape (H : Hashes) (b : Builder) (hr : Spec.Reach H b) :
    ∃ pre tail, b.types = pre ++ tail ∧ (∀ t ∈ pre, Spec.isEnding t = false) ∧
      tail ∈ [[], [tyMI], [tyMI256], [tyMI, tyMI256], [tyFP], [tyMI, tyFP], [tyMI256, tyFP],
              [tyMI, tyMI256, tyFP]] := by
  exact reach_tailShape H b hr

example (H : Hashes) : (Spec.applyOp H (Builder.new 1 5) .fingerprint).2 = true := by
  simp [Spec.applyOp, Builder.addFingerprint, Builder.hasAttribute, Builder.new,
    Builder.bytesWithExtraLen]
  decide

end StunVerif.C11
