/-
Source agreement for whole function bodies of the agent.  The functions in `Gen/FnAgent.lean` are
re-translated, statement by statement, from /repo's `stun-proto/src/agent.rs` on every run
(tools/extract_fns.py); each theorem here says that the translated function *is* the hand-written
model function the property theorems (C05, C06, C07, C15, C18, C20) are about, for all arguments.
A change to the control flow of one of these functions changes `Gen/FnAgent.lean` and this file
stops checking unless the change is semantically neutral.
-/
import StunVerif.Gen.FnAgent
import StunVerif.Agent.Agent
import StunVerif.Lemmas.AgentMap
import StunVerif.Lemmas.AgentAuth
namespace StunVerif.SrcFnAgent
open StunVerif StunVerif.Agent

/-- `StunRequestState::poll` as written in the source = `Agent.reqPoll` -/
theorem src_reqPoll (r : Req) (now : Time) : Gen.reqPoll r now = Agent.reqPoll r now := by
  unfold Gen.reqPoll Agent.reqPoll
  cases h : r.lastSend <;> simp only [] <;> repeat' split <;> first | rfl | omega | simp_all

/-- `StunAgent::validated_peer` -/
theorem src_validatedPeer (s : State) (a : SockAddr) : Gen.validatedPeer s a = Agent.validatedPeer s a := by
  unfold Gen.validatedPeer Agent.validatedPeer
  split <;> simp_all

/-- `StunAgent::take_outstanding_request`: the state loses the id, the result is what was stored -/
theorem src_takeOutstanding (s : State) (t : Nat) :
    Gen.takeOutstanding s t = ({ s with out := remove s.out t }, lookup s.out t) := by
  unfold Gen.takeOutstanding
  cases h : lookup s.out t <;> simp

theorem remove_of_lookup_none (out : List (Nat × Req)) (t : Nat) (h : lookup out t = none) :
    remove out t = out := by
  apply remove_eq_self_of_not_mem
  intro hm
  have := (lookup_isSome_iff out t).mpr hm
  simp [h] at this

/-- `StunAgent::handle_stun` as written in the source = the model's `handle` step -/
theorem src_handleStun (s : State) (m : InMsg) (src : SockAddr) :
    Gen.handleStun s m src = Agent.step s (.handle m src) := by
  unfold Gen.handleStun
  simp only [src_takeOutstanding, src_validatedPeer, Agent.step]
  by_cases hr : m.isResponse
  · simp only [hr, if_true]
    cases hl : lookup s.out m.tid with
    | none => simp [remove_of_lookup_none _ _ hl]
    | some r =>
      simp only []
      by_cases hc : r.hadCreds
      · simp only [hc, if_true]
        cases hk : s.remoteCreds with
        | none => simp
        | some k =>
          simp only []
          cases hv : m.validUnder k <;> simp
      · simp [hc]
  · simp [hr]

/-- `StunAgent::send` for a request = the model's `sendReq` step -/
theorem src_send_request (s : State) (tid : Nat) (bytes : Bytes) (hc : Bool) (to : SockAddr) (now : Time) :
    Gen.send s true tid bytes hc to now = Agent.step s (.sendReq tid bytes hc to now) := by
  unfold Gen.send
  simp only [src_reqPoll, Agent.step, if_true]
  split
  · rfl
  · cases h : reqPoll (Req.new s.transport bytes hc to) now with
    | mk r' ret => cases ret <;> simp [mkTransmit]

/-- `StunAgent::send` for an indication or response = the model's `sendOther` step -/
theorem src_send_other (s : State) (tid : Nat) (bytes : Bytes) (hc : Bool) (to : SockAddr) (now : Time) :
    Gen.send s false tid bytes hc to now = Agent.step s (.sendOther bytes to) := by
  simp [Gen.send, Agent.step]

/-- `StunRequestMut::cancel` / `cancel_retransmissions` / `configure_timeout`: the per-request
    update the model's steps apply -/
theorem src_cancel (s : State) (tid : Nat) :
    Agent.step s (.cancel tid) = ({ s with out := update s.out tid Gen.cancel }, .unit) := by
  have : Gen.cancel = fun r => { r with sendCancelled := true, recvCancelled := true } := rfl
  simp [Agent.step, this]

theorem src_cancelRetransmissions (s : State) (tid : Nat) :
    Agent.step s (.cancelRtx tid) = ({ s with out := update s.out tid Gen.cancelRetransmissions }, .unit) := by
  have : Gen.cancelRetransmissions = fun r => { r with sendCancelled := true } := rfl
  simp [Agent.step, this]

theorem foldl_add_eq_sum (f : Nat → Nat) (l : List Nat) (a : Nat) :
    l.foldl (fun acc i => acc + f i) a = a + (l.map f).sum := by
  induction l generalizing a with
  | nil => simp
  | cons x xs ih => simp [ih]; omega

theorem src_configureTimeout (tr : Transport) (r : Req) (rto n last : Nat) :
    Gen.configureTimeout tr r rto n last = Agent.configureReq tr r rto n last := by
  unfold Gen.configureTimeout Agent.configureReq
  cases tr <;> simp [foldl_add_eq_sum]

end StunVerif.SrcFnAgent
