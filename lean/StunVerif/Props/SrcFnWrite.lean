/-
Source agreement for the serialisation root (C03, C12, C18, and through `build()` C04/C09/C11): `MessageBuilder::{byte_len,
write_into, build}` are re-translated from the source on every run (`Gen/FnWrite.lean`: the size formula, the size guard and
its error, the order and offsets of the three header writes with the cookie/transaction-id word as the code computes it, the
16-bit cast of the length, the attribute loop with its running offset and `?`) and equal the model's `Builder.byteLen`,
`Builder.writeInto`, `Builder.build` for every builder and every destination buffer.
-/
import StunVerif.Gen.FnWrite
import StunVerif.Lemmas.BE
import StunVerif.Props.SrcFnDecode
namespace StunVerif.SrcFnWrite
open StunVerif

theorem src_byteLen (b : Builder) : Gen.byteLen b = b.byteLen := by
  unfold Gen.byteLen Builder.byteLen Gen.headerLength
  rfl

/-- the attribute loop: each attribute writes into `dest[offset..]`, the offset advances by what it reports, the first
    error ends the loop -/
theorem src_writeAttrsLoop (attrs : List BAttr) (dest : Bytes) (off : Nat) :
    Gen.writeAttrsLoop attrs dest off = writeAttrs attrs dest off := by
  induction attrs generalizing dest off with
  | nil => rfl
  | cons a as ih =>
    unfold Gen.writeAttrsLoop writeAttrs
    cases h : a.writeInto (dest.drop off) with
    | error e => rfl
    | ok r =>
      obtain ⟨n, sub⟩ := r
      simp only
      exact ih _ _

/-- `encBE` only sees its argument modulo `256^k` -/
theorem encBE_mod (k n : Nat) : encBE k (n % 256 ^ k) = encBE k n := by
  induction k generalizing n with
  | zero => rfl
  | succ k ih =>
    simp only [encBE]
    have h1 : n % 256 ^ (k + 1) / 256 = (n / 256) % 256 ^ k := by
      rw [Nat.pow_succ, Nat.mul_comm, Nat.mod_mul_right_div_self]
    have h2 : UInt8.ofNat (n % 256 ^ (k + 1)) = UInt8.ofNat n := by
      apply UInt8.toNat_inj.mp
      simp only [UInt8.toNat_ofNat']
      rw [Nat.pow_succ, Nat.mul_comm]
      exact Nat.mod_mul_right_mod n 256 (256 ^ k)
    rw [h1, h2, ih]

/-- the 128-bit word the code writes at offset 4 — `(MAGIC_COOKIE as u128) << 96 | transaction & 0xffff…` — is the cookie
    followed by the 96-bit transaction id -/
theorem tid_word (t : Nat) :
    encBE 16 (((Gen.magicCookie % 340282366920938463463374607431768211456) <<< 96) ||| (t &&& 79228162514264337593543950335))
      = cookieBytes ++ encBE 12 t := by
  have hmask : t &&& 79228162514264337593543950335 = t % 2 ^ 96 := by
    have : (79228162514264337593543950335 : Nat) = 2 ^ 96 - 1 := by decide
    rw [this, Nat.and_two_pow_sub_one_eq_mod]
  have hlt : t % 2 ^ 96 < 2 ^ 96 := Nat.mod_lt _ (by decide)
  have hc : Gen.magicCookie % 340282366920938463463374607431768211456 = 554869826 := by decide
  rw [hmask, hc, ← Nat.shiftLeft_add_eq_or_of_lt hlt, Nat.shiftLeft_eq]
  have hv : (cookieBytes ++ encBE 12 (t % 2 ^ 96)).length = 16 := by
    simp [cookieBytes, encBE]
  have h12 : (encBE 12 (t % 2 ^ 96)).length = 12 := by simp [encBE]
  have hb : beNat (cookieBytes ++ encBE 12 (t % 2 ^ 96)) = 554869826 * 2 ^ 96 + t % 2 ^ 96 := by
    rw [SrcFnDecode.beNat_append, h12, SrcFnDecode.pow_256_12]
    rw [beNat_encBE 12 _ (by rw [SrcFnDecode.pow_256_12]; exact hlt)]
    have : beNat cookieBytes = 554869826 := by decide
    rw [this]
  rw [← hb, encBE_beNat 16 _ hv]
  have := encBE_mod 12 t
  rw [SrcFnDecode.pow_256_12] at this
  rw [this]

/-- three header writes at 0, 4 and 2 into a destination of at least twenty bytes -/
theorem header_puts (dest A B C : Bytes) (hA : A.length = 2) (hB : B.length = 2) (hC : C.length = 16)
    (hd : 20 ≤ dest.length) :
    Gen.put (Gen.put (Gen.put dest 0 A) 4 C) 2 B = A ++ B ++ C ++ dest.drop 20 := by
  obtain ⟨a0, a1, rfl⟩ : ∃ a0 a1, A = [a0, a1] := by
    match A, hA with
    | [x, y], _ => exact ⟨x, y, rfl⟩
  obtain ⟨b0, b1, rfl⟩ : ∃ b0 b1, B = [b0, b1] := by
    match B, hB with
    | [x, y], _ => exact ⟨x, y, rfl⟩
  match dest, hd with
  | d0 :: d1 :: d2 :: d3 :: rest, hd =>
    have hr : 16 ≤ rest.length := by simp at hd; omega
    simp only [Gen.put, List.take_zero, List.nil_append, List.length_cons, List.length_nil, List.drop_succ_cons,
      List.drop_zero, List.cons_append, List.take_succ_cons, hC]

theorem src_writeInto (b : Builder) (dest : Bytes) : Gen.writeInto b dest = b.writeInto dest := by
  unfold Gen.writeInto Builder.writeInto
  simp only [src_byteLen, src_writeAttrsLoop, Gen.headerLength]
  by_cases h : b.byteLen > dest.length
  · simp [h]
  · simp only [h, if_false]
    have h20 : 20 ≤ b.byteLen := by unfold Builder.byteLen; omega
    have hd : 20 ≤ dest.length := by omega
    have hmod : enc16 ((b.byteLen - 20) % 65536) = enc16 (b.byteLen - 20) := by
      simp [enc16]
      constructor
      · apply UInt8.toNat_inj.mp; simp only [UInt8.toNat_ofNat']; omega
      · apply UInt8.toNat_inj.mp; simp only [UInt8.toNat_ofNat']; omega
    rw [tid_word, hmod, header_puts dest _ _ _ (by simp [enc16]) (by simp [enc16]) (by simp [cookieBytes, encBE]) hd]
    simp [List.append_assoc]

theorem src_build (b : Builder) : Gen.build b = b.build := by
  unfold Gen.build Builder.build
  simp only [src_writeInto, Gen.headerLength]
  have : List.replicate (20 + (List.map (fun attr => attr.paddedLen) b.attrs).sum) (0 : UInt8) = zeros b.byteLen := rfl
  rw [this]
  cases h : b.writeInto (zeros b.byteLen) with
  | error e => rfl
  | ok r => obtain ⟨n, d⟩ := r; rfl

/-- hence the transmitted bytes of the composed agent model, the HMAC/CRC inputs of the sealing operations and the
    builder round trip of C03 are about `Gen.build`, i.e. about the source text of `build`/`write_into`/`byte_len` -/
theorem build_is_source (b : Builder) : b.build = Gen.build b := (src_build b).symm

end StunVerif.SrcFnWrite
