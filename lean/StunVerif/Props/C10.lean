/-
C10 — only authenticated attributes are exposed after an integrity attribute.
Property theorems only (statements are fixed; helper lemmas live in `Lemmas/Parse.lean`).
-/
import StunVerif.Spec.Msg
import StunVerif.Lemmas.Parse
namespace StunVerif.C10
open StunVerif

/-- what iteration (and hence every lookup) exposes is exactly `Spec.exposed` of the attribute
    sequence: everything up to and including the first integrity attribute, then a
    MESSAGE-INTEGRITY-SHA256 directly following a MESSAGE-INTEGRITY, then the FINGERPRINT -/
theorem iter_eq_exposed (m : Msg) : m.iter = Spec.exposed m.allAttrs := by
  exact iterGo_eq_exposed _ _

/-- the FINGERPRINT of an accepted message is always exposed -/
theorem fp_always_exposed (b : Bytes) (m : Msg) (h : msgFromBytes b = .ok m)
    (a : RawAttr) (ha : a ∈ m.allAttrs) (hf : a.ty = tyFP) : a ∈ m.iter := by
  rw [iter_eq_exposed]
  exact fp_mem_exposed _ a ha hf

/-- every attribute before the first integrity attribute, and that attribute itself, is exposed -/
theorem prefix_exposed (as pre : List RawAttr) (i : RawAttr) (rest : List RawAttr)
    (h : as = pre ++ i :: rest) (hpre : ∀ a ∈ pre, Spec.isIntegrity a.ty = false)
    (hi : Spec.isIntegrity i.ty = true) :
    ∃ tail, Spec.exposed as = pre ++ i :: tail ∧
      ∀ a ∈ tail, a.ty = tyFP ∨ (a.ty = tyMI256 ∧ i.ty = tyMI ∧ rest.head? = some a) := by
  subst h
  exact exposed_append_int pre i rest hpre hi

/-- nothing else located after an integrity attribute is ever exposed: in particular no ordinary
    attribute -/
theorem nothing_else (as pre : List RawAttr) (i : RawAttr) (rest : List RawAttr)
    (h : as = pre ++ i :: rest) (hpre : ∀ a ∈ pre, Spec.isIntegrity a.ty = false)
    (hi : Spec.isIntegrity i.ty = true) (a : RawAttr)
    (ha : a ∈ (Spec.exposed as).drop (pre.length + 1)) : Spec.isEnding a.ty = true := by
  subst h
  obtain ⟨tail, h1, h2⟩ := exposed_append_int pre i rest hpre hi
  rw [h1] at ha
  have hd : (pre ++ i :: tail).drop (pre.length + 1) = tail := by
    rw [show pre ++ i :: tail = (pre ++ [i]) ++ tail by simp]
    exact List.drop_left' (by simp)
  rw [hd] at ha
  rcases h2 a ha with h | ⟨h, _, _⟩ <;> simp [Spec.isEnding, h]

/-- without an integrity attribute everything is exposed -/
theorem all_exposed_without_integrity (as : List RawAttr)
    (h : ∀ a ∈ as, Spec.isIntegrity a.ty = false) : Spec.exposed as = as := by
  exact exposed_no_int as h

/-- replacing what follows the first integrity attribute never changes the exposed attributes
    before it (nor the integrity attribute itself) -/
theorem suffix_independent (pre : List RawAttr) (i : RawAttr) (rest rest' : List RawAttr)
    (hpre : ∀ a ∈ pre, Spec.isIntegrity a.ty = false) (hi : Spec.isIntegrity i.ty = true) :
    (Spec.exposed (pre ++ i :: rest)).take (pre.length + 1) =
    (Spec.exposed (pre ++ i :: rest')).take (pre.length + 1) := by
  obtain ⟨tail, h1, _⟩ := exposed_append_int pre i rest hpre hi
  obtain ⟨tail', h1', _⟩ := exposed_append_int pre i rest' hpre hi
  have ht : ∀ tl : List RawAttr, (pre ++ i :: tl).take (pre.length + 1) = pre ++ [i] := by
    intro tl
    rw [show pre ++ i :: tl = (pre ++ [i]) ++ tl by simp]
    exact List.take_left' (by simp)
  rw [h1, h1', ht, ht]

/-! Non-vacuity: [SOFTWARE, MI, MI-SHA256, FP] exposes all four; [MI-SHA256, MI, SOFTWARE?]. -/
example :
    Spec.exposed [⟨0x8022, []⟩, ⟨8, []⟩, ⟨0x1c, []⟩, ⟨0x8028, []⟩] =
      [⟨0x8022, []⟩, ⟨8, []⟩, ⟨0x1c, []⟩, ⟨0x8028, []⟩] := by decide
example :
    Spec.exposed [⟨0x1c, []⟩, ⟨8, []⟩, ⟨0x8028, []⟩] = [⟨0x1c, []⟩, ⟨0x8028, []⟩] := by decide

end StunVerif.C10
