/-
Source agreement for the byte-level decoders `AttributeHeader::parse`, `RawAttribute::from_bytes`,
`MessageType::from_bytes` and `MessageHeader::from_bytes` (C01, C02, C08, C17, C19): each is re-translated
from the source on every run (`Gen/FnMsg.lean`) and equals the model function on every byte string.
`Gen.msgFromBytes`, `Gen.msgWalk` and `Gen.iterNext` call these generated decoders, so the whole parse
path from bytes to the exposed attribute list is source text, not hand-written model.
-/
import StunVerif.Gen.FnMsg
import StunVerif.Lemmas.BE
import StunVerif.Lemmas.Bytes
import StunVerif.Lemmas.Header
import StunVerif.Props.C19
namespace StunVerif.SrcFnDecode
open StunVerif

theorem src_rawFromBytes (d : Bytes) : Gen.rawFromBytes d = rawFromBytes d := by
  unfold Gen.rawFromBytes Gen.attrHeaderParse rawFromBytes
  match d with
  | [] => simp
  | [a] => simp
  | [a, b] => simp
  | [a, b, c] => simp
  | a :: b :: c :: e :: rest =>
    simp only [List.length_cons, List.getD_cons_zero, List.getD_cons_succ]
    have h4 : ¬ (rest.length + 1 + 1 + 1 + 1 < 4) := by omega
    simp only [h4, if_false]
    have hl : rest.length + 1 + 1 + 1 + 1 - 4 = rest.length := by omega
    rw [hl]
    split
    · rfl
    · simp [List.take_succ_cons, List.drop_succ_cons]

theorem src_msgTypeFromBytes (d : Bytes) : Gen.msgTypeFromBytes d = msgTypeFromBytes d := by
  unfold Gen.msgTypeFromBytes msgTypeFromBytes
  match d with
  | [] => simp
  | [a] => simp
  | a :: b :: rest =>
    simp only [List.length_cons, List.getD_cons_zero, List.getD_cons_succ]
    have h2 : ¬ (rest.length + 1 + 1 < 2) := by omega
    simp only [h2, if_false]
    have hv := be16_lt a b
    have := C19.refuse_iff (be16 a b) hv
    simp only [Gen.typeIsNotStun, decide_eq_true_eq] at this
    by_cases h : 16384 ≤ be16 a b
    · have h' := this.mpr h
      simp [h, h']
    · have h' : ¬ (be16 a b &&& 49152 ≠ 0) := fun x => h (this.mp x)
      have h'' : ¬ be16 a b ≥ 16384 := h
      simp only [h', if_false]
      simp [h'']

theorem foldl_be (b : Bytes) (acc : Nat) :
    b.foldl (fun acc x => acc * 256 + x.toNat) acc = acc * 256 ^ b.length + beNat b := by
  induction b generalizing acc with
  | nil => simp [beNat]
  | cons x xs ih =>
    have h1 := ih (acc * 256 + x.toNat)
    have h2 := ih (0 * 256 + x.toNat)
    simp only [List.foldl_cons, List.length_cons, Nat.pow_succ, beNat] at h1 h2 ⊢
    rw [h1, h2]
    simp only [Nat.zero_mul, Nat.zero_add, Nat.add_mul]
    rw [Nat.mul_assoc, Nat.mul_comm 256 (256 ^ xs.length)]
    omega

theorem beNat_append (a b : Bytes) : beNat (a ++ b) = beNat a * 256 ^ b.length + beNat b := by
  have := foldl_be b (beNat a)
  unfold beNat at this ⊢
  rw [List.foldl_append]
  exact this

theorem pow_256_12 : (256 : Nat) ^ 12 = 2 ^ 96 := by
  rw [show (256 : Nat) = 2 ^ 8 from rfl, ← Nat.pow_mul]

theorem pow_256_4 : (256 : Nat) ^ 4 = 4294967296 := by
  rw [show (256 : Nat) = 2 ^ 8 from rfl, ← Nat.pow_mul]

theorem cookie_iff (v : Bytes) (h : v.length = 4) : beNat v = 554869826 ↔ v = cookieBytes := by
  constructor
  · intro e
    have := encBE_beNat 4 v h
    rw [e] at this
    rw [← this]; decide
  · intro e; subst e; decide

theorem len_field (d : Bytes) (h : 4 ≤ d.length) :
    be16 (d.getD 2 0) (d.getD (2 + 1) 0) = beNat ((d.drop 2).take 2) := by
  match d, h with
  | a :: b :: c :: e :: rest, _ => simp [beNat_two]
  | [], h => simp at h
  | [_], h => simp at h
  | [_, _], h => simp at h
  | [_, _, _], h => simp at h

theorem src_headerFromBytes (d : Bytes) : Gen.headerFromBytes d = headerFromBytes d := by
  unfold Gen.headerFromBytes headerFromBytes
  by_cases hlen : d.length < 20
  · simp [hlen]
  · simp only [hlen, if_false, src_msgTypeFromBytes, bind, Except.bind]
    cases hm : msgTypeFromBytes d with
    | error e => rfl
    | ok ty =>
      simp only
      -- split the 16 bytes after the length field into cookie and transaction id
      have h16 : (d.drop 4).take 16 = (d.drop 4).take 4 ++ (d.drop 8).take 12 := by
        have : (d.drop 4).take 16 = (d.drop 4).take 4 ++ ((d.drop 4).drop 4).take 12 := by
          rw [← List.take_add]
        rw [this, List.drop_drop]
      have hc4 : ((d.drop 4).take 4).length = 4 := by simp; omega
      have ht12 : ((d.drop 8).take 12).length = 12 := by simp; omega
      have hcl := beNat_lt_of_length 4 _ hc4
      have htl := beNat_lt_of_length 12 _ ht12
      rw [h16, beNat_append, ht12]
      have hshift : (beNat ((d.drop 4).take 4) * 256 ^ 12 + beNat ((d.drop 8).take 12)) >>> 96 % 4294967296
          = beNat ((d.drop 4).take 4) := by
        rw [Nat.shiftRight_eq_div_pow]
        have e1 := pow_256_12
        rw [e1]
        have : (beNat ((d.drop 4).take 4) * 2 ^ 96 + beNat ((d.drop 8).take 12)) / 2 ^ 96 = beNat ((d.drop 4).take 4) := by
          rw [e1] at htl
          rw [Nat.mul_comm, Nat.mul_add_div (by decide)]
          rw [Nat.div_eq_of_lt htl]; rfl
        rw [this]
        rw [pow_256_4] at hcl
        exact Nat.mod_eq_of_lt hcl
      rw [hshift]
      have htid : Gen.tidFromU128 (beNat ((d.drop 4).take 4) * 256 ^ 12 + beNat ((d.drop 8).take 12))
          = beNat ((d.drop 8).take 12) := by
        rw [C19.tid_mask]
        have e1 := pow_256_12
        rw [e1] at htl ⊢
        rw [Nat.mul_comm, Nat.mul_add_mod]
        exact Nat.mod_eq_of_lt htl
      rw [htid]
      have hck := cookie_iff _ hc4
      have hlen2 := len_field d (by omega)
      rw [hlen2]
      by_cases hcook : (d.drop 4).take 4 = cookieBytes
      · have hb : beNat cookieBytes = 554869826 := by rw [← hcook]; exact hck.mpr hcook
        simp [hcook, hb, Gen.magicCookie]
      · have : beNat ((d.drop 4).take 4) ≠ 554869826 := fun e => hcook (hck.mp e)
        simp [hcook, this, Gen.magicCookie]

end StunVerif.SrcFnDecode
