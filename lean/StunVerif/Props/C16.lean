/-
C16 — attribute policing returns exactly the RFC 8489 §6.3.1 verdict.
Property theorems only (statements are fixed; helper lemmas live in `Lemmas/Police.lean`).
-/
import StunVerif.Spec.Police
import StunVerif.Spec.Builder
import StunVerif.Lemmas.Police
import StunVerif.Gen.Attr
namespace StunVerif.C16
open StunVerif

/-- the verdict is the RFC verdict on the exposed types, in message order -/
theorem police_eq_spec (m : Msg) (sup req : List Nat) :
    checkAttributeTypes m sup req =
      match Spec.police (m.iter.map (·.ty)) sup req with
      | .unknown420 u => some (unknownAttributesResp m u)
      | .bad400 => some (badRequestResp m)
      | .pass => none := by
  exact checkAttributeTypes_eq m sup req

/-- a 420 verdict always lists at least one type, and never more than fit one attribute -/
theorem unknown_list_bounds (b : Bytes) (m : Msg) (sup req : List Nat) (u : List Nat)
    (hp : msgFromBytes b = .ok m) (h : Spec.police (m.iter.map (·.ty)) sup req = .unknown420 u) :
    u ≠ [] ∧ u.length < 16384 ∧ ∀ t ∈ u, t < 0x8000 := by
  obtain ⟨hne, rfl⟩ := police_unknown _ _ _ _ h
  refine ⟨hne, ?_, ?_⟩
  · have h1 := iter_length_lt hp
    have h2 := List.length_filter_le (fun t => decide (t < 0x8000 ∧ t ∉ sup)) (m.iter.map (·.ty))
    rw [List.length_map] at h2
    omega
  · intro t ht
    simp only [List.mem_filter, decide_eq_true_eq] at ht
    exact ht.2.1

/-- building the responses never hits the `unwrap()` of a refused `add_attribute` (C01): every
    attribute of the response is really there -/
theorem resp_attrs (m : Msg) (u : List Nat) :
    (unknownAttributesResp m u).attrs.map BAttr.ty =
      (if u.isEmpty then [0x8022, 0x0009] else [0x8022, 0x0009, 0x000A]) ∧
    (badRequestResp m).attrs.map BAttr.ty = [0x8022, 0x0009] := by
  refine ⟨?_, ?_⟩
  · cases u with
    | nil => rw [unknownAttributesResp_nil]; rfl
    | cons x xs => rw [unknownAttributesResp_cons m (x :: xs) (by simp)]; rfl
  · rw [badRequestResp_eq]; rfl

/-- comprehension-required is exactly "type value < 0x8000", for the model and for the source's own
    expression (translated on this run), for every type value -/
theorem comprehension_iff (t : Nat) :
    (comprehensionRequired t = true ↔ t < 0x8000) ∧ (Gen.comprehensionRequired t = true ↔ t < 0x8000) := by
  simp [comprehensionRequired, Gen.comprehensionRequired]

example : Spec.police [0x0006, 0x8022, 0x0024] [0x0006] [] = .unknown420 [0x0024] := by decide
example : Spec.police [0x0006] [0x0006] [0x0008] = .bad400 := by decide

end StunVerif.C16
