/-
Source agreement for `MessageAttributesIter::next` (C10, C02, C03).  `Gen.iterNext` is re-translated
from the source on every run (the `loop` with its `continue` and early `return`s becomes a
fuel-recursive function, one unit of fuel per loop iteration).  The theorem: calling the source's `next`
until it first answers `None`, starting from the state `iter_attributes` builds, yields exactly
`Msg.iter` -- the list the exposure theorems (C10 `iter_eq_exposed`, C02 `parse_faithful`) are about --
and `data.len() + 1` units of fuel always suffice (the loop terminates).
-/
import StunVerif.Gen.FnMsg
import StunVerif.Lemmas.Total
import StunVerif.Props.SrcFnDecode
namespace StunVerif.SrcFnIter
open StunVerif

/-- iterate the source's `next` until the first `None` (at most `n` items) -/
def collect (data : Bytes) : Nat → IterSt → List RawAttr
  | 0, _ => []
  | n + 1, st =>
    match Gen.iterNext data (data.length + 1) st with
    | (st', some a) => a :: collect data n st'
    | (_, none) => []

def rem (data : Bytes) (st : IterSt) : Nat := data.length - st.dataI

/-- the flag invariant of the iterator: `last_was_message_integrity` is only ever set together with
    `seen_message_integrity` -/
def Inv (st : IterSt) : Prop := st.seen = false → st.lastMI = false

theorem drop_drop_len (data : Bytes) (i p : Nat) : ((data.drop i).drop p) = data.drop (i + p) := by
  rw [List.drop_drop]

theorem iterGo_succ_ok (n : Nat) (data : Bytes) (seen lastMI : Bool) (a : RawAttr)
    (hemp : data.isEmpty = false) (hr : rawFromBytes data = .ok a) :
    iterGo (n + 1) data seen lastMI =
      (if seen then
        if lastMI && a.ty = tyMI256 then a :: iterGo n (data.drop a.paddedLen) true false
        else if a.ty = tyFP then a :: iterGo n (data.drop a.paddedLen) true false
        else iterGo n (data.drop a.paddedLen) true false
      else a :: iterGo n (data.drop a.paddedLen) (a.ty = tyMI || a.ty = tyMI256) (a.ty = tyMI)) := by
  conv => lhs; unfold iterGo
  simp [hemp, hr]

theorem iterGo_succ_err (n : Nat) (data : Bytes) (seen lastMI : Bool) (e : PErr)
    (hemp : data.isEmpty = false) (hr : rawFromBytes data = .error e) :
    iterGo (n + 1) data seen lastMI = [] := by
  conv => lhs; unfold iterGo
  simp [hemp, hr]

/-- one call of the source's `next` against the list model -/
theorem next_spec (data : Bytes) : ∀ (fuel : Nat) (st : IterSt), rem data st < fuel → Inv st →
    match Gen.iterNext data fuel st with
    | (st', some a) =>
        iterGo (rem data st) (data.drop st.dataI) st.seen st.lastMI
          = a :: iterGo (rem data st') (data.drop st'.dataI) st'.seen st'.lastMI
        ∧ rem data st' < rem data st ∧ Inv st'
    | (_, none) => iterGo (rem data st) (data.drop st.dataI) st.seen st.lastMI = [] := by
  intro fuel
  induction fuel with
  | zero => intro st h; omega
  | succ fuel ih =>
    intro st hf hinv
    rw [Gen.iterNext]
    simp only [SrcFnDecode.src_rawFromBytes]
    by_cases hge : st.dataI ≥ data.length
    · simp only [hge, if_true]
      have : rem data st = 0 := by unfold rem; omega
      rw [this]; rfl
    · simp only [hge, if_false]
      have hpos : 0 < rem data st := by unfold rem; omega
      obtain ⟨n, hn⟩ : ∃ n, rem data st = n + 1 := ⟨rem data st - 1, by omega⟩
      have hne : (data.drop st.dataI) ≠ [] := by
        intro h
        have := congrArg List.length h
        simp at this; omega
      have hemp : (data.drop st.dataI).isEmpty = false := by
        cases h : data.drop st.dataI with
        | nil => exact absurd h hne
        | cons => rfl
      cases hr : rawFromBytes (data.drop st.dataI) with
      | error e =>
        simp only [hn, rem]
        simp only [rem] at hn
        rw [hn, iterGo_succ_err n _ _ _ e hemp hr]
      | ok a =>
        simp only
        have hp := paddedLen_ge a
        have hlen := drop_paddedLen_length a (data.drop st.dataI) hne
        rw [List.length_drop, List.length_drop] at hlen
        -- the remaining bytes after this attribute
        have hrest : ∀ (s l : Bool),
            iterGo n ((data.drop st.dataI).drop a.paddedLen) s l
              = iterGo (data.length - (st.dataI + a.paddedLen)) (data.drop (st.dataI + a.paddedLen)) s l := by
          intro s l
          rw [drop_drop_len]
          apply iterGo_fuel_irrel
          · rw [List.length_drop]; unfold rem at hn; omega
          · rw [List.length_drop]; omega
        have hremlt : data.length - (st.dataI + a.paddedLen) < data.length - st.dataI := by omega
        simp only [rem] at hn hf ⊢
        cases hseen : st.seen with
        | true =>
          simp only [if_true]
          by_cases h1 : st.lastMI = true ∧ a.ty = tyMI256
          · simp only [h1, and_self, if_true]
            refine ⟨?_, hremlt, by intro h; rfl⟩
            rw [hn, iterGo_succ_ok n _ _ _ a hemp hr]
            simp only [hseen, if_true, h1.1, h1.2, Bool.true_and, decide_true]
            rw [hrest true false]
          · simp only [h1, if_false]
            by_cases h2 : a.ty = tyFP
            · simp only [h2, if_true]
              refine ⟨?_, hremlt, by intro h; rfl⟩
              rw [hn, iterGo_succ_ok n _ _ _ a hemp hr]
              have hc : (st.lastMI && decide (a.ty = tyMI256)) = false := by
                cases hl : st.lastMI <;> simp_all
              simp only [hseen, if_true, h2]
              rw [hrest true false]
              split <;> rfl
            · simp only [h2, if_false]
              -- a hidden attribute: the loop continues
              have ih2 := ih { dataI := st.dataI + a.paddedLen, seen := true, lastMI := false }
                (by simp only [rem]; omega) (by intro h; rfl)
              simp only [rem] at ih2
              have hgo : iterGo (data.length - st.dataI) (data.drop st.dataI) true st.lastMI
                  = iterGo (data.length - (st.dataI + a.paddedLen)) (data.drop (st.dataI + a.paddedLen)) true false := by
                rw [hn, iterGo_succ_ok n _ _ _ a hemp hr]
                have hc : (st.lastMI && decide (a.ty = tyMI256)) = false := by
                  cases hl : st.lastMI <;> simp_all
                simp only [hc, Bool.false_eq_true, if_false, h2, if_true]
                exact hrest true false
              cases hres : Gen.iterNext data fuel { dataI := st.dataI + a.paddedLen, seen := true, lastMI := false } with
              | mk st' o =>
                rw [hres] at ih2
                cases o with
                | none => simp only at ih2 ⊢; rw [hgo]; exact ih2
                | some b =>
                  simp only at ih2 ⊢
                  rw [hgo]
                  exact ⟨ih2.1, by omega, ih2.2.2⟩
        | false =>
          have hl : st.lastMI = false := hinv hseen
          simp only [Bool.false_eq_true, if_false]
          by_cases h1 : a.ty = tyMI ∨ a.ty = tyMI256
          · simp only [h1, if_true]
            refine ⟨?_, hremlt, by intro h; simp at h⟩
            rw [hn, iterGo_succ_ok n _ _ _ a hemp hr]
            simp only [hseen, Bool.false_eq_true, if_false]
            have : (decide (a.ty = tyMI) || decide (a.ty = tyMI256)) = true := by simpa using h1
            rw [this, hrest true (decide (a.ty = tyMI))]
          · simp only [h1, if_false]
            refine ⟨?_, hremlt, by intro h; exact hl⟩
            rw [hn, iterGo_succ_ok n _ _ _ a hemp hr]
            simp only [hseen, Bool.false_eq_true, if_false]
            have h1' : (decide (a.ty = tyMI) || decide (a.ty = tyMI256)) = false := by
              simp only [not_or] at h1; simp [h1.1, h1.2]
            have h2' : decide (a.ty = tyMI) = false := by
              simp only [not_or] at h1; simp [h1.1]
            rw [h1', h2', hrest false false, hl]

theorem collect_eq (data : Bytes) : ∀ (n : Nat) (st : IterSt), rem data st < n → Inv st →
    collect data n st = iterGo (rem data st) (data.drop st.dataI) st.seen st.lastMI := by
  intro n
  induction n with
  | zero => intro st h; omega
  | succ n ih =>
    intro st hn hinv
    have hs := next_spec data (data.length + 1) st (by unfold rem; omega) hinv
    unfold collect
    cases hres : Gen.iterNext data (data.length + 1) st with
    | mk st' o =>
      rw [hres] at hs
      cases o with
      | none => simp only at hs ⊢; exact hs.symm
      | some a =>
        simp only at hs ⊢
        rw [hs.1, ih st' (by omega) hs.2.2]

/-- **Driving the source's `next` from the state `iter_attributes` builds until the first `None`
    yields exactly `Msg.iter`.** -/
theorem src_iter (m : Msg) : collect m.data (m.data.length + 1) IterSt.init = m.iter := by
  rw [collect_eq m.data _ _ (by unfold rem; omega) (by intro _; rfl)]
  unfold Msg.iter IterSt.init
  apply iterGo_fuel_irrel
  · rw [List.length_drop]; unfold rem; simp
  · rw [List.length_drop]; omega

/-- termination: with `data.len() + 1` units of fuel the translated loop never runs out (it answers
    `None` only where the list model ends) -- stated as: the result does not depend on extra fuel -/
theorem src_iter_more_fuel (m : Msg) (k : Nat) :
    collect m.data (m.data.length + 1 + k) IterSt.init = m.iter := by
  rw [collect_eq m.data _ _ (by unfold rem; omega) (by intro _; rfl)]
  unfold Msg.iter IterSt.init
  apply iterGo_fuel_irrel
  · rw [List.length_drop]; unfold rem; simp
  · rw [List.length_drop]; omega

end StunVerif.SrcFnIter
