import StunVerif.Props.C09
import StunVerif.Props.C09Burst
import StunVerif.Props.SrcFnParse
import StunVerif.Props.SrcFnBuilder
import StunVerif.Props.SrcFnWrite
#print axioms StunVerif.C09.xor_constant
#print axioms StunVerif.C09.crc_check_value
#print axioms StunVerif.C09.build_fp
#print axioms StunVerif.C09.build_fp_input
#print axioms StunVerif.C09.accepted_fp_relation
#print axioms StunVerif.C09.input_covers
#print axioms StunVerif.C09.length_field_checked
#print axioms StunVerif.C09.corruption_needs_collision
#print axioms StunVerif.C09.fp_detects
#print axioms StunVerif.C09.fp_detects_parser
#print axioms StunVerif.SrcFnParse.ArrInv.init
#print axioms StunVerif.SrcFnParse.len_le_three
#print axioms StunVerif.SrcFnParse.ending_ne_zero
#print axioms StunVerif.SrcFnParse.ArrInv.contains_eq
#print axioms StunVerif.SrcFnParse.ArrInv.push
#print axioms StunVerif.SrcFnParse.setLen_mod
#print axioms StunVerif.SrcFnParse.endingTypes_eq
#print axioms StunVerif.SrcFnParse.fp_mem
#print axioms StunVerif.SrcFnParse.walk_agree
#print axioms StunVerif.SrcFnParse.src_msgFromBytes
#print axioms StunVerif.SrcFnParse.src_accepts_iff
#print axioms StunVerif.SrcFnBuilder.src_hasAttribute
#print axioms StunVerif.SrcFnBuilder.src_hasAnyAttribute
#print axioms StunVerif.SrcFnBuilder.src_addRawAttribute
#print axioms StunVerif.SrcFnBuilder.src_addAttribute
#print axioms StunVerif.SrcFnBuilder.src_addFingerprint
#print axioms StunVerif.SrcFnBuilder.model_addFingerprint_refused
#print axioms StunVerif.SrcFnBuilder.src_addMessageIntegrity_guard
#print axioms StunVerif.SrcFnBuilder.src_integrityBytes
#print axioms StunVerif.SrcFnBuilder.src_addMessageIntegrity
#print axioms StunVerif.SrcFnBuilder.src_addFingerprint_full
#print axioms StunVerif.SrcFnWrite.src_byteLen
#print axioms StunVerif.SrcFnWrite.src_writeAttrsLoop
#print axioms StunVerif.SrcFnWrite.encBE_mod
#print axioms StunVerif.SrcFnWrite.tid_word
#print axioms StunVerif.SrcFnWrite.header_puts
#print axioms StunVerif.SrcFnWrite.src_writeInto
#print axioms StunVerif.SrcFnWrite.src_build
#print axioms StunVerif.SrcFnWrite.build_is_source
