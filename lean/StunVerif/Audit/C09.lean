import StunVerif.Props.C09
import StunVerif.Props.C09Burst
#print axioms StunVerif.C09.xor_constant
#print axioms StunVerif.C09.crc_check_value
#print axioms StunVerif.C09.build_fp
#print axioms StunVerif.C09.build_fp_input
#print axioms StunVerif.C09.accepted_fp_relation
#print axioms StunVerif.C09.input_covers
#print axioms StunVerif.C09.length_field_checked
#print axioms StunVerif.C09.corruption_needs_collision
#print axioms StunVerif.C09.fp_detects
#print axioms StunVerif.C09.fp_detects_parser
