import StunVerif.Props.C09
import StunVerif.Props.C09Burst
import StunVerif.Props.SrcFnParse
#print axioms StunVerif.C09.xor_constant
#print axioms StunVerif.C09.crc_check_value
#print axioms StunVerif.C09.build_fp
#print axioms StunVerif.C09.build_fp_input
#print axioms StunVerif.C09.accepted_fp_relation
#print axioms StunVerif.C09.input_covers
#print axioms StunVerif.C09.length_field_checked
#print axioms StunVerif.C09.corruption_needs_collision
#print axioms StunVerif.C09.fp_detects
#print axioms StunVerif.C09.fp_detects_parser
#print axioms StunVerif.SrcFnParse.ArrInv.init
#print axioms StunVerif.SrcFnParse.len_le_three
#print axioms StunVerif.SrcFnParse.ending_ne_zero
#print axioms StunVerif.SrcFnParse.ArrInv.contains_eq
#print axioms StunVerif.SrcFnParse.ArrInv.push
#print axioms StunVerif.SrcFnParse.setLen_mod
#print axioms StunVerif.SrcFnParse.endingTypes_eq
#print axioms StunVerif.SrcFnParse.fp_mem
#print axioms StunVerif.SrcFnParse.walk_agree
#print axioms StunVerif.SrcFnParse.src_msgFromBytes
#print axioms StunVerif.SrcFnParse.src_accepts_iff
