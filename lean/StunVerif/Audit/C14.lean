import StunVerif.Props.C14
import StunVerif.Props.SrcFnTcp
#print axioms StunVerif.C14.pull_complete
#print axioms StunVerif.C14.pull_sound
#print axioms StunVerif.C14.pull_none_iff
#print axioms StunVerif.C14.pull_none_intact
#print axioms StunVerif.C14.stream_prefix
#print axioms StunVerif.C14.stream_exact
#print axioms StunVerif.C14.stream_exact_from
#print axioms StunVerif.C14.src_framing
#print axioms StunVerif.SrcFnTcp.src_push
#print axioms StunVerif.SrcFnTcp.src_take
#print axioms StunVerif.SrcFnTcp.src_pull
