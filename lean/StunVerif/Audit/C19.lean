import StunVerif.Props.C19
#print axioms StunVerif.C19.rfc_layout
#print axioms StunVerif.C19.decode_encode
#print axioms StunVerif.C19.refuse_iff
#print axioms StunVerif.C19.unique
#print axioms StunVerif.C19.decode_spec
#print axioms StunVerif.C19.injective
#print axioms StunVerif.C19.tid_mask
#print axioms StunVerif.C19.tid_fits
#print axioms StunVerif.C19.constants
