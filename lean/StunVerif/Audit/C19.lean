import StunVerif.Props.C19
import StunVerif.Props.SrcFnDecode
#print axioms StunVerif.C19.rfc_layout
#print axioms StunVerif.C19.decode_encode
#print axioms StunVerif.C19.refuse_iff
#print axioms StunVerif.C19.unique
#print axioms StunVerif.C19.decode_spec
#print axioms StunVerif.C19.injective
#print axioms StunVerif.C19.tid_mask
#print axioms StunVerif.C19.tid_fits
#print axioms StunVerif.C19.constants
#print axioms StunVerif.SrcFnDecode.src_rawFromBytes
#print axioms StunVerif.SrcFnDecode.src_msgTypeFromBytes
#print axioms StunVerif.SrcFnDecode.foldl_be
#print axioms StunVerif.SrcFnDecode.beNat_append
#print axioms StunVerif.SrcFnDecode.pow_256_12
#print axioms StunVerif.SrcFnDecode.pow_256_4
#print axioms StunVerif.SrcFnDecode.cookie_iff
#print axioms StunVerif.SrcFnDecode.len_field
#print axioms StunVerif.SrcFnDecode.src_headerFromBytes
