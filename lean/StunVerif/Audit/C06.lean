import StunVerif.Props.C06
import StunVerif.Props.C06Sched
#print axioms StunVerif.C06.req_early
#print axioms StunVerif.C06.req_retransmit
#print axioms StunVerif.C06.req_timeout
#print axioms StunVerif.C06.configure_udp
#print axioms StunVerif.C06.configure_tcp
#print axioms StunVerif.C06.retransmit_count
#print axioms StunVerif.C06.on_time_schedule
#print axioms StunVerif.C06.src_defaults
#print axioms StunVerif.C06.default_udp_schedule
#print axioms StunVerif.C06.default_tcp_schedule
#print axioms StunVerif.C06.all_sent
#print axioms StunVerif.C06.wait_is_min_deadline
#print axioms StunVerif.C06.wait_stable
#print axioms StunVerif.C06.wait_then_event
#print axioms StunVerif.C06.idle_wait
#print axioms StunVerif.C06.cancel_rtx_sets
#print axioms StunVerif.C06.cancel_rtx_silent
#print axioms StunVerif.C06.polls_eq_rfc
#print axioms StunVerif.C06.configured_udp_polls
