import StunVerif.Props.C06
import StunVerif.Props.C06Sched
import StunVerif.Props.SrcFnAgent
import StunVerif.Props.SrcFnPoll
#print axioms StunVerif.C06.req_early
#print axioms StunVerif.C06.req_retransmit
#print axioms StunVerif.C06.req_timeout
#print axioms StunVerif.C06.configure_udp
#print axioms StunVerif.C06.configure_tcp
#print axioms StunVerif.C06.retransmit_count
#print axioms StunVerif.C06.on_time_schedule
#print axioms StunVerif.C06.src_defaults
#print axioms StunVerif.C06.default_udp_schedule
#print axioms StunVerif.C06.default_tcp_schedule
#print axioms StunVerif.C06.all_sent
#print axioms StunVerif.C06.wait_is_min_deadline
#print axioms StunVerif.C06.wait_stable
#print axioms StunVerif.C06.wait_then_event
#print axioms StunVerif.C06.idle_wait
#print axioms StunVerif.C06.cancel_rtx_sets
#print axioms StunVerif.C06.cancel_rtx_silent
#print axioms StunVerif.C06.polls_eq_rfc
#print axioms StunVerif.C06.configured_udp_polls
#print axioms StunVerif.SrcFnAgent.src_reqPoll
#print axioms StunVerif.SrcFnAgent.src_validatedPeer
#print axioms StunVerif.SrcFnAgent.src_takeOutstanding
#print axioms StunVerif.SrcFnAgent.remove_of_lookup_none
#print axioms StunVerif.SrcFnAgent.src_handleStun
#print axioms StunVerif.SrcFnAgent.src_send_request
#print axioms StunVerif.SrcFnAgent.src_send_other
#print axioms StunVerif.SrcFnAgent.src_cancel
#print axioms StunVerif.SrcFnAgent.src_cancelRetransmissions
#print axioms StunVerif.SrcFnAgent.foldl_add_eq_sum
#print axioms StunVerif.SrcFnAgent.src_configureTimeout
#print axioms StunVerif.SrcFnPoll.lookup_some_mem
#print axioms StunVerif.SrcFnPoll.update_same
#print axioms StunVerif.SrcFnPoll.remove_update
#print axioms StunVerif.SrcFnPoll.idle_eq
#print axioms StunVerif.SrcFnPoll.loop_nil
#print axioms StunVerif.SrcFnPoll.loop_absent
#print axioms StunVerif.SrcFnPoll.loop_wait
#print axioms StunVerif.SrcFnPoll.loop_ready
#print axioms StunVerif.SrcFnPoll.loop_all_waiting
#print axioms StunVerif.SrcFnPoll.loop_first_ready
#print axioms StunVerif.SrcFnPoll.not_ready_waiting
#print axioms StunVerif.SrcFnPoll.foldl_congr_mem
#print axioms StunVerif.SrcFnPoll.minWait_as_map
#print axioms StunVerif.SrcFnPoll.src_agentPoll
