import StunVerif.Props.C20
#print axioms StunVerif.C20.step_shift
#print axioms StunVerif.C20.shift_equivariant
#print axioms StunVerif.C20.independent_agents
#print axioms StunVerif.C20.no_leak
#print axioms StunVerif.C20.stored_instants_are_inputs
#print axioms StunVerif.C20.src_no_ambient
