import StunVerif.Props.C01
#print axioms StunVerif.C01.msg_type_total
#print axioms StunVerif.C01.header_total
#print axioms StunVerif.C01.raw_total
#print axioms StunVerif.C01.message_total
#print axioms StunVerif.C01.typed_total
#print axioms StunVerif.C01.walk_progress
#print axioms StunVerif.C01.iter_fuel_suffices
#print axioms StunVerif.C01.attribute_total
#print axioms StunVerif.C01.display_total
#print axioms StunVerif.C01.validate_total
#print axioms StunVerif.C01.police_total
