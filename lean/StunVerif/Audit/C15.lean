import StunVerif.Props.C15
#print axioms StunVerif.C15.step_validated
#print axioms StunVerif.C15.validated_iff
#print axioms StunVerif.C15.monotone
#print axioms StunVerif.C15.others_never_validate
#print axioms StunVerif.C15.no_cross
