import StunVerif.Props.C16
#print axioms StunVerif.C16.police_eq_spec
#print axioms StunVerif.C16.unknown_list_bounds
#print axioms StunVerif.C16.resp_attrs
#print axioms StunVerif.C16.comprehension_iff
