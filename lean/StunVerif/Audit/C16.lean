import StunVerif.Props.C16
import StunVerif.Props.C16Resp
import StunVerif.Props.SrcFnPolice
import StunVerif.Props.SrcFnIter
#print axioms StunVerif.C16.police_eq_spec
#print axioms StunVerif.C16.unknown_list_bounds
#print axioms StunVerif.C16.resp_attrs
#print axioms StunVerif.C16.comprehension_iff
#print axioms StunVerif.C16.unknown_resp_shape
#print axioms StunVerif.C16.bad_resp_shape
#print axioms StunVerif.SrcFnPolice.src_comprehensionRequired
#print axioms StunVerif.SrcFnPolice.any_eq_contains
#print axioms StunVerif.SrcFnPolice.src_checkAttributeTypes
#print axioms StunVerif.SrcFnPolice.method_lt
#print axioms StunVerif.SrcFnPolice.src_unknownAttributes_fields
#print axioms StunVerif.SrcFnPolice.src_badRequest_fields
#print axioms StunVerif.SrcFnIter.drop_drop_len
#print axioms StunVerif.SrcFnIter.iterGo_succ_ok
#print axioms StunVerif.SrcFnIter.iterGo_succ_err
#print axioms StunVerif.SrcFnIter.next_spec
#print axioms StunVerif.SrcFnIter.collect_eq
#print axioms StunVerif.SrcFnIter.src_iter
#print axioms StunVerif.SrcFnIter.src_iter_more_fuel
