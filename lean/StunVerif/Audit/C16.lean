import StunVerif.Props.C16
import StunVerif.Props.C16Resp
#print axioms StunVerif.C16.police_eq_spec
#print axioms StunVerif.C16.unknown_list_bounds
#print axioms StunVerif.C16.resp_attrs
#print axioms StunVerif.C16.comprehension_iff
#print axioms StunVerif.C16.unknown_resp_shape
#print axioms StunVerif.C16.bad_resp_shape
