import StunVerif.Props.C04
import StunVerif.Props.C04Seal
import StunVerif.Props.RefHashes
import StunVerif.Props.SrcFnIntegrity
import StunVerif.Props.SrcFnBuilder
import StunVerif.Props.SrcFnWrite
#print axioms StunVerif.C04.key_def
#print axioms StunVerif.C04.validate_spec
#print axioms StunVerif.C04.missing
#print axioms StunVerif.C04.validate_total
#print axioms StunVerif.C04.reported_present
#print axioms StunVerif.C04.input_covers
#print axioms StunVerif.C04.tamper_changes_hmac_triple
#print axioms StunVerif.C04.seal_validates
#print axioms StunVerif.RefHashes.sha1_length
#print axioms StunVerif.RefHashes.sha256_length
#print axioms StunVerif.RefHashes.md5_length
#print axioms StunVerif.RefHashes.hmac_length
#print axioms StunVerif.RefHashes.refHashes_ok
#print axioms StunVerif.RefHashes.rfc_vectors
#print axioms StunVerif.SrcFnIntegrity.FaultEq.refl
#print axioms StunVerif.SrcFnIntegrity.FaultEq.of_faults
#print axioms StunVerif.SrcFnIntegrity.FaultEq.eq_of_not_fault
#print axioms StunVerif.SrcFnIntegrity.match_ite
#print axioms StunVerif.SrcFnIntegrity.scan_nil_fault
#print axioms StunVerif.SrcFnIntegrity.raw_value_le
#print axioms StunVerif.SrcFnIntegrity.mi_len
#print axioms StunVerif.SrcFnIntegrity.scan_agree
#print axioms StunVerif.SrcFnIntegrity.src_validateIntegrity_faultEq
#print axioms StunVerif.SrcFnIntegrity.accepted_size
#print axioms StunVerif.SrcFnIntegrity.src_validateIntegrity
#print axioms StunVerif.SrcFnBuilder.src_hasAttribute
#print axioms StunVerif.SrcFnBuilder.src_hasAnyAttribute
#print axioms StunVerif.SrcFnBuilder.src_addRawAttribute
#print axioms StunVerif.SrcFnBuilder.src_addAttribute
#print axioms StunVerif.SrcFnBuilder.src_addFingerprint
#print axioms StunVerif.SrcFnBuilder.model_addFingerprint_refused
#print axioms StunVerif.SrcFnBuilder.src_addMessageIntegrity_guard
#print axioms StunVerif.SrcFnBuilder.src_integrityBytes
#print axioms StunVerif.SrcFnBuilder.src_addMessageIntegrity
#print axioms StunVerif.SrcFnBuilder.src_addFingerprint_full
#print axioms StunVerif.SrcFnWrite.src_byteLen
#print axioms StunVerif.SrcFnWrite.src_writeAttrsLoop
#print axioms StunVerif.SrcFnWrite.encBE_mod
#print axioms StunVerif.SrcFnWrite.tid_word
#print axioms StunVerif.SrcFnWrite.header_puts
#print axioms StunVerif.SrcFnWrite.src_writeInto
#print axioms StunVerif.SrcFnWrite.src_build
#print axioms StunVerif.SrcFnWrite.build_is_source
