import StunVerif.Props.C04
import StunVerif.Props.C04Seal
import StunVerif.Props.RefHashes
#print axioms StunVerif.C04.key_def
#print axioms StunVerif.C04.validate_spec
#print axioms StunVerif.C04.missing
#print axioms StunVerif.C04.validate_total
#print axioms StunVerif.C04.reported_present
#print axioms StunVerif.C04.input_covers
#print axioms StunVerif.C04.tamper_changes_hmac_triple
#print axioms StunVerif.C04.seal_validates
#print axioms StunVerif.RefHashes.sha1_length
#print axioms StunVerif.RefHashes.sha256_length
#print axioms StunVerif.RefHashes.md5_length
#print axioms StunVerif.RefHashes.hmac_length
#print axioms StunVerif.RefHashes.refHashes_ok
#print axioms StunVerif.RefHashes.rfc_vectors
