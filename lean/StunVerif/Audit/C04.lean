import StunVerif.Props.C04
import StunVerif.Props.C04Seal
#print axioms StunVerif.C04.key_def
#print axioms StunVerif.C04.validate_spec
#print axioms StunVerif.C04.missing
#print axioms StunVerif.C04.validate_total
#print axioms StunVerif.C04.reported_present
#print axioms StunVerif.C04.input_covers
#print axioms StunVerif.C04.tamper_changes_hmac_triple
#print axioms StunVerif.C04.seal_validates
