import StunVerif.Props.C05
#print axioms StunVerif.C05.step_lifecycle
#print axioms StunVerif.C05.out_iff_live
#print axioms StunVerif.C05.exactly_once
#print axioms StunVerif.C05.tx_only_while_live
#print axioms StunVerif.C05.late_or_unknown_response_dropped
#print axioms StunVerif.C05.delivered_only_outstanding
#print axioms StunVerif.C05.dup_send_refused
#print axioms StunVerif.C05.reuse
#print axioms StunVerif.C05.keys_nodup
#print axioms StunVerif.C05.frame
#print axioms StunVerif.C05.eventually_ends
