import StunVerif.Props.C05
import StunVerif.Props.SrcFnAgent
#print axioms StunVerif.C05.step_lifecycle
#print axioms StunVerif.C05.out_iff_live
#print axioms StunVerif.C05.exactly_once
#print axioms StunVerif.C05.tx_only_while_live
#print axioms StunVerif.C05.late_or_unknown_response_dropped
#print axioms StunVerif.C05.delivered_only_outstanding
#print axioms StunVerif.C05.dup_send_refused
#print axioms StunVerif.C05.reuse
#print axioms StunVerif.C05.keys_nodup
#print axioms StunVerif.C05.frame
#print axioms StunVerif.C05.eventually_ends
#print axioms StunVerif.SrcFnAgent.src_reqPoll
#print axioms StunVerif.SrcFnAgent.src_validatedPeer
#print axioms StunVerif.SrcFnAgent.src_takeOutstanding
#print axioms StunVerif.SrcFnAgent.remove_of_lookup_none
#print axioms StunVerif.SrcFnAgent.src_handleStun
#print axioms StunVerif.SrcFnAgent.src_send_request
#print axioms StunVerif.SrcFnAgent.src_send_other
#print axioms StunVerif.SrcFnAgent.src_cancel
#print axioms StunVerif.SrcFnAgent.src_cancelRetransmissions
#print axioms StunVerif.SrcFnAgent.foldl_add_eq_sum
#print axioms StunVerif.SrcFnAgent.src_configureTimeout
