import StunVerif.Props.C12
import StunVerif.Props.SrcFnWrite
#print axioms StunVerif.C12.raw_toBytes
#print axioms StunVerif.C12.raw_write_eq
#print axioms StunVerif.C12.raw_write_short
#print axioms StunVerif.C12.typed_write_eq
#print axioms StunVerif.C12.typed_write_short
#print axioms StunVerif.C12.typed_toBytes
#print axioms StunVerif.C12.build_eq
#print axioms StunVerif.C12.write_into_eq
#print axioms StunVerif.C12.write_into_short
#print axioms StunVerif.C12.owned_same
#print axioms StunVerif.C12.src_padded_attr_len
#print axioms StunVerif.SrcFnWrite.src_byteLen
#print axioms StunVerif.SrcFnWrite.src_writeAttrsLoop
#print axioms StunVerif.SrcFnWrite.encBE_mod
#print axioms StunVerif.SrcFnWrite.tid_word
#print axioms StunVerif.SrcFnWrite.header_puts
#print axioms StunVerif.SrcFnWrite.src_writeInto
#print axioms StunVerif.SrcFnWrite.src_build
#print axioms StunVerif.SrcFnWrite.build_is_source
