import StunVerif.Props.C12
#print axioms StunVerif.C12.raw_toBytes
#print axioms StunVerif.C12.raw_write_eq
#print axioms StunVerif.C12.raw_write_short
#print axioms StunVerif.C12.typed_write_eq
#print axioms StunVerif.C12.typed_write_short
#print axioms StunVerif.C12.typed_toBytes
#print axioms StunVerif.C12.build_eq
#print axioms StunVerif.C12.write_into_eq
#print axioms StunVerif.C12.write_into_short
#print axioms StunVerif.C12.owned_same
#print axioms StunVerif.C12.src_padded_attr_len
