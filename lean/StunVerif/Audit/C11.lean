import StunVerif.Props.C11
import StunVerif.Props.C11Parse
import StunVerif.Props.SrcFnBuilder
import StunVerif.Props.SrcFnWrite
#print axioms StunVerif.C11.types_inv
#print axioms StunVerif.C11.add_refused_iff
#print axioms StunVerif.C11.sha1_refused_iff
#print axioms StunVerif.C11.sha256_refused_iff
#print axioms StunVerif.C11.fp_refused_iff
#print axioms StunVerif.C11.refused_unchanged
#print axioms StunVerif.C11.runOps_reach
#print axioms StunVerif.C11.tail_shape
#print axioms StunVerif.C11.queries_agree
#print axioms StunVerif.SrcFnBuilder.src_hasAttribute
#print axioms StunVerif.SrcFnBuilder.src_hasAnyAttribute
#print axioms StunVerif.SrcFnBuilder.src_addRawAttribute
#print axioms StunVerif.SrcFnBuilder.src_addAttribute
#print axioms StunVerif.SrcFnBuilder.src_addFingerprint
#print axioms StunVerif.SrcFnBuilder.model_addFingerprint_refused
#print axioms StunVerif.SrcFnBuilder.src_addMessageIntegrity_guard
#print axioms StunVerif.SrcFnBuilder.src_integrityBytes
#print axioms StunVerif.SrcFnBuilder.src_addMessageIntegrity
#print axioms StunVerif.SrcFnBuilder.src_addFingerprint_full
#print axioms StunVerif.SrcFnWrite.src_byteLen
#print axioms StunVerif.SrcFnWrite.src_writeAttrsLoop
#print axioms StunVerif.SrcFnWrite.encBE_mod
#print axioms StunVerif.SrcFnWrite.tid_word
#print axioms StunVerif.SrcFnWrite.header_puts
#print axioms StunVerif.SrcFnWrite.src_writeInto
#print axioms StunVerif.SrcFnWrite.src_build
#print axioms StunVerif.SrcFnWrite.build_is_source
