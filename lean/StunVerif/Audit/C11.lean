import StunVerif.Props.C11
import StunVerif.Props.C11Parse
import StunVerif.Props.SrcFnBuilder
#print axioms StunVerif.C11.types_inv
#print axioms StunVerif.C11.add_refused_iff
#print axioms StunVerif.C11.sha1_refused_iff
#print axioms StunVerif.C11.sha256_refused_iff
#print axioms StunVerif.C11.fp_refused_iff
#print axioms StunVerif.C11.refused_unchanged
#print axioms StunVerif.C11.runOps_reach
#print axioms StunVerif.C11.tail_shape
#print axioms StunVerif.C11.queries_agree
#print axioms StunVerif.SrcFnBuilder.src_hasAttribute
#print axioms StunVerif.SrcFnBuilder.src_hasAnyAttribute
#print axioms StunVerif.SrcFnBuilder.src_addRawAttribute
#print axioms StunVerif.SrcFnBuilder.src_addAttribute
#print axioms StunVerif.SrcFnBuilder.src_addFingerprint
#print axioms StunVerif.SrcFnBuilder.model_addFingerprint_refused
#print axioms StunVerif.SrcFnBuilder.src_addMessageIntegrity_guard
#print axioms StunVerif.SrcFnBuilder.src_integrityBytes
#print axioms StunVerif.SrcFnBuilder.src_addMessageIntegrity
#print axioms StunVerif.SrcFnBuilder.src_addFingerprint_full
