import StunVerif.Props.C08
import StunVerif.Props.Utf8
#print axioms StunVerif.C08.decode_iff
#print axioms StunVerif.C08.decode_fields
#print axioms StunVerif.C08.wrong_type
#print axioms StunVerif.C08.decode_total
#print axioms StunVerif.C08.encode_layout
#print axioms StunVerif.C08.encode_allowed
#print axioms StunVerif.C08.roundtrip
#print axioms StunVerif.C08.decoded_inLimit
#print axioms StunVerif.C08.stable
#print axioms StunVerif.C08.reencode_exact
#print axioms StunVerif.C08.src_type_codes
#print axioms StunVerif.C08.src_decode_ranges
#print axioms StunVerif.C08.src_field_constants
#print axioms StunVerif.C08.accept_in_range
#print axioms StunVerif.Utf8.utf8ValidF_iff
#print axioms StunVerif.Utf8.utf8Valid_iff
#print axioms StunVerif.Utf8.head_of_encode
#print axioms StunVerif.Utf8.encode_injective
