import StunVerif.Props.C08
import StunVerif.Props.Utf8
import StunVerif.Props.SrcFnDecode
import StunVerif.Props.SrcFnAttr
#print axioms StunVerif.C08.decode_iff
#print axioms StunVerif.C08.decode_fields
#print axioms StunVerif.C08.wrong_type
#print axioms StunVerif.C08.decode_total
#print axioms StunVerif.C08.encode_layout
#print axioms StunVerif.C08.encode_allowed
#print axioms StunVerif.C08.roundtrip
#print axioms StunVerif.C08.decoded_inLimit
#print axioms StunVerif.C08.stable
#print axioms StunVerif.C08.reencode_exact
#print axioms StunVerif.C08.src_type_codes
#print axioms StunVerif.C08.src_decode_ranges
#print axioms StunVerif.C08.src_field_constants
#print axioms StunVerif.C08.accept_in_range
#print axioms StunVerif.Utf8.utf8ValidF_iff
#print axioms StunVerif.Utf8.utf8Valid_iff
#print axioms StunVerif.Utf8.head_of_encode
#print axioms StunVerif.Utf8.encode_injective
#print axioms StunVerif.SrcFnDecode.src_rawFromBytes
#print axioms StunVerif.SrcFnDecode.src_msgTypeFromBytes
#print axioms StunVerif.SrcFnDecode.foldl_be
#print axioms StunVerif.SrcFnDecode.beNat_append
#print axioms StunVerif.SrcFnDecode.pow_256_12
#print axioms StunVerif.SrcFnDecode.pow_256_4
#print axioms StunVerif.SrcFnDecode.cookie_iff
#print axioms StunVerif.SrcFnDecode.len_field
#print axioms StunVerif.SrcFnDecode.src_headerFromBytes
#print axioms StunVerif.SrcFnAttr.src_checkLen
#print axioms StunVerif.SrcFnAttr.src_checkTypeAndLen
#print axioms StunVerif.SrcFnAttr.checkLen_excluded_end
