import StunVerif.Props.C03
import StunVerif.Props.C03Write
#print axioms StunVerif.C03.build_shape
#print axioms StunVerif.C03.roundtrip
#print axioms StunVerif.C03.typed_roundtrip
#print axioms StunVerif.C03.class_method_roundtrip
#print axioms StunVerif.C03.roundtrip_write_into
#print axioms StunVerif.C03.sealed_write_into_validates
