import StunVerif.Props.C03
import StunVerif.Props.C03Write
import StunVerif.Props.SrcFnIter
import StunVerif.Props.SrcFnBuilder
import StunVerif.Props.SrcFnWrite
#print axioms StunVerif.C03.build_shape
#print axioms StunVerif.C03.roundtrip
#print axioms StunVerif.C03.typed_roundtrip
#print axioms StunVerif.C03.class_method_roundtrip
#print axioms StunVerif.C03.roundtrip_write_into
#print axioms StunVerif.C03.sealed_write_into_validates
#print axioms StunVerif.SrcFnIter.drop_drop_len
#print axioms StunVerif.SrcFnIter.iterGo_succ_ok
#print axioms StunVerif.SrcFnIter.iterGo_succ_err
#print axioms StunVerif.SrcFnIter.next_spec
#print axioms StunVerif.SrcFnIter.collect_eq
#print axioms StunVerif.SrcFnIter.src_iter
#print axioms StunVerif.SrcFnIter.src_iter_more_fuel
#print axioms StunVerif.SrcFnBuilder.src_hasAttribute
#print axioms StunVerif.SrcFnBuilder.src_hasAnyAttribute
#print axioms StunVerif.SrcFnBuilder.src_addRawAttribute
#print axioms StunVerif.SrcFnBuilder.src_addAttribute
#print axioms StunVerif.SrcFnBuilder.src_addFingerprint
#print axioms StunVerif.SrcFnBuilder.model_addFingerprint_refused
#print axioms StunVerif.SrcFnBuilder.src_addMessageIntegrity_guard
#print axioms StunVerif.SrcFnBuilder.src_integrityBytes
#print axioms StunVerif.SrcFnBuilder.src_addMessageIntegrity
#print axioms StunVerif.SrcFnBuilder.src_addFingerprint_full
#print axioms StunVerif.SrcFnWrite.src_byteLen
#print axioms StunVerif.SrcFnWrite.src_writeAttrsLoop
#print axioms StunVerif.SrcFnWrite.encBE_mod
#print axioms StunVerif.SrcFnWrite.tid_word
#print axioms StunVerif.SrcFnWrite.header_puts
#print axioms StunVerif.SrcFnWrite.src_writeInto
#print axioms StunVerif.SrcFnWrite.src_build
#print axioms StunVerif.SrcFnWrite.build_is_source
