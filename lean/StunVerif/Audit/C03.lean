import StunVerif.Props.C03
#print axioms StunVerif.C03.build_shape
#print axioms StunVerif.C03.roundtrip
#print axioms StunVerif.C03.typed_roundtrip
#print axioms StunVerif.C03.class_method_roundtrip
