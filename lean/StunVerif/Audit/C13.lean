import StunVerif.Props.C13
import StunVerif.Props.SrcFnXor
#print axioms StunVerif.C13.key_length
#print axioms StunVerif.C13.xor_involutive
#print axioms StunVerif.C13.built_decodes
#print axioms StunVerif.C13.xor_wf
#print axioms StunVerif.C13.wire_layout
#print axioms StunVerif.C13.wire_roundtrip
#print axioms StunVerif.C13.v6_tid_sensitive
#print axioms StunVerif.C13.v4_tid_insensitive
#print axioms StunVerif.C13.src_const6_value
#print axioms StunVerif.C13.src_port
#print axioms StunVerif.C13.src_const4
#print axioms StunVerif.C13.src_const6
#print axioms StunVerif.C13.src_fp_const
#print axioms StunVerif.SrcFnXor.src_xorAddr
