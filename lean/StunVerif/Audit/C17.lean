import StunVerif.Props.C17
import StunVerif.Props.SrcFnParse
#print axioms StunVerif.C17.prefix_truncated
#print axioms StunVerif.C17.header_iff
#print axioms StunVerif.C17.header_iff_not_nonstun
#print axioms StunVerif.C17.header_agrees
#print axioms StunVerif.SrcFnParse.ArrInv.init
#print axioms StunVerif.SrcFnParse.len_le_three
#print axioms StunVerif.SrcFnParse.ending_ne_zero
#print axioms StunVerif.SrcFnParse.ArrInv.contains_eq
#print axioms StunVerif.SrcFnParse.ArrInv.push
#print axioms StunVerif.SrcFnParse.setLen_mod
#print axioms StunVerif.SrcFnParse.endingTypes_eq
#print axioms StunVerif.SrcFnParse.fp_mem
#print axioms StunVerif.SrcFnParse.walk_agree
#print axioms StunVerif.SrcFnParse.src_msgFromBytes
#print axioms StunVerif.SrcFnParse.src_accepts_iff
