import StunVerif.Props.C17
#print axioms StunVerif.C17.prefix_truncated
#print axioms StunVerif.C17.header_iff
#print axioms StunVerif.C17.header_iff_not_nonstun
#print axioms StunVerif.C17.header_agrees
