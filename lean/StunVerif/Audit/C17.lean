import StunVerif.Props.C17
import StunVerif.Props.SrcFnParse
import StunVerif.Props.SrcFnDecode
#print axioms StunVerif.C17.prefix_truncated
#print axioms StunVerif.C17.header_iff
#print axioms StunVerif.C17.header_iff_not_nonstun
#print axioms StunVerif.C17.header_agrees
#print axioms StunVerif.SrcFnParse.ArrInv.init
#print axioms StunVerif.SrcFnParse.len_le_three
#print axioms StunVerif.SrcFnParse.ending_ne_zero
#print axioms StunVerif.SrcFnParse.ArrInv.contains_eq
#print axioms StunVerif.SrcFnParse.ArrInv.push
#print axioms StunVerif.SrcFnParse.setLen_mod
#print axioms StunVerif.SrcFnParse.endingTypes_eq
#print axioms StunVerif.SrcFnParse.fp_mem
#print axioms StunVerif.SrcFnParse.walk_agree
#print axioms StunVerif.SrcFnParse.src_msgFromBytes
#print axioms StunVerif.SrcFnParse.src_accepts_iff
#print axioms StunVerif.SrcFnDecode.src_rawFromBytes
#print axioms StunVerif.SrcFnDecode.src_msgTypeFromBytes
#print axioms StunVerif.SrcFnDecode.foldl_be
#print axioms StunVerif.SrcFnDecode.beNat_append
#print axioms StunVerif.SrcFnDecode.pow_256_12
#print axioms StunVerif.SrcFnDecode.pow_256_4
#print axioms StunVerif.SrcFnDecode.cookie_iff
#print axioms StunVerif.SrcFnDecode.len_field
#print axioms StunVerif.SrcFnDecode.src_headerFromBytes
