import StunVerif.Props.C18
import StunVerif.Props.C18Codec
import StunVerif.Props.SrcFnAgent
import StunVerif.Props.SrcFnPoll
import StunVerif.Props.SrcFnGlue
import StunVerif.Props.SrcFnWrite
#print axioms StunVerif.C18.send_tx
#print axioms StunVerif.C18.poll_tx
#print axioms StunVerif.C18.remembered_fixed
#print axioms StunVerif.C18.endpoint_fixed
#print axioms StunVerif.C18.tx_sources
#print axioms StunVerif.C18.tx_exact
#print axioms StunVerif.C18.peer_address_is_destination
#print axioms StunVerif.C18.non_request_once
#print axioms StunVerif.C18.send_request_parses
#print axioms StunVerif.C18.send_request_dup
#print axioms StunVerif.C18.send_other_once
#print axioms StunVerif.C18.transmitted_tid
#print axioms StunVerif.SrcFnAgent.src_reqPoll
#print axioms StunVerif.SrcFnAgent.src_validatedPeer
#print axioms StunVerif.SrcFnAgent.src_takeOutstanding
#print axioms StunVerif.SrcFnAgent.remove_of_lookup_none
#print axioms StunVerif.SrcFnAgent.src_handleStun
#print axioms StunVerif.SrcFnAgent.src_send_request
#print axioms StunVerif.SrcFnAgent.src_send_other
#print axioms StunVerif.SrcFnAgent.src_cancel
#print axioms StunVerif.SrcFnAgent.src_cancelRetransmissions
#print axioms StunVerif.SrcFnAgent.foldl_add_eq_sum
#print axioms StunVerif.SrcFnAgent.src_configureTimeout
#print axioms StunVerif.SrcFnPoll.lookup_some_mem
#print axioms StunVerif.SrcFnPoll.update_same
#print axioms StunVerif.SrcFnPoll.remove_update
#print axioms StunVerif.SrcFnPoll.idle_eq
#print axioms StunVerif.SrcFnPoll.loop_nil
#print axioms StunVerif.SrcFnPoll.loop_absent
#print axioms StunVerif.SrcFnPoll.loop_wait
#print axioms StunVerif.SrcFnPoll.loop_ready
#print axioms StunVerif.SrcFnPoll.loop_all_waiting
#print axioms StunVerif.SrcFnPoll.loop_first_ready
#print axioms StunVerif.SrcFnPoll.not_ready_waiting
#print axioms StunVerif.SrcFnPoll.foldl_congr_mem
#print axioms StunVerif.SrcFnPoll.minWait_as_map
#print axioms StunVerif.SrcFnPoll.src_agentPoll
#print axioms StunVerif.SrcFnGlue.src_reqNew
#print axioms StunVerif.SrcFnGlue.src_mtypeClass
#print axioms StunVerif.SrcFnGlue.accepted
#print axioms StunVerif.SrcFnGlue.src_msgGetType
#print axioms StunVerif.SrcFnGlue.src_msgClass
#print axioms StunVerif.SrcFnGlue.src_msgMethod
#print axioms StunVerif.SrcFnGlue.src_msgHasClass
#print axioms StunVerif.SrcFnGlue.src_msgHasMethod
#print axioms StunVerif.SrcFnGlue.src_msgTransactionId
#print axioms StunVerif.SrcFnGlue.src_msgRawAttribute
#print axioms StunVerif.SrcFnGlue.src_msgHasAttribute
#print axioms StunVerif.SrcFnGlue.src_inMsg
#print axioms StunVerif.SrcFnWrite.src_byteLen
#print axioms StunVerif.SrcFnWrite.src_writeAttrsLoop
#print axioms StunVerif.SrcFnWrite.encBE_mod
#print axioms StunVerif.SrcFnWrite.tid_word
#print axioms StunVerif.SrcFnWrite.header_puts
#print axioms StunVerif.SrcFnWrite.src_writeInto
#print axioms StunVerif.SrcFnWrite.src_build
#print axioms StunVerif.SrcFnWrite.build_is_source
