import StunVerif.Props.C18
#print axioms StunVerif.C18.send_tx
#print axioms StunVerif.C18.poll_tx
#print axioms StunVerif.C18.remembered_fixed
#print axioms StunVerif.C18.endpoint_fixed
#print axioms StunVerif.C18.tx_sources
#print axioms StunVerif.C18.tx_exact
#print axioms StunVerif.C18.peer_address_is_destination
#print axioms StunVerif.C18.non_request_once
