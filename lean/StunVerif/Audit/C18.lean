import StunVerif.Props.C18
import StunVerif.Props.C18Codec
#print axioms StunVerif.C18.send_tx
#print axioms StunVerif.C18.poll_tx
#print axioms StunVerif.C18.remembered_fixed
#print axioms StunVerif.C18.endpoint_fixed
#print axioms StunVerif.C18.tx_sources
#print axioms StunVerif.C18.tx_exact
#print axioms StunVerif.C18.peer_address_is_destination
#print axioms StunVerif.C18.non_request_once
#print axioms StunVerif.C18.send_request_parses
#print axioms StunVerif.C18.send_request_dup
#print axioms StunVerif.C18.send_other_once
#print axioms StunVerif.C18.transmitted_tid
