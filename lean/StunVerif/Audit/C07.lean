import StunVerif.Props.C07
import StunVerif.Props.C07Codec
import StunVerif.Props.SrcFnAgent
import StunVerif.Props.SrcFnPoll
import StunVerif.Props.SrcFnIntegrity
import StunVerif.Props.SrcFnGlue
#print axioms StunVerif.C07.delivered_auth
#print axioms StunVerif.C07.forged_dropped
#print axioms StunVerif.C07.forged_equiv
#print axioms StunVerif.C07.equiv_step
#print axioms StunVerif.C07.forged_no_effect
#print axioms StunVerif.C07.genuine_after_forged
#print axioms StunVerif.C07.plain_accepts
#print axioms StunVerif.C07.had_creds_fixed
#print axioms StunVerif.C07.had_creds_def
#print axioms StunVerif.C07.sealed_response_delivered
#print axioms StunVerif.C07.unsigned_response_dropped
#print axioms StunVerif.C07.non_response_incoming
#print axioms StunVerif.SrcFnAgent.src_reqPoll
#print axioms StunVerif.SrcFnAgent.src_validatedPeer
#print axioms StunVerif.SrcFnAgent.src_takeOutstanding
#print axioms StunVerif.SrcFnAgent.remove_of_lookup_none
#print axioms StunVerif.SrcFnAgent.src_handleStun
#print axioms StunVerif.SrcFnAgent.src_send_request
#print axioms StunVerif.SrcFnAgent.src_send_other
#print axioms StunVerif.SrcFnAgent.src_cancel
#print axioms StunVerif.SrcFnAgent.src_cancelRetransmissions
#print axioms StunVerif.SrcFnAgent.foldl_add_eq_sum
#print axioms StunVerif.SrcFnAgent.src_configureTimeout
#print axioms StunVerif.SrcFnPoll.lookup_some_mem
#print axioms StunVerif.SrcFnPoll.update_same
#print axioms StunVerif.SrcFnPoll.remove_update
#print axioms StunVerif.SrcFnPoll.idle_eq
#print axioms StunVerif.SrcFnPoll.loop_nil
#print axioms StunVerif.SrcFnPoll.loop_absent
#print axioms StunVerif.SrcFnPoll.loop_wait
#print axioms StunVerif.SrcFnPoll.loop_ready
#print axioms StunVerif.SrcFnPoll.loop_all_waiting
#print axioms StunVerif.SrcFnPoll.loop_first_ready
#print axioms StunVerif.SrcFnPoll.not_ready_waiting
#print axioms StunVerif.SrcFnPoll.foldl_congr_mem
#print axioms StunVerif.SrcFnPoll.minWait_as_map
#print axioms StunVerif.SrcFnPoll.src_agentPoll
#print axioms StunVerif.SrcFnIntegrity.FaultEq.refl
#print axioms StunVerif.SrcFnIntegrity.FaultEq.of_faults
#print axioms StunVerif.SrcFnIntegrity.FaultEq.eq_of_not_fault
#print axioms StunVerif.SrcFnIntegrity.match_ite
#print axioms StunVerif.SrcFnIntegrity.scan_nil_fault
#print axioms StunVerif.SrcFnIntegrity.raw_value_le
#print axioms StunVerif.SrcFnIntegrity.mi_len
#print axioms StunVerif.SrcFnIntegrity.scan_agree
#print axioms StunVerif.SrcFnIntegrity.src_validateIntegrity_faultEq
#print axioms StunVerif.SrcFnIntegrity.accepted_size
#print axioms StunVerif.SrcFnIntegrity.src_validateIntegrity
#print axioms StunVerif.SrcFnGlue.src_reqNew
#print axioms StunVerif.SrcFnGlue.src_mtypeClass
#print axioms StunVerif.SrcFnGlue.accepted
#print axioms StunVerif.SrcFnGlue.src_msgGetType
#print axioms StunVerif.SrcFnGlue.src_msgClass
#print axioms StunVerif.SrcFnGlue.src_msgMethod
#print axioms StunVerif.SrcFnGlue.src_msgHasClass
#print axioms StunVerif.SrcFnGlue.src_msgHasMethod
#print axioms StunVerif.SrcFnGlue.src_msgTransactionId
#print axioms StunVerif.SrcFnGlue.src_msgRawAttribute
#print axioms StunVerif.SrcFnGlue.src_msgHasAttribute
#print axioms StunVerif.SrcFnGlue.src_inMsg
