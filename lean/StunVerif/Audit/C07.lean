import StunVerif.Props.C07
#print axioms StunVerif.C07.delivered_auth
#print axioms StunVerif.C07.forged_dropped
#print axioms StunVerif.C07.forged_equiv
#print axioms StunVerif.C07.equiv_step
#print axioms StunVerif.C07.forged_no_effect
#print axioms StunVerif.C07.genuine_after_forged
#print axioms StunVerif.C07.plain_accepts
#print axioms StunVerif.C07.had_creds_fixed
