import StunVerif.Props.C07
import StunVerif.Props.C07Codec
#print axioms StunVerif.C07.delivered_auth
#print axioms StunVerif.C07.forged_dropped
#print axioms StunVerif.C07.forged_equiv
#print axioms StunVerif.C07.equiv_step
#print axioms StunVerif.C07.forged_no_effect
#print axioms StunVerif.C07.genuine_after_forged
#print axioms StunVerif.C07.plain_accepts
#print axioms StunVerif.C07.had_creds_fixed
#print axioms StunVerif.C07.had_creds_def
#print axioms StunVerif.C07.sealed_response_delivered
#print axioms StunVerif.C07.unsigned_response_dropped
#print axioms StunVerif.C07.non_response_incoming
