import StunVerif.Props.C02
import StunVerif.Props.C02Causes
import StunVerif.Props.SrcFnIter
import StunVerif.Props.SrcFnParse
import StunVerif.Props.SrcFnDecode
import StunVerif.Props.SrcFnGlue
#print axioms StunVerif.C02.parse_iff
#print axioms StunVerif.C02.split_unique
#print axioms StunVerif.C02.parse_faithful
#print axioms StunVerif.C02.lookup_first
#print axioms StunVerif.C02.parse_total
#print axioms StunVerif.C02.cause_short
#print axioms StunVerif.C02.cause_not_stun
#print axioms StunVerif.C02.cause_length
#print axioms StunVerif.C02.cause_after
#print axioms StunVerif.C02.cause_admissible
#print axioms StunVerif.C02.causes_nil_iff
#print axioms StunVerif.SrcFnIter.drop_drop_len
#print axioms StunVerif.SrcFnIter.iterGo_succ_ok
#print axioms StunVerif.SrcFnIter.iterGo_succ_err
#print axioms StunVerif.SrcFnIter.next_spec
#print axioms StunVerif.SrcFnIter.collect_eq
#print axioms StunVerif.SrcFnIter.src_iter
#print axioms StunVerif.SrcFnIter.src_iter_more_fuel
#print axioms StunVerif.SrcFnParse.ArrInv.init
#print axioms StunVerif.SrcFnParse.len_le_three
#print axioms StunVerif.SrcFnParse.ending_ne_zero
#print axioms StunVerif.SrcFnParse.ArrInv.contains_eq
#print axioms StunVerif.SrcFnParse.ArrInv.push
#print axioms StunVerif.SrcFnParse.setLen_mod
#print axioms StunVerif.SrcFnParse.endingTypes_eq
#print axioms StunVerif.SrcFnParse.fp_mem
#print axioms StunVerif.SrcFnParse.walk_agree
#print axioms StunVerif.SrcFnParse.src_msgFromBytes
#print axioms StunVerif.SrcFnParse.src_accepts_iff
#print axioms StunVerif.SrcFnDecode.src_rawFromBytes
#print axioms StunVerif.SrcFnDecode.src_msgTypeFromBytes
#print axioms StunVerif.SrcFnDecode.foldl_be
#print axioms StunVerif.SrcFnDecode.beNat_append
#print axioms StunVerif.SrcFnDecode.pow_256_12
#print axioms StunVerif.SrcFnDecode.pow_256_4
#print axioms StunVerif.SrcFnDecode.cookie_iff
#print axioms StunVerif.SrcFnDecode.len_field
#print axioms StunVerif.SrcFnDecode.src_headerFromBytes
#print axioms StunVerif.SrcFnGlue.src_reqNew
#print axioms StunVerif.SrcFnGlue.src_mtypeClass
#print axioms StunVerif.SrcFnGlue.accepted
#print axioms StunVerif.SrcFnGlue.src_msgGetType
#print axioms StunVerif.SrcFnGlue.src_msgClass
#print axioms StunVerif.SrcFnGlue.src_msgMethod
#print axioms StunVerif.SrcFnGlue.src_msgHasClass
#print axioms StunVerif.SrcFnGlue.src_msgHasMethod
#print axioms StunVerif.SrcFnGlue.src_msgTransactionId
#print axioms StunVerif.SrcFnGlue.src_msgRawAttribute
#print axioms StunVerif.SrcFnGlue.src_msgHasAttribute
#print axioms StunVerif.SrcFnGlue.src_inMsg
