import StunVerif.Props.C02
import StunVerif.Props.C02Causes
#print axioms StunVerif.C02.parse_iff
#print axioms StunVerif.C02.split_unique
#print axioms StunVerif.C02.parse_faithful
#print axioms StunVerif.C02.lookup_first
#print axioms StunVerif.C02.parse_total
#print axioms StunVerif.C02.cause_short
#print axioms StunVerif.C02.cause_not_stun
#print axioms StunVerif.C02.cause_length
#print axioms StunVerif.C02.cause_after
#print axioms StunVerif.C02.cause_admissible
#print axioms StunVerif.C02.causes_nil_iff
