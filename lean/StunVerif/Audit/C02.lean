import StunVerif.Props.C02
import StunVerif.Props.C02Causes
import StunVerif.Props.SrcFnIter
#print axioms StunVerif.C02.parse_iff
#print axioms StunVerif.C02.split_unique
#print axioms StunVerif.C02.parse_faithful
#print axioms StunVerif.C02.lookup_first
#print axioms StunVerif.C02.parse_total
#print axioms StunVerif.C02.cause_short
#print axioms StunVerif.C02.cause_not_stun
#print axioms StunVerif.C02.cause_length
#print axioms StunVerif.C02.cause_after
#print axioms StunVerif.C02.cause_admissible
#print axioms StunVerif.C02.causes_nil_iff
#print axioms StunVerif.SrcFnIter.drop_drop_len
#print axioms StunVerif.SrcFnIter.iterGo_succ_ok
#print axioms StunVerif.SrcFnIter.iterGo_succ_err
#print axioms StunVerif.SrcFnIter.next_spec
#print axioms StunVerif.SrcFnIter.collect_eq
#print axioms StunVerif.SrcFnIter.src_iter
#print axioms StunVerif.SrcFnIter.src_iter_more_fuel
