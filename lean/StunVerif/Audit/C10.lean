import StunVerif.Props.C10
import StunVerif.Props.SrcFnIter
#print axioms StunVerif.C10.iter_eq_exposed
#print axioms StunVerif.C10.fp_always_exposed
#print axioms StunVerif.C10.prefix_exposed
#print axioms StunVerif.C10.nothing_else
#print axioms StunVerif.C10.all_exposed_without_integrity
#print axioms StunVerif.C10.suffix_independent
#print axioms StunVerif.SrcFnIter.drop_drop_len
#print axioms StunVerif.SrcFnIter.iterGo_succ_ok
#print axioms StunVerif.SrcFnIter.iterGo_succ_err
#print axioms StunVerif.SrcFnIter.next_spec
#print axioms StunVerif.SrcFnIter.collect_eq
#print axioms StunVerif.SrcFnIter.src_iter
#print axioms StunVerif.SrcFnIter.src_iter_more_fuel
