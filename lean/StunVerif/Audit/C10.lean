import StunVerif.Props.C10
#print axioms StunVerif.C10.iter_eq_exposed
#print axioms StunVerif.C10.fp_always_exposed
#print axioms StunVerif.C10.prefix_exposed
#print axioms StunVerif.C10.nothing_else
#print axioms StunVerif.C10.all_exposed_without_integrity
#print axioms StunVerif.C10.suffix_independent
