/-
Model of the 19 built-in typed attributes: `TryFrom<&RawAttribute>` (decode), `to_raw`, `length`,
`write_into_unchecked` (in-place write) and the constructors' limits.
-/
import StunVerif.Attr.Raw
import StunVerif.Attr.Utf8
namespace StunVerif

inductive Kind where
  | username | messageIntegrity | errorCode | unknownAttributes | realm | nonce
  | messageIntegritySha256 | passwordAlgorithm | userhash | xorMappedAddress | priority
  | useCandidate | passwordAlgorithms | alternateDomain | software | alternateServer
  | fingerprint | iceControlled | iceControlling
  deriving DecidableEq, Repr

def Kind.all : List Kind :=
  [.username, .messageIntegrity, .errorCode, .unknownAttributes, .realm, .nonce,
   .messageIntegritySha256, .passwordAlgorithm, .userhash, .xorMappedAddress, .priority,
   .useCandidate, .passwordAlgorithms, .alternateDomain, .software, .alternateServer,
   .fingerprint, .iceControlled, .iceControlling]

/-- `AttributeStaticType::TYPE` -/
def Kind.code : Kind → Nat
  | .username => 0x0006 | .messageIntegrity => 0x0008 | .errorCode => 0x0009
  | .unknownAttributes => 0x000A | .realm => 0x0014 | .nonce => 0x0015
  | .messageIntegritySha256 => 0x001C | .passwordAlgorithm => 0x001D | .userhash => 0x001E
  | .xorMappedAddress => 0x0020 | .priority => 0x0024 | .useCandidate => 0x0025
  | .passwordAlgorithms => 0x8002 | .alternateDomain => 0x8003 | .software => 0x8022
  | .alternateServer => 0x8023 | .fingerprint => 0x8028 | .iceControlled => 0x8029
  | .iceControlling => 0x802A

def Kind.name : Kind → String
  | .username => "Username" | .messageIntegrity => "MessageIntegrity" | .errorCode => "ErrorCode"
  | .unknownAttributes => "UnknownAttributes" | .realm => "Realm" | .nonce => "Nonce"
  | .messageIntegritySha256 => "MessageIntegritySha256" | .passwordAlgorithm => "PasswordAlgorithm"
  | .userhash => "Userhash" | .xorMappedAddress => "XorMappedAddress" | .priority => "Priority"
  | .useCandidate => "UseCandidate" | .passwordAlgorithms => "PasswordAlgorithms"
  | .alternateDomain => "AlternateDomain" | .software => "Software"
  | .alternateServer => "AlternateServer" | .fingerprint => "Fingerprint"
  | .iceControlled => "IceControlled" | .iceControlling => "IceControlling"

def Kind.ofName (s : String) : Option Kind := Kind.all.find? (·.name == s)

/-- socket address as it is on the wire: family, 4 or 16 address bytes, port -/
structure Addr where
  v6 : Bool
  ip : Bytes
  port : Nat
  deriving DecidableEq, Repr

def Addr.wf (a : Addr) : Bool := a.ip.length == (if a.v6 then 16 else 4) && a.port < 65536

/-- decoded attribute values.  Text is kept as its UTF-8 bytes; `xorMappedAddress` holds the
    stored (still XORed) address, as the Rust struct does; `fingerprint` holds the un-XORed CRC. -/
inductive AttrVal where
  | username (s : Bytes)
  | messageIntegrity (hmac : Bytes)
  | errorCode (code : Nat) (reason : Bytes)
  | unknownAttributes (types : List Nat)
  | realm (s : Bytes)
  | nonce (s : Bytes)
  | messageIntegritySha256 (hmac : Bytes)
  | passwordAlgorithm (algo : Nat)
  | userhash (hash : Bytes)
  | xorMappedAddress (a : Addr)
  | priority (p : Nat)
  | useCandidate
  | passwordAlgorithms (algos : List Nat)
  | alternateDomain (s : Bytes)
  | software (s : Bytes)
  | alternateServer (a : Addr)
  | fingerprint (crc : Bytes)
  | iceControlled (tie : Nat)
  | iceControlling (tie : Nat)
  deriving DecidableEq, Repr

def AttrVal.kind : AttrVal → Kind
  | .username _ => .username | .messageIntegrity _ => .messageIntegrity
  | .errorCode _ _ => .errorCode | .unknownAttributes _ => .unknownAttributes
  | .realm _ => .realm | .nonce _ => .nonce
  | .messageIntegritySha256 _ => .messageIntegritySha256
  | .passwordAlgorithm _ => .passwordAlgorithm | .userhash _ => .userhash
  | .xorMappedAddress _ => .xorMappedAddress | .priority _ => .priority
  | .useCandidate => .useCandidate | .passwordAlgorithms _ => .passwordAlgorithms
  | .alternateDomain _ => .alternateDomain | .software _ => .software
  | .alternateServer _ => .alternateServer | .fingerprint _ => .fingerprint
  | .iceControlled _ => .iceControlled | .iceControlling _ => .iceControlling

/-- `Fingerprint::XOR_CONSTANT` -/
def fpXorConst : Bytes := [0x53, 0x54, 0x55, 0x4E]

def xorBytes : Bytes → Bytes → Bytes
  | a :: as, b :: bs => (a ^^^ b) :: xorBytes as bs
  | _, _ => []

/-! ### decoding -/

/-- `std::str::from_utf8(..).map_err(|_| InvalidAttributeData)` -/
def textOf (v : Bytes) : Except PErr Bytes := if utf8Valid v then .ok v else .error .invalid

/-- `MappedSocketAddr::from_raw` -/
def addrFromValue (v : Bytes) : Except PErr Addr :=
  match v with
  | _ :: fam :: p0 :: p1 :: rest =>
    if fam = 1 then do
      checkLen v.length (some 8) (some 8)
      .ok ⟨false, rest.take 4, be16 p0 p1⟩
    else if fam = 2 then do
      checkLen v.length (some 20) (some 20)
      .ok ⟨true, rest, be16 p0 p1⟩
    else .error .invalid
  | _ => .error (.truncated 4 v.length)

/-- `PasswordAlgorithmValue::read` on the first four bytes -/
def pwAlgoRead (v : Bytes) : Except PErr Nat :=
  match v with
  | t0 :: t1 :: l0 :: l1 :: _ =>
    if be16 l0 l1 ≠ 0 then .error (.tooLarge 4 (4 + be16 l0 l1))
    else if be16 t0 t1 = 1 then .ok 1
    else if be16 t0 t1 = 2 then .ok 2
    else .error .invalid
  | _ => .error (.fault .oob)

/-- the loop of `PasswordAlgorithms::try_from` (every algorithm has an empty parameter, so every
    entry is four bytes) -/
def pwAlgosLoop : Nat → Bytes → Except PErr (List Nat)
  | _, [] => .ok []
  | 0, _ => .error (.fault .hang)
  | fuel + 1, v => do
    let a ← pwAlgoRead v
    let rest ← pwAlgosLoop fuel (v.drop 4)
    .ok (a :: rest)

def u16List : Bytes → List Nat
  | a :: b :: rest => be16 a b :: u16List rest
  | _ => []

/-- `TryFrom<&RawAttribute>` of each attribute type -/
def fromRaw (k : Kind) (raw : RawAttr) : Except PErr AttrVal :=
  let v := raw.value
  match k with
  | .username => do
    raw.checkTypeAndLen k.code none (some 513)
    .ok (.username (← textOf v))
  | .messageIntegrity => do
    raw.checkTypeAndLen k.code (some 20) (some 20)
    .ok (.messageIntegrity v)
  | .errorCode => do
    raw.checkTypeAndLen k.code (some 4) (some (763 + 4))
    match v with
    | _ :: _ :: b2 :: b3 :: reason =>
      let h := (b2 &&& 0x7).toNat
      let tens := b3.toNat
      if !(3 ≤ h && h < 7) || tens > 99 then .error .invalid
      else .ok (.errorCode (h * 100 + tens) (← textOf reason))
    | _ => .error (.fault .oob)
  | .unknownAttributes =>
    if raw.ty ≠ k.code then .error .wrongImpl
    else if v.length % 2 ≠ 0 then .error (.truncated (v.length + 1) v.length)
    else .ok (.unknownAttributes (u16List v))
  | .realm => do
    raw.checkTypeAndLen k.code none (some 763)
    .ok (.realm (← textOf v))
  | .nonce => do
    raw.checkTypeAndLen k.code none (some 763)
    .ok (.nonce (← textOf v))
  | .messageIntegritySha256 => do
    raw.checkTypeAndLen k.code (some 16) (some 32)
    if v.length % 4 ≠ 0 then .error .invalid else .ok (.messageIntegritySha256 v)
  | .passwordAlgorithm => do
    raw.checkTypeAndLen k.code (some 4) none
    if v.length % 4 ≠ 0 then .error .invalid else
    let a ← pwAlgoRead v
    if v.length ≠ 4 then .error (.tooLarge 4 v.length) else .ok (.passwordAlgorithm a)
  | .userhash => do
    raw.checkTypeAndLen k.code (some 32) (some 32)
    .ok (.userhash v)
  | .xorMappedAddress => do
    raw.checkTypeAndLen k.code none none
    .ok (.xorMappedAddress (← addrFromValue v))
  | .priority => do
    raw.checkTypeAndLen k.code (some 4) (some 4)
    .ok (.priority (beNat v))
  | .useCandidate => do
    raw.checkTypeAndLen k.code (some 0) (some 0)
    .ok .useCandidate
  | .passwordAlgorithms => do
    raw.checkTypeAndLen k.code (some 4) none
    if v.length % 4 ≠ 0 then .error .invalid else
    .ok (.passwordAlgorithms (← pwAlgosLoop v.length v))
  | .alternateDomain => do
    raw.checkTypeAndLen k.code none none
    .ok (.alternateDomain (← textOf v))
  | .software => do
    raw.checkTypeAndLen k.code none (some 763)
    .ok (.software (← textOf v))
  | .alternateServer => do
    raw.checkTypeAndLen k.code none none
    .ok (.alternateServer (← addrFromValue v))
  | .fingerprint => do
    raw.checkTypeAndLen k.code (some 4) (some 4)
    .ok (.fingerprint (xorBytes v fpXorConst))
  | .iceControlled => do
    raw.checkTypeAndLen k.code (some 8) (some 8)
    .ok (.iceControlled (beNat v))
  | .iceControlling => do
    raw.checkTypeAndLen k.code (some 8) (some 8)
    .ok (.iceControlling (beNat v))

/-! ### encoding -/

/-- `MappedSocketAddr::write_into_unchecked` -/
def Addr.valueBytes (a : Addr) : Bytes :=
  [0, if a.v6 then 2 else 1] ++ enc16 a.port ++ a.ip

/-- the value bytes `to_raw` produces -/
def AttrVal.valueBytes : AttrVal → Bytes
  | .username s | .realm s | .nonce s | .software s | .alternateDomain s => s
  | .messageIntegrity h | .messageIntegritySha256 h | .userhash h => h
  | .errorCode code reason => [0, 0, UInt8.ofNat (code / 100), UInt8.ofNat (code % 100)] ++ reason
  | .unknownAttributes ts => ts.flatMap enc16
  | .passwordAlgorithm a => enc16 a ++ enc16 0
  | .passwordAlgorithms as => as.flatMap fun a => enc16 a ++ enc16 0
  | .xorMappedAddress a | .alternateServer a => a.valueBytes
  | .priority p => encBE 4 p
  | .useCandidate => []
  | .fingerprint crc => xorBytes crc fpXorConst
  | .iceControlled t | .iceControlling t => encBE 8 t

/-- `AttributeWrite::to_raw` -/
def AttrVal.toRaw (v : AttrVal) : RawAttr := ⟨v.kind.code, v.valueBytes⟩

/-- `Attribute::length` (every in-limit value fits its `u16`) -/
def AttrVal.length (v : AttrVal) : Nat := v.valueBytes.length

def AttrVal.paddedLen (v : AttrVal) : Nat := 4 + paddedAttrLen v.length

/-- does this type's `write_into_unchecked` zero-fill the padding?  (the fixed-size types have no
    padding and do not) -/
def Kind.fillsPadding : Kind → Bool
  | .username | .realm | .nonce | .software | .alternateDomain | .errorCode
  | .unknownAttributes | .passwordAlgorithm | .passwordAlgorithms => true
  | _ => false

/-- `AttributeWrite::write_into_unchecked`: header, value, then (for the variable-size types)
    zeroed padding.  `none` is a slice-bounds panic. -/
def AttrVal.writeIntoUnchecked (v : AttrVal) (dest : Bytes) : Option Bytes := do
  let len := v.paddedLen
  let d ← writeAt dest 0 (enc16 v.kind.code ++ enc16 v.length)
  let d ← writeAt d 4 v.valueBytes
  let offset := 4 + v.length
  if v.kind.fillsPadding && len > offset then fillZero d offset len else some d

/-- `AttributeWriteExt::write_into` (size guard first) -/
def AttrVal.writeInto (v : AttrVal) (dest : Bytes) : Except WErr (Nat × Bytes) :=
  if v.paddedLen > dest.length then .error (.tooSmall v.paddedLen dest.length)
  else match v.writeIntoUnchecked dest with
    | some d => .ok (v.paddedLen, d)
    | none => .error (.tooSmall 0 0)   -- unreachable: guarded above (theorem `write_total`)

def RawAttr.writeInto (a : RawAttr) (dest : Bytes) : Except WErr (Nat × Bytes) :=
  if a.paddedLen > dest.length then .error (.tooSmall a.paddedLen dest.length)
  else match a.writeIntoUnchecked dest with
    | some d => .ok (a.paddedLen, d)
    | none => .error (.tooSmall 0 0)

/-! ### constructor limits (`new`): the in-limit values of C03/C08/C12 -/

def AttrVal.inLimit : AttrVal → Bool
  | .username s => s.length ≤ 513 && utf8Valid s
  | .realm s | .nonce s | .software s => s.length ≤ 763 && utf8Valid s
  | .alternateDomain s => s.length < 65536 && utf8Valid s
  | .messageIntegrity h => h.length == 20
  | .messageIntegritySha256 h => 16 ≤ h.length && h.length ≤ 32 && h.length % 4 == 0
  | .userhash h => h.length == 32
  | .errorCode code reason => 300 ≤ code && code < 700 && reason.length ≤ 763 && utf8Valid reason
  | .unknownAttributes ts => ts.length < 32768 && ts.all (· < 65536)
  | .passwordAlgorithm a => a == 1 || a == 2
  | .passwordAlgorithms as => !as.isEmpty && as.length < 16384 && as.all (fun a => a == 1 || a == 2)
  | .xorMappedAddress a | .alternateServer a => a.wf
  | .priority p => p < 2 ^ 32
  | .useCandidate => true
  | .fingerprint crc => crc.length == 4
  | .iceControlled t | .iceControlling t => t < 2 ^ 64

end StunVerif
