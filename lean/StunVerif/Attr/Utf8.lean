/-
UTF-8 well-formedness (RFC 3629 / Unicode Table 3-7): no overlong forms, no surrogates,
nothing above U+10FFFF.  This is what `std::str::from_utf8` accepts.
-/
import StunVerif.Bytes
namespace StunVerif

def isCont (b : UInt8) : Bool := 0x80 ≤ b && b ≤ 0xBF

/-- length of the well-formed UTF-8 sequence at the head of the list, or 0 if there is none -/
def utf8Head : Bytes → Nat
  | [] => 0
  | b0 :: rest =>
    if b0 < 0x80 then 1
    else if 0xC2 ≤ b0 && b0 ≤ 0xDF then
      match rest with
      | b1 :: _ => if isCont b1 then 2 else 0
      | _ => 0
    else if 0xE0 ≤ b0 && b0 ≤ 0xEF then
      match rest with
      | b1 :: b2 :: _ =>
        let lo : UInt8 := if b0 = 0xE0 then 0xA0 else 0x80
        let hi : UInt8 := if b0 = 0xED then 0x9F else 0xBF
        if lo ≤ b1 && b1 ≤ hi && isCont b2 then 3 else 0
      | _ => 0
    else if 0xF0 ≤ b0 && b0 ≤ 0xF4 then
      match rest with
      | b1 :: b2 :: b3 :: _ =>
        let lo : UInt8 := if b0 = 0xF0 then 0x90 else 0x80
        let hi : UInt8 := if b0 = 0xF4 then 0x8F else 0xBF
        if lo ≤ b1 && b1 ≤ hi && isCont b2 && isCont b3 then 4 else 0
      | _ => 0
    else 0

/-- fuel-bounded scan; `utf8Valid` gives it the length, which always suffices -/
def utf8ValidF : Nat → Bytes → Bool
  | _, [] => true
  | 0, _ => false
  | fuel + 1, bs =>
    let n := utf8Head bs
    if n = 0 then false else utf8ValidF fuel (bs.drop n)

def utf8Valid (bs : Bytes) : Bool := utf8ValidF bs.length bs

end StunVerif
