/-
Model of `stun_types::attribute::{AttributeHeader, RawAttribute, padded_attr_len, check_len}`.
-/
import StunVerif.Bytes
import StunVerif.Msg.Err
namespace StunVerif

/-- A raw attribute: type code and value bytes.  (`header.length` of the Rust struct is
    `value.len() as u16` for every value the library constructs.) -/
structure RawAttr where
  ty : Nat
  value : Bytes
  deriving DecidableEq, Repr

/-- `padded_attr_len` — the code's own branch structure -/
def paddedAttrLen (len : Nat) : Nat := if len % 4 = 0 then len else len + 4 - len % 4

/-- `AttributeExt::padded_len` for a raw attribute: `length()` is `value.len() as u16` -/
def RawAttr.paddedLen (a : RawAttr) : Nat := 4 + paddedAttrLen (a.value.length % 65536)

/-- `RawAttribute::from_bytes` -/
def rawFromBytes (d : Bytes) : Except PErr RawAttr :=
  match d with
  | t0 :: t1 :: l0 :: l1 :: rest =>
    let len := be16 l0 l1
    -- `header.length() > (data.len() - 4) as u16`
    if len > rest.length % 65536 then .error (.truncated len rest.length)
    else .ok ⟨be16 t0 t1, rest.take len⟩
  | _ => .error (.truncated 4 d.length)

/-- `RawAttribute::to_bytes` -/
def RawAttr.toBytes (a : RawAttr) : Bytes :=
  let v := enc16 a.ty ++ enc16 a.value.length ++ a.value
  if v.length % 4 ≠ 0 then v ++ zeros (4 - v.length % 4) else v

/-- overwrite `dest[off .. off+src.length]` (Rust: `dest[off..off+n].copy_from_slice(src)`);
    `none` is the slice-bounds panic -/
def writeAt (dest : Bytes) (off : Nat) (src : Bytes) : Option Bytes :=
  if off + src.length ≤ dest.length then
    some (dest.take off ++ src ++ dest.drop (off + src.length))
  else none

/-- `dest[from..to].fill(0)` -/
def fillZero (dest : Bytes) (lo hi : Nat) : Option Bytes :=
  if lo ≤ hi then writeAt dest lo (zeros (hi - lo)) else none

/-- `RawAttribute::write_into_unchecked` (the `AttributeWrite` impl) -/
def RawAttr.writeIntoUnchecked (a : RawAttr) (dest : Bytes) : Option Bytes := do
  let len := a.paddedLen
  let d ← writeAt dest 0 (enc16 a.ty ++ enc16 a.value.length)
  let d ← writeAt d 4 a.value
  let offset := 4 + a.value.length
  if len - offset > 0 then fillZero d offset len else some d

/-- `check_len` with an inclusive range given as optional bounds -/
def checkLen (len : Nat) (lo hi : Option Nat) : Except PErr Unit :=
  match lo with
  | some s => if len < s then .error (.truncated s len) else
    match hi with
    | some e => if len > e then .error (.tooLarge e len) else .ok ()
    | none => .ok ()
  | none =>
    match hi with
    | some e => if len > e then .error (.tooLarge e len) else .ok ()
    | none => .ok ()

/-- `RawAttribute::check_type_and_len` -/
def RawAttr.checkTypeAndLen (a : RawAttr) (ty : Nat) (lo hi : Option Nat) : Except PErr Unit :=
  if a.ty ≠ ty then .error .wrongImpl else checkLen a.value.length lo hi

end StunVerif
