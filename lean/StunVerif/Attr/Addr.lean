/-
Model of `XorSocketAddr::xor_addr` and the `XorMappedAddress` accessors.
-/
import StunVerif.Attr.Typed
namespace StunVerif

/-- the RFC magic cookie as four bytes (also used by the message header) -/
def xorCookie : Bytes := [0x21, 0x12, 0xA4, 0x42]

/-- `XorSocketAddr::xor_addr`: port XOR the top 16 bits of the cookie; IPv4 address XOR cookie;
    IPv6 address XOR (cookie ‖ 96-bit transaction id) -/
def xorAddr (a : Addr) (tid : Nat) : Addr :=
  let key := if a.v6 then xorCookie ++ encBE 12 (tid % 2 ^ 96) else xorCookie
  ⟨a.v6, xorBytes key a.ip, a.port ^^^ 0x2112⟩

/-- `XorMappedAddress::new(addr, tid)`: the attribute stores the XORed address -/
def xorMappedNew (a : Addr) (tid : Nat) : AttrVal := .xorMappedAddress (xorAddr a tid)

/-- `XorMappedAddress::addr(tid)` -/
def xorMappedAddr (v : AttrVal) (tid : Nat) : Option Addr :=
  match v with
  | .xorMappedAddress s => some (xorAddr s tid)
  | _ => none

end StunVerif
