/-
`std::ops::Bound<usize>` as used by `check_len` (`stun-types/src/attribute/mod.rs`): the translated
`Gen.checkLen` / `Gen.checkTypeAndLen` take the two bounds of the `RangeBounds` argument.
-/
import StunVerif.Attr.Raw
namespace StunVerif

inductive Bound where
  | unbounded
  | included (n : Nat)
  | excluded (n : Nat)
  deriving DecidableEq, Repr

/-- the inclusive optional bounds the model's `checkLen` takes, as `Bound`s -/
def Bound.ofOpt : Option Nat → Bound
  | none => .unbounded
  | some n => .included n

end StunVerif
