import StunVerif.Bytes
namespace StunVerif

theorem u8_lt (a : UInt8) : a.toNat < 256 := by
  have := UInt8.toNat_lt a; omega

theorem be16_lt (a b : UInt8) : be16 a b < 65536 := by
  have := u8_lt a; have := u8_lt b; unfold be16; omega

theorem be16_enc (n : Nat) (h : n < 65536) :
    be16 (UInt8.ofNat (n / 256)) (UInt8.ofNat n) = n := by
  simp [be16]; omega

theorem be16_enc_mod (n : Nat) :
    be16 (UInt8.ofNat (n / 256)) (UInt8.ofNat n) = n % 65536 := by
  simp [be16]; omega

theorem be16_inj {a b c d : UInt8} (h : be16 a b = be16 c d) : a = c ∧ b = d := by
  have ha := u8_lt a; have hb := u8_lt b; have hc := u8_lt c; have hd := u8_lt d
  unfold be16 at h
  constructor <;> apply UInt8.toNat_inj.mp <;> omega

theorem enc16_be16 (a b : UInt8) : enc16 (be16 a b) = [a, b] := by
  have ha := u8_lt a; have hb := u8_lt b
  simp only [enc16, be16]
  have h1 : UInt8.ofNat ((a.toNat * 256 + b.toNat) / 256) = a := by
    apply UInt8.toNat_inj.mp; simp <;> omega
  have h2 : UInt8.ofNat (a.toNat * 256 + b.toNat) = b := by
    apply UInt8.toNat_inj.mp; simp <;> omega
  rw [h1, h2]

@[simp] theorem enc16_length (n : Nat) : (enc16 n).length = 2 := rfl

end StunVerif
