/-
Helper lemmas for Props/Utf8.lean.
-/
import StunVerif.Attr.Utf8
import StunVerif.Spec.Utf8
namespace StunVerif

end StunVerif
