/-
Helper lemmas for Props/Utf8.lean.
-/
import StunVerif.Attr.Utf8
import StunVerif.Spec.Utf8
namespace StunVerif
namespace Utf8L
open Spec

theorem u8_eq_iff (b : UInt8) (n : Nat) (h : n < 256) : b = UInt8.ofNat n ↔ b.toNat = n := by
  rw [← UInt8.toNat_inj, UInt8.toNat_ofNat', Nat.mod_eq_of_lt h]

theorem ofNat_eq (b : UInt8) (n : Nat) (h : n = b.toNat) : UInt8.ofNat n = b := by
  subst h; simp

/-! ### `utf8Head` in `Nat` terms: sufficient conditions -/

theorem utf8Head_1 (b0 : UInt8) (rest : Bytes) (h : b0.toNat < 0x80) : utf8Head (b0 :: rest) = 1 := by
  simp [utf8Head, UInt8.lt_iff_toNat_lt, h]

theorem utf8Head_2 (b0 b1 : UInt8) (rest : Bytes) (h0 : 0xC2 ≤ b0.toNat ∧ b0.toNat ≤ 0xDF)
    (h1 : 0x80 ≤ b1.toNat ∧ b1.toNat ≤ 0xBF) : utf8Head (b0 :: b1 :: rest) = 2 := by
  have n1 : ¬ b0.toNat < 128 := by omega
  simp [utf8Head, isCont, UInt8.lt_iff_toNat_lt, UInt8.le_iff_toNat_le, n1, h0, h1]

theorem utf8Head_3 (b0 b1 b2 : UInt8) (rest : Bytes) (h0 : 0xE0 ≤ b0.toNat ∧ b0.toNat ≤ 0xEF)
    (h1 : (if b0.toNat = 0xE0 then 0xA0 else 0x80) ≤ b1.toNat ∧
      b1.toNat ≤ (if b0.toNat = 0xED then 0x9F else 0xBF))
    (h2 : 0x80 ≤ b2.toNat ∧ b2.toNat ≤ 0xBF) : utf8Head (b0 :: b1 :: b2 :: rest) = 3 := by
  have e1 : (b0 = 0xE0) ↔ b0.toNat = 0xE0 := u8_eq_iff b0 0xE0 (by decide)
  have e2 : (b0 = 0xED) ↔ b0.toNat = 0xED := u8_eq_iff b0 0xED (by decide)
  have n1 : ¬ b0.toNat < 128 := by omega
  have n2 : ¬ (194 ≤ b0.toNat ∧ b0.toNat ≤ 223) := by omega
  simp only [utf8Head, isCont, UInt8.lt_iff_toNat_lt, UInt8.le_iff_toNat_le, e1, e2]
  by_cases c1 : b0.toNat = 0xE0 <;> by_cases c2 : b0.toNat = 0xED <;> simp [c1, c2] at h1 ⊢ <;>
    simp [n1, n2, h0, h1, h2] <;> omega

theorem utf8Head_4 (b0 b1 b2 b3 : UInt8) (rest : Bytes) (h0 : 0xF0 ≤ b0.toNat ∧ b0.toNat ≤ 0xF4)
    (h1 : (if b0.toNat = 0xF0 then 0x90 else 0x80) ≤ b1.toNat ∧
      b1.toNat ≤ (if b0.toNat = 0xF4 then 0x8F else 0xBF))
    (h2 : 0x80 ≤ b2.toNat ∧ b2.toNat ≤ 0xBF) (h3 : 0x80 ≤ b3.toNat ∧ b3.toNat ≤ 0xBF) :
    utf8Head (b0 :: b1 :: b2 :: b3 :: rest) = 4 := by
  have e1 : (b0 = 0xF0) ↔ b0.toNat = 0xF0 := u8_eq_iff b0 0xF0 (by decide)
  have e2 : (b0 = 0xF4) ↔ b0.toNat = 0xF4 := u8_eq_iff b0 0xF4 (by decide)
  have n1 : ¬ b0.toNat < 128 := by omega
  have n2 : ¬ (194 ≤ b0.toNat ∧ b0.toNat ≤ 223) := by omega
  have n3 : ¬ (224 ≤ b0.toNat ∧ b0.toNat ≤ 239) := by omega
  simp only [utf8Head, isCont, UInt8.lt_iff_toNat_lt, UInt8.le_iff_toNat_le, e1, e2]
  by_cases c1 : b0.toNat = 0xF0 <;> by_cases c2 : b0.toNat = 0xF4 <;> simp [c1, c2] at h1 ⊢ <;>
    simp [n1, n2, n3, h0, h1, h2, h3] <;> omega

/-! ### `utf8Head` in `Nat` terms: necessary conditions -/

theorem cond_2 (b0 b1 : UInt8) (rest : Bytes) (c1 : ¬ b0.toNat < 0x80)
    (c2 : 0xC2 ≤ b0.toNat ∧ b0.toNat ≤ 0xDF) (h : utf8Head (b0 :: b1 :: rest) ≠ 0) :
    0x80 ≤ b1.toNat ∧ b1.toNat ≤ 0xBF := by
  simp [utf8Head, isCont, UInt8.lt_iff_toNat_lt, UInt8.le_iff_toNat_le, c1, c2] at h
  exact h

theorem cond_3 (b0 b1 b2 : UInt8) (rest : Bytes) (c1 : ¬ b0.toNat < 0x80)
    (c2 : ¬ (0xC2 ≤ b0.toNat ∧ b0.toNat ≤ 0xDF)) (c3 : 0xE0 ≤ b0.toNat ∧ b0.toNat ≤ 0xEF)
    (h : utf8Head (b0 :: b1 :: b2 :: rest) ≠ 0) :
    ((if b0.toNat = 0xE0 then 0xA0 else 0x80) ≤ b1.toNat ∧
      b1.toNat ≤ (if b0.toNat = 0xED then 0x9F else 0xBF)) ∧
    0x80 ≤ b2.toNat ∧ b2.toNat ≤ 0xBF := by
  have e1 : (b0 = 0xE0) ↔ b0.toNat = 0xE0 := u8_eq_iff b0 0xE0 (by decide)
  have e2 : (b0 = 0xED) ↔ b0.toNat = 0xED := u8_eq_iff b0 0xED (by decide)
  simp only [utf8Head, isCont, UInt8.lt_iff_toNat_lt, UInt8.le_iff_toNat_le, e1, e2] at h
  by_cases d1 : b0.toNat = 0xE0 <;> by_cases d2 : b0.toNat = 0xED <;>
    simp [d1, d2, c1, c2, c3] at h ⊢ <;> omega

theorem cond_4 (b0 b1 b2 b3 : UInt8) (rest : Bytes) (c1 : ¬ b0.toNat < 0x80)
    (c2 : ¬ (0xC2 ≤ b0.toNat ∧ b0.toNat ≤ 0xDF)) (c3 : ¬ (0xE0 ≤ b0.toNat ∧ b0.toNat ≤ 0xEF))
    (c4 : 0xF0 ≤ b0.toNat ∧ b0.toNat ≤ 0xF4)
    (h : utf8Head (b0 :: b1 :: b2 :: b3 :: rest) ≠ 0) :
    ((if b0.toNat = 0xF0 then 0x90 else 0x80) ≤ b1.toNat ∧
      b1.toNat ≤ (if b0.toNat = 0xF4 then 0x8F else 0xBF)) ∧
    (0x80 ≤ b2.toNat ∧ b2.toNat ≤ 0xBF) ∧ 0x80 ≤ b3.toNat ∧ b3.toNat ≤ 0xBF := by
  have e1 : (b0 = 0xF0) ↔ b0.toNat = 0xF0 := u8_eq_iff b0 0xF0 (by decide)
  have e2 : (b0 = 0xF4) ↔ b0.toNat = 0xF4 := u8_eq_iff b0 0xF4 (by decide)
  simp only [utf8Head, isCont, UInt8.lt_iff_toNat_lt, UInt8.le_iff_toNat_le, e1, e2] at h
  by_cases d1 : b0.toNat = 0xF0 <;> by_cases d2 : b0.toNat = 0xF4 <;>
    simp [d1, d2, c1, c2, c3, c4] at h ⊢ <;> omega

/-- the first byte of a recognised head is in one of the four lead ranges -/
theorem lead_cases (b0 : UInt8) (rest : Bytes) (h : utf8Head (b0 :: rest) ≠ 0) :
    b0.toNat < 0x80 ∨ (0xC2 ≤ b0.toNat ∧ b0.toNat ≤ 0xDF) ∨ (0xE0 ≤ b0.toNat ∧ b0.toNat ≤ 0xEF) ∨
      (0xF0 ≤ b0.toNat ∧ b0.toNat ≤ 0xF4) := by
  by_cases c1 : b0.toNat < 0x80
  · exact .inl c1
  by_cases c2 : 0xC2 ≤ b0.toNat ∧ b0.toNat ≤ 0xDF
  · exact .inr (.inl c2)
  by_cases c3 : 0xE0 ≤ b0.toNat ∧ b0.toNat ≤ 0xEF
  · exact .inr (.inr (.inl c3))
  by_cases c4 : 0xF0 ≤ b0.toNat ∧ b0.toNat ≤ 0xF4
  · exact .inr (.inr (.inr c4))
  exfalso; apply h
  simp [utf8Head, UInt8.lt_iff_toNat_lt, UInt8.le_iff_toNat_le, c1, c2, c3, c4]

/-! ### decoding a recognised head -/

theorem enc_1 (b0 : UInt8) (h : b0.toNat < 0x80) :
    isScalar b0.toNat = true ∧ utf8Encode b0.toNat = [b0] := by
  refine ⟨by simp [isScalar]; omega, ?_⟩
  simp only [utf8Encode, if_pos h]
  rw [ofNat_eq b0 _ rfl]

theorem enc_2 (b0 b1 : UInt8) (h0 : 0xC2 ≤ b0.toNat ∧ b0.toNat ≤ 0xDF)
    (h1 : 0x80 ≤ b1.toNat ∧ b1.toNat ≤ 0xBF) :
    isScalar ((b0.toNat - 0xC0) * 64 + (b1.toNat - 0x80)) = true ∧
      utf8Encode ((b0.toNat - 0xC0) * 64 + (b1.toNat - 0x80)) = [b0, b1] := by
  refine ⟨by simp [isScalar]; omega, ?_⟩
  generalize hc : (b0.toNat - 0xC0) * 64 + (b1.toNat - 0x80) = c
  have n1 : ¬ c < 0x80 := by omega
  have p2 : c < 0x800 := by omega
  simp only [utf8Encode, if_neg n1, if_pos p2]
  rw [ofNat_eq b0 _ (by omega), ofNat_eq b1 _ (by omega)]

theorem enc_3 (b0 b1 b2 : UInt8) (h0 : 0xE0 ≤ b0.toNat ∧ b0.toNat ≤ 0xEF)
    (h1 : (if b0.toNat = 0xE0 then 0xA0 else 0x80) ≤ b1.toNat ∧
      b1.toNat ≤ (if b0.toNat = 0xED then 0x9F else 0xBF))
    (h2 : 0x80 ≤ b2.toNat ∧ b2.toNat ≤ 0xBF) :
    isScalar ((b0.toNat - 0xE0) * 4096 + (b1.toNat - 0x80) * 64 + (b2.toNat - 0x80)) = true ∧
      utf8Encode ((b0.toNat - 0xE0) * 4096 + (b1.toNat - 0x80) * 64 + (b2.toNat - 0x80)) = [b0, b1, b2] := by
  generalize hc : (b0.toNat - 0xE0) * 4096 + (b1.toNat - 0x80) * 64 + (b2.toNat - 0x80) = c
  have hb1 : 0x80 ≤ b1.toNat ∧ b1.toNat ≤ 0xBF := by split at h1 <;> split at h1 <;> omega
  have n1 : ¬ c < 0x80 := by split at h1 <;> omega
  have n2 : ¬ c < 0x800 := by split at h1 <;> omega
  have p3 : c < 0x10000 := by omega
  refine ⟨?_, ?_⟩
  · simp [isScalar]
    split at h1 <;> split at h1 <;> omega
  simp only [utf8Encode, if_neg n1, if_neg n2, if_pos p3]
  rw [ofNat_eq b0 _ (by omega), ofNat_eq b1 _ (by omega), ofNat_eq b2 _ (by omega)]

theorem enc_4 (b0 b1 b2 b3 : UInt8) (h0 : 0xF0 ≤ b0.toNat ∧ b0.toNat ≤ 0xF4)
    (h1 : (if b0.toNat = 0xF0 then 0x90 else 0x80) ≤ b1.toNat ∧
      b1.toNat ≤ (if b0.toNat = 0xF4 then 0x8F else 0xBF))
    (h2 : 0x80 ≤ b2.toNat ∧ b2.toNat ≤ 0xBF) (h3 : 0x80 ≤ b3.toNat ∧ b3.toNat ≤ 0xBF) :
    isScalar ((b0.toNat - 0xF0) * 262144 + (b1.toNat - 0x80) * 4096 + (b2.toNat - 0x80) * 64 +
        (b3.toNat - 0x80)) = true ∧
      utf8Encode ((b0.toNat - 0xF0) * 262144 + (b1.toNat - 0x80) * 4096 + (b2.toNat - 0x80) * 64 +
        (b3.toNat - 0x80)) = [b0, b1, b2, b3] := by
  generalize hc : (b0.toNat - 0xF0) * 262144 + (b1.toNat - 0x80) * 4096 + (b2.toNat - 0x80) * 64 +
        (b3.toNat - 0x80) = c
  have hb1 : 0x80 ≤ b1.toNat ∧ b1.toNat ≤ 0xBF := by split at h1 <;> split at h1 <;> omega
  have n1 : ¬ c < 0x80 := by split at h1 <;> omega
  have n2 : ¬ c < 0x800 := by split at h1 <;> omega
  have n3 : ¬ c < 0x10000 := by split at h1 <;> omega
  refine ⟨?_, ?_⟩
  · simp [isScalar]
    split at h1 <;> split at h1 <;> omega
  simp only [utf8Encode, if_neg n1, if_neg n2, if_neg n3]
  rw [ofNat_eq b0 _ (by omega), ofNat_eq b1 _ (by omega), ofNat_eq b2 _ (by omega), ofNat_eq b3 _ (by omega)]

/-- a recognised head is the encoding of a scalar value -/
theorem head_decode (bs : Bytes) (h : utf8Head bs ≠ 0) :
    ∃ c, isScalar c = true ∧ bs = utf8Encode c ++ bs.drop (utf8Head bs) := by
  match bs, h with
  | [], h => simp [utf8Head] at h
  | b0 :: rest, h =>
    rcases lead_cases b0 rest h with c1 | c2 | c3 | c4
    · obtain ⟨hs, he⟩ := enc_1 b0 c1
      exact ⟨_, hs, by rw [utf8Head_1 b0 rest c1, he]; rfl⟩
    · have n1 : ¬ b0.toNat < 0x80 := by omega
      match rest, h with
      | [], h => simp [utf8Head, UInt8.lt_iff_toNat_lt, UInt8.le_iff_toNat_le, n1, c2] at h
      | b1 :: rest, h =>
        have k1 := cond_2 b0 b1 rest n1 c2 h
        obtain ⟨hs, he⟩ := enc_2 b0 b1 c2 k1
        exact ⟨_, hs, by rw [utf8Head_2 b0 b1 rest c2 k1, he]; rfl⟩
    · have n1 : ¬ b0.toNat < 0x80 := by omega
      have n2 : ¬ (0xC2 ≤ b0.toNat ∧ b0.toNat ≤ 0xDF) := by omega
      match rest, h with
      | [], h => simp [utf8Head, UInt8.lt_iff_toNat_lt, UInt8.le_iff_toNat_le, n1, n2, c3] at h
      | [_], h => simp [utf8Head, UInt8.lt_iff_toNat_lt, UInt8.le_iff_toNat_le, n1, n2, c3] at h
      | b1 :: b2 :: rest, h =>
        obtain ⟨k1, k2⟩ := cond_3 b0 b1 b2 rest n1 n2 c3 h
        obtain ⟨hs, he⟩ := enc_3 b0 b1 b2 c3 k1 k2
        exact ⟨_, hs, by rw [utf8Head_3 b0 b1 b2 rest c3 k1 k2, he]; rfl⟩
    · have n1 : ¬ b0.toNat < 0x80 := by omega
      have n2 : ¬ (0xC2 ≤ b0.toNat ∧ b0.toNat ≤ 0xDF) := by omega
      have n3 : ¬ (0xE0 ≤ b0.toNat ∧ b0.toNat ≤ 0xEF) := by omega
      match rest, h with
      | [], h => simp [utf8Head, UInt8.lt_iff_toNat_lt, UInt8.le_iff_toNat_le, n1, n2, n3, c4] at h
      | [_], h => simp [utf8Head, UInt8.lt_iff_toNat_lt, UInt8.le_iff_toNat_le, n1, n2, n3, c4] at h
      | [_, _], h => simp [utf8Head, UInt8.lt_iff_toNat_lt, UInt8.le_iff_toNat_le, n1, n2, n3, c4] at h
      | b1 :: b2 :: b3 :: rest, h =>
        obtain ⟨k1, k2, k3⟩ := cond_4 b0 b1 b2 b3 rest n1 n2 n3 c4 h
        obtain ⟨hs, he⟩ := enc_4 b0 b1 b2 b3 c4 k1 k2 k3
        exact ⟨_, hs, by rw [utf8Head_4 b0 b1 b2 b3 rest c4 k1 k2 k3, he]; rfl⟩

/-! ### the encoder's output is recognised -/

theorem toNat_ofNat_small (n : Nat) (h : n < 256) : (UInt8.ofNat n).toNat = n := by
  rw [UInt8.toNat_ofNat', Nat.mod_eq_of_lt h]

theorem head_encode (c : Nat) (h : isScalar c = true) (rest : Bytes) :
    utf8Head (utf8Encode c ++ rest) = (utf8Encode c).length := by
  simp only [isScalar, Bool.or_eq_true, Bool.and_eq_true, decide_eq_true_eq] at h
  unfold utf8Encode
  split
  · exact utf8Head_1 _ _ (by rw [toNat_ofNat_small _ (by omega)]; omega)
  split
  · exact utf8Head_2 _ _ _ (by rw [toNat_ofNat_small _ (by omega)]; omega)
      (by rw [toNat_ofNat_small _ (by omega)]; omega)
  split
  · exact utf8Head_3 _ _ _ _ (by rw [toNat_ofNat_small _ (by omega)]; omega)
      (by rw [toNat_ofNat_small (0xE0 + c / 4096) (by omega), toNat_ofNat_small _ (by omega)]; split <;> split <;> omega)
      (by rw [toNat_ofNat_small _ (by omega)]; omega)
  · exact utf8Head_4 _ _ _ _ _ (by rw [toNat_ofNat_small _ (by omega)]; omega)
      (by rw [toNat_ofNat_small (0xF0 + c / 262144) (by omega), toNat_ofNat_small _ (by omega)]; split <;> split <;> omega)
      (by rw [toNat_ofNat_small _ (by omega)]; omega)
      (by rw [toNat_ofNat_small _ (by omega)]; omega)

theorem encode_length_pos (c : Nat) : 0 < (utf8Encode c).length := by
  unfold utf8Encode; split <;> (try split) <;> (try split) <;> simp

/-! ### a left inverse of the encoder on scalar values -/

def decode1 (bs : Bytes) : Nat :=
  let g (i : Nat) : Nat := (bs.getD i 0).toNat
  if g 0 < 0x80 then g 0
  else if g 0 < 0xE0 then (g 0 - 0xC0) * 64 + (g 1 - 0x80)
  else if g 0 < 0xF0 then (g 0 - 0xE0) * 4096 + (g 1 - 0x80) * 64 + (g 2 - 0x80)
  else (g 0 - 0xF0) * 262144 + (g 1 - 0x80) * 4096 + (g 2 - 0x80) * 64 + (g 3 - 0x80)

theorem decode_encode (c : Nat) (h : isScalar c = true) (rest : Bytes) :
    decode1 (utf8Encode c ++ rest) = c := by
  simp only [isScalar, Bool.or_eq_true, Bool.and_eq_true, decide_eq_true_eq] at h
  unfold utf8Encode
  split
  · simp only [decode1, List.cons_append, List.nil_append, List.getD_cons_zero, List.getD_cons_succ]
    rw [toNat_ofNat_small c (by omega)]
    simp [*]
  split
  · simp only [decode1, List.cons_append, List.nil_append, List.getD_cons_zero, List.getD_cons_succ]
    rw [toNat_ofNat_small (0xC0 + c / 64) (by omega), toNat_ofNat_small (0x80 + c % 64) (by omega)]
    rw [if_neg (by omega), if_pos (by omega)]
    omega
  split
  · simp only [decode1, List.cons_append, List.nil_append, List.getD_cons_zero, List.getD_cons_succ]
    rw [toNat_ofNat_small (0xE0 + c / 4096) (by omega), toNat_ofNat_small (0x80 + c / 64 % 64) (by omega),
      toNat_ofNat_small (0x80 + c % 64) (by omega)]
    rw [if_neg (by omega), if_neg (by omega), if_pos (by omega)]
    omega
  · simp only [decode1, List.cons_append, List.nil_append, List.getD_cons_zero, List.getD_cons_succ]
    rw [toNat_ofNat_small (0xF0 + c / 262144) (by omega), toNat_ofNat_small (0x80 + c / 4096 % 64) (by omega),
      toNat_ofNat_small (0x80 + c / 64 % 64) (by omega), toNat_ofNat_small (0x80 + c % 64) (by omega)]
    rw [if_neg (by omega), if_neg (by omega), if_neg (by omega)]
    omega

end Utf8L
end StunVerif
