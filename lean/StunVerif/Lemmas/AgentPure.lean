/-
Helper lemmas (agent model) for C20 (the agent is a pure function of its inputs): every operation of
the model commutes with a shift of all instants, two agents driven by one interleaved history do not
interact, a call touches only the transaction it names or serves, and stored instants are inputs.
-/
import StunVerif.Lemmas.AgentPeers
namespace StunVerif.Agent

/-! ### `reqPoll` commutes with the shift -/

/-- the answer of a request's poll, shifted -/
def shiftRet (d : Nat) : ReqRet → ReqRet
  | .waitUntil t => .waitUntil (t + d)
  | x => x

theorem reqPoll_shift (d : Nat) (r : Req) (now : Time) :
    reqPoll (shiftReq d r) (now + d) = (shiftReq d (reqPoll r now).1, shiftRet d (reqPoll r now).2) := by
  rcases r with ⟨hc, b, to, ts, lr, rc, sc, ti, ls⟩
  rw [reqPoll_def, reqPoll_def]
  cases ls with
  | none => cases rc <;> cases sc <;> rfl
  | some h =>
    have e : ∀ m, (h + d + m > now + d) = (h + m > now) := by
      intro m; rw [Nat.add_right_comm h d m]; exact propext (Nat.add_lt_add_iff_right)
    simp only [shiftReq, Option.map_some, e]
    cases rc
    · simp only [Bool.false_eq_true, if_false]
      split
      · split
        · simp [shiftRet, Nat.add_right_comm]
        · rfl
      · split
        · simp [shiftRet, Nat.add_right_comm]
        · cases sc <;> rfl
    · rfl

/-! ### the shift map commutes with the association-list operations -/

/-- the shift of one stored entry -/
def shiftEntry (d : Nat) (p : Nat × Req) : Nat × Req := (p.1, shiftReq d p.2)

theorem shiftState_out (d : Nat) (s : State) : (shiftState d s).out = s.out.map (shiftEntry d) := rfl

theorem lookup_shift (d : Nat) (out : List (Nat × Req)) (t : Nat) :
    lookup (out.map (shiftEntry d)) t = (lookup out t).map (shiftReq d) := by
  induction out with
  | nil => rfl
  | cons p out ih =>
    rw [List.map_cons, lookup_cons, lookup_cons, ih]
    by_cases h : p.1 = t <;> simp [shiftEntry, h]

theorem remove_shift (d : Nat) (out : List (Nat × Req)) (t : Nat) :
    remove (out.map (shiftEntry d)) t = (remove out t).map (shiftEntry d) := by
  induction out with
  | nil => rfl
  | cons p out ih =>
    rw [List.map_cons, remove_cons, remove_cons, ih]
    by_cases h : p.1 = t <;> simp [shiftEntry, h]

theorem insert_shift (d : Nat) (out : List (Nat × Req)) (t : Nat) (r : Req) :
    insert (out.map (shiftEntry d)) t (shiftReq d r) = (insert out t r).map (shiftEntry d) := by
  unfold insert
  rw [remove_shift]
  rfl

theorem update_shift (d : Nat) (out : List (Nat × Req)) (t : Nat) (f f' : Req → Req)
    (hf : ∀ r, f' (shiftReq d r) = shiftReq d (f r)) :
    update (out.map (shiftEntry d)) t f' = (update out t f).map (shiftEntry d) := by
  induction out with
  | nil => rfl
  | cons p out ih =>
    rw [List.map_cons, update_cons, update_cons, List.map_cons, ih]
    by_cases h : p.1 = t <;> simp [shiftEntry, h, hf]

/-! ### `ready`, `minWait`, `chosen_peers` -/

/-- the filter of `ready` -/
def isReady (now : Time) (p : Nat × Req) : Bool :=
  match (reqPoll p.2 now).2 with
  | .waitUntil _ => false
  | _ => true

/-- the fold of `minWait` -/
def waitStep (now : Time) (acc : Option Time) (p : Nat × Req) : Option Time :=
  match (reqPoll p.2 now).2 with
  | .waitUntil t => (match acc with
    | none => some t
    | some a => if t < a then some t else some a)
  | _ => acc

theorem ready_eq (s : State) (now : Time) : ready s now = (s.out.filter (isReady now)).map (·.1) := rfl

theorem minWait_eq_pure (s : State) (now : Time) : minWait s now = s.out.foldl (waitStep now) none := rfl

theorem isReady_shift (d : Nat) (now : Time) (p : Nat × Req) :
    isReady (now + d) (shiftEntry d p) = isReady now p := by
  simp only [isReady, shiftEntry, reqPoll_shift]
  cases (reqPoll p.2 now).2 <;> rfl

theorem waitStep_shift (d : Nat) (now : Time) (acc : Option Time) (p : Nat × Req) :
    waitStep (now + d) (acc.map (· + d)) (shiftEntry d p) = (waitStep now acc p).map (· + d) := by
  simp only [waitStep, shiftEntry, reqPoll_shift]
  cases (reqPoll p.2 now).2 with
  | waitUntil t =>
    cases acc with
    | none => rfl
    | some a =>
      simp only [shiftRet, Option.map_some, Nat.add_lt_add_iff_right]
      split <;> rfl
  | _ => rfl

theorem ready_shift (d : Nat) (s : State) (now : Time) :
    ready (shiftState d s) (now + d) = ready s now := by
  rw [ready_eq, ready_eq, shiftState_out]
  induction s.out with
  | nil => rfl
  | cons p out ih =>
    rw [List.map_cons, List.filter_cons, List.filter_cons, isReady_shift]
    split
    · rw [List.map_cons, List.map_cons, ih]; rfl
    · exact ih

theorem minWait_shift (d : Nat) (s : State) (now : Time) :
    minWait (shiftState d s) (now + d) = (minWait s now).map (· + d) := by
  rw [minWait_eq_pure, minWait_eq_pure, shiftState_out]
  suffices h : ∀ acc : Option Time,
      List.foldl (waitStep (now + d)) (acc.map (· + d)) (s.out.map (shiftEntry d)) =
        (List.foldl (waitStep now) acc s.out).map (· + d) from h none
  induction s.out with
  | nil => intro acc; rfl
  | cons p out ih =>
    intro acc
    rw [List.map_cons, List.foldl_cons, List.foldl_cons, waitStep_shift, ih]

theorem chosen_shift (d : Nat) (s : State) (now : Time) (pick : Option Nat) :
    chosen_peers (shiftState d s) (now + d) pick = chosen_peers s now pick := by
  unfold chosen_peers
  rw [ready_shift]

/-! ### `step` commutes with the shift -/

theorem validatedPeer_shift (d : Nat) (s : State) (a : SockAddr) :
    validatedPeer (shiftState d s) a = shiftState d (validatedPeer s a) := by
  by_cases h : s.validated.contains a = true
  · have h' : (shiftState d s).validated.contains a = true := h
    rw [validatedPeer, validatedPeer, if_pos h, if_pos h']
  · have h' : ¬ (shiftState d s).validated.contains a = true := h
    rw [validatedPeer, validatedPeer, if_neg h, if_neg h']
    rfl

theorem shiftState_with_out (d : Nat) (s : State) (out : List (Nat × Req)) :
    shiftState d { s with out := out } = { shiftState d s with out := out.map (shiftEntry d) } := rfl

theorem shiftState_update (d : Nat) (s : State) (tid : Nat) (f : Req → Req)
    (hf : ∀ r, f (shiftReq d r) = shiftReq d (f r)) :
    ({ shiftState d s with out := update (shiftState d s).out tid f } : State) =
      shiftState d { s with out := update s.out tid f } := by
  have e : update (shiftState d s).out tid f = (update s.out tid f).map (shiftEntry d) := by
    rw [shiftState_out, update_shift d s.out tid f f hf]
  rw [e]
  rfl

theorem serve_shift (d : Nat) (s : State) (tid : Nat) (r' : Req) (ret : ReqRet) :
    serve_peers (shiftState d s) tid (shiftReq d r', shiftRet d ret) =
      (shiftState d (serve_peers s tid (r', ret)).1, shiftOut d (serve_peers s tid (r', ret)).2) := by
  cases ret with
  | waitUntil t => rfl
  | sendData =>
    simp only [serve_peers, shiftRet, shiftState_with_out, shiftOut]
    rw [← update_shift d s.out tid (fun _ => r') (fun _ => shiftReq d r') (fun _ => rfl)]
    rfl
  | timedOut =>
    simp only [serve_peers, shiftRet, shiftState_with_out, shiftOut]
    rw [← remove_shift]
    rfl
  | cancelled =>
    simp only [serve_peers, shiftRet, shiftState_with_out, shiftOut]
    rw [← remove_shift]
    rfl

theorem agentPoll_shift (d : Nat) (s : State) (now : Time) (pick : Option Nat) :
    agentPoll (shiftState d s) (now + d) pick =
      (shiftState d (agentPoll s now pick).1, shiftOut d (agentPoll s now pick).2) := by
  rw [agentPoll_eq_peers, agentPoll_eq_peers, chosen_shift, minWait_shift]
  cases chosen_peers s now pick with
  | none =>
    cases minWait s now with
    | none => simp only [Option.map_none, Option.getD_none, shiftOut, Nat.add_right_comm now d]
    | some t => rfl
  | some tid =>
    simp only [shiftState_out, lookup_shift]
    cases lookup s.out tid with
    | none => simp only [Option.map_none, shiftOut, Nat.add_right_comm now d]
    | some r =>
      simp only [Option.map_some, reqPoll_shift]
      exact serve_shift d s tid _ _

theorem step_shift (d : Nat) (s : State) (op : Op) :
    step (shiftState d s) (shiftOp d op) = (shiftState d (step s op).1, shiftOut d (step s op).2) := by
  cases op with
  | sendReq tid b hc to now =>
    simp only [shiftOp]
    rw [step_sendReq, step_sendReq, shiftState_out, lookup_shift, Option.isSome_map]
    split
    · rfl
    · simp only [shiftState_with_out, shiftOut]
      rw [← insert_shift]
      rfl
  | sendOther b to => rfl
  | handle m src =>
    have hl' : lookup (shiftState d s).out m.tid = (lookup s.out m.tid).map (shiftReq d) := by
      rw [shiftState_out, lookup_shift]
    have hk' : (shiftState d s).remoteCreds = s.remoteCreds := rfl
    simp only [shiftOp, step, hl', hk']
    have hrem : remove (shiftState d s).out m.tid = (remove s.out m.tid).map (shiftEntry d) := by
      rw [shiftState_out, remove_shift]
    have hins : ∀ r, insert (remove (shiftState d s).out m.tid) m.tid (shiftReq d r) =
        (insert (remove s.out m.tid) m.tid r).map (shiftEntry d) := by
      intro r; rw [hrem, insert_shift]
    by_cases hr : m.isResponse = true
    · simp only [hr, if_true]
      cases lookup s.out m.tid with
      | none => rfl
      | some r =>
        simp only [Option.map_some]
        have hc : (shiftReq d r).hadCreds = r.hadCreds := rfl
        rw [hc]
        by_cases hcr : r.hadCreds = true
        · simp only [hcr, if_true]
          cases s.remoteCreds with
          | none =>
            simp only []
            rw [hins]
            rfl
          | some k =>
            simp only []
            by_cases hv : m.validUnder k = true
            · simp only [hv, if_true]
              rw [hrem]
              exact congrArg (·, Out.response)
                (validatedPeer_shift d { s with remoteCreds := some k, out := remove s.out m.tid } src)
            · simp only [hv, Bool.false_eq_true, if_false]
              rw [hins]
              rfl
        · simp only [hcr, Bool.false_eq_true, if_false]
          rw [hrem]
          exact congrArg (·, Out.response)
            (validatedPeer_shift d { s with out := remove s.out m.tid } src)
    · simp only [hr, Bool.false_eq_true, if_false]
      exact congrArg (·, Out.incoming) (validatedPeer_shift d _ src)
  | poll now pick => exact agentPoll_shift d s now pick
  | cancel tid =>
    refine Prod.ext ?_ rfl
    exact shiftState_update d s tid _ (fun _ => rfl)
  | cancelRtx tid =>
    refine Prod.ext ?_ rfl
    exact shiftState_update d s tid _ (fun _ => rfl)
  | configure tid rto n last =>
    refine Prod.ext ?_ rfl
    exact shiftState_update d s tid (fun r => configureReq s.transport r rto n last)
      (fun r => by cases s.transport <;> rfl)
  | setRemoteCreds k => rfl

theorem shiftState_init (d : Nat) (tr : Transport) (loc : SockAddr) :
    shiftState d (State.init tr loc) = State.init tr loc := rfl

/-- whole histories, from any state -/
theorem trace_shift (d : Nat) (s : State) (ops : List Op) :
    (trace (shiftState d s) (ops.map (shiftOp d))).map (·.2) =
      ((trace s ops).map (·.2)).map (shiftOut d) := by
  induction ops generalizing s with
  | nil => rfl
  | cons op ops ih =>
    rw [List.map_cons, trace_cons_peers, trace_cons_peers, step_shift]
    simp only [List.map_cons]
    rw [ih]

/-! ### two agents -/

theorem run2_nil (ss : State × State) : run2 ss [] = (ss, []) := by
  rcases ss with ⟨s1, s2⟩; rfl

theorem run2_cons_true (s1 s2 : State) (op : Op) (ops : List Op2) :
    run2 (s1, s2) ((true, op) :: ops) =
      ((run2 ((step s1 op).1, s2) ops).1, (true, (step s1 op).2) :: (run2 ((step s1 op).1, s2) ops).2) := rfl

theorem run2_cons_false (s1 s2 : State) (op : Op) (ops : List Op2) :
    run2 (s1, s2) ((false, op) :: ops) =
      ((run2 (s1, (step s2 op).1) ops).1, (false, (step s2 op).2) :: (run2 (s1, (step s2 op).1) ops).2) := rfl

theorem run2_independent (s1 s2 : State) (ops : List Op2) :
    (run2 (s1, s2) ops).1 = (after s1 ((ops.filter (·.1)).map (·.2)), after s2 ((ops.filter (!·.1)).map (·.2))) ∧
    ((run2 (s1, s2) ops).2.filter (·.1)).map (·.2) = (trace s1 ((ops.filter (·.1)).map (·.2))).map (·.2) ∧
    ((run2 (s1, s2) ops).2.filter (!·.1)).map (·.2) = (trace s2 ((ops.filter (!·.1)).map (·.2))).map (·.2) := by
  induction ops generalizing s1 s2 with
  | nil => exact ⟨rfl, rfl, rfl⟩
  | cons p ops ih =>
    rcases p with ⟨w, op⟩
    cases w with
    | true =>
      obtain ⟨h1, h2, h3⟩ := ih (step s1 op).1 s2
      rw [run2_cons_true]
      simp only [List.filter_cons, Bool.not_true, Bool.false_eq_true, if_false, if_true, List.map_cons,
        after_cons, trace_cons_peers]
      exact ⟨h1, by rw [h2], h3⟩
    | false =>
      obtain ⟨h1, h2, h3⟩ := ih s1 (step s2 op).1
      rw [run2_cons_false]
      simp only [List.filter_cons, Bool.not_false, Bool.false_eq_true, if_false, if_true, List.map_cons,
        after_cons, trace_cons_peers]
      exact ⟨h1, h2, by rw [h3]⟩

/-! ### a call touches only the transaction it names or serves -/

/-- `tid` is neither named by the call nor served by it (same text as the hypothesis of
    `C20.no_leak`) -/
def Untouched (op : Op) (o : Out) (tid : Nat) : Prop :=
  match op, o with
  | .sendReq t _ _ _ _, _ => t ≠ tid
  | .poll _ _, .transmit (some t) _ => t ≠ tid
  | .poll _ _, .timedOut t => t ≠ tid
  | .poll _ _, .cancelled t => t ≠ tid
  | .poll _ _, _ => True
  | .handle m _, _ => m.tid ≠ tid
  | .cancel t, _ => t ≠ tid
  | .cancelRtx t, _ => t ≠ tid
  | .configure t _ _ _, _ => t ≠ tid
  | _, _ => True

theorem step_untouched (s : State) (op : Op) (tid : Nat) (hnot : Untouched op (step s op).2 tid) :
    lookup (step s op).1.out tid = lookup s.out tid := by
  cases op with
  | sendReq t b hc to now =>
    have ht : tid ≠ t := fun e => hnot e.symm
    rw [step_sendReq]
    split
    · rfl
    · exact lookup_insert_ne _ _ _ _ ht
  | sendOther b to => rfl
  | handle m src =>
    have ht : tid ≠ m.tid := fun e => hnot e.symm
    simp only [step]
    split
    · split
      · rfl
      · split
        · split
          · split
            · rw [validatedPeer_out_peers]; exact lookup_remove_ne _ _ _ ht
            · exact (lookup_insert_ne _ _ _ _ ht).trans (lookup_remove_ne _ _ _ ht)
          · exact (lookup_insert_ne _ _ _ _ ht).trans (lookup_remove_ne _ _ _ ht)
        · rw [validatedPeer_out_peers]; exact lookup_remove_ne _ _ _ ht
    · rw [validatedPeer_out_peers]
  | poll now pick =>
    have e : step s (.poll now pick) = agentPoll s now pick := rfl
    rw [e] at hnot ⊢
    rcases agentPoll_cases_peers s now pick with ⟨t', hp⟩ | ⟨t, r, hl, _, hp⟩ | ⟨t, r, hl, _, hp⟩ |
      ⟨t, r, hl, _, hp⟩
    · rw [hp]
    · rw [hp] at hnot ⊢
      have ht : tid ≠ t := fun e => hnot e.symm
      dsimp only
      exact lookup_update_ne s.out _ _ _ ht
    · rw [hp] at hnot ⊢
      have ht : tid ≠ t := fun e => hnot e.symm
      exact lookup_remove_ne _ _ _ ht
    · rw [hp] at hnot ⊢
      have ht : tid ≠ t := fun e => hnot e.symm
      exact lookup_remove_ne _ _ _ ht
  | cancel t =>
    have ht : tid ≠ t := fun e => hnot e.symm
    simp only [step]
    exact lookup_update_ne s.out _ _ _ ht
  | cancelRtx t =>
    have ht : tid ≠ t := fun e => hnot e.symm
    simp only [step]
    exact lookup_update_ne s.out _ _ _ ht
  | configure t rto n last =>
    have ht : tid ≠ t := fun e => hnot e.symm
    simp only [step]
    exact lookup_update_ne s.out _ _ _ ht
  | setRemoteCreds k => rfl

/-! ### stored instants -/

/-- the last-send instant of a request outstanding after a history was already stored for that id
    before the history, or is the `now` of one of its send or poll calls -/
theorem lastSend_after (s : State) (ops : List Op) (tid : Nat) (r : Req) (t : Time)
    (h : lookup (after s ops).out tid = some r) (ht : r.lastSend = some t) :
    (∃ r0, lookup s.out tid = some r0 ∧ r0.lastSend = some t) ∨
    ∃ op ∈ ops, (∃ id b hc to, op = .sendReq id b hc to t) ∨ (∃ pick, op = .poll t pick) := by
  induction ops generalizing s with
  | nil => exact Or.inl ⟨r, h, ht⟩
  | cons op ops ih =>
    rw [after_cons] at h
    rcases ih _ h with ⟨r1, hl1, ht1⟩ | ⟨op', hm, hop⟩
    · rcases step_lookup_some s op tid r1 hl1 with ⟨r0, hl0, _, _, _, hk⟩ |
        ⟨_, b, hc, to, now, rfl, _, rfl⟩
      · rcases hk with hk | ⟨now, pick, rfl, hk⟩
        · exact Or.inl ⟨r0, hl0, hk ▸ ht1⟩
        · rw [hk] at ht1
          cases ht1
          exact Or.inr ⟨_, List.mem_cons_self, Or.inr ⟨pick, rfl⟩⟩
      · cases ht1
        exact Or.inr ⟨_, List.mem_cons_self, Or.inl ⟨tid, b, hc, to, rfl⟩⟩
    · exact Or.inr ⟨op', List.mem_cons_of_mem _ hm, hop⟩

end StunVerif.Agent
