/-
Helper lemmas for C01: the entry points that are not covered by another property file never
produce a fault, and the iterator's fuel is sufficient.
-/
import StunVerif.Spec.Builder
import StunVerif.Lemmas.Parse
namespace StunVerif

theorem msgTypeFromBytes_no_fault (d : Bytes) (f : Fault) :
    msgTypeFromBytes d ≠ .error (.fault f) := by
  unfold msgTypeFromBytes
  split
  · split <;> intro h <;> cases h
  · intro h; cases h

theorem headerFromBytes_no_fault (d : Bytes) (f : Fault) :
    headerFromBytes d ≠ .error (.fault f) := by
  unfold headerFromBytes
  split
  · intro h; cases h
  · cases ht : msgTypeFromBytes d with
    | error e =>
      intro h
      have : e = .fault f := by
        simp only [bind, Except.bind] at h
        injection h
      exact msgTypeFromBytes_no_fault d f (by rw [ht, this])
    | ok ty =>
      simp only [bind, Except.bind]
      split <;> intro h <;> cases h

theorem rawFromBytes_no_fault (d : Bytes) (f : Fault) : rawFromBytes d ≠ .error (.fault f) := by
  unfold rawFromBytes
  split
  · simp only
    split <;> intro h <;> cases h
  · intro h; cases h

theorem drop_paddedLen_length (a : RawAttr) (data : Bytes) (h : data ≠ []) :
    (data.drop a.paddedLen).length < data.length := by
  have hp := paddedLen_ge a
  have : 0 < data.length := List.length_pos_iff.mpr h
  rw [List.length_drop]
  omega

/-- any two amounts of fuel of at least the data length give the same iteration -/
theorem iterGo_fuel_irrel (f1 : Nat) : ∀ (f2 : Nat) (data : Bytes) (seen lastMI : Bool),
    data.length ≤ f1 → data.length ≤ f2 →
    iterGo f1 data seen lastMI = iterGo f2 data seen lastMI := by
  induction f1 with
  | zero =>
    intro f2 data seen lastMI h1 _
    have : data = [] := List.length_eq_zero_iff.mp (by omega)
    subst this
    cases f2 <;> simp [iterGo]
  | succ f1 ih =>
    intro f2 data seen lastMI h1 h2
    cases f2 with
    | zero =>
      have : data = [] := List.length_eq_zero_iff.mp (by omega)
      subst this
      simp [iterGo]
    | succ f2 =>
      unfold iterGo
      by_cases he : data.isEmpty = true
      · rw [if_pos he, if_pos he]
      · rw [if_neg he, if_neg he]
        cases hr : rawFromBytes data with
        | error e => rfl
        | ok a =>
          simp only
          have hne : data ≠ [] := by
            intro h; subst h; simp at he
          have hl := drop_paddedLen_length a data hne
          have e : ∀ s l, iterGo f1 (data.drop a.paddedLen) s l =
              iterGo f2 (data.drop a.paddedLen) s l :=
            fun s l => ih f2 _ s l (by omega) (by omega)
          simp only [e]

end StunVerif
