import StunVerif.Spec.Builder
import StunVerif.Lemmas.Parse
namespace StunVerif
end StunVerif
