/-
Helper lemmas for the error-detection corollary of C09 (`Props/C09Burst.lean`):
bit positions versus bytes, the CRC input `fpInput` bit by bit, and the shape of a well-formed
buffer whose last attribute is a FINGERPRINT.
-/
import StunVerif.Lemmas.CrcBurst
import StunVerif.Lemmas.Fingerprint
import StunVerif.Lemmas.Xor
namespace StunVerif
open Spec

/-! ### bit positions versus bytes -/

/-- two buffers that agree on the eight bit positions of byte `k` agree on byte `k` -/
theorem getD_eq_of_bitAt (b b' : Bytes) (k : Nat)
    (h : ∀ j, j < 8 → Crc.bitAt b (8 * k + j) = Crc.bitAt b' (8 * k + j)) :
    b.getD k 0 = b'.getD k 0 := by
  apply UInt8.toNat_inj.mp
  apply Nat.eq_of_testBit_eq
  intro j
  by_cases hj : j < 8
  · have := h j hj
    unfold Crc.bitAt at this
    rwa [show (8 * k + j) / 8 = k by omega, show (8 * k + j) % 8 = j by omega] at this
  · have h8 : 2 ^ 8 ≤ 2 ^ j := Nat.pow_le_pow_right (by omega) (by omega)
    rw [Nat.testBit_lt_two_pow (Nat.lt_of_lt_of_le (UInt8.toNat_lt _) h8),
      Nat.testBit_lt_two_pow (Nat.lt_of_lt_of_le (UInt8.toNat_lt _) h8)]

theorem getElem?_eq_of_getD (b b' : Bytes) (k : Nat) (hlen : b.length = b'.length)
    (h : b.getD k 0 = b'.getD k 0) : b[k]? = b'[k]? := by
  by_cases hk : k < b.length
  · have hk' : k < b'.length := by omega
    rw [List.getD_eq_getElem?_getD, List.getD_eq_getElem?_getD, List.getElem?_eq_getElem hk,
      List.getElem?_eq_getElem hk'] at h
    rw [List.getElem?_eq_getElem hk, List.getElem?_eq_getElem hk']
    exact congrArg some h
  · rw [List.getElem?_eq_none (by omega), List.getElem?_eq_none (by omega)]

theorem take_eq_of_getD (b b' : Bytes) (n : Nat) (hlen : b.length = b'.length)
    (h : ∀ k, k < n → b.getD k 0 = b'.getD k 0) : b.take n = b'.take n := by
  apply List.ext_getElem?
  intro k
  by_cases hk : k < n
  · rw [List.getElem?_take_of_lt hk, List.getElem?_take_of_lt hk]
    exact getElem?_eq_of_getD b b' k hlen (h k hk)
  · rw [List.getElem?_eq_none (by rw [List.length_take]; omega),
      List.getElem?_eq_none (by rw [List.length_take]; omega)]

theorem drop_eq_of_getD (b b' : Bytes) (n : Nat) (hlen : b.length = b'.length)
    (h : ∀ k, n ≤ k → b.getD k 0 = b'.getD k 0) : b.drop n = b'.drop n := by
  apply List.ext_getElem?
  intro k
  rw [List.getElem?_drop, List.getElem?_drop]
  exact getElem?_eq_of_getD b b' (n + k) hlen (h (n + k) (by omega))

/-! ### the CRC input bit by bit -/

theorem setLen_getElem?_two (l : Bytes) (n : Nat) (h : 4 ≤ l.length) :
    (setLen l n)[2]? = some (UInt8.ofNat (n / 256)) := by
  match l, h with
  | _ :: _ :: _ :: _ :: _, _ => rfl

theorem setLen_getElem?_three (l : Bytes) (n : Nat) (h : 4 ≤ l.length) :
    (setLen l n)[3]? = some (UInt8.ofNat n) := by
  match l, h with
  | _ :: _ :: _ :: _ :: _, _ => rfl

/-- a bit position at which the CRC inputs of two buffers (same offset, same declared length)
    differ is a bit position at which the buffers differ -/
theorem fpInput_bitAt_ne (d d' : Bytes) (off p i : Nat) (h4 : 4 ≤ off) (hl : off ≤ d.length)
    (hl' : off ≤ d'.length)
    (h : Crc.bitAt (fpInput d off p) i ≠ Crc.bitAt (fpInput d' off p) i) :
    Crc.bitAt d i ≠ Crc.bitAt d' i := by
  unfold Crc.bitAt at h ⊢
  simp only [List.getD_eq_getElem?_getD] at h ⊢
  have ht : 4 ≤ (d.take off).length := by rw [List.length_take]; omega
  have ht' : 4 ≤ (d'.take off).length := by rw [List.length_take]; omega
  by_cases h2 : i / 8 = 2
  · exfalso; apply h
    rw [h2]; unfold fpInput
    rw [setLen_getElem?_two _ _ ht, setLen_getElem?_two _ _ ht']
  · by_cases h3 : i / 8 = 3
    · exfalso; apply h
      rw [h3]; unfold fpInput
      rw [setLen_getElem?_three _ _ ht, setLen_getElem?_three _ _ ht']
    · by_cases hi : i / 8 < off
      · rwa [fpInput_getElem? _ _ _ _ hi h2 h3, fpInput_getElem? _ _ _ _ hi h2 h3] at h
      · exfalso; apply h
        rw [List.getElem?_eq_none (by rw [fpInput_length]; omega),
          List.getElem?_eq_none (by rw [fpInput_length]; omega)]

/-- equal CRC inputs and equal length fields: the buffers agree before the attribute -/
theorem take_eq_of_fpInput_eq (d d' : Bytes) (off p : Nat) (h4 : 4 ≤ off) (hl : off ≤ d.length)
    (hl' : off ≤ d'.length) (h23 : (d.drop 2).take 2 = (d'.drop 2).take 2)
    (h : fpInput d off p = fpInput d' off p) : d.take off = d'.take off := by
  unfold fpInput at h
  apply setLen_inj _ _ _ h
  · rw [List.length_take]; omega
  · rw [List.length_take]; omega
  · rw [List.drop_take, List.drop_take, List.take_take, List.take_take,
      show min 2 (off - 2) = 2 by omega]
    exact h23

/-! ### a well-formed buffer ending in a FINGERPRINT -/

/-- the last eight bytes are `80 28 00 04` and the value, and the value is the CRC relation of the
    bytes before them -/
theorem wellFormedAs_fp_last (b : Bytes) (pre : List Tlv) (x : Tlv)
    (hw : WellFormedAs b (pre ++ [x])) (hx : x.ty = tyFP) :
    28 ≤ b.length ∧ x.value.length = 4 ∧
    b.drop (b.length - 8) = [0x80, 0x28, 0x00, 0x04] ++ x.value ∧
    xorBytes x.value [0x53, 0x54, 0x55, 0x4e] =
      Crc.crc32Bytes (fpInput b (b.length - 8) 8) := by
  obtain ⟨h20, _, _, _, hwf, htile, _, hfp⟩ := hw
  have hxw : x.wf := hwf x (by simp)
  obtain ⟨h4, hcrc⟩ := fpOk_at b pre 20 x [] hfp hx
  have h8 := tlv_fp_enc_length x hxw h4
  have hpad : x.pad = [] := by
    have := hxw.2.2
    rw [h4] at this
    exact List.length_eq_zero_iff.mp this
  rw [List.flatMap_append] at htile
  simp only [List.flatMap_cons, List.flatMap_nil, List.append_nil] at htile
  have hL : b.length - 20 = (pre.flatMap Tlv.enc).length + 8 := by
    have := congrArg List.length htile
    rwa [List.length_drop, List.length_append, h8] at this
  have hoff : 20 + (pre.flatMap Tlv.enc).length = b.length - 8 := by omega
  refine ⟨by omega, h4, ?_, ?_⟩
  · rw [← hoff, ← List.drop_drop, htile, List.drop_left, Tlv.enc_eq, hx, h4, hpad,
      List.append_nil]
    rfl
  · rw [hcrc, h8, hoff]

end StunVerif
