/-
Helper lemmas for Props/C06Sched.lean.
-/
import StunVerif.Spec.Agent
import StunVerif.Lemmas.AgentMap
namespace StunVerif.Agent

/-- `reqPoll` of a live, already transmitted request, without the `let`-bound local function -/
theorem reqPoll_sent_eq (r : Req) (h now : Nat) (hc : r.recvCancelled = false)
    (hs : r.sendCancelled = false) (hl : r.lastSend = some h) :
    reqPoll r now =
      if r.timeouts.length ≤ r.timeoutI then
        if now < h + msNs r.lastRto then (r, .waitUntil (h + msNs r.lastRto)) else (r, .timedOut)
      else
        if now < h + msNs (r.timeouts.getD r.timeoutI 0) then
          (r, .waitUntil (h + msNs (r.timeouts.getD r.timeoutI 0)))
        else ({ r with timeoutI := r.timeoutI + 1, lastSend := some now }, .sendData) := by
  unfold reqPoll
  simp only [hc, hs, hl, Bool.false_eq_true, if_false, ge_iff_le, gt_iff_lt]

/-- past the last interval: wait `lastRto`, then time out; the request is unchanged -/
theorem reqPoll_sent_done (r : Req) (h now : Nat) (hc : r.recvCancelled = false)
    (hs : r.sendCancelled = false) (hl : r.lastSend = some h) (hi : r.timeouts.length ≤ r.timeoutI) :
    reqPoll r now =
      (r, if now < h + msNs r.lastRto then .waitUntil (h + msNs r.lastRto) else .timedOut) := by
  rw [reqPoll_sent_eq r h now hc hs hl, if_pos hi]
  by_cases hn : now < h + msNs r.lastRto
  · rw [if_pos hn, if_pos hn]
  · rw [if_neg hn, if_neg hn]

/-- an interval still ahead, polled early: wait -/
theorem reqPoll_sent_wait (r : Req) (h now : Nat) (hc : r.recvCancelled = false)
    (hs : r.sendCancelled = false) (hl : r.lastSend = some h) (hi : r.timeoutI < r.timeouts.length)
    (hn : now < h + msNs (r.timeouts[r.timeoutI]'hi)) :
    reqPoll r now = (r, .waitUntil (h + msNs (r.timeouts[r.timeoutI]'hi))) := by
  have hg : r.timeouts.getD r.timeoutI 0 = r.timeouts[r.timeoutI]'hi := by
    simp [List.getD, List.getElem?_eq_getElem hi]
  rw [reqPoll_sent_eq r h now hc hs hl, if_neg (Nat.not_le.mpr hi), hg, if_pos hn]

/-- an interval still ahead, polled on time or late: transmit, measured from `now` -/
theorem reqPoll_sent_send (r : Req) (h now : Nat) (hc : r.recvCancelled = false)
    (hs : r.sendCancelled = false) (hl : r.lastSend = some h) (hi : r.timeoutI < r.timeouts.length)
    (hn : ¬ now < h + msNs (r.timeouts[r.timeoutI]'hi)) :
    reqPoll r now = ({ r with timeoutI := r.timeoutI + 1, lastSend := some now }, .sendData) := by
  have hg : r.timeouts.getD r.timeoutI 0 = r.timeouts[r.timeoutI]'hi := by
    simp [List.getD, List.getElem?_eq_getElem hi]
  rw [reqPoll_sent_eq r h now hc hs hl, if_neg (Nat.not_le.mpr hi), hg, if_neg hn]

end StunVerif.Agent
