/-
Helper lemmas for C09: `setLen` leaves everything but bytes 2 and 3 alone, the ordering rule puts
nothing after a FINGERPRINT, the FINGERPRINT clause of `fpOk` at an arbitrary position.
-/
import StunVerif.Spec.Builder
import StunVerif.Lemmas.Builder
import StunVerif.Lemmas.Integrity
namespace StunVerif
open Spec

/-! ### `setLen` -/

theorem fpInput_length (d : Bytes) (off p : Nat) : (fpInput d off p).length = min off d.length := by
  unfold fpInput
  rw [setLen_length, List.length_take]

theorem fpInput_getElem? (d : Bytes) (off p i : Nat) (hi : i < off) (h2 : i ≠ 2) (h3 : i ≠ 3) :
    (fpInput d off p)[i]? = d[i]? := by
  unfold fpInput
  rw [setLen_getElem? _ _ _ h2 h3, List.getElem?_take_of_lt hi]

/-! ### the length field as two bytes -/

theorem lenField_getElem (b : Bytes) (h : 4 ≤ b.length) :
    ∃ x y, b[2]? = some x ∧ b[3]? = some y ∧ beNat ((b.drop 2).take 2) = be16 x y := by
  match b, h with
  | _ :: _ :: x :: y :: _, _ =>
    exact ⟨x, y, rfl, rfl, by simp [beNat_two]⟩

/-- two buffers with the same length field agree on bytes 2 and 3 -/
theorem lenField_eq_getElem? (b b' : Bytes) (h : 4 ≤ b.length) (h' : 4 ≤ b'.length)
    (he : beNat ((b.drop 2).take 2) = beNat ((b'.drop 2).take 2)) :
    b[2]? = b'[2]? ∧ b[3]? = b'[3]? := by
  obtain ⟨x, y, hx, hy, hb⟩ := lenField_getElem b h
  obtain ⟨x', y', hx', hy', hb'⟩ := lenField_getElem b' h'
  rw [hb, hb'] at he
  obtain ⟨rfl, rfl⟩ := be16_inj he
  exact ⟨by rw [hx, hx'], by rw [hy, hy']⟩

/-! ### ordering rule: nothing follows a FINGERPRINT -/

theorem orderOk_fp_last : ∀ (l r : List Nat), orderOk (l ++ tyFP :: r) = true → r = [] := by
  intro l
  induction l with
  | nil =>
    intro r h
    simpa [orderOk] using h
  | cons t l ih =>
    intro r h
    rw [List.cons_append, orderOk] at h
    split at h
    · simp at h
    · split at h
      · simp only [Bool.and_eq_true] at h
        exact ih r h.2
      · exact ih r h

/-! ### `fpOk` at an arbitrary position -/

theorem fpOk_at (b : Bytes) : ∀ (pre : List Tlv) (off : Nat) (x : Tlv) (post : List Tlv),
    fpOk b off (pre ++ x :: post) → x.ty = tyFP →
    x.value.length = 4 ∧
      xorBytes x.value [0x53, 0x54, 0x55, 0x4e] =
        Crc.crc32Bytes (fpInput b (off + (pre.flatMap Tlv.enc).length) x.enc.length) := by
  intro pre
  induction pre with
  | nil =>
    intro off x post h hx
    simp only [List.nil_append, fpOk] at h
    simpa using h.1 hx
  | cons t pre ih =>
    intro off x post h hx
    simp only [List.cons_append, fpOk] at h
    have := ih (off + t.enc.length) x post h.2 hx
    simpa [List.flatMap_cons, Nat.add_assoc] using this

/-- a well-formed FINGERPRINT record is eight bytes on the wire -/
theorem tlv_fp_enc_length (x : Tlv) (hw : x.wf) (h4 : x.value.length = 4) : x.enc.length = 8 := by
  rw [Tlv.enc_length, hw.2.2, h4]
  rfl

end StunVerif
