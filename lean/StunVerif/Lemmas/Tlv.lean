import StunVerif.Spec.Msg
import StunVerif.Lemmas.Bytes
import StunVerif.Lemmas.BE
namespace StunVerif
open Spec

theorem paddedAttrLen_eq_add (n : Nat) : paddedAttrLen n = n + pad4 n := by
  unfold paddedAttrLen pad4; split <;> omega


theorem Tlv.enc_length (t : Tlv) : t.enc.length = 4 + t.value.length + t.pad.length := by
  simp [Tlv.enc]; omega

theorem Tlv.paddedLen_raw (t : Tlv) (hw : t.wf) : t.raw.paddedLen = t.enc.length := by
  obtain ⟨_, h2, h3⟩ := hw
  rw [Tlv.enc_length, RawAttr.paddedLen, paddedAttrLen_eq_add]
  simp only [Tlv.raw]
  rw [Nat.mod_eq_of_lt h2, h3]; omega

theorem Tlv.enc_eq (t : Tlv) :
    t.enc = UInt8.ofNat (t.ty / 256) :: UInt8.ofNat t.ty :: UInt8.ofNat (t.value.length / 256) ::
      UInt8.ofNat t.value.length :: (t.value ++ t.pad) := by
  simp [Tlv.enc, enc16]

/-- one parser step on the encoding of a well-formed TLV -/
theorem raw_step_enc (t : Tlv) (hw : t.wf) (rest : Bytes)
    (hl : (t.enc ++ rest).length < 65536 + 4) :
    rawFromBytes (t.enc ++ rest) = .ok t.raw := by
  obtain ⟨h1, h2, h3⟩ := hw
  rw [List.length_append, Tlv.enc_length] at hl
  rw [Tlv.enc_eq]
  simp only [List.cons_append, rawFromBytes, be16_enc _ h1, be16_enc _ h2]
  have hlen : (t.value ++ t.pad ++ rest).length = t.value.length + t.pad.length + rest.length := by
    simp; omega
  rw [hlen, Nat.mod_eq_of_lt (by omega), if_neg (by omega)]
  simp [Tlv.raw]

/-- one successful parser step consumes the encoding of a well-formed TLV -/
theorem raw_step_ok {data : Bytes} {a : RawAttr} (h : rawFromBytes data = .ok a)
    (hp : a.paddedLen ≤ data.length) :
    ∃ t : Tlv, t.wf ∧ t.raw = a ∧ t.enc.length = a.paddedLen ∧
      data = t.enc ++ data.drop a.paddedLen := by
  match data, h with
  | t0 :: t1 :: l0 :: l1 :: rest, h =>
    simp only [rawFromBytes] at h
    split at h
    · cases h
    · rename_i hlen
      injection h with h
      subst h
      have hb := be16_lt l0 l1
      have hmod : rest.length % 65536 ≤ rest.length := Nat.mod_le _ _
      have hvl : (rest.take (be16 l0 l1)).length = be16 l0 l1 := by
        rw [List.length_take]; omega
      simp only [RawAttr.paddedLen, hvl, Nat.mod_eq_of_lt hb, paddedAttrLen_eq_add,
        List.length_cons] at hp ⊢
      have hpl := pad4_lt (be16 l0 l1)
      refine ⟨⟨be16 t0 t1, rest.take (be16 l0 l1),
        (rest.drop (be16 l0 l1)).take (pad4 (be16 l0 l1))⟩, ⟨be16_lt _ _, ?_, ?_⟩, rfl, ?_, ?_⟩
      · simp only [hvl]; exact hb
      · simp only [hvl, List.length_take, List.length_drop]; omega
      · rw [Tlv.enc_length]; simp only [hvl, List.length_take, List.length_drop]; omega
      · simp only [Tlv.enc, hvl, enc16_be16]
        have : 4 + (be16 l0 l1 + pad4 (be16 l0 l1)) = (be16 l0 l1 + pad4 (be16 l0 l1)) + 4 := by
          omega
        rw [this]
        simp only [List.drop_succ_cons, List.cons_append, List.nil_append, List.append_assoc]
        congr 4
        rw [← List.drop_drop, List.take_append_drop, List.take_append_drop]
end StunVerif
