import StunVerif.Agent.Tcp
import StunVerif.Lemmas.Bytes
namespace StunVerif.Tcp
open StunVerif

theorem frame_cons (f : Bytes) :
    frame f = UInt8.ofNat (f.length / 256) :: UInt8.ofNat f.length :: f := rfl

theorem pull_frame (f rest : Bytes) (h : f.length < 65536) :
    pull (frame f ++ rest) = (some f, rest) := by
  simp [frame_cons, pull, be16_enc _ h]

theorem pull_none_keeps (b : Bytes) (h : (pull b).1 = none) : (pull b).2 = b := by
  unfold pull at *
  split
  · split <;> simp_all
  · rfl

theorem pull_some {b f b' : Bytes} (h : pull b = (some f, b')) :
    f.length < 65536 ∧ b = frame f ++ b' := by
  unfold pull at h
  split at h
  · rename_i a c rest
    split at h
    · simp at h
    · rename_i hlen
      simp at h
      obtain ⟨h1, h2⟩ := h
      have hl : f.length = be16 a c := by rw [← h1]; simp; omega
      refine ⟨by rw [hl]; exact be16_lt a c, ?_⟩
      rw [frame, hl, enc16_be16, ← h1, ← h2]
      simp
  · simp at h

theorem frame_prefix_free {f g X Y : Bytes} (hf : f.length < 65536) (hg : g.length < 65536)
    (h : frame f ++ X = frame g ++ Y) : f = g ∧ X = Y := by
  have h1 := pull_frame f X hf
  have h2 := pull_frame g Y hg
  rw [h] at h1
  rw [h1] at h2
  simp at h2
  exact h2

theorem drainF_frames (fs : List Bytes) (hfs : ∀ f ∈ fs, f.length < 65536) (fuel : Nat)
    (hfuel : fs.length < fuel) : drainF fuel (fs.flatMap frame) = fs := by
  induction fs generalizing fuel with
  | nil =>
    cases fuel with
    | zero => omega
    | succ n => simp [drainF, pull]
  | cons f fs ih =>
    cases fuel with
    | zero => omega
    | succ n =>
      have hf : f.length < 65536 := hfs f (by simp)
      simp only [List.flatMap_cons, drainF, pull_frame f _ hf]
      rw [ih (fun g hg => hfs g (by simp [hg])) n (by simp at hfuel; omega)]

theorem flatMap_frame_length_ge (fs : List Bytes) : fs.length ≤ (fs.flatMap frame).length := by
  induction fs with
  | nil => simp
  | cons f fs ih =>
    simp only [List.flatMap_cons, List.length_append, List.length_cons, frame_cons]
    omega

theorem drain_frames (fs : List Bytes) (hfs : ∀ f ∈ fs, f.length < 65536) :
    drain (fs.flatMap frame) = fs := by
  unfold drain
  apply drainF_frames fs hfs
  have := flatMap_frame_length_ge fs
  omega

/-- data of the push operations of a schedule, in order -/
def pushes : List Op → List Bytes
  | [] => []
  | .push d :: ops => d :: pushes ops
  | .pull :: ops => pushes ops

/-- the frames returned by the successful pulls, in order -/
def pulled (rs : List (Option Bytes)) : List Bytes := rs.filterMap id

/-- Schedule invariant: whatever was pulled is a prefix of the frame list, and what is still
    buffered plus what is still to arrive is the serialisation of the remaining frames. -/
theorem run_inv (ops : List Op) : ∀ (buf tail : Bytes) (fs : List Bytes),
    (∀ f ∈ fs, f.length < 65536) →
    buf ++ (pushes ops).flatten ++ tail = fs.flatMap frame →
    ∃ k, pulled (run buf ops).2 = fs.take k ∧
         (run buf ops).1 ++ tail = (fs.drop k).flatMap frame := by
  induction ops with
  | nil =>
    intro buf tail fs _ h
    exact ⟨0, by simp [run, pulled], by simpa [run, pushes] using h⟩
  | cons op ops ih =>
    intro buf tail fs hfs h
    cases op with
    | push d =>
      simp only [run, push]
      apply ih (buf ++ d) tail fs hfs
      simpa [pushes, List.append_assoc] using h
    | pull =>
      simp only [run]
      cases hp : pull buf with
      | mk r b' =>
        cases r with
        | none =>
          have hk := pull_none_keeps buf (by rw [hp])
          rw [hp] at hk
          simp only at hk
          subst hk
          obtain ⟨k, h1, h2⟩ := ih b' tail fs hfs (by simpa [pushes] using h)
          exact ⟨k, by simpa [pulled] using h1, h2⟩
        | some f =>
          obtain ⟨hf, hb⟩ := pull_some hp
          subst hb
          cases fs with
          | nil => simp [frame_cons, pushes] at h
          | cons g gs =>
            have hg : g.length < 65536 := hfs g (by simp)
            simp only [List.flatMap_cons, pushes, List.append_assoc] at h
            obtain ⟨hfg, hrest⟩ := frame_prefix_free hf hg h
            subst hfg
            obtain ⟨k, h1, h2⟩ := ih b' tail gs (fun x hx => hfs x (by simp [hx]))
              (by simpa [List.append_assoc] using hrest)
            refine ⟨k + 1, ?_, ?_⟩
            · simp only [pulled, List.filterMap_cons, id, List.take_succ_cons]
              simp only [pulled] at h1
              rw [h1]
            · simpa using h2

end StunVerif.Tcp
