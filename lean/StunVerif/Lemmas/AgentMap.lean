/-
Basic facts about the association-list operations of the agent model (`lookup`, `remove`, `insert`,
`update`), shared by the lemma files of C05, C06, C07, C15, C18 and C20.
-/
import StunVerif.Spec.Agent
namespace StunVerif.Agent

@[simp] theorem lookup_nil (t : Nat) : lookup [] t = none := rfl

theorem lookup_cons (p : Nat × Req) (out : List (Nat × Req)) (t : Nat) :
    lookup (p :: out) t = if p.1 = t then some p.2 else lookup out t := by
  unfold lookup
  by_cases h : p.1 = t <;> simp [List.find?_cons, h]

theorem remove_cons (p : Nat × Req) (out : List (Nat × Req)) (t : Nat) :
    remove (p :: out) t = if p.1 = t then remove out t else p :: remove out t := by
  unfold remove
  by_cases h : p.1 = t <;> simp [List.filter_cons, h]

theorem lookup_remove_self (out : List (Nat × Req)) (t : Nat) : lookup (remove out t) t = none := by
  induction out with
  | nil => rfl
  | cons p out ih =>
    rw [remove_cons]
    by_cases h : p.1 = t
    · simp [h, ih]
    · simp [h, lookup_cons, ih]

theorem lookup_remove_ne (out : List (Nat × Req)) (t u : Nat) (h : u ≠ t) :
    lookup (remove out t) u = lookup out u := by
  induction out with
  | nil => rfl
  | cons p out ih =>
    rw [remove_cons]
    by_cases hp : p.1 = t
    · have : p.1 ≠ u := by omega
      simp [hp, lookup_cons, ih]
      intro e; exact absurd e.symm h
    · rw [if_neg hp, lookup_cons, lookup_cons, ih]

theorem lookup_insert_self (out : List (Nat × Req)) (t : Nat) (r : Req) :
    lookup (insert out t r) t = some r := by
  simp [insert, lookup_cons]

theorem lookup_insert_ne (out : List (Nat × Req)) (t u : Nat) (r : Req) (h : u ≠ t) :
    lookup (insert out t r) u = lookup out u := by
  have : t ≠ u := fun e => h e.symm
  simp [insert, lookup_cons, this, lookup_remove_ne out t u h]

theorem update_cons (p : Nat × Req) (out : List (Nat × Req)) (t : Nat) (f : Req → Req) :
    update (p :: out) t f = (if p.1 = t then (p.1, f p.2) else p) :: update out t f := rfl

theorem lookup_update_self (out : List (Nat × Req)) (t : Nat) (f : Req → Req) :
    lookup (update out t f) t = (lookup out t).map f := by
  induction out with
  | nil => rfl
  | cons p out ih =>
    rw [update_cons, lookup_cons, lookup_cons]
    by_cases h : p.1 = t <;> simp [h, ih]

theorem lookup_update_ne (out : List (Nat × Req)) (t u : Nat) (f : Req → Req) (h : u ≠ t) :
    lookup (update out t f) u = lookup out u := by
  induction out with
  | nil => rfl
  | cons p out ih =>
    rw [update_cons, lookup_cons, lookup_cons, ih]
    by_cases hp : p.1 = t
    · have h1 : ¬ t = u := fun e => h e.symm
      simp [hp, h1]
    · simp [hp]

theorem lookup_isSome_iff (out : List (Nat × Req)) (t : Nat) :
    (lookup out t).isSome = true ↔ t ∈ out.map (·.1) := by
  induction out with
  | nil => simp
  | cons p out ih =>
    rw [lookup_cons]
    by_cases h : p.1 = t
    · simp [h]
    · have : ¬ t = p.1 := fun e => h e.symm
      simp [h, this, ih]

theorem keys_update (out : List (Nat × Req)) (t : Nat) (f : Req → Req) :
    (update out t f).map (·.1) = out.map (·.1) := by
  induction out with
  | nil => rfl
  | cons p out ih =>
    rw [update_cons, List.map_cons, List.map_cons, ih]
    by_cases h : p.1 = t <;> simp [h]

theorem keys_remove (out : List (Nat × Req)) (t : Nat) :
    (remove out t).map (·.1) = (out.map (·.1)).filter (· ≠ t) := by
  unfold remove
  rw [List.filter_map]
  rfl

theorem run_nil (s : State) : run s [] = (s, []) := rfl

theorem run_cons (s : State) (op : Op) (ops : List Op) :
    run s (op :: ops) = ((run (step s op).1 ops).1, (step s op).2 :: (run (step s op).1 ops).2) := rfl

theorem after_nil (s : State) : after s [] = s := rfl

theorem after_cons (s : State) (op : Op) (ops : List Op) :
    after s (op :: ops) = after (step s op).1 ops := rfl

theorem after_append (s : State) (ops ops' : List Op) :
    after s (ops ++ ops') = after (after s ops) ops' := by
  induction ops generalizing s with
  | nil => rfl
  | cons op ops ih => simp [after_cons, ih]

/-- induction principle for reachable states -/
theorem Reachable.induction {P : State → Prop} (h0 : ∀ tr loc, P (State.init tr loc))
    (hs : ∀ s op, P s → P (step s op).1) {s : State} (hr : Reachable s) : P s := by
  obtain ⟨tr, loc, ops, rfl⟩ := hr
  suffices ∀ s, P s → P (after s ops) from this _ (h0 tr loc)
  induction ops with
  | nil => intro s h; exact h
  | cons op ops ih => intro s h; rw [after_cons]; exact ih _ (hs s op h)

theorem Reachable.step {s : State} (hr : Reachable s) (op : Op) : Reachable (step s op).1 := by
  obtain ⟨tr, loc, ops, rfl⟩ := hr
  exact ⟨tr, loc, ops ++ [op], by rw [after_append]; rfl⟩

end StunVerif.Agent
