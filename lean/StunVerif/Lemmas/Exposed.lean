import StunVerif.Spec.Msg
import StunVerif.Lemmas.Bytes
namespace StunVerif
open Spec

theorem iterGo_seen_false (fuel : Nat) (data : Bytes) :
    iterGo fuel data true false = (allAttrsGo fuel data).filter (·.ty = tyFP) := by
  induction fuel generalizing data with
  | zero => simp [iterGo, allAttrsGo]
  | succ n ih =>
    simp only [iterGo, allAttrsGo]
    split
    · simp
    · split
      · simp
      · rename_i a _
        simp only [Bool.false_and, Bool.false_eq_true, if_false, ih]
        by_cases h : a.ty = tyFP <;> simp [h]

theorem iterGo_seen (fuel : Nat) (data : Bytes) (mi : Bool) :
    iterGo fuel data true mi =
      (match allAttrsGo fuel data with
        | n :: _ => if mi = true ∧ n.ty = tyMI256 then [n] else []
        | [] => []) ++
      (match allAttrsGo fuel data with
        | n :: rest' =>
          if mi = true ∧ n.ty = tyMI256 then rest'.filter (·.ty = tyFP)
          else (allAttrsGo fuel data).filter (·.ty = tyFP)
        | [] => []) := by
  cases fuel with
  | zero => simp [iterGo, allAttrsGo]
  | succ n =>
    simp only [iterGo, allAttrsGo]
    split
    · simp
    · split
      · simp
      · rename_i a _
        simp only [iterGo_seen_false, if_true, Bool.and_eq_true, decide_eq_true_eq]
        by_cases h1 : mi = true ∧ a.ty = tyMI256
        · simp [h1]
        · rw [if_neg h1, if_neg h1, if_neg h1]
          by_cases h : a.ty = tyFP <;> simp [h]

theorem iterGo_eq_exposed (fuel : Nat) (data : Bytes) :
    iterGo fuel data false false = exposed (allAttrsGo fuel data) := by
  induction fuel generalizing data with
  | zero => simp [iterGo, allAttrsGo, exposed]
  | succ n ih =>
    simp only [iterGo, allAttrsGo]
    split
    · simp [exposed]
    · split
      · simp [exposed]
      · rename_i a _
        simp only [Bool.false_eq_true, if_false]
        by_cases hi : isIntegrity a.ty = true
        · have : (a.ty = tyMI || a.ty = tyMI256 : Bool) = true := by simpa [isIntegrity] using hi
          rw [this, iterGo_seen]
          simp only [exposed, hi, if_true]
          cases allAttrsGo n (List.drop a.paddedLen data) <;> simp
        · have : (a.ty = tyMI || a.ty = tyMI256 : Bool) = false := by
            simpa [isIntegrity] using hi
          rw [this]
          have h2 : (a.ty = tyMI : Bool) = false := by
            simp only [Bool.or_eq_false_iff] at this; exact this.1
          rw [h2, ih]
          simp only [exposed, hi]
          simp

/-! ### facts about `Spec.exposed` -/

theorem exposed_cons_nonint (a : RawAttr) (rest : List RawAttr) (h : isIntegrity a.ty = false) :
    exposed (a :: rest) = a :: exposed rest := by
  cases rest with
  | nil => rw [exposed.eq_3, if_neg (by simp [h])]
  | cons n t => rw [exposed.eq_2, if_neg (by simp [h])]

theorem exposed_int_nil (a : RawAttr) (h : isIntegrity a.ty = true) :
    exposed [a] = [a] := by
  rw [exposed.eq_3, if_pos h]; rfl

theorem exposed_int_cons (a n : RawAttr) (rest' : List RawAttr) (h : isIntegrity a.ty = true) :
    exposed (a :: n :: rest') =
      a :: (if a.ty = tyMI ∧ n.ty = tyMI256 then n :: rest'.filter (·.ty = tyFP)
            else (n :: rest').filter (·.ty = tyFP)) := by
  rw [exposed.eq_2, if_pos h]
  by_cases hc : a.ty = tyMI ∧ n.ty = tyMI256
  · simp only [if_pos hc]; rfl
  · simp only [if_neg hc]; rfl

theorem exposed_cons_int (i : RawAttr) (rest : List RawAttr) (hi : isIntegrity i.ty = true) :
    ∃ tail, exposed (i :: rest) = i :: tail ∧
      ∀ a ∈ tail, a.ty = tyFP ∨ (a.ty = tyMI256 ∧ i.ty = tyMI ∧ rest.head? = some a) := by
  cases rest with
  | nil => exact ⟨[], exposed_int_nil i hi, by simp⟩
  | cons n rest' =>
    rw [exposed_int_cons i n rest' hi]
    by_cases hc : i.ty = tyMI ∧ n.ty = tyMI256
    · refine ⟨n :: rest'.filter (·.ty = tyFP), by rw [if_pos hc], ?_⟩
      intro a ha
      simp only [List.mem_cons, List.mem_filter, decide_eq_true_eq] at ha
      rcases ha with rfl | ⟨_, h⟩
      · right; exact ⟨hc.2, hc.1, rfl⟩
      · left; exact h
    · refine ⟨(n :: rest').filter (·.ty = tyFP), by rw [if_neg hc], ?_⟩
      intro a ha
      simp only [List.mem_filter, decide_eq_true_eq] at ha
      left; exact ha.2

theorem exposed_append_int (pre : List RawAttr) (i : RawAttr) (rest : List RawAttr)
    (hpre : ∀ a ∈ pre, isIntegrity a.ty = false) (hi : isIntegrity i.ty = true) :
    ∃ tail, exposed (pre ++ i :: rest) = pre ++ i :: tail ∧
      ∀ a ∈ tail, a.ty = tyFP ∨ (a.ty = tyMI256 ∧ i.ty = tyMI ∧ rest.head? = some a) := by
  induction pre with
  | nil => simpa using exposed_cons_int i rest hi
  | cons p pre ih =>
    obtain ⟨tail, h1, h2⟩ := ih (fun a ha => hpre a (List.mem_cons_of_mem _ ha))
    refine ⟨tail, ?_, h2⟩
    have hp : isIntegrity p.ty = false := hpre p (List.mem_cons_self ..)
    rw [List.cons_append, exposed_cons_nonint _ _ hp, h1]; rfl

theorem exposed_no_int (as : List RawAttr) (h : ∀ a ∈ as, isIntegrity a.ty = false) :
    exposed as = as := by
  induction as with
  | nil => rfl
  | cons p as ih =>
    have hp : isIntegrity p.ty = false := h p (List.mem_cons_self ..)
    rw [exposed_cons_nonint _ _ hp, ih (fun a ha => h a (List.mem_cons_of_mem _ ha))]

theorem fp_mem_exposed (as : List RawAttr) (a : RawAttr) (ha : a ∈ as) (hf : a.ty = tyFP) :
    a ∈ exposed as := by
  induction as with
  | nil => cases ha
  | cons x rest ih =>
    by_cases hi : isIntegrity x.ty = true
    · rcases List.mem_cons.mp ha with rfl | hr
      · cases rest with
        | nil => rw [exposed_int_nil _ hi]; simp
        | cons n rest' => rw [exposed_int_cons _ _ _ hi]; simp
      · cases rest with
        | nil => cases hr
        | cons n rest' =>
          rw [exposed_int_cons _ _ _ hi]
          by_cases hc : x.ty = tyMI ∧ n.ty = tyMI256
          · rw [if_pos hc]
            rcases List.mem_cons.mp hr with rfl | hr'
            · simp
            · simp [hr', hf]
          · rw [if_neg hc]
            apply List.mem_cons_of_mem
            exact List.mem_filter.mpr ⟨hr, by simp [hf]⟩
    · have hi' : isIntegrity x.ty = false := by simpa using hi
      rw [exposed_cons_nonint _ _ hi']
      rcases List.mem_cons.mp ha with rfl | hr
      · simp
      · exact List.mem_cons_of_mem _ (ih hr)

end StunVerif
