import StunVerif.Attr.Addr
import StunVerif.Lemmas.Bytes
import StunVerif.Lemmas.BE
namespace StunVerif

theorem xorBytes_cancel (k : Bytes) : ∀ ip : Bytes, ip.length ≤ k.length →
    xorBytes k (xorBytes k ip) = ip := by
  induction k with
  | nil => intro ip h; cases ip with
    | nil => rfl
    | cons _ _ => simp at h
  | cons a k ih =>
    intro ip h
    cases ip with
    | nil => rfl
    | cons b ip =>
      simp only [xorBytes]
      rw [ih ip (by simpa using h), ← UInt8.xor_assoc, UInt8.xor_self, UInt8.zero_xor]

theorem xorBytes_length_of_le (k : Bytes) : ∀ ip : Bytes, ip.length ≤ k.length →
    (xorBytes k ip).length = ip.length := by
  induction k with
  | nil => intro ip h; cases ip with
    | nil => rfl
    | cons _ _ => simp at h
  | cons a k ih =>
    intro ip h
    cases ip with
    | nil => rfl
    | cons b ip => simp only [xorBytes, List.length_cons]; rw [ih ip (by simpa using h)]

/-- different keys of the same length give different results on the same input -/
theorem xorBytes_key_inj : ∀ (k k' ip : Bytes), k.length = ip.length → k'.length = ip.length →
    xorBytes k ip = xorBytes k' ip → k = k' := by
  intro k
  induction k with
  | nil => intro k' ip h h' _; cases ip <;> cases k' <;> simp_all
  | cons a k ih =>
    intro k' ip h h' he
    cases ip with
    | nil => simp at h
    | cons b ip =>
      cases k' with
      | nil => simp at h'
      | cons a' k' =>
        simp only [xorBytes, List.cons.injEq] at he
        have h1 : a = a' := by
          have := congrArg (· ^^^ b) he.1
          simpa [UInt8.xor_assoc, UInt8.xor_self] using this
        rw [h1, ih k' ip (by simpa using h) (by simpa using h') he.2]

theorem encBE_inj (k n m : Nat) (hn : n < 256 ^ k) (hm : m < 256 ^ k) (h : encBE k n = encBE k m) :
    n = m := by
  rw [← beNat_encBE k n hn, ← beNat_encBE k m hm, h]

theorem encBE_split (j k : Nat) : ∀ a b, b < 256 ^ k →
    encBE (j + k) (a * 256 ^ k + b) = encBE j a ++ encBE k b := by
  induction k with
  | zero => intro a b hb; simp at hb; subst hb; simp [encBE]
  | succ k ih =>
    intro a b hb
    show encBE (j + k + 1) _ = _
    rw [encBE, encBE]
    have hc : a * 256 ^ (k + 1) = 256 * (a * 256 ^ k) := by
      rw [Nat.pow_succ, ← Nat.mul_assoc, Nat.mul_comm]
    rw [hc]
    have h1 : (256 * (a * 256 ^ k) + b) / 256 = a * 256 ^ k + b / 256 := by omega
    rw [h1, ih a (b / 256) (by rw [Nat.pow_succ] at hb; omega)]
    have h2 : UInt8.ofNat (256 * (a * 256 ^ k) + b) = UInt8.ofNat b := by
      apply UInt8.toNat_inj.mp
      simp
    rw [h2, List.append_assoc]


end StunVerif
