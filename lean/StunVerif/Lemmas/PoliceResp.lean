/-
Helper lemmas for C16, second part: the two error-response builders are reachable builders within
the size limit, so C03's round trip applies to them; the attributes they parse back to.
-/
import StunVerif.Spec.Police
import StunVerif.Spec.Builder
import StunVerif.Lemmas.Police
import StunVerif.Lemmas.Roundtrip
namespace StunVerif
open Spec

/-! ### hash functions of the right output sizes (the responses carry no integrity attribute) -/

def constHashes : Hashes := ⟨fun _ _ => zeros 20, fun _ _ => zeros 32, fun _ => []⟩

theorem constHashes_ok : HashesOk constHashes := by
  intro k m
  exact ⟨zeros_length 20, zeros_length 32⟩

/-! ### the constant texts -/

theorem ascii_software :
    asciiBytes "stun-types" = [115, 116, 117, 110, 45, 116, 121, 112, 101, 115] := by
  with_unfolding_all decide

theorem ascii_unknown :
    asciiBytes "Unknown Attributes" =
      [85, 110, 107, 110, 111, 119, 110, 32, 65, 116, 116, 114, 105, 98, 117, 116, 101, 115] := by
  with_unfolding_all decide

theorem ascii_bad :
    asciiBytes "Bad Request" = [66, 97, 100, 32, 82, 101, 113, 117, 101, 115, 116] := by
  with_unfolding_all decide

theorem software_inLimit : (AttrVal.software (asciiBytes "stun-types")).inLimit = true := by
  rw [ascii_software]; decide

theorem error420_inLimit :
    (AttrVal.errorCode 420 (asciiBytes "Unknown Attributes")).inLimit = true := by
  rw [ascii_unknown]; decide

theorem error400_inLimit : (AttrVal.errorCode 400 (asciiBytes "Bad Request")).inLimit = true := by
  rw [ascii_bad]; decide

theorem unknownAttributes_inLimit (u : List Nat) (hl : u.length < 16384)
    (ht : ∀ t ∈ u, t < 65536) : (AttrVal.unknownAttributes u).inLimit = true := by
  simp only [AttrVal.inLimit, Bool.and_eq_true, decide_eq_true_eq, List.all_eq_true]
  exact ⟨by omega, ht⟩

/-! ### the type field and transaction id of the response -/

theorem interleave_lt (c m : Nat) : interleave c m < 0x4000 := by
  simp only [interleave, bit_def, Nat.reducePow]
  omega

theorem methodOfType_lt (v : Nat) : methodOfType v < 4096 := by
  simp only [methodOfType, bit_def, Nat.reducePow]
  omega

theorem Msg.method_lt (m : Msg) : m.method < 4096 := methodOfType_lt _

theorem Msg.tid_lt (m : Msg) : m.tid < 2 ^ 96 := by
  unfold Msg.tid
  have h := beNat_lt ((m.data.drop 8).take 12)
  have hl : ((m.data.drop 8).take 12).length ≤ 12 := by
    rw [List.length_take]; omega
  have : 256 ^ ((m.data.drop 8).take 12).length ≤ 256 ^ 12 :=
    Nat.pow_le_pow_right (by omega) hl
  have h2 : (256 : Nat) ^ 12 = 2 ^ 96 := by decide
  omega

/-! ### the response builders are reachable -/

/-- the error response before `into_owned`, with SOFTWARE and ERROR-CODE -/
def errorPre (src : Msg) (code : Nat) (reason : String) : Builder :=
  ⟨interleave 3 src.method, src.tid, [softwareAttr, errorAttr code reason], [0x8022, 0x0009]⟩

theorem errorPre_reach (H : Hashes) (src : Msg) (code : Nat) (reason : String)
    (hl : (AttrVal.errorCode code (asciiBytes reason)).inLimit = true) :
    Reach H (errorPre src code reason) := by
  have h0 : Reach H (Builder.new (interleave 3 src.method) src.tid) :=
    Reach.new _ _ (interleave_lt _ _) src.tid_lt
  have h1 : Reach H ⟨interleave 3 src.method, src.tid, [softwareAttr], [0x8022]⟩ := by
    refine Reach.add _ _ softwareAttr h0 ⟨software_inLimit, by decide⟩ ?_
    rw [add_ok_iff]
    refine ⟨(addGuard_ok_iff _ _).mpr (by simp [Builder.new]), rfl⟩
  refine Reach.add _ _ (errorAttr code reason) h1 ⟨hl, (by decide : isEnding 0x0009 = false)⟩ ?_
  rw [add_ok_iff]
  refine ⟨(addGuard_ok_iff _ _).mpr ?_, rfl⟩
  simp [errorAttr, BAttr.ty, AttrVal.kind, Kind.code, tyMI, tyMI256, tyFP]

theorem badRequestResp_pre (src : Msg) :
    badRequestResp src = (errorPre src 400 "Bad Request").intoOwned := by
  rw [badRequestResp_eq]; rfl

theorem badRequestResp_reach (H : Hashes) (src : Msg) : Reach H (badRequestResp src) := by
  rw [badRequestResp_pre]
  exact Reach.owned _ (errorPre_reach H src 400 "Bad Request" error400_inLimit)

/-- the 420 response before `into_owned` -/
def unknownPre (src : Msg) (u : List Nat) : Builder :=
  ⟨interleave 3 src.method, src.tid,
    [softwareAttr, errorAttr 420 "Unknown Attributes", .typed (.unknownAttributes u)],
    [0x8022, 0x0009, 0x000A]⟩

theorem unknownPre_reach (H : Hashes) (src : Msg) (u : List Nat) (hl : u.length < 16384)
    (ht : ∀ t ∈ u, t < 65536) : Reach H (unknownPre src u) := by
  have h2 := errorPre_reach H src 420 "Unknown Attributes" error420_inLimit
  refine Reach.add _ _ (.typed (.unknownAttributes u)) h2
    ⟨unknownAttributes_inLimit u hl ht, (by decide : isEnding 0x000A = false)⟩ ?_
  rw [add_ok_iff]
  refine ⟨(addGuard_ok_iff _ _).mpr ?_, rfl⟩
  simp [errorPre, BAttr.ty, AttrVal.kind, Kind.code, tyMI, tyMI256, tyFP]

theorem unknownAttributesResp_pre (src : Msg) (u : List Nat) (hu : u ≠ []) :
    unknownAttributesResp src u = (unknownPre src u).intoOwned := by
  rw [unknownAttributesResp_cons src u hu]; rfl

theorem unknownAttributesResp_reach (H : Hashes) (src : Msg) (u : List Nat) (hu : u ≠ [])
    (hl : u.length < 16384) (ht : ∀ t ∈ u, t < 65536) :
    Reach H (unknownAttributesResp src u) := by
  rw [unknownAttributesResp_pre src u hu]
  exact Reach.owned _ (unknownPre_reach H src u hl ht)

/-! ### their sizes -/

theorem paddedAttrLen_le (n : Nat) : paddedAttrLen n ≤ n + 3 := by
  unfold paddedAttrLen
  split <;> omega

theorem badRequestResp_byteLen (src : Msg) : (badRequestResp src).byteLen = 56 := by
  rw [badRequestResp_eq]
  simp only [Builder.byteLen, List.map_cons, List.map_nil, BAttr.paddedLen, RawAttr.paddedLen,
    AttrVal.valueBytes, ascii_software, ascii_bad]
  decide

theorem unknownAttributesResp_byteLen (src : Msg) (u : List Nat) (hu : u ≠ [])
    (hl : u.length < 16384) : (unknownAttributesResp src u).byteLen ≤ 65535 + 20 := by
  rw [unknownAttributesResp_cons src u hu]
  simp only [Builder.byteLen, List.map_cons, List.map_nil, BAttr.paddedLen, RawAttr.paddedLen,
    AttrVal.valueBytes, ascii_software, ascii_unknown, List.sum_cons, List.sum_nil,
    flatMap_enc16_length]
  have h1 := paddedAttrLen_le (2 * u.length % 65536)
  have h2 : paddedAttrLen ([115, 116, 117, 110, 45, 116, 121, 112, 101, 115] : Bytes).length = 12 := by
    decide
  have h3 : paddedAttrLen (([0, 0, UInt8.ofNat (420 / 100), UInt8.ofNat (420 % 100)] ++
      [85, 110, 107, 110, 111, 119, 110, 32, 65, 116, 116, 114, 105, 98, 117, 116, 101, 115] :
        Bytes).length % 65536) = 24 := by decide
  have h2' : paddedAttrLen (([115, 116, 117, 110, 45, 116, 121, 112, 101, 115] : Bytes).length % 65536) = 12 := by
    decide
  rw [h2', h3]
  omega

end StunVerif
