/-
Helper lemmas for C03: the built bytes of a reachable builder are a well-formed message whose
attribute records are the builder's attributes; everything is exposed; typed lookups find the
value that was put in.
-/
import StunVerif.Lemmas.Builder
import StunVerif.Lemmas.Parse
import StunVerif.Lemmas.Exposed
import StunVerif.Lemmas.BE
import StunVerif.Lemmas.Xor
namespace StunVerif
open Spec

/-! ### small facts -/

theorem asRaw_ty (a : BAttr) : a.asRaw.ty = a.ty := by
  cases a <;> rfl

theorem intoOwned_asRaw (a : BAttr) : a.intoOwned.asRaw = a.asRaw := by
  cases a <;> rfl

theorem kind_code_lt (k : Kind) : k.code < 65536 := by
  cases k <;> decide

theorem paddedAttrLen_mod (n : Nat) : paddedAttrLen n % 4 = 0 := by
  unfold paddedAttrLen; split <;> omega

theorem battr_paddedLen_mod (a : BAttr) : a.paddedLen % 4 = 0 := by
  cases a with
  | typed v =>
    have := paddedAttrLen_mod v.length
    simp only [BAttr.paddedLen, AttrVal.paddedLen]; omega
  | raw r =>
    have := paddedAttrLen_mod (r.value.length % 65536)
    simp only [BAttr.paddedLen, RawAttr.paddedLen]; omega

theorem sumPadded_mod (as : List BAttr) : sumPadded as % 4 = 0 := by
  induction as with
  | nil => rfl
  | cons a as ih =>
    have := battr_paddedLen_mod a
    have hs : sumPadded (a :: as) = a.paddedLen + sumPadded as := by simp [sumPadded]
    rw [hs]; omega

theorem byteLen_eq (b : Builder) : b.byteLen = 20 + sumPadded b.attrs := rfl

theorem setLen_header (ty len n : Nat) (rest : Bytes) :
    setLen (enc16 ty ++ enc16 len ++ rest) n = enc16 ty ++ enc16 n ++ rest := rfl

theorem crc32Bytes_length (bs : Bytes) : (Crc.crc32Bytes bs).length = 4 := by
  simp [Crc.crc32Bytes]

/-! ### more invariants of reachable builders -/

theorem reach_ty_tid (H : Hashes) (b : Builder) (hr : Reach H b) :
    b.ty < 0x4000 ∧ b.tid < 2 ^ 96 := by
  induction hr with
  | new ty tid h1 h2 => exact ⟨h1, h2⟩
  | add b b' a _ _ hadd ih =>
    obtain ⟨_, rfl⟩ := (add_ok_iff b b' a).mp hadd
    exact ih
  | integrity b b' c algo _ hi ih =>
    obtain ⟨_, bytes, _, rfl⟩ := addIntegrity_ok H b b' c algo hi
    exact ih
  | fingerprint b b' _ hf ih =>
    obtain ⟨_, bytes, _, rfl⟩ := addFingerprint_ok b b' hf
    exact ih
  | owned b _ ih => exact ih

theorem addable_ty_lt {a : BAttr} (h : Addable a) : a.ty < 65536 := by
  cases a with
  | typed v => exact kind_code_lt _
  | raw r => exact h.2.1

theorem reach_types_lt (H : Hashes) (b : Builder) (hr : Reach H b) :
    ∀ t ∈ b.types, t < 65536 := by
  induction hr with
  | new ty tid _ _ => intro t ht; simp [Builder.new] at ht
  | add b b' a _ had hadd ih =>
    obtain ⟨_, rfl⟩ := (add_ok_iff b b' a).mp hadd
    intro t ht
    simp only [List.mem_append, List.mem_singleton] at ht
    rcases ht with ht | rfl
    · exact ih t ht
    · exact addable_ty_lt had
  | integrity b b' c algo _ hi ih =>
    obtain ⟨_, bytes, _, rfl⟩ := addIntegrity_ok H b b' c algo hi
    intro t ht
    simp only [List.mem_append, List.mem_singleton] at ht
    rcases ht with ht | rfl
    · exact ih t ht
    · cases algo <;> decide
  | fingerprint b b' _ hf ih =>
    obtain ⟨_, bytes, _, rfl⟩ := addFingerprint_ok b b' hf
    intro t ht
    simp only [List.mem_append, List.mem_singleton] at ht
    rcases ht with ht | rfl
    · exact ih t ht
    · decide
  | owned b _ ih => exact ih

theorem reach_nodup (H : Hashes) (b : Builder) (hr : Reach H b) : b.types.Nodup := by
  induction hr with
  | new ty tid _ _ => simp [Builder.new]
  | add b b' a _ _ hadd ih =>
    obtain ⟨hg, rfl⟩ := (add_ok_iff b b' a).mp hadd
    have hn := (addGuard_ok_iff b a.ty).mp hg
    refine List.nodup_append.mpr ⟨ih, by simp, ?_⟩
    intro x hx y hy
    simp only [List.mem_singleton] at hy
    subst hy
    intro he
    exact hn x hx (by simp [he])
  | integrity b b' c algo _ hi ih =>
    obtain ⟨hn, bytes, _, rfl⟩ := addIntegrity_ok H b b' c algo hi
    refine List.nodup_append.mpr ⟨ih, by simp, ?_⟩
    intro x hx y hy
    simp only [List.mem_singleton] at hy
    subst hy
    intro he
    exact hn x hx (by cases algo <;> simp [he, integrityBlockers, integrityTy])
  | fingerprint b b' _ hf ih =>
    obtain ⟨hn, bytes, _, rfl⟩ := addFingerprint_ok b b' hf
    refine List.nodup_append.mpr ⟨ih, by simp, ?_⟩
    intro x hx y hy
    simp only [List.mem_singleton] at hy
    subst hy
    intro he
    exact hn (he ▸ hx)
  | owned b _ ih => exact ih

/-! ### the FINGERPRINT invariant -/

/-- the 20-byte header -/
def hdrBytes (ty len tid : Nat) : Bytes := enc16 ty ++ enc16 len ++ cookieBytes ++ encBE 12 tid

theorem hdrBytes_length (ty len tid : Nat) : (hdrBytes ty len tid).length = 20 :=
  header_length ty len tid

theorem setLen_hdr (ty len tid n : Nat) (rest : Bytes) :
    setLen (hdrBytes ty len tid ++ rest) n = hdrBytes ty n tid ++ rest := rfl

def rawsBytes (rs : List RawAttr) : Bytes := rs.flatMap RawAttr.toBytes

theorem build_eq_raws (b : Builder) (hb : ∀ a ∈ b.attrs, a.Ok) :
    b.build = hdrBytes b.ty (b.byteLen - 20) b.tid ++ rawsBytes (b.attrs.map BAttr.asRaw) := by
  rw [builder_build b hb, rawsBytes, List.flatMap_map]
  rfl

theorem rawsBytes_length (b : Builder) (hb : ∀ a ∈ b.attrs, a.Ok) :
    (rawsBytes (b.attrs.map BAttr.asRaw)).length = b.byteLen - 20 := by
  rw [rawsBytes, List.flatMap_map]
  have := flatMap_toBytes_length b.attrs hb
  rw [byteLen_eq]
  simpa using this

/-- a FINGERPRINT in last position carries the CRC of everything before it, with the length field
    covering the attribute -/
def FpInv (b : Builder) : Prop :=
  ∀ init x, b.attrs.map BAttr.asRaw = init ++ [x] → x.ty = tyFP →
    x.value = xorBytes (Crc.crc32Bytes
      (hdrBytes b.ty ((rawsBytes init).length % 65536 + 8) b.tid ++ rawsBytes init)) fpXorConst

theorem snoc_inj' {α} {l l' : List α} {a a' : α} (h : l ++ [a] = l' ++ [a']) : l = l' ∧ a = a' := by
  have := List.append_inj' h rfl
  exact ⟨this.1, by simpa using this.2⟩

theorem bytesWithExtraLen_eq (b : Builder) (hb : ∀ a ∈ b.attrs, a.Ok) (extra : Nat) (bytes : Bytes)
    (h : b.bytesWithExtraLen extra = some bytes) :
    bytes = hdrBytes b.ty ((b.byteLen - 20) % 65536 + extra) b.tid ++
      rawsBytes (b.attrs.map BAttr.asRaw) := by
  unfold Builder.bytesWithExtraLen at h
  simp only [build_lenField b hb] at h
  split at h
  · cases h
  · simp only [Option.some.injEq] at h
    rw [← h, build_eq_raws b hb, setLen_hdr]

theorem reach_fpInv (H : Hashes) (hH : HashesOk H) (b : Builder) (hr : Reach H b) : FpInv b := by
  induction hr with
  | new ty tid _ _ =>
    intro init x h _
    simp [Builder.new] at h
  | add b b' a _ had hadd _ =>
    obtain ⟨_, rfl⟩ := (add_ok_iff b b' a).mp hadd
    intro init x h hx
    simp only [List.map_append, List.map_cons, List.map_nil] at h
    obtain ⟨_, rfl⟩ := snoc_inj' h
    have := addable_not_ending had
    rw [asRaw_ty] at hx
    rw [hx] at this
    exact absurd this (by decide)
  | integrity b b' c algo _ hi _ =>
    obtain ⟨_, bytes, _, rfl⟩ := addIntegrity_ok H b b' c algo hi
    intro init x h hx
    simp only [List.map_append, List.map_cons, List.map_nil] at h
    obtain ⟨_, rfl⟩ := snoc_inj' h
    simp only [BAttr.asRaw] at hx
    cases algo <;> exact absurd hx (by decide)
  | fingerprint b b' hrb hf _ =>
    obtain ⟨_, bytes, hbytes, rfl⟩ := addFingerprint_ok b b' hf
    have hok := reach_ok H hH b hrb
    intro init x h _
    simp only [List.map_append, List.map_cons, List.map_nil] at h
    obtain ⟨rfl, rfl⟩ := snoc_inj' h
    rw [bytesWithExtraLen_eq b hok 8 bytes hbytes, rawsBytes_length b hok]
    rfl
  | owned b _ ih =>
    intro init x h hx
    have hm : b.intoOwned.attrs.map BAttr.asRaw = b.attrs.map BAttr.asRaw := by
      simp only [Builder.intoOwned, List.map_map]
      apply List.map_congr_left
      intro a _
      exact intoOwned_asRaw a
    rw [hm] at h
    exact ih init x h hx

/-! ### consequences of the tail shape -/

theorem not_ending_ne {t : Nat} (h : isEnding t = false) : t ≠ tyMI ∧ t ≠ tyMI256 ∧ t ≠ tyFP := by
  simp only [isEnding, Bool.or_eq_false_iff, decide_eq_false_iff_not] at h
  exact ⟨h.1.1, h.1.2, h.2⟩

theorem not_ending_not_integrity {t : Nat} (h : isEnding t = false) : isIntegrity t = false := by
  obtain ⟨h1, h2, _⟩ := not_ending_ne h
  simp [isIntegrity, h1, h2]

theorem orderOk_tailShape (types : List Nat) (h : TailShape types) : orderOk types = true := by
  obtain ⟨pre, tail, rfl, hpre, htail⟩ := h
  induction pre with
  | nil =>
    rcases tail_cases htail with h | h | h | h | h | h | h | h <;> subst h <;> decide
  | cons p pre ih =>
    have hp := hpre p (by simp)
    obtain ⟨_, _, h3⟩ := not_ending_ne hp
    have hi := not_ending_not_integrity hp
    rw [List.cons_append, orderOk, if_neg h3, if_neg (by simp [hi])]
    exact ih (fun t ht => hpre t (by simp [ht]))

theorem exposed_tailShape (pre tail : List Nat) (hpre : ∀ t ∈ pre, isEnding t = false)
    (htail : tail ∈ tailShapes) :
    ∀ as : List RawAttr, as.map (·.ty) = pre ++ tail → exposed as = as := by
  induction pre with
  | nil =>
    intro as h
    simp only [List.nil_append] at h
    rcases tail_cases htail with ht | ht | ht | ht | ht | ht | ht | ht <;> subst ht
    · simp only [List.map_eq_nil_iff] at h; subst h; rfl
    · rcases as with _ | ⟨a, _ | ⟨b, _⟩⟩ <;> simp at h
      exact exposed_int_nil a (by simp [isIntegrity, h])
    · rcases as with _ | ⟨a, _ | ⟨b, _⟩⟩ <;> simp at h
      exact exposed_int_nil a (by simp [isIntegrity, h])
    · rcases as with _ | ⟨a, _ | ⟨b, _ | ⟨c, _⟩⟩⟩ <;> simp at h
      rw [exposed_int_cons a b [] (by simp [isIntegrity, h.1]), if_pos h]
      rfl
    · rcases as with _ | ⟨a, _ | ⟨b, _⟩⟩ <;> simp at h
      rw [exposed_cons_nonint a [] (by rw [h]; decide)]
      rfl
    · rcases as with _ | ⟨a, _ | ⟨b, _ | ⟨c, _⟩⟩⟩ <;> simp at h
      rw [exposed_int_cons a b [] (by simp [isIntegrity, h.1]),
        if_neg (by rw [h.2]; exact fun hc => absurd hc.2 (by decide))]
      simp [h.2]
    · rcases as with _ | ⟨a, _ | ⟨b, _ | ⟨c, _⟩⟩⟩ <;> simp at h
      rw [exposed_int_cons a b [] (by simp [isIntegrity, h.1]),
        if_neg (by rw [h.2]; exact fun hc => absurd hc.2 (by decide))]
      simp [h.2]
    · rcases as with _ | ⟨a, _ | ⟨b, _ | ⟨c, _ | ⟨d, _⟩⟩⟩⟩ <;> simp at h
      rw [exposed_int_cons a b [c] (by simp [isIntegrity, h.1]), if_pos ⟨h.1, h.2.1⟩]
      simp [h.2.2]
  | cons p pre ih =>
    intro as h
    rcases as with _ | ⟨a, as⟩
    · simp at h
    · simp only [List.map_cons, List.cons_append, List.cons.injEq] at h
      have hp := hpre p (by simp)
      rw [← h.1] at hp
      rw [exposed_cons_nonint a as (not_ending_not_integrity hp),
        ih (fun t ht => hpre t (by simp [ht])) as h.2]

/-- a FINGERPRINT type can only be the last one -/
theorem tailShape_fp (types : List Nat) (h : TailShape types) :
    tyFP ∉ types ∨ ∃ init, types = init ++ [tyFP] ∧ tyFP ∉ init := by
  obtain ⟨pre, tail, rfl, hpre, htail⟩ := h
  have hp : tyFP ∉ pre := fun hm => by
    have := hpre tyFP hm
    exact absurd this (by decide)
  rcases tail_cases htail with ht | ht | ht | ht | ht | ht | ht | ht <;> subst ht
  · left; simpa using hp
  · left; simp [hp]; decide
  · left; simp [hp]; decide
  · left; simp [hp]; decide
  · right; exact ⟨pre, rfl, hp⟩
  · right; exact ⟨pre ++ [tyMI], by simp, by simp [hp]; decide⟩
  · right; exact ⟨pre ++ [tyMI256], by simp, by simp [hp]; decide⟩
  · right; exact ⟨pre ++ [tyMI, tyMI256], by simp, by simp [hp]; decide⟩

/-! ### the built bytes are well formed -/

/-- the record of a raw attribute as the builder lays it out: zero padding -/
def toTlv (r : RawAttr) : Tlv := ⟨r.ty, r.value, zeros (pad4 r.value.length)⟩

theorem toTlv_enc (r : RawAttr) : (toTlv r).enc = r.toBytes := by
  rw [toBytes_eq]; rfl

theorem toTlv_raw (r : RawAttr) : (toTlv r).raw = r := rfl

theorem map_toTlv_raw (rs : List RawAttr) : (rs.map toTlv).map Tlv.raw = rs := by
  rw [List.map_map]
  exact List.map_id'' (fun r => rfl) rs

theorem map_toTlv_ty (rs : List RawAttr) : (rs.map toTlv).map (·.ty) = rs.map (·.ty) := by
  rw [List.map_map]; rfl

theorem flatMap_toTlv_enc (rs : List RawAttr) : (rs.map toTlv).flatMap Tlv.enc = rawsBytes rs := by
  rw [List.flatMap_map, rawsBytes]
  exact flatMap_congr' rs _ _ (fun r _ => toTlv_enc r)

theorem rawsBytes_append (xs ys : List RawAttr) :
    rawsBytes (xs ++ ys) = rawsBytes xs ++ rawsBytes ys := by
  simp [rawsBytes]

theorem rawsBytes_singleton (x : RawAttr) : rawsBytes [x] = x.toBytes := by
  simp [rawsBytes]

theorem fpOk_noFp (b : Bytes) (ts : List Tlv) (h : ∀ t ∈ ts, t.ty ≠ tyFP) :
    ∀ off, fpOk b off ts := by
  induction ts with
  | nil => intro off; trivial
  | cons t ts ih =>
    intro off
    exact ⟨fun hf => absurd hf (h t (by simp)), ih (fun u hu => h u (by simp [hu])) _⟩

theorem fpOk_append (b : Bytes) (init rest : List Tlv) (h : ∀ t ∈ init, t.ty ≠ tyFP) :
    ∀ off, fpOk b (off + (init.flatMap Tlv.enc).length) rest → fpOk b off (init ++ rest) := by
  induction init with
  | nil => intro off hr; simpa using hr
  | cons t init ih =>
    intro off hr
    refine ⟨fun hf => absurd hf (h t (by simp)), ?_⟩
    apply ih (fun u hu => h u (by simp [hu]))
    have e : off + t.enc.length + (init.flatMap Tlv.enc).length =
        off + ((t :: init).flatMap Tlv.enc).length := by
      simp only [List.flatMap_cons, List.length_append]; omega
    rw [e]; exact hr

theorem fp_last_ok (ty L tid : Nat) (rinit : List RawAttr) (x : RawAttr)
    (hlen : (rawsBytes rinit).length + 8 ≤ 65535)
    (hx : x.value = xorBytes (Crc.crc32Bytes
      (hdrBytes ty ((rawsBytes rinit).length % 65536 + 8) tid ++ rawsBytes rinit)) fpXorConst) :
    fpOk (hdrBytes ty L tid ++ rawsBytes (rinit ++ [x])) (20 + (rawsBytes rinit).length)
      [toTlv x] := by
  have hvl : x.value.length = 4 := by
    rw [hx, xorBytes_length, crc32Bytes_length]; rfl
  have henc : (toTlv x).enc.length = 8 := by
    rw [Tlv.enc_length]
    simp [toTlv, hvl, pad4]
  refine ⟨fun _ => ⟨hvl, ?_⟩, trivial⟩
  rw [henc]
  unfold fpInput
  have htake : (hdrBytes ty L tid ++ rawsBytes (rinit ++ [x])).take (20 + (rawsBytes rinit).length)
      = hdrBytes ty L tid ++ rawsBytes rinit := by
    rw [rawsBytes_append, ← List.append_assoc]
    exact List.take_left' (by simp [hdrBytes_length])
  rw [htake, setLen_hdr]
  have e : 20 + (rawsBytes rinit).length + 8 - 20 = (rawsBytes rinit).length % 65536 + 8 := by
    rw [Nat.mod_eq_of_lt (by omega)]; omega
  rw [e]
  show xorBytes x.value fpXorConst = _
  rw [hx, xorBytes_invol _ _ (by rw [crc32Bytes_length]; decide)]

theorem asRaw_value_lt (a : BAttr) (hok : a.Ok) : a.asRaw.value.length < 65536 := by
  cases a with
  | typed v => exact inLimit_length_lt v hok
  | raw r => exact hok

theorem hdr_take2 (ty len tid : Nat) (rest : Bytes) :
    (hdrBytes ty len tid ++ rest).take 2 = enc16 ty := rfl

theorem hdr_cookie (ty len tid : Nat) (rest : Bytes) :
    ((hdrBytes ty len tid ++ rest).drop 4).take 4 = [0x21, 0x12, 0xA4, 0x42] := rfl

theorem hdr_tid (ty len tid : Nat) (rest : Bytes) :
    ((hdrBytes ty len tid ++ rest).drop 8).take 12 = encBE 12 tid := by
  have h : hdrBytes ty len tid ++ rest =
      (enc16 ty ++ enc16 len ++ cookieBytes) ++ (encBE 12 tid ++ rest) := by
    simp [hdrBytes]
  rw [h, List.drop_left' (by simp [cookieBytes]), List.take_left' (by simp)]

theorem beNat_enc16 (n : Nat) : beNat (enc16 n) = n % 65536 := by
  rw [enc16, beNat_two, be16_enc_mod]

theorem reach_raws_ty (H : Hashes) (b : Builder) (hr : Reach H b) :
    (b.attrs.map BAttr.asRaw).map (·.ty) = b.types := by
  rw [reach_types H b hr, List.map_map]
  apply List.map_congr_left
  intro a _
  exact asRaw_ty a

theorem build_fpOk (H : Hashes) (hH : HashesOk H) (b : Builder) (hr : Reach H b)
    (hs : b.byteLen ≤ 65535 + 20) :
    fpOk b.build 20 ((b.attrs.map BAttr.asRaw).map toTlv) := by
  have hok := reach_ok H hH b hr
  have hty := reach_raws_ty H b hr
  have hrl := rawsBytes_length b hok
  rcases tailShape_fp b.types (reach_tailShape H b hr) with hno | ⟨init, hinit, hni⟩
  · apply fpOk_noFp
    intro t ht hf
    apply hno
    rw [← hty, ← map_toTlv_ty, ← hf]
    exact List.mem_map_of_mem ht
  · rw [← hty] at hinit
    obtain ⟨rinit, rlast, hsplit, hri, hrl2⟩ := List.map_eq_append_iff.mp hinit
    obtain ⟨x, rfl, hxty⟩ := List.map_eq_singleton_iff.mp hrl2
    have hinv := reach_fpInv H hH b hr rinit x hsplit hxty
    have hvl : x.value.length = 4 := by
      rw [hinv, xorBytes_length, crc32Bytes_length]; rfl
    have hx8 : x.toBytes.length = 8 := by
      rw [toBytes_eq, wireForm_length, hvl]; rfl
    rw [build_eq_raws b hok, hsplit, List.map_append]
    rw [hsplit, rawsBytes_append, rawsBytes_singleton, List.length_append] at hrl
    apply fpOk_append
    · intro t ht hf
      apply hni
      rw [← hri, ← map_toTlv_ty, ← hf]
      exact List.mem_map_of_mem ht
    · rw [flatMap_toTlv_enc]
      exact fp_last_ok b.ty _ b.tid rinit x (by omega) hinv

theorem build_wellFormedAs (H : Hashes) (hH : HashesOk H) (b : Builder) (hr : Reach H b)
    (hs : b.byteLen ≤ 65535 + 20) :
    WellFormedAs b.build ((b.attrs.map BAttr.asRaw).map toTlv) := by
  have hok := reach_ok H hH b hr
  have hbuild := build_eq_raws b hok
  have hlen := builder_build_length b hok
  have hbl := byteLen_eq b
  have hlf := build_lenField b hok
  refine ⟨by omega, ?_, ?_, ?_, ?_, ?_, ?_, build_fpOk H hH b hr hs⟩
  · rw [hbuild, hdr_take2, beNat_enc16]
    have := (reach_ty_tid H b hr).1
    omega
  · rw [hbuild, hdr_cookie]
  · rw [hlf, hlen, Nat.mod_eq_of_lt (by omega)]; omega
  · intro t ht
    obtain ⟨r, hrm, rfl⟩ := List.mem_map.mp ht
    obtain ⟨a, ha, rfl⟩ := List.mem_map.mp hrm
    refine ⟨?_, asRaw_value_lt a (hok a ha), by simp [toTlv]⟩
    apply reach_types_lt H b hr
    rw [← reach_raws_ty H b hr]
    exact List.mem_map_of_mem hrm
  · rw [hbuild, List.drop_left' (hdrBytes_length _ _ _), flatMap_toTlv_enc]
  · rw [map_toTlv_ty, reach_raws_ty H b hr]
    exact orderOk_tailShape _ (reach_tailShape H b hr)

/-! ### the round trip -/

theorem build_parse (H : Hashes) (hH : HashesOk H) (b : Builder) (hr : Reach H b)
    (hs : b.byteLen ≤ 65535 + 20) :
    msgFromBytes b.build = .ok ⟨b.build⟩ ∧ (⟨b.build⟩ : Msg).typeField = b.ty ∧
      (⟨b.build⟩ : Msg).tid = b.tid ∧
      (⟨b.build⟩ : Msg).allAttrs = b.attrs.map BAttr.asRaw ∧
      (⟨b.build⟩ : Msg).iter = b.attrs.map BAttr.asRaw := by
  have hw := build_wellFormedAs H hH b hr hs
  have hok := reach_ok H hH b hr
  have hwalk := wellFormedAs_walk _ _ hw
  have hall : (⟨b.build⟩ : Msg).allAttrs = b.attrs.map BAttr.asRaw := by
    have := wellFormedAs_allAttrs _ _ hw
    rw [map_toTlv_raw] at this
    exact this
  obtain ⟨hty, htid⟩ := reach_ty_tid H b hr
  obtain ⟨h20, ht, hc, hl, _⟩ := hw
  refine ⟨(msgFromBytes_ok_iff _ _).mpr ⟨rfl, h20, ht, hc, hl, hwalk⟩, ?_, ?_, hall, ?_⟩
  · show beNat (b.build.take 2) = b.ty
    rw [build_eq_raws b hok, hdr_take2, beNat_enc16]; omega
  · show beNat ((b.build.drop 8).take 12) = b.tid
    rw [build_eq_raws b hok, hdr_tid, beNat_encBE 12 b.tid (by omega)]
  · have hi : (⟨b.build⟩ : Msg).iter = exposed (⟨b.build⟩ : Msg).allAttrs := iterGo_eq_exposed _ _
    rw [hi, hall]
    obtain ⟨pre, tail, hpt, hpre, htail⟩ := reach_tailShape H b hr
    exact exposed_tailShape pre tail hpre htail _ (by rw [reach_raws_ty H b hr, hpt])

theorem find_of_nodup (l : List RawAttr) (hn : (l.map (·.ty)).Nodup) (r : RawAttr) (hm : r ∈ l) :
    l.find? (·.ty = r.ty) = some r := by
  induction l with
  | nil => cases hm
  | cons a l ih =>
    simp only [List.map_cons, List.nodup_cons] at hn
    by_cases ha : a.ty = r.ty
    · rcases List.mem_cons.mp hm with rfl | hl
      · simp
      · exfalso
        apply hn.1
        rw [ha]
        exact List.mem_map_of_mem (f := (·.ty)) hl
    · rcases List.mem_cons.mp hm with rfl | hl
      · exact absurd rfl ha
      · rw [List.find?_cons_of_neg (by simpa using ha)]
        exact ih hn.2 hl

/-! ### the type field -/

theorem bit_lt (n i : Nat) : bit n i < 2 := by unfold bit; omega

theorem bit_def (n i : Nat) : bit n i = n / 2 ^ i % 2 := rfl

/-- the bits of a 14-bit number given in binary -/
theorem bits14 (b0 b1 b2 b3 b4 b5 b6 b7 b8 b9 b10 b11 b12 b13 : Nat)
    (h0 : b0 < 2) (h1 : b1 < 2) (h2 : b2 < 2) (h3 : b3 < 2) (h4 : b4 < 2) (h5 : b5 < 2)
    (h6 : b6 < 2) (h7 : b7 < 2) (h8 : b8 < 2) (h9 : b9 < 2) (h10 : b10 < 2) (h11 : b11 < 2)
    (h12 : b12 < 2) (h13 : b13 < 2) (v : Nat)
    (hv : v = b0 + 2 * b1 + 4 * b2 + 8 * b3 + 16 * b4 + 32 * b5 + 64 * b6 + 128 * b7 + 256 * b8 +
      512 * b9 + 1024 * b10 + 2048 * b11 + 4096 * b12 + 8192 * b13) :
    bit v 0 = b0 ∧ bit v 1 = b1 ∧ bit v 2 = b2 ∧ bit v 3 = b3 ∧ bit v 4 = b4 ∧ bit v 5 = b5 ∧
    bit v 6 = b6 ∧ bit v 7 = b7 ∧ bit v 8 = b8 ∧ bit v 9 = b9 ∧ bit v 10 = b10 ∧ bit v 11 = b11 ∧
    bit v 12 = b12 ∧ bit v 13 = b13 := by
  simp only [bit_def, Nat.reducePow]
  refine ⟨?_, ?_, ?_, ?_, ?_, ?_, ?_, ?_, ?_, ?_, ?_, ?_, ?_, ?_⟩ <;> omega

/-- a 12-bit number is the sum of its bits -/
theorem bits12_sum (m : Nat) (hm : m < 4096) :
    m = bit m 0 + 2 * bit m 1 + 4 * bit m 2 + 8 * bit m 3 + 16 * bit m 4 + 32 * bit m 5 +
      64 * bit m 6 + 128 * bit m 7 + 256 * bit m 8 + 512 * bit m 9 + 1024 * bit m 10 +
      2048 * bit m 11 := by
  simp only [bit_def, Nat.reducePow]
  omega

theorem interleave_bits (c m : Nat) :
    bit (interleave c m) 0 = bit m 0 ∧ bit (interleave c m) 1 = bit m 1 ∧
    bit (interleave c m) 2 = bit m 2 ∧ bit (interleave c m) 3 = bit m 3 ∧
    bit (interleave c m) 4 = bit c 0 ∧ bit (interleave c m) 5 = bit m 4 ∧
    bit (interleave c m) 6 = bit m 5 ∧ bit (interleave c m) 7 = bit m 6 ∧
    bit (interleave c m) 8 = bit c 1 ∧ bit (interleave c m) 9 = bit m 7 ∧
    bit (interleave c m) 10 = bit m 8 ∧ bit (interleave c m) 11 = bit m 9 ∧
    bit (interleave c m) 12 = bit m 10 ∧ bit (interleave c m) 13 = bit m 11 :=
  bits14 _ _ _ _ _ _ _ _ _ _ _ _ _ _ (bit_lt _ _) (bit_lt _ _) (bit_lt _ _) (bit_lt _ _)
    (bit_lt _ _) (bit_lt _ _) (bit_lt _ _) (bit_lt _ _) (bit_lt _ _) (bit_lt _ _) (bit_lt _ _)
    (bit_lt _ _) (bit_lt _ _) (bit_lt _ _) _ rfl

theorem class_interleave (c m : Nat) (hc : c < 4) : classOfType (interleave c m) = c := by
  obtain ⟨_, _, _, _, h4, _, _, _, h8, _⟩ := interleave_bits c m
  rw [classOfType, h4, h8]
  simp only [bit_def, Nat.reducePow]
  omega

theorem method_interleave (c m : Nat) (hm : m < 4096) : methodOfType (interleave c m) = m := by
  obtain ⟨h0, h1, h2, h3, _, h5, h6, h7, _, h9, h10, h11, h12, h13⟩ := interleave_bits c m
  rw [methodOfType, h0, h1, h2, h3, h5, h6, h7, h9, h10, h11, h12, h13]
  exact (bits12_sum m hm).symm

end StunVerif
