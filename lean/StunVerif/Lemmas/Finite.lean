/-
Kernel-evaluated exhaustive checks over complete finite domains: a `Bool`-valued bounded forall
and its soundness lemma.  (`decide` on `∀ m < 4096, …` directly runs into deep recursion in the
nested `Decidable` instances; evaluating a `Bool` does not.)
-/
namespace StunVerif

def allBelow : Nat → (Nat → Bool) → Bool
  | 0, _ => true
  | n + 1, p => p n && allBelow n p

theorem allBelow_sound {n : Nat} {p : Nat → Bool} (h : allBelow n p = true) :
    ∀ i, i < n → p i = true := by
  induction n with
  | zero => intro i hi; omega
  | succ n ih =>
    simp only [allBelow, Bool.and_eq_true] at h
    intro i hi
    by_cases hin : i = n
    · subst hin; exact h.1
    · exact ih h.2 i (by omega)

end StunVerif
