/-
Helper lemmas for `C04.seal_validates`: the invariant of builders whose integrity attributes were
all added with the same credentials.
-/
import StunVerif.Spec.Builder
import StunVerif.Lemmas.Integrity
namespace StunVerif
open Spec

/-! ### sealed builders: every integrity attribute carries the MAC of the bytes before it -/

theorem reachWith_reach (H : Hashes) (c : Creds) (b : Builder) (hr : ReachWith H c b) :
    Reach H b := by
  induction hr with
  | new ty tid h1 h2 => exact Reach.new ty tid h1 h2
  | add b b' a _ had hadd ih => exact Reach.add b b' a ih had hadd
  | integrity b b' algo _ hi ih => exact Reach.integrity b b' c algo ih hi
  | fingerprint b b' _ hf ih => exact Reach.fingerprint b b' ih hf
  | owned b _ ih => exact Reach.owned b ih

def sealHdr (ty tid n : Nat) : Bytes := enc16 ty ++ enc16 n ++ cookieBytes ++ encBE 12 tid

theorem sealHdr_length (ty tid n : Nat) : (sealHdr ty tid n).length = 20 := header_length _ _ _

def rawsBytes_seal (ras : List RawAttr) : Bytes := ras.flatMap RawAttr.toBytes

theorem setLen_sealHdr (ty tid n n' : Nat) (r : Bytes) :
    setLen (sealHdr ty tid n ++ r) n' = sealHdr ty tid n' ++ r := by
  simp [sealHdr, setLen, enc16]

/-- the built bytes in terms of the raw attribute list -/
theorem build_eq_seal (b : Builder) (hb : ∀ a ∈ b.attrs, a.Ok) :
    b.build = sealHdr b.ty b.tid (b.byteLen - 20) ++ rawsBytes_seal (b.attrs.map BAttr.asRaw) ∧
    (rawsBytes_seal (b.attrs.map BAttr.asRaw)).length = b.byteLen - 20 := by
  have e : rawsBytes_seal (b.attrs.map BAttr.asRaw) = b.attrs.flatMap (fun a => a.asRaw.toBytes) := by
    unfold rawsBytes_seal; rw [List.flatMap_map]
  refine ⟨?_, ?_⟩
  · rw [e, builder_build b hb]; rfl
  · rw [e, flatMap_toBytes_length _ hb]; unfold Builder.byteLen sumPadded; omega

theorem bytesWithExtraLen_eq_seal (b : Builder) (hb : ∀ a ∈ b.attrs, a.Ok) (extra : Nat)
    (hs : b.byteLen + extra ≤ 65535 + 20) (bytes : Bytes)
    (h : b.bytesWithExtraLen extra = some bytes) :
    bytes = sealHdr b.ty b.tid ((rawsBytes_seal (b.attrs.map BAttr.asRaw)).length + extra) ++
      rawsBytes_seal (b.attrs.map BAttr.asRaw) := by
  obtain ⟨hbuild, hl⟩ := build_eq_seal b hb
  have h20 : 20 ≤ b.byteLen := by unfold Builder.byteLen; omega
  unfold Builder.bytesWithExtraLen at h
  simp only [build_lenField b hb] at h
  rw [if_neg (by omega), Nat.mod_eq_of_lt (by omega)] at h
  simp only [Option.some.injEq] at h
  rw [← h, hl, hbuild, setLen_sealHdr]

def SealedWith (H : Hashes) (c : Creds) (b : Builder) : Prop :=
  ∀ (pre : List RawAttr) (a : RawAttr) (post : List RawAttr) (algo : Algo),
    b.attrs.map BAttr.asRaw = pre ++ a :: post → a.ty = integrityTy algo →
    a.value = integrityMac H (hmacKey H c) algo
      (sealHdr b.ty b.tid ((rawsBytes_seal pre).length + integrityExtra algo) ++ rawsBytes_seal pre)

theorem snoc_eq_split {α} (l : List α) (x : α) (pre : List α) (a : α) (post : List α)
    (h : l ++ [x] = pre ++ a :: post) :
    (post = [] ∧ l = pre ∧ x = a) ∨ ∃ post', post = post' ++ [x] ∧ l = pre ++ a :: post' := by
  rcases List.eq_nil_or_concat post with hp | ⟨post', y, hp⟩
  · subst hp
    left
    have := List.append_inj' (show l ++ [x] = pre ++ [a] from h) rfl
    exact ⟨rfl, this.1, by simpa using this.2⟩
  · have hp' : post = post' ++ [y] := by simpa using hp
    subst hp'
    right
    have := List.append_inj' (show l ++ [x] = (pre ++ a :: post') ++ [y] by simpa using h) rfl
    have hxy : x = y := by simpa using this.2
    subst hxy
    exact ⟨post', rfl, this.1⟩

theorem sealedWith_snoc (H : Hashes) (c : Creds) (b b' : Builder) (x : BAttr)
    (hty : b'.ty = b.ty) (htid : b'.tid = b.tid) (hattrs : b'.attrs = b.attrs ++ [x])
    (hs : SealedWith H c b)
    (hx : ∀ algo, x.asRaw.ty = integrityTy algo →
      x.asRaw.value = integrityMac H (hmacKey H c) algo
        (sealHdr b.ty b.tid ((rawsBytes_seal (b.attrs.map BAttr.asRaw)).length + integrityExtra algo) ++
          rawsBytes_seal (b.attrs.map BAttr.asRaw))) :
    SealedWith H c b' := by
  intro pre a post algo hsplit ha
  rw [hattrs, List.map_append, List.map_cons, List.map_nil] at hsplit
  rw [hty, htid]
  rcases snoc_eq_split _ _ _ _ _ hsplit with ⟨_, hpre, hxa⟩ | ⟨post', _, hl⟩
  · subst hxa; rw [← hpre]; exact hx algo ha
  · exact hs pre a post' algo hl ha

theorem asRaw_ty_seal (a : BAttr) : a.asRaw.ty = a.ty := by cases a <;> rfl

theorem integrityTy_ending (algo : Algo) : isEnding (integrityTy algo) = true := by
  cases algo <;> decide

theorem integrityTy_inj {a a' : Algo} (h : integrityTy a = integrityTy a') : a = a' := by
  cases a <;> cases a' <;> first | rfl | (exact absurd h (by decide))

theorem byteLen_snoc (b b' : Builder) (x : BAttr) (h : b'.attrs = b.attrs ++ [x]) :
    b'.byteLen = b.byteLen + x.paddedLen := by
  unfold Builder.byteLen
  rw [h, List.map_append, List.sum_append]
  simp; omega

theorem integrity_paddedLen (H : Hashes) (hH : HashesOk H) (key bytes : Bytes) (algo : Algo) :
    (BAttr.raw ⟨integrityTy algo, integrityMac H key algo bytes⟩).paddedLen = integrityExtra algo ∧
    (integrityMac H key algo bytes).length + 4 = integrityExtra algo := by
  have := hH key bytes
  cases algo <;>
    simp [BAttr.paddedLen, RawAttr.paddedLen, integrityMac, integrityExtra, this.1, this.2,
      paddedAttrLen]

theorem reachWith_sealed (H : Hashes) (hH : HashesOk H) (c : Creds) (b : Builder)
    (hr : ReachWith H c b) : b.byteLen ≤ 65535 + 20 → SealedWith H c b := by
  induction hr with
  | new ty tid _ _ =>
    intro _ pre a post algo h
    simp [Builder.new] at h
  | add b b' a hrb had hadd ih =>
    intro hs
    obtain ⟨_, rfl⟩ := (add_ok_iff b b' a).mp hadd
    have hbl := byteLen_snoc b { b with attrs := b.attrs ++ [a], types := b.types ++ [a.ty] } a rfl
    refine sealedWith_snoc H c b _ a rfl rfl rfl (ih (by omega)) ?_
    intro algo hty
    rw [asRaw_ty_seal] at hty
    have := addable_not_ending had
    rw [hty, integrityTy_ending] at this
    cases this
  | integrity b b' algo hrb hi ih =>
    intro hs
    obtain ⟨_, bytes, hbytes, rfl⟩ := addIntegrity_ok H b b' c algo hi
    have hbl := byteLen_snoc b { b with attrs := b.attrs ++ [.raw ⟨integrityTy algo, integrityMac H (hmacKey H c) algo bytes⟩], types := b.types ++ [integrityTy algo] } _ rfl
    rw [(integrity_paddedLen H hH _ _ algo).1] at hbl
    have hok := reach_ok H hH b (reachWith_reach H c b hrb)
    refine sealedWith_snoc H c b _ _ rfl rfl rfl (ih (by omega)) ?_
    intro algo' hty
    have : algo = algo' := integrityTy_inj hty
    subst this
    simp only [BAttr.asRaw]
    rw [← bytesWithExtraLen_eq_seal b hok _ (by omega) bytes hbytes]
  | fingerprint b b' hrb hf ih =>
    intro hs
    obtain ⟨_, bytes, _, rfl⟩ := addFingerprint_ok b b' hf
    have hbl := byteLen_snoc b { b with attrs := b.attrs ++ [fpAttr bytes], types := b.types ++ [tyFP] } _ rfl
    refine sealedWith_snoc H c b _ _ rfl rfl rfl (ih (by omega)) ?_
    intro algo hty
    have hty' : tyFP = integrityTy algo := hty
    cases algo <;> exact absurd hty' (by decide)
  | owned b hrb ih =>
    intro hs
    have hok := reach_ok H hH b (reachWith_reach H c b hrb)
    have hbl := (builder_owned b hok).2.1
    have hmap : b.intoOwned.attrs.map BAttr.asRaw = b.attrs.map BAttr.asRaw := by
      simp only [Builder.intoOwned, List.map_map]
      apply List.map_congr_left
      intro a ha
      exact (battr_owned a (hok a ha)).2.2
    intro pre a post algo hsplit ha
    rw [hmap] at hsplit
    exact ih (by omega) pre a post algo hsplit ha

/-! ### the verdict on the bytes of a sealed builder -/

theorem rawsBytes_append_seal (l l' : List RawAttr) : rawsBytes_seal (l ++ l') = rawsBytes_seal l ++ rawsBytes_seal l' := by
  unfold rawsBytes_seal; rw [List.flatMap_append]

theorem flat_enc_length (ts : List Tlv) (hwf : ∀ t ∈ ts, t.wf) :
    (ts.flatMap Tlv.enc).length = (rawsBytes_seal (ts.map Tlv.raw)).length := by
  induction ts with
  | nil => rfl
  | cons t ts ih =>
    obtain ⟨_, _, h3⟩ := hwf t (List.mem_cons_self ..)
    have e : t.enc.length = t.raw.toBytes.length := by
      rw [Tlv.enc_length, toBytes_eq, wireForm_length, h3]; unfold round4; simp only [Tlv.raw]; omega
    unfold rawsBytes_seal at ih ⊢
    rw [List.map_cons, List.flatMap_cons, List.flatMap_cons, List.length_append,
      List.length_append, e, ih (fun u hu => hwf u (List.mem_cons_of_mem _ hu))]

/-- the integrity attribute found in the built bytes of a sealed builder is the MAC of the HMAC
    input `validate_integrity` computes -/
theorem sealed_first (H : Hashes) (hH : HashesOk H) (c : Creds) (b : Builder)
    (hok : ∀ a ∈ b.attrs, a.Ok) (hsl : SealedWith H c b) (ts : List Tlv)
    (hw : WellFormedAs b.build ts) (hts : ts.map Tlv.raw = b.attrs.map BAttr.asRaw)
    (algo : Algo) (o : Nat) (x : Tlv) (hf : firstOfType (integrityTy algo) 20 ts = some (o, x)) :
    x.value = integrityMac H (hmacKey H c) algo (hmacInput b.build o (x.value.length + 4)) ∧
    x.value.length + 4 = integrityExtra algo := by
  obtain ⟨pre, post, hsplit, _, hty, ho⟩ := firstOfType_split _ _ _ _ _ hf
  have hmap : b.attrs.map BAttr.asRaw = pre.map Tlv.raw ++ x.raw :: post.map Tlv.raw := by
    rw [← hts, hsplit]; simp
  have hval : x.value = _ := hsl _ _ _ algo hmap hty
  have hvl : x.value.length + 4 = integrityExtra algo := by
    rw [hval]; exact (integrity_paddedLen H hH _ _ algo).2
  refine ⟨?_, hvl⟩
  have hwfpre : ∀ t ∈ pre, t.wf := fun t ht => hw.2.2.2.2.1 t (by rw [hsplit]; simp [ht])
  have hlen := flat_enc_length pre hwfpre
  obtain ⟨hbuild, _⟩ := build_eq_seal b hok
  have htake : b.build.take o = sealHdr b.ty b.tid (b.byteLen - 20) ++ rawsBytes_seal (pre.map Tlv.raw) := by
    rw [hbuild, hmap, rawsBytes_append_seal, ← List.append_assoc]
    exact List.take_left' (by rw [List.length_append, sealHdr_length, ho, hlen])
  refine hval.trans ?_
  congr 1
  unfold hmacInput
  rw [htake, setLen_sealHdr]
  congr 2
  omega

theorem firstOfType_some_of_mem (ty : Nat) (ts : List Tlv) (off : Nat) (h : ty ∈ ts.map (·.ty)) :
    ∃ o x, firstOfType ty off ts = some (o, x) := by
  cases hf : firstOfType ty off ts with
  | some p => exact ⟨p.1, p.2, rfl⟩
  | none =>
    obtain ⟨t, ht, hty⟩ := List.mem_map.mp h
    exact absurd hty ((firstOfType_none ty ts off).mp hf t ht)

theorem sealed_verdict (H : Hashes) (hH : HashesOk H) (c : Creds) (b : Builder)
    (hok : ∀ a ∈ b.attrs, a.Ok) (hsl : SealedWith H c b) (ts : List Tlv)
    (hw : WellFormedAs b.build ts) (hts : ts.map Tlv.raw = b.attrs.map BAttr.asRaw)
    (htypes : ts.map (·.ty) = b.types) (hsealed : tyMI ∈ b.types ∨ tyMI256 ∈ b.types) :
    Spec.validate H b.build ts c = .ok (if tyMI256 ∈ b.types then .sha256 else .sha1) := by
  unfold Spec.validate
  by_cases h256 : tyMI256 ∈ b.types
  · rw [if_pos h256]
    obtain ⟨o, x, hf⟩ := firstOfType_some_of_mem tyMI256 ts 20 (by rw [htypes]; exact h256)
    obtain ⟨hv, hl⟩ := sealed_first H hH c b hok hsl ts hw hts .sha256 o x hf
    have hl' : x.value.length = 32 := by simp only [integrityExtra] at hl; omega
    simp only [integrityMac] at hv
    rw [hf]
    simp only [if_neg (show ¬ x.value.length < 16 by omega),
      if_neg (show ¬ x.value.length > 32 by omega),
      if_neg (show ¬ x.value.length % 4 ≠ 0 by omega)]
    rw [if_pos]
    rw [← hv, List.take_length]
  · rw [if_neg h256]
    have hmi : tyMI ∈ b.types := hsealed.resolve_right h256
    have hnone : firstOfType tyMI256 20 ts = none :=
      (firstOfType_none _ _ _).mpr (fun t ht hty => h256 (by
        rw [← htypes, ← hty]; exact List.mem_map.mpr ⟨t, ht, rfl⟩))
    obtain ⟨o, x, hf⟩ := firstOfType_some_of_mem tyMI ts 20 (by rw [htypes]; exact hmi)
    obtain ⟨hv, hl⟩ := sealed_first H hH c b hok hsl ts hw hts .sha1 o x hf
    have hl' : x.value.length = 20 := by simp only [integrityExtra] at hl; omega
    simp only [integrityMac, hl'] at hv
    rw [hnone, hf]
    simp only [if_neg (show ¬ x.value.length < 20 by omega),
      if_neg (show ¬ x.value.length > 20 by omega)]
    rw [if_pos hv.symm]

end StunVerif
