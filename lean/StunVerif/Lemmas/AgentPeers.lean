/-
Helper lemmas (agent model) for C15 (validated peers), shared with `AgentTx` (C18) and `AgentPure`
(C20): what `reqPoll` may change, the shape of `step` on a request `send`, a characterisation of
`agentPoll`, and how one `step` changes one outstanding request.
-/
import StunVerif.Lemmas.AgentMap
namespace StunVerif.Agent

/-! ### `reqPoll` -/

/-- `reqPoll` without its local definitions -/
theorem reqPoll_def (r : Req) (now : Time) :
    reqPoll r now =
      if r.recvCancelled then (r, .cancelled) else
      match r.lastSend with
      | some h =>
        if r.timeoutI ≥ r.timeouts.length then
          if h + msNs r.lastRto > now then (r, .waitUntil (h + msNs r.lastRto)) else (r, .timedOut)
        else
          if h + msNs (r.timeouts.getD r.timeoutI 0) > now then
            (r, .waitUntil (h + msNs (r.timeouts.getD r.timeoutI 0)))
          else if r.sendCancelled then ({ r with timeoutI := r.timeoutI + 1 }, .cancelled)
          else ({ r with timeoutI := r.timeoutI + 1, lastSend := some now }, .sendData)
      | none => if r.sendCancelled then (r, .cancelled) else ({ r with lastSend := some now }, .sendData) := by
  rfl

/-- `reqPoll` changes at most the retransmission counter and the last-send instant -/
theorem reqPoll_fields (r : Req) (now : Time) :
    ∃ i ls, (reqPoll r now).1 = { r with timeoutI := i, lastSend := ls } ∧
      (ls = r.lastSend ∨ ls = some now) := by
  rw [reqPoll_def]
  split
  · exact ⟨r.timeoutI, r.lastSend, rfl, Or.inl rfl⟩
  · split
    · split
      · split
        · exact ⟨r.timeoutI, r.lastSend, rfl, Or.inl rfl⟩
        · exact ⟨r.timeoutI, r.lastSend, rfl, Or.inl rfl⟩
      · split
        · exact ⟨r.timeoutI, r.lastSend, rfl, Or.inl rfl⟩
        · split
          · exact ⟨r.timeoutI + 1, r.lastSend, rfl, Or.inl rfl⟩
          · exact ⟨r.timeoutI + 1, some now, rfl, Or.inr rfl⟩
    · split
      · exact ⟨r.timeoutI, r.lastSend, rfl, Or.inl rfl⟩
      · exact ⟨r.timeoutI, some now, rfl, Or.inr rfl⟩

theorem reqPoll_bytes (r : Req) (now : Time) : (reqPoll r now).1.bytes = r.bytes := by
  obtain ⟨i, ls, h, _⟩ := reqPoll_fields r now; rw [h]

theorem reqPoll_to (r : Req) (now : Time) : (reqPoll r now).1.to = r.to := by
  obtain ⟨i, ls, h, _⟩ := reqPoll_fields r now; rw [h]

theorem reqPoll_hadCreds_peers (r : Req) (now : Time) : (reqPoll r now).1.hadCreds = r.hadCreds := by
  obtain ⟨i, ls, h, _⟩ := reqPoll_fields r now; rw [h]

theorem reqPoll_lastSend (r : Req) (now : Time) :
    (reqPoll r now).1.lastSend = r.lastSend ∨ (reqPoll r now).1.lastSend = some now := by
  obtain ⟨i, ls, h, h'⟩ := reqPoll_fields r now; rw [h]; exact h'

/-- the first poll of a fresh request sends it -/
theorem reqPoll_new_peers (tr : Transport) (b : Bytes) (hc : Bool) (to : SockAddr) (now : Time) :
    reqPoll (Req.new tr b hc to) now = ({ Req.new tr b hc to with lastSend := some now }, .sendData) := by
  cases tr <;> rfl

/-! ### `step` on a request `send` -/

theorem step_sendReq (s : State) (tid : Nat) (b : Bytes) (hc : Bool) (to : SockAddr) (now : Time) :
    step s (.sendReq tid b hc to now) =
      if (lookup s.out tid).isSome then (s, .inProgress) else
        ({ s with out := insert s.out tid { Req.new s.transport b hc to with lastSend := some now } },
         .transmit (some tid) ⟨b, s.transport, s.localAddr, to⟩) := by
  simp only [step, reqPoll_new_peers]
  split
  · rfl
  · simp only [mkTransmit]
    cases s.transport <;> rfl

/-! ### `validatedPeer` -/

@[simp] theorem validatedPeer_out_peers (s : State) (a : SockAddr) : (validatedPeer s a).out = s.out := by
  unfold validatedPeer; split <;> rfl

@[simp] theorem validatedPeer_transport_peers (s : State) (a : SockAddr) :
    (validatedPeer s a).transport = s.transport := by
  unfold validatedPeer; split <;> rfl

@[simp] theorem validatedPeer_localAddr_peers (s : State) (a : SockAddr) :
    (validatedPeer s a).localAddr = s.localAddr := by
  unfold validatedPeer; split <;> rfl

theorem validatedPeer_contains_peers (s : State) (a b : SockAddr) :
    (validatedPeer s a).validated.contains b = (s.validated.contains b || decide (a = b)) := by
  unfold validatedPeer
  by_cases hb : a = b
  · subst hb
    split
    · next h => simpa using h
    · simp
  · have hb' : ¬ b = a := fun e => hb e.symm
    split
    · simp [hb]
    · simp [hb, hb']

theorem validatedPeer_mem (s : State) (a b : SockAddr) :
    b ∈ (validatedPeer s a).validated ↔ (b ∈ s.validated ∨ a = b) := by
  have h := validatedPeer_contains_peers s a b
  simp only [List.contains_eq_mem] at h
  have h' := congrArg (· = true) h
  simpa using h'

/-! ### `agentPoll` -/

/-- the transaction `agentPoll` serves -/
def chosen_peers (s : State) (now : Time) (pick : Option Nat) : Option Nat :=
  match pick with
  | some t => if (ready s now).contains t then some t else (ready s now).head?
  | none => (ready s now).head?

/-- serving one request whose poll answered `(r', ret)` -/
def serve_peers (s : State) (tid : Nat) : Req × ReqRet → State × Out
  | (r', .sendData) => ({ s with out := update s.out tid fun _ => r' }, .transmit (some tid) (mkTransmit s r'))
  | (_, .timedOut) => ({ s with out := remove s.out tid }, .timedOut tid)
  | (_, .cancelled) => ({ s with out := remove s.out tid }, .cancelled tid)
  | (_, .waitUntil t) => (s, .waitUntil t)

theorem agentPoll_eq_peers (s : State) (now : Time) (pick : Option Nat) :
    agentPoll s now pick =
      match chosen_peers s now pick with
      | none => (s, .waitUntil ((minWait s now).getD (now + msNs 3600000)))
      | some tid =>
        match lookup s.out tid with
        | none => (s, .waitUntil (now + msNs 3600000))
        | some r => serve_peers s tid (reqPoll r now) := by
  unfold agentPoll
  dsimp only
  change (match chosen_peers s now pick with
    | none => _
    | some tid => _) = _
  cases chosen_peers s now pick with
  | none => rfl
  | some tid =>
    dsimp only
    cases lookup s.out tid with
    | none => rfl
    | some r =>
      dsimp only
      unfold serve_peers
      rcases reqPoll r now with ⟨r', ret⟩
      cases ret <;> rfl

/-- what a `poll` of the agent can do: nothing but report an instant, retransmit one outstanding
    request (updating only that request), or end one outstanding request -/
theorem agentPoll_cases_peers (s : State) (now : Time) (pick : Option Nat) :
    (∃ t, agentPoll s now pick = (s, .waitUntil t)) ∨
    (∃ tid r, lookup s.out tid = some r ∧ (reqPoll r now).2 = .sendData ∧
      agentPoll s now pick = ({ s with out := update s.out tid fun _ => (reqPoll r now).1 },
        .transmit (some tid) (mkTransmit s (reqPoll r now).1))) ∨
    (∃ tid r, lookup s.out tid = some r ∧ (reqPoll r now).2 = .timedOut ∧
      agentPoll s now pick = ({ s with out := remove s.out tid }, .timedOut tid)) ∨
    (∃ tid r, lookup s.out tid = some r ∧ (reqPoll r now).2 = .cancelled ∧
      agentPoll s now pick = ({ s with out := remove s.out tid }, .cancelled tid)) := by
  rw [agentPoll_eq_peers]
  cases chosen_peers s now pick with
  | none => exact Or.inl ⟨_, rfl⟩
  | some tid =>
    dsimp only
    cases hl : lookup s.out tid with
    | none => exact Or.inl ⟨_, rfl⟩
    | some r =>
      dsimp only
      rcases hp : reqPoll r now with ⟨r', ret⟩
      cases ret with
      | waitUntil t => exact Or.inl ⟨t, rfl⟩
      | sendData => exact Or.inr (Or.inl ⟨tid, r, hl, by rw [hp], by rw [hp]; rfl⟩)
      | timedOut => exact Or.inr (Or.inr (Or.inl ⟨tid, r, hl, by rw [hp], rfl⟩))
      | cancelled => exact Or.inr (Or.inr (Or.inr ⟨tid, r, hl, by rw [hp], rfl⟩))

/-- the served transaction is ready (so the two "unreachable" branches of `agentPoll` are) -/
theorem chosen_mem_ready (s : State) (now : Time) (pick : Option Nat) (tid : Nat)
    (h : chosen_peers s now pick = some tid) : tid ∈ ready s now := by
  unfold chosen_peers at h
  have hh : ∀ l : List Nat, l.head? = some tid → tid ∈ l := by
    intro l hl
    cases l with
    | nil => simp at hl
    | cons a l => simp at hl; simp [hl]
  split at h
  · split at h
    · next t hc =>
      have : t = tid := by simpa using h
      subst this
      simpa using hc
    · exact hh _ h
  · exact hh _ h

/-! ### one `step`, seen from the validated set and the endpoints -/

theorem agentPoll_validated (s : State) (now : Time) (pick : Option Nat) :
    (agentPoll s now pick).1.validated = s.validated := by
  rcases agentPoll_cases_peers s now pick with ⟨t, h⟩ | ⟨_, _, _, _, h⟩ | ⟨_, _, _, _, h⟩ | ⟨_, _, _, _, h⟩ <;>
    rw [h]

theorem agentPoll_transport (s : State) (now : Time) (pick : Option Nat) :
    (agentPoll s now pick).1.transport = s.transport := by
  rcases agentPoll_cases_peers s now pick with ⟨t, h⟩ | ⟨_, _, _, _, h⟩ | ⟨_, _, _, _, h⟩ | ⟨_, _, _, _, h⟩ <;>
    rw [h]

theorem agentPoll_localAddr (s : State) (now : Time) (pick : Option Nat) :
    (agentPoll s now pick).1.localAddr = s.localAddr := by
  rcases agentPoll_cases_peers s now pick with ⟨t, h⟩ | ⟨_, _, _, _, h⟩ | ⟨_, _, _, _, h⟩ | ⟨_, _, _, _, h⟩ <;>
    rw [h]

theorem agentPoll_remoteCreds (s : State) (now : Time) (pick : Option Nat) :
    (agentPoll s now pick).1.remoteCreds = s.remoteCreds := by
  rcases agentPoll_cases_peers s now pick with ⟨t, h⟩ | ⟨_, _, _, _, h⟩ | ⟨_, _, _, _, h⟩ | ⟨_, _, _, _, h⟩ <;>
    rw [h]

/-! ### the validated set along a history -/

/-- the calls that validate their source address `a` (same text as `C15.validates`) -/
def acceptedFrom (a : SockAddr) (p : Op × Out) : Bool :=
  match p with
  | (.handle _ src, .incoming) => src = a
  | (.handle _ src, .response) => src = a
  | _ => false

theorem acceptedFrom_handle_ne (m : InMsg) (src a : SockAddr) (o : Out) (h : a ≠ src) :
    acceptedFrom a (.handle m src, o) = false := by
  have h' : ¬ src = a := fun e => h e.symm
  cases o <;> simp [acceptedFrom, h']

theorem step_acceptedFrom (s : State) (op : Op) (a : SockAddr) :
    isValidatedPeer (step s op).1 a = (isValidatedPeer s a || acceptedFrom a (op, (step s op).2)) := by
  unfold isValidatedPeer
  cases op with
  | sendReq tid b hc to now =>
    rw [step_sendReq]
    split <;> simp [acceptedFrom]
  | sendOther b to => simp [step, acceptedFrom]
  | handle m src =>
    simp only [step]
    split
    · split
      · simp [acceptedFrom]
      · split
        · split
          · split
            · simp [acceptedFrom, validatedPeer_mem]
            · simp [acceptedFrom]
          · simp [acceptedFrom]
        · simp [acceptedFrom, validatedPeer_mem]
    · simp [acceptedFrom, validatedPeer_mem]
  | poll now pick =>
    have : (step s (.poll now pick)) = agentPoll s now pick := rfl
    rw [this, agentPoll_validated]
    simp [acceptedFrom]
  | cancel tid => simp [step, acceptedFrom]
  | cancelRtx tid => simp [step, acceptedFrom]
  | configure tid rto n last => simp [step, acceptedFrom]
  | setRemoteCreds k => simp [step, acceptedFrom]

theorem trace_nil_peers (s : State) : trace s [] = [] := rfl

theorem trace_cons_peers (s : State) (op : Op) (ops : List Op) :
    trace s (op :: ops) = (op, (step s op).2) :: trace (step s op).1 ops := rfl

/-- validated after a history = validated before, or validated by one of its calls -/
theorem isValidatedPeer_after (s : State) (ops : List Op) (a : SockAddr) :
    isValidatedPeer (after s ops) a = (isValidatedPeer s a || (trace s ops).any (acceptedFrom a)) := by
  induction ops generalizing s with
  | nil => simp [after_nil, trace_nil_peers]
  | cons op ops ih =>
    rw [after_cons, ih, step_acceptedFrom, trace_cons_peers, List.any_cons, Bool.or_assoc]

/-! ### one `step`, seen from one outstanding request -/

theorem lookup_remove_some {out : List (Nat × Req)} {t u : Nat} {r' : Req}
    (h : lookup (remove out t) u = some r') : u ≠ t ∧ lookup out u = some r' := by
  by_cases e : u = t
  · subst e; rw [lookup_remove_self] at h; cases h
  · rw [lookup_remove_ne _ _ _ e] at h; exact ⟨e, h⟩

theorem lookup_insert_some {out : List (Nat × Req)} {t u : Nat} {r r' : Req}
    (h : lookup (insert out t r) u = some r') : (u = t ∧ r' = r) ∨ (u ≠ t ∧ lookup out u = some r') := by
  by_cases e : u = t
  · subst e; rw [lookup_insert_self] at h; cases h; exact Or.inl ⟨rfl, rfl⟩
  · rw [lookup_insert_ne _ _ _ _ e] at h; exact Or.inr ⟨e, h⟩

theorem lookup_update_some {out : List (Nat × Req)} {t u : Nat} {f : Req → Req} {r' : Req}
    (h : lookup (update out t f) u = some r') :
    ∃ r, lookup out u = some r ∧ ((u ≠ t ∧ r' = r) ∨ (u = t ∧ r' = f r)) := by
  by_cases e : u = t
  · subst e
    rw [lookup_update_self] at h
    cases hl : lookup out u with
    | none => rw [hl] at h; cases h
    | some r => rw [hl] at h; cases h; exact ⟨r, rfl, Or.inr ⟨rfl, rfl⟩⟩
  · rw [lookup_update_ne _ _ _ _ e] at h; exact ⟨r', h, Or.inl ⟨e, rfl⟩⟩

@[simp] theorem Req.new_bytes (tr : Transport) (b : Bytes) (hc : Bool) (to : SockAddr) :
    (Req.new tr b hc to).bytes = b := by cases tr <;> rfl
@[simp] theorem Req.new_to (tr : Transport) (b : Bytes) (hc : Bool) (to : SockAddr) :
    (Req.new tr b hc to).to = to := by cases tr <;> rfl
@[simp] theorem Req.new_hadCreds (tr : Transport) (b : Bytes) (hc : Bool) (to : SockAddr) :
    (Req.new tr b hc to).hadCreds = hc := by cases tr <;> rfl

/-- what one call may change of a request that stays outstanding: never its bytes, destination or
    credentials flag; its last-send instant only to the `now` of a `poll` -/
def Kept (op : Op) (r r' : Req) : Prop :=
  r'.bytes = r.bytes ∧ r'.to = r.to ∧ r'.hadCreds = r.hadCreds ∧
  (r'.lastSend = r.lastSend ∨ ∃ now pick, op = .poll now pick ∧ r'.lastSend = some now)

theorem Kept.refl (op : Op) (r : Req) : Kept op r r := ⟨rfl, rfl, rfl, Or.inl rfl⟩

theorem configureReq_kept (tr : Transport) (r : Req) (rto n last : Nat) :
    (configureReq tr r rto n last).bytes = r.bytes ∧ (configureReq tr r rto n last).to = r.to ∧
    (configureReq tr r rto n last).hadCreds = r.hadCreds ∧
    (configureReq tr r rto n last).lastSend = r.lastSend := by
  cases tr <;> exact ⟨rfl, rfl, rfl, rfl⟩

/-- an outstanding request after a call either was outstanding before (and kept its identity), or
    is the request that call just sent -/
theorem step_lookup_some (s : State) (op : Op) (u : Nat) (r' : Req)
    (h : lookup (step s op).1.out u = some r') :
    (∃ r, lookup s.out u = some r ∧ Kept op r r') ∨
    (lookup s.out u = none ∧ ∃ b hc to now, op = .sendReq u b hc to now ∧
      (step s op).2 = .transmit (some u) ⟨b, s.transport, s.localAddr, to⟩ ∧
      r' = { Req.new s.transport b hc to with lastSend := some now }) := by
  cases op with
  | sendReq tid b hc to now =>
    rw [step_sendReq] at h ⊢
    split at h
    · exact Or.inl ⟨r', h, Kept.refl _ _⟩
    · next hn =>
      rw [if_neg hn]
      rcases lookup_insert_some h with ⟨e, hr⟩ | ⟨e, hl⟩
      · subst e
        refine Or.inr ⟨?_, b, hc, to, now, rfl, rfl, hr⟩
        cases hl : lookup s.out u with
        | none => rfl
        | some x => rw [hl] at hn; exact absurd rfl hn
      · exact Or.inl ⟨r', hl, Kept.refl _ _⟩
  | sendOther b to => exact Or.inl ⟨r', h, Kept.refl _ _⟩
  | handle m src =>
    left
    simp only [step] at h
    split at h
    · split at h
      · exact ⟨r', h, Kept.refl _ _⟩
      · next r hr =>
        have hrem : ∀ a, lookup (validatedPeer { s with out := remove s.out m.tid } a).out u = some r' →
            ∃ r, lookup s.out u = some r ∧ Kept (.handle m src) r r' := by
          intro a h
          rw [validatedPeer_out_peers] at h
          exact ⟨r', (lookup_remove_some h).2, Kept.refl _ _⟩
        have hins : lookup (insert (remove s.out m.tid) m.tid r) u = some r' →
            ∃ r, lookup s.out u = some r ∧ Kept (.handle m src) r r' := by
          intro h
          rcases lookup_insert_some h with ⟨e, hr'⟩ | ⟨e, hl⟩
          · subst e; subst hr'; exact ⟨r', hr, Kept.refl _ _⟩
          · exact ⟨r', (lookup_remove_some hl).2, Kept.refl _ _⟩
        split at h
        · split at h
          · split at h
            · exact hrem _ h
            · exact hins h
          · exact hins h
        · exact hrem _ h
    · rw [validatedPeer_out_peers] at h; exact ⟨r', h, Kept.refl _ _⟩
  | poll now pick =>
    left
    have e : step s (.poll now pick) = agentPoll s now pick := rfl
    rw [e] at h
    rcases agentPoll_cases_peers s now pick with ⟨t, hp⟩ | ⟨tid, r, hl, _, hp⟩ | ⟨tid, r, hl, _, hp⟩ |
      ⟨tid, r, hl, _, hp⟩
    · rw [hp] at h; exact ⟨r', h, Kept.refl _ _⟩
    · rw [hp] at h
      dsimp only at h
      obtain ⟨r0, hl0, hc⟩ := lookup_update_some h
      rcases hc with ⟨_, e⟩ | ⟨e1, e2⟩
      · subst e; exact ⟨_, hl0, Kept.refl _ _⟩
      · subst e1
        rw [hl] at hl0; cases hl0
        refine ⟨r, hl, ?_⟩
        subst e2
        refine ⟨reqPoll_bytes _ _, reqPoll_to _ _, reqPoll_hadCreds_peers _ _, ?_⟩
        rcases reqPoll_lastSend r now with h1 | h1
        · exact Or.inl h1
        · exact Or.inr ⟨now, pick, rfl, h1⟩
    · rw [hp] at h; exact ⟨r', (lookup_remove_some h).2, Kept.refl _ _⟩
    · rw [hp] at h; exact ⟨r', (lookup_remove_some h).2, Kept.refl _ _⟩
  | cancel tid =>
    left
    simp only [step] at h
    obtain ⟨r0, hl0, hc⟩ := lookup_update_some h
    rcases hc with ⟨_, e⟩ | ⟨_, e⟩ <;> subst e
    · exact ⟨_, hl0, Kept.refl _ _⟩
    · exact ⟨r0, hl0, rfl, rfl, rfl, Or.inl rfl⟩
  | cancelRtx tid =>
    left
    simp only [step] at h
    obtain ⟨r0, hl0, hc⟩ := lookup_update_some h
    rcases hc with ⟨_, e⟩ | ⟨_, e⟩ <;> subst e
    · exact ⟨_, hl0, Kept.refl _ _⟩
    · exact ⟨r0, hl0, rfl, rfl, rfl, Or.inl rfl⟩
  | configure tid rto n last =>
    left
    simp only [step] at h
    obtain ⟨r0, hl0, hc⟩ := lookup_update_some h
    rcases hc with ⟨_, e⟩ | ⟨_, e⟩ <;> subst e
    · exact ⟨_, hl0, Kept.refl _ _⟩
    · obtain ⟨h1, h2, h3, h4⟩ := configureReq_kept s.transport r0 rto n last
      exact ⟨r0, hl0, h1, h2, h3, Or.inl h4⟩
  | setRemoteCreds k => exact Or.inl ⟨r', h, Kept.refl _ _⟩

end StunVerif.Agent
