/-
Helper lemmas (agent model) for C07: association lists up to permutation, order-independence of
`ready`/`minWait`/`agentPoll`, preservation of `KeysNodup`, and `hadCreds` invariance.
-/
import StunVerif.Lemmas.AgentMap
namespace StunVerif.Agent

/-! ### association lists with unique keys, up to permutation -/

theorem lookup_eq_some_of_mem (out : List (Nat × Req)) (hk : (out.map (·.1)).Nodup)
    (t : Nat) (r : Req) (hm : (t, r) ∈ out) : lookup out t = some r := by
  induction out with
  | nil => cases hm
  | cons p out ih =>
    rw [List.map_cons, List.nodup_cons] at hk
    rw [lookup_cons]
    rcases List.mem_cons.mp hm with e | hm'
    · subst e; simp
    · have hne : p.1 ≠ t := by
        intro e
        apply hk.1
        rw [e]
        exact List.mem_map.mpr ⟨(t, r), hm', rfl⟩
      rw [if_neg hne]
      exact ih hk.2 hm'

theorem mem_of_lookup_eq_some (out : List (Nat × Req)) (t : Nat) (r : Req)
    (h : lookup out t = some r) : (t, r) ∈ out := by
  induction out with
  | nil => simp at h
  | cons p out ih =>
    rw [lookup_cons] at h
    by_cases hp : p.1 = t
    · rw [if_pos hp] at h
      have : p = (t, r) := by
        cases p; simp at hp h; simp [hp, h]
      rw [this]; exact List.mem_cons_self
    · rw [if_neg hp] at h
      exact List.mem_cons_of_mem _ (ih h)

theorem lookup_perm {out out' : List (Nat × Req)} (hp : out.Perm out')
    (hk : (out.map (·.1)).Nodup) (t : Nat) : lookup out t = lookup out' t := by
  have hk' : (out'.map (·.1)).Nodup := ((hp.map (·.1)).nodup_iff).mp hk
  cases h : lookup out t with
  | some r =>
    have := mem_of_lookup_eq_some out t r h
    exact (lookup_eq_some_of_mem out' hk' t r (hp.mem_iff.mp this)).symm
  | none =>
    cases h' : lookup out' t with
    | none => rfl
    | some r =>
      have := mem_of_lookup_eq_some out' t r h'
      rw [lookup_eq_some_of_mem out hk t r (hp.mem_iff.mpr this)] at h
      cases h

theorem remove_perm {out out' : List (Nat × Req)} (hp : out.Perm out') (t : Nat) :
    (remove out t).Perm (remove out' t) := hp.filter _

theorem update_perm {out out' : List (Nat × Req)} (hp : out.Perm out') (t : Nat) (f : Req → Req) :
    (update out t f).Perm (update out' t f) := hp.map _

theorem insert_perm {out out' : List (Nat × Req)} (hp : out.Perm out') (t : Nat) (r : Req) :
    (insert out t r).Perm (insert out' t r) := (remove_perm hp t).cons _

theorem remove_remove (out : List (Nat × Req)) (t : Nat) : remove (remove out t) t = remove out t := by
  unfold remove
  rw [List.filter_filter]
  congr 1
  funext p
  simp

theorem remove_eq_self_of_not_mem (out : List (Nat × Req)) (t : Nat) (h : t ∉ out.map (·.1)) :
    remove out t = out := by
  unfold remove
  rw [List.filter_eq_self]
  intro p hp
  have : p.1 ≠ t := by
    intro e; apply h; rw [← e]; exact List.mem_map.mpr ⟨p, hp, rfl⟩
  simpa using this

/-- re-inserting a binding that is already there changes only the storage order -/
theorem insert_lookup_perm (out : List (Nat × Req)) (hk : (out.map (·.1)).Nodup) (t : Nat) (r : Req)
    (h : lookup out t = some r) : (insert out t r).Perm out := by
  induction out with
  | nil => simp at h
  | cons p out ih =>
    rw [List.map_cons, List.nodup_cons] at hk
    rw [lookup_cons] at h
    unfold insert
    rw [remove_cons]
    by_cases hp : p.1 = t
    · rw [if_pos hp] at h
      rw [if_pos hp]
      have e : p = (t, r) := by
        cases p; simp at hp h; simp [hp, h]
      rw [remove_eq_self_of_not_mem out t (by rw [← hp]; exact hk.1), e]
    · rw [if_neg hp] at h
      rw [if_neg hp]
      exact (List.Perm.swap p (t, r) (remove out t)).trans ((ih hk.2 h).cons p)

/-! ### `KeysNodup` is preserved -/

theorem nodup_keys_update (out : List (Nat × Req)) (hk : (out.map (·.1)).Nodup) (t : Nat)
    (f : Req → Req) : ((update out t f).map (·.1)).Nodup := by
  rw [keys_update]; exact hk

theorem nodup_keys_remove (out : List (Nat × Req)) (hk : (out.map (·.1)).Nodup) (t : Nat) :
    ((remove out t).map (·.1)).Nodup := by
  rw [keys_remove]; exact List.Nodup.sublist List.filter_sublist hk

theorem nodup_keys_insert (out : List (Nat × Req)) (hk : (out.map (·.1)).Nodup) (t : Nat) (r : Req) :
    ((insert out t r).map (·.1)).Nodup := by
  unfold insert
  rw [List.map_cons, List.nodup_cons]
  refine ⟨?_, nodup_keys_remove out hk t⟩
  rw [keys_remove]
  simp

@[simp] theorem validatedPeer_out_auth (s : State) (a : SockAddr) : (validatedPeer s a).out = s.out := by
  unfold validatedPeer; split <;> rfl

@[simp] theorem validatedPeer_transport (s : State) (a : SockAddr) :
    (validatedPeer s a).transport = s.transport := by
  unfold validatedPeer; split <;> rfl

@[simp] theorem validatedPeer_localAddr (s : State) (a : SockAddr) :
    (validatedPeer s a).localAddr = s.localAddr := by
  unfold validatedPeer; split <;> rfl

@[simp] theorem validatedPeer_remoteCreds (s : State) (a : SockAddr) :
    (validatedPeer s a).remoteCreds = s.remoteCreds := by
  unfold validatedPeer; split <;> rfl

theorem validatedPeer_contains (s : State) (a b : SockAddr) :
    (validatedPeer s a).validated.contains b = (b == a || s.validated.contains b) := by
  unfold validatedPeer
  split
  · rename_i h
    by_cases e : b = a
    · subst e; rw [h]; simp
    · simp [e]
  · rw [List.contains_cons]

theorem validatedPeer_equiv {s s' : State} (he : s.Equiv s') (a : SockAddr) :
    (validatedPeer s a).Equiv (validatedPeer s' a) := by
  obtain ⟨h1, h2, h3, h4, h5⟩ := he
  refine ⟨by simpa using h1, by simpa using h2, by simpa using h3, ?_, by simpa using h5⟩
  intro b
  rw [validatedPeer_contains, validatedPeer_contains, h4 b]

theorem State.Equiv.refl (s : State) : s.Equiv s :=
  ⟨rfl, rfl, rfl, fun _ => rfl, List.Perm.refl _⟩

theorem State.Equiv.keysNodup {s s' : State} (he : s.Equiv s') (hk : KeysNodup s) : KeysNodup s' :=
  ((he.2.2.2.2.map (fun p : Nat × Req => p.1)).nodup_iff).mp hk

theorem State.Equiv.lookup_eq {s s' : State} (he : s.Equiv s') (hk : KeysNodup s) (t : Nat) :
    lookup s.out t = lookup s'.out t := lookup_perm he.2.2.2.2 hk t

/-- replacing `out` by permutation-equivalent lists keeps states equivalent -/
theorem State.Equiv.withOut {s s' : State} (he : s.Equiv s') {o o' : List (Nat × Req)}
    (hp : o.Perm o') : ({ s with out := o } : State).Equiv { s' with out := o' } :=
  ⟨he.1, he.2.1, he.2.2.1, he.2.2.2.1, hp⟩

/-! ### order-independence of `poll` -/

theorem ready_perm {s s' : State} (hp : s.out.Perm s'.out) (now : Time) :
    (ready s now).Perm (ready s' now) := (hp.filter _).map _

/-- one step of the `minWait` fold -/
def accWait (acc : Option Time) (ret : ReqRet) : Option Time :=
  match ret with
  | .waitUntil t => (match acc with
    | none => some t
    | some a => if t < a then some t else some a)
  | _ => acc

theorem minWait_eq_auth (s : State) (now : Time) :
    minWait s now = s.out.foldl (fun acc p => accWait acc (reqPoll p.2 now).2) none := rfl

theorem accWait_none_wait (t : Time) : accWait none (.waitUntil t) = some t := rfl

theorem accWait_some_wait (a t : Time) :
    accWait (some a) (.waitUntil t) = some (if t < a then t else a) := by
  simp only [accWait]; split <;> rfl

theorem ite_min_comm (t u : Nat) : (if u < t then u else t) = (if t < u then t else u) := by
  split <;> split <;> omega

theorem ite_min_comm3 (a t u : Nat) :
    (if u < (if t < a then t else a) then u else (if t < a then t else a)) =
    (if t < (if u < a then u else a) then t else (if u < a then u else a)) := by
  by_cases h1 : t < a <;> by_cases h2 : u < a <;> simp only [h1, h2, if_true, if_false] <;>
    split <;> (try split) <;> omega

theorem accWait_comm (z : Option Time) (a b : ReqRet) :
    accWait (accWait z a) b = accWait (accWait z b) a := by
  cases a <;> cases b <;> try rfl
  rename_i t u
  cases z with
  | none =>
    simp only [accWait_none_wait, accWait_some_wait]
    congr 1
    exact ite_min_comm t u
  | some a =>
    simp only [accWait_some_wait]
    congr 1
    exact ite_min_comm3 a t u

theorem minWait_perm {s s' : State} (hp : s.out.Perm s'.out) (now : Time) :
    minWait s now = minWait s' now := by
  rw [minWait_eq_auth, minWait_eq_auth]
  apply hp.foldl_eq'
  intro x _ y _ z
  exact accWait_comm z _ _

/-- which transaction `agentPoll` serves -/
def chosenOf (rs : List Nat) (pick : Option Nat) : Option Nat :=
  match pick with
  | some t => if rs.contains t then some t else rs.head?
  | none => rs.head?

/-- `agentPoll` once the transaction to serve is chosen -/
def serve (s : State) (now : Time) (chosen : Option Nat) : State × Out :=
  match chosen with
  | none => (s, .waitUntil ((minWait s now).getD (now + msNs 3600000)))
  | some tid =>
    match lookup s.out tid with
    | none => (s, .waitUntil (now + msNs 3600000))
    | some r =>
      let (r', ret) := reqPoll r now
      match ret with
      | .sendData => ({ s with out := update s.out tid fun _ => r' }, .transmit (some tid) (mkTransmit s r'))
      | .timedOut => ({ s with out := remove s.out tid }, .timedOut tid)
      | .cancelled => ({ s with out := remove s.out tid }, .cancelled tid)
      | .waitUntil t => (s, .waitUntil t)

theorem agentPoll_eq (s : State) (now : Time) (pick : Option Nat) :
    agentPoll s now pick = serve s now (chosenOf (ready s now) pick) := rfl

theorem chosenOf_none {rs : List Nat} {pick : Option Nat} (h : chosenOf rs pick = none) : rs = [] := by
  unfold chosenOf at h
  cases pick with
  | none => simpa using h
  | some t =>
    simp only at h
    split at h
    · cases h
    · simpa using h

theorem chosenOf_some {rs : List Nat} {pick : Option Nat} {t : Nat} (h : chosenOf rs pick = some t) :
    t ∈ rs := by
  unfold chosenOf at h
  cases pick with
  | none => exact List.mem_of_head? h
  | some u =>
    simp only at h
    split at h
    · rename_i hc
      cases h
      simpa using hc
    · exact List.mem_of_head? h

theorem chosenOf_stable {rs rs' : List Nat} (hp : rs.Perm rs') (pick : Option Nat) :
    chosenOf rs' (chosenOf rs pick) = chosenOf rs pick := by
  cases h : chosenOf rs pick with
  | none =>
    have e := chosenOf_none h
    subst e
    rw [hp.symm.eq_nil]
    rfl
  | some t =>
    have hm : t ∈ rs' := hp.mem_iff.mp (chosenOf_some h)
    have hc : rs'.contains t = true := by simpa using hm
    simp [chosenOf, hm]

theorem mkTransmit_equiv {s s' : State} (he : s.Equiv s') (r : Req) : mkTransmit s r = mkTransmit s' r := by
  unfold mkTransmit
  rw [he.1, he.2.1]

theorem serve_equiv {s s' : State} (he : s.Equiv s') (hk : KeysNodup s) (now : Time) (c : Option Nat) :
    (serve s now c).2 = (serve s' now c).2 ∧ (serve s now c).1.Equiv (serve s' now c).1 ∧
      KeysNodup (serve s now c).1 := by
  cases c with
  | none =>
    simp only [serve]
    rw [minWait_perm he.2.2.2.2 now]
    exact ⟨rfl, he, hk⟩
  | some tid =>
    simp only [serve]
    rw [← he.lookup_eq hk tid]
    cases lookup s.out tid with
    | none => exact ⟨rfl, he, hk⟩
    | some r =>
      simp only
      rcases reqPoll r now with ⟨r', ret⟩
      cases ret <;> dsimp only
      case waitUntil t => exact ⟨rfl, he, hk⟩
      case cancelled =>
        exact ⟨rfl, he.withOut (remove_perm he.2.2.2.2 tid), nodup_keys_remove _ hk tid⟩
      case timedOut =>
        exact ⟨rfl, he.withOut (remove_perm he.2.2.2.2 tid), nodup_keys_remove _ hk tid⟩
      case sendData =>
        refine ⟨?_, he.withOut (update_perm he.2.2.2.2 tid _), nodup_keys_update _ hk tid (fun _ => r')⟩
        simp only [mkTransmit_equiv he]

/-! ### equivalent states step alike -/

theorem SameCall.refl (op : Op) : SameCall op op := by
  cases op <;> simp [SameCall]

theorem keysNodup_validatedPeer {s : State} (hk : KeysNodup s) (a : SockAddr) :
    KeysNodup (validatedPeer s a) := by
  unfold KeysNodup; rw [validatedPeer_out_auth]; exact hk

theorem step_equiv_sendReq {s s' : State} (he : s.Equiv s') (hk : KeysNodup s)
    (tid : Nat) (bytes : Bytes) (hc : Bool) (to : SockAddr) (now : Time) :
    (step s (.sendReq tid bytes hc to now)).2 = (step s' (.sendReq tid bytes hc to now)).2 ∧
    (step s (.sendReq tid bytes hc to now)).1.Equiv (step s' (.sendReq tid bytes hc to now)).1 ∧
    KeysNodup (step s (.sendReq tid bytes hc to now)).1 := by
  obtain ⟨tr, la, rc, v, o⟩ := s
  obtain ⟨tr', la', rc', v', o'⟩ := s'
  obtain ⟨h1, h2, h3, h4, h5⟩ := he
  dsimp only at h1 h2 h3
  subst h1 h2 h3
  have he : State.Equiv ⟨tr, la, rc, v, o⟩ ⟨tr, la, rc, v', o'⟩ := ⟨rfl, rfl, rfl, h4, h5⟩
  simp only [step]
  rw [← he.lookup_eq hk tid]
  split
  · exact ⟨rfl, he, hk⟩
  · rcases reqPoll (Req.new tr bytes hc to) now with ⟨r', ret⟩
    cases ret <;> dsimp only
    case sendData =>
      exact ⟨rfl, he.withOut (insert_perm he.2.2.2.2 tid r'), nodup_keys_insert _ hk tid r'⟩
    all_goals exact ⟨rfl, he, hk⟩

theorem step_equiv_handle {s s' : State} (he : s.Equiv s') (hk : KeysNodup s)
    (m : InMsg) (src : SockAddr) :
    (step s (.handle m src)).2 = (step s' (.handle m src)).2 ∧
    (step s (.handle m src)).1.Equiv (step s' (.handle m src)).1 ∧
    KeysNodup (step s (.handle m src)).1 := by
  obtain ⟨tr, la, rc, v, o⟩ := s
  obtain ⟨tr', la', rc', v', o'⟩ := s'
  obtain ⟨h1, h2, h3, h4, h5⟩ := he
  dsimp only at h1 h2 h3
  subst h1 h2 h3
  have he : State.Equiv ⟨tr, la, rc, v, o⟩ ⟨tr, la, rc, v', o'⟩ := ⟨rfl, rfl, rfl, h4, h5⟩
  simp only [step]
  rw [← he.lookup_eq hk m.tid]
  dsimp only
  have hrm : State.Equiv ⟨tr, la, rc, v, remove o m.tid⟩ ⟨tr, la, rc, v', remove o' m.tid⟩ :=
    he.withOut (remove_perm he.2.2.2.2 m.tid)
  have hkrm : KeysNodup ⟨tr, la, rc, v, remove o m.tid⟩ := nodup_keys_remove _ hk m.tid
  have hre : ∀ r, State.Equiv ⟨tr, la, rc, v, insert (remove o m.tid) m.tid r⟩
      ⟨tr, la, rc, v', insert (remove o' m.tid) m.tid r⟩ :=
    fun r => he.withOut (insert_perm (remove_perm he.2.2.2.2 m.tid) m.tid r)
  have hkre : ∀ r, KeysNodup ⟨tr, la, rc, v, insert (remove o m.tid) m.tid r⟩ :=
    fun r => nodup_keys_insert _ (nodup_keys_remove _ hk m.tid) m.tid r
  split
  · cases lookup o m.tid with
    | none => exact ⟨rfl, he, hk⟩
    | some r =>
      dsimp only
      split
      · cases rc with
        | none => exact ⟨rfl, hre r, hkre r⟩
        | some k =>
          dsimp only
          split
          · exact ⟨rfl, validatedPeer_equiv hrm src, keysNodup_validatedPeer hkrm src⟩
          · exact ⟨rfl, hre r, hkre r⟩
      · exact ⟨rfl, validatedPeer_equiv hrm src, keysNodup_validatedPeer hkrm src⟩
  · exact ⟨rfl, validatedPeer_equiv he src, keysNodup_validatedPeer hk src⟩

theorem step_equiv_poll {s s' : State} (he : s.Equiv s') (hk : KeysNodup s)
    (now : Time) (pick : Option Nat) :
    (step s (.poll now pick)).2 = (step s' (.poll now (chosenOf (ready s now) pick))).2 ∧
    (step s (.poll now pick)).1.Equiv (step s' (.poll now (chosenOf (ready s now) pick))).1 ∧
    KeysNodup (step s (.poll now pick)).1 := by
  simp only [step]
  rw [agentPoll_eq, agentPoll_eq, chosenOf_stable (ready_perm he.2.2.2.2 now)]
  exact serve_equiv he hk now _

theorem step_equiv_update {s s' : State} (he : s.Equiv s') (hk : KeysNodup s) (tid : Nat)
    (f : Req → Req) :
    ({ s with out := update s.out tid f } : State).Equiv { s' with out := update s'.out tid f } ∧
    KeysNodup ({ s with out := update s.out tid f } : State) :=
  ⟨he.withOut (update_perm he.2.2.2.2 tid f), nodup_keys_update _ hk tid f⟩

theorem step_equiv {s s' : State} (he : s.Equiv s') (hk : KeysNodup s) (op : Op) :
    ∃ op', SameCall op op' ∧ (step s op).2 = (step s' op').2 ∧
      (step s op).1.Equiv (step s' op').1 ∧ KeysNodup (step s op).1 := by
  cases op with
  | sendReq tid bytes hc to now => exact ⟨_, SameCall.refl _, step_equiv_sendReq he hk tid bytes hc to now⟩
  | sendOther bytes to =>
    refine ⟨_, SameCall.refl _, ?_, he, hk⟩
    simp only [step]
    rw [he.1, he.2.1]
  | handle m src => exact ⟨_, SameCall.refl _, step_equiv_handle he hk m src⟩
  | poll now pick => exact ⟨.poll now (chosenOf (ready s now) pick), rfl, step_equiv_poll he hk now pick⟩
  | cancel tid => exact ⟨_, SameCall.refl _, rfl, step_equiv_update he hk tid _⟩
  | cancelRtx tid => exact ⟨_, SameCall.refl _, rfl, step_equiv_update he hk tid _⟩
  | configure tid rto n last =>
    refine ⟨_, SameCall.refl _, rfl, ?_⟩
    simp only [step]
    rw [show (fun r => configureReq s'.transport r rto n last) =
      (fun r => configureReq s.transport r rto n last) from by rw [he.1]]
    exact step_equiv_update he hk tid _
  | setRemoteCreds k =>
    exact ⟨_, SameCall.refl _, rfl, ⟨he.1, he.2.1, rfl, he.2.2.2.1, he.2.2.2.2⟩, hk⟩

theorem keysNodup_step {s : State} (hk : KeysNodup s) (op : Op) : KeysNodup (step s op).1 := by
  obtain ⟨_, _, _, _, h⟩ := step_equiv (State.Equiv.refl s) hk op
  exact h

theorem keysNodup_of_reachable {s : State} (hr : Reachable s) : KeysNodup s :=
  Reachable.induction (P := KeysNodup) (fun _ _ => List.nodup_nil) (fun _ op h => keysNodup_step h op) hr

/-- equivalent states give the same replies to every history, up to serving choices -/
theorem trace_equiv (ops : List Op) : ∀ {s s' : State}, s.Equiv s' → KeysNodup s →
    ∃ ops', SameCalls ops ops' ∧ (trace s ops).map (·.2) = (trace s' ops').map (·.2) := by
  induction ops with
  | nil => intro s s' _ _; exact ⟨[], trivial, rfl⟩
  | cons op ops ih =>
    intro s s' he hk
    obtain ⟨op', hsc, ho, he1, hk1⟩ := step_equiv he hk op
    obtain ⟨ops', hscs, ht⟩ := ih he1 hk1
    refine ⟨op' :: ops', ⟨hsc, hscs⟩, ?_⟩
    simp only [trace, List.map_cons, ho, ht]

/-! ### `hadCreds` never changes -/

theorem reqPoll_hadCreds (r : Req) (now : Time) : (reqPoll r now).1.hadCreds = r.hadCreds := by
  unfold reqPoll
  dsimp only
  repeat' split
  all_goals rfl

theorem configureReq_hadCreds (tr : Transport) (r : Req) (a b c : Nat) :
    (configureReq tr r a b c).hadCreds = r.hadCreds := by
  cases tr <;> rfl

/-- an `update` whose function keeps `hadCreds` keeps it for every binding -/
theorem lookup_update_hadCreds (out : List (Nat × Req)) (t tid : Nat) (f : Req → Req)
    (hf : ∀ r, (f r).hadCreds = r.hadCreds) (r r' : Req)
    (hl : lookup out tid = some r) (hl' : lookup (update out t f) tid = some r') :
    r'.hadCreds = r.hadCreds := by
  by_cases e : tid = t
  · subst e
    rw [lookup_update_self, hl] at hl'
    cases hl'
    exact hf r
  · rw [lookup_update_ne _ _ _ _ e, hl] at hl'
    cases hl'; rfl

theorem serve_hadCreds (s : State) (now : Time) (c : Option Nat) (tid : Nat) (r r' : Req)
    (hl : lookup s.out tid = some r) (hl' : lookup (serve s now c).1.out tid = some r') :
    r'.hadCreds = r.hadCreds := by
  have same : lookup s.out tid = some r' → r'.hadCreds = r.hadCreds := by
    intro h; rw [hl] at h; cases h; rfl
  cases c with
  | none => exact same hl'
  | some t =>
    simp only [serve] at hl'
    cases hq : lookup s.out t with
    | none => rw [hq] at hl'; exact same hl'
    | some q =>
      rw [hq] at hl'
      dsimp only at hl'
      have hpc := reqPoll_hadCreds q now
      generalize reqPoll q now = x at hl' hpc
      obtain ⟨q', ret⟩ := x
      cases ret <;> dsimp only at hl' hpc
      case waitUntil => exact same hl'
      case sendData =>
        by_cases e : tid = t
        · subst e
          rw [lookup_update_self, hl] at hl'
          rw [hq] at hl
          cases hl; cases hl'
          exact hpc
        · rw [lookup_update_ne _ _ _ _ e] at hl'
          exact same hl'
      all_goals
        by_cases e : tid = t
        · subst e
          rw [lookup_remove_self] at hl'
          cases hl'
        · rw [lookup_remove_ne _ _ _ e] at hl'
          exact same hl'

theorem step_hadCreds (s : State) (op : Op) (tid : Nat) (r r' : Req)
    (hl : lookup s.out tid = some r) (hl' : lookup (step s op).1.out tid = some r') :
    r'.hadCreds = r.hadCreds := by
  have same : lookup s.out tid = some r' → r'.hadCreds = r.hadCreds := by
    intro h; rw [hl] at h; cases h; rfl
  cases op with
  | sendReq t bytes hc to now =>
    simp only [step] at hl'
    split at hl'
    · exact same hl'
    · rename_i hn
      have e : tid ≠ t := by
        intro e; subst e; rw [hl] at hn; exact hn rfl
      generalize reqPoll (Req.new s.transport bytes hc to) now = x at hl'
      obtain ⟨q', ret⟩ := x
      cases ret <;> dsimp only at hl'
      case sendData =>
        rw [lookup_insert_ne _ _ _ _ e] at hl'
        exact same hl'
      all_goals exact same hl'
  | sendOther bytes to => exact same hl'
  | handle m src =>
    have hrm : lookup (remove s.out m.tid) tid = some r' → r'.hadCreds = r.hadCreds := by
      intro h
      by_cases e : tid = m.tid
      · rw [e, lookup_remove_self] at h; cases h
      · rw [lookup_remove_ne _ _ _ e] at h; exact same h
    have hre : ∀ q, lookup s.out m.tid = some q →
        lookup (insert (remove s.out m.tid) m.tid q) tid = some r' →
        r'.hadCreds = r.hadCreds := by
      intro q hq h
      by_cases e : tid = m.tid
      · rw [e, lookup_insert_self] at h
        rw [e, hq] at hl
        cases h; cases hl; rfl
      · rw [lookup_insert_ne _ _ _ _ e] at h
        exact hrm h
    simp only [step] at hl'
    split at hl'
    · cases hq : lookup s.out m.tid with
      | none => rw [hq] at hl'; exact same hl'
      | some q =>
        rw [hq] at hl'
        dsimp only at hl'
        split at hl'
        · cases hrc : s.remoteCreds with
          | none => rw [hrc] at hl'; dsimp only at hl'; exact hre q hq hl'
          | some k =>
            rw [hrc] at hl'
            dsimp only at hl'
            split at hl'
            · rw [validatedPeer_out_auth] at hl'; exact hrm hl'
            · exact hre q hq hl'
        · rw [validatedPeer_out_auth] at hl'; exact hrm hl'
    · rw [validatedPeer_out_auth] at hl'; exact same hl'
  | poll now pick =>
    simp only [step] at hl'
    rw [agentPoll_eq] at hl'
    exact serve_hadCreds s now _ tid r r' hl hl'
  | cancel t =>
    simp only [step] at hl'
    refine lookup_update_hadCreds s.out t tid _ ?_ r r' hl hl'
    intro _; rfl
  | cancelRtx t =>
    simp only [step] at hl'
    refine lookup_update_hadCreds s.out t tid _ ?_ r r' hl hl'
    intro _; rfl
  | configure t a b c =>
    simp only [step] at hl'
    exact lookup_update_hadCreds s.out t tid _ (fun q => configureReq_hadCreds _ q a b c) r r' hl hl'
  | setRemoteCreds k => exact same hl'

/-! ### dropped responses -/

/-- what a drop of a response to an outstanding request means -/
theorem handle_drop_some (s : State) (m : InMsg) (src : SockAddr) (r : Req) (k : Key)
    (hl : lookup s.out m.tid = some r) (hk : s.remoteCreds = some k)
    (hd : (step s (.handle m src)).2 = .drop) :
    m.isResponse = true ∧ r.hadCreds = true ∧ m.validUnder k = false ∧
    (step s (.handle m src)).1 =
      { s with out := insert (remove s.out m.tid) m.tid r } := by
  by_cases hr : m.isResponse = true
  · cases hc : r.hadCreds with
    | false => simp only [step, hr, hl, hc, if_true] at hd; cases hd
    | true =>
      cases hv : m.validUnder k with
      | true => simp only [step, hr, hl, hc, hk, hv, if_true] at hd; cases hd
      | false =>
        refine ⟨hr, rfl, rfl, ?_⟩
        simp [step, hr, hl, hc, hk, hv]
  · simp only [step, hr] at hd
    cases hd

theorem handle_drop_equiv (s : State) (hk : KeysNodup s) (m : InMsg) (src : SockAddr)
    (h : (step s (.handle m src)).2 = .drop) : (step s (.handle m src)).1.Equiv s := by
  by_cases hr : m.isResponse = true
  · cases hl : lookup s.out m.tid with
    | none =>
      simp only [step, hr, hl, if_true]
      exact State.Equiv.refl s
    | some r =>
      have hp : (insert (remove s.out m.tid) m.tid r).Perm s.out := by
        have e : insert (remove s.out m.tid) m.tid r = insert s.out m.tid r := by
          unfold insert; rw [remove_remove]
        rw [e]
        exact insert_lookup_perm s.out hk m.tid r hl
      cases hc : r.hadCreds with
      | false => simp only [step, hr, hl, hc, if_true] at h; cases h
      | true =>
        cases hrc : s.remoteCreds with
        | none =>
          simp only [step, hr, hl, hc, hrc, if_true]
          exact ⟨rfl, rfl, hrc.symm, fun _ => rfl, hp⟩
        | some k =>
          cases hv : m.validUnder k with
          | true => simp only [step, hr, hl, hc, hrc, hv, if_true] at h; cases h
          | false =>
            simp only [step, hr, hl, hc, hrc, hv, if_true]
            exact ⟨rfl, rfl, hrc.symm, fun _ => rfl, hp⟩
  · simp only [step, hr] at h
    cases h

end StunVerif.Agent
