/-
Helper lemmas (agent model) — see the Props file that imports this module.
-/
import StunVerif.Lemmas.AgentMap
namespace StunVerif.Agent

end StunVerif.Agent
