import StunVerif.Lemmas.Tlv
namespace StunVerif
open Spec

/-- the ordering checks of the walk, on the list of attribute types -/
def ordBad (seen : List Nat) (ty : Nat) : Bool :=
  (!seen.isEmpty && !endingTypes.contains ty) ||
    (endingTypes.contains ty && (seen.contains ty || seen.contains tyFP))

def seenNext (seen : List Nat) (ty : Nat) : List Nat :=
  if endingTypes.contains ty then seen ++ [ty] else seen

def afterErr (seen : List Nat) (ty : Nat) : PErr :=
  if seen.contains tyFP then .afterFingerprint ty else .afterIntegrity ty

def ordGo : List Nat → List Nat → Bool
  | _, [] => true
  | seen, t :: rest => !ordBad seen t && ordGo (seenNext seen t) rest

theorem ending_contains (t : Nat) : endingTypes.contains t = isEnding t := by
  simp [endingTypes, isEnding, Bool.or_assoc]

theorem ordGo_iff (ts : List Nat) : ∀ seen : List Nat, (∀ s ∈ seen, isEnding s = true) →
    (ordGo seen ts = true ↔
      (seen = [] ∨ ∀ t ∈ ts, isEnding t = true) ∧ (tyFP ∈ seen → ts = []) ∧
      (∀ t ∈ ts, t ∉ seen) ∧ orderOk ts = true) := by
  induction ts with
  | nil => intro seen _; simp [ordGo, orderOk]
  | cons t rest ih =>
    intro seen hs
    have hs' : ∀ s ∈ seenNext seen t, isEnding s = true := by
      intro s h
      unfold seenNext at h
      rw [ending_contains] at h
      split at h
      · rcases List.mem_append.mp h with h | h
        · exact hs s h
        · simp at h; subst h; assumption
      · exact hs s h
    simp only [ordGo, Bool.and_eq_true, ih _ hs', Bool.not_eq_true']
    simp only [ordBad, seenNext, ending_contains, orderOk]
    by_cases h1 : t = tyFP
    · subst h1
      have e1 : isEnding tyFP = true := by decide
      simp only [e1, if_true]
      simp
      have : orderOk [] = true := rfl
      clear ih hs'
      grind
    · by_cases h2 : isIntegrity t = true
      · have e1 : isEnding t = true := by
          simp only [isIntegrity, isEnding, Bool.or_eq_true] at h2 ⊢; exact Or.inl h2
        simp only [e1, h1, h2, if_true, if_false]
        simp
        grind
      · have e1 : isEnding t = false := by
          simp [isIntegrity, isEnding] at h2 ⊢; simp [h1, h2]
        simp only [e1, h1, h2, if_false]
        simp
        grind

theorem ordGo_nil (ts : List Nat) : ordGo [] ts = orderOk ts := by
  rw [Bool.eq_iff_iff, ordGo_iff ts [] (by simp)]
  simp

/-- the FINGERPRINT check of one walk step -/
def fpCheck (orig : Bytes) (off : Nat) (attr : RawAttr) : Except PErr Unit :=
  if attr.ty = tyFP then
    match fromRaw .fingerprint attr with
    | .error e => .error e
    | .ok (.fingerprint crc) =>
      if Crc.crc32Bytes (fpInput orig off attr.paddedLen) ≠ crc then .error .fpMismatch else .ok ()
    | .ok _ => .error (.fault .unreachable)
  else .ok ()

theorem walk_zero (orig data : Bytes) (off : Nat) (seen : List Nat) :
    walk 0 orig data off seen = if data.isEmpty then .ok () else .error (.fault .hang) := rfl

theorem walk_nil (fuel : Nat) (orig : Bytes) (off : Nat) (seen : List Nat) :
    walk fuel orig [] off seen = .ok () := by
  cases fuel <;> simp [walk]

theorem walk_step {fuel : Nat} {orig data : Bytes} {off : Nat} {seen : List Nat} {attr : RawAttr}
    (hne : data ≠ []) (h : rawFromBytes data = .ok attr) :
    walk (fuel + 1) orig data off seen =
      if ordBad seen attr.ty then .error (afterErr seen attr.ty)
      else if attr.paddedLen > data.length then
        .error (.truncated (off + attr.paddedLen) (off + data.length))
      else match fpCheck orig off attr with
        | .error e => .error e
        | .ok () =>
          walk fuel orig (data.drop attr.paddedLen) (off + attr.paddedLen) (seenNext seen attr.ty) := by
  have hne' : data.isEmpty = false := by simpa using hne
  rw [walk]
  simp only [hne', Bool.false_eq_true, if_false, h]
  unfold ordBad afterErr seenNext fpCheck
  by_cases h1 : (!seen.isEmpty && !endingTypes.contains attr.ty) = true
  · simp only [h1, if_true, Bool.true_or]
  · by_cases h2 : (endingTypes.contains attr.ty && (seen.contains attr.ty || seen.contains tyFP)) = true
    · simp only [Bool.not_eq_true] at h1
      simp only [h1, h2, if_true, Bool.or_true, Bool.false_eq_true, if_false]
    · simp only [Bool.not_eq_true] at h1 h2
      simp only [h1, h2, Bool.or_false, Bool.false_eq_true, if_false]
      rfl

/-- what the fingerprint check accepts -/
theorem fpCheck_ok_iff (orig : Bytes) (off : Nat) (attr : RawAttr) :
    fpCheck orig off attr = .ok () ↔
      (attr.ty = tyFP → attr.value.length = 4 ∧
        xorBytes attr.value [0x53, 0x54, 0x55, 0x4e] =
          Crc.crc32Bytes (fpInput orig off attr.paddedLen)) := by
  unfold fpCheck
  by_cases h : attr.ty = tyFP
  · have hk : attr.ty = Kind.fingerprint.code := h
    simp only [h, if_true, true_implies]
    simp only [fromRaw, RawAttr.checkTypeAndLen, hk, checkLen, ne_eq, not_true, if_false,
      bind, Except.bind]
    by_cases h1 : attr.value.length < 4
    · simp [h1]; omega
    · by_cases h2 : attr.value.length > 4
      · simp [h1, h2]; omega
      · have : attr.value.length = 4 := by omega
        simp [this, fpXorConst]
        exact eq_comm
  · simp [h]

theorem fpCheck_err (orig : Bytes) (off : Nat) (attr : RawAttr) (e : PErr)
    (h : fpCheck orig off attr = .error e) :
    e = .fpMismatch ∨ (∃ x y, e = .truncated x y) ∨ (∃ x y, e = .tooLarge x y) := by
  unfold fpCheck at h
  by_cases ht : attr.ty = tyFP
  · have hk : attr.ty = Kind.fingerprint.code := ht
    simp only [ht, if_true] at h
    simp only [fromRaw, RawAttr.checkTypeAndLen, hk, checkLen, ne_eq, not_true, if_false,
      bind, Except.bind] at h
    by_cases h1 : attr.value.length < 4
    · simp [h1] at h; subst h; right; left; exact ⟨_, _, rfl⟩
    · by_cases h2 : attr.value.length > 4
      · simp [h1, h2] at h; subst h; right; right; exact ⟨_, _, rfl⟩
      · simp [h1, h2] at h
        split at h
        · cases h
        · injection h with h; left; exact h.symm
  · simp [ht] at h

end StunVerif
