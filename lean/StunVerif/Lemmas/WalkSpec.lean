import StunVerif.Lemmas.Walk
namespace StunVerif
open Spec

theorem paddedLen_ge (a : RawAttr) : 4 ≤ a.paddedLen := by unfold RawAttr.paddedLen; omega

theorem rawFromBytes_err {d : Bytes} {e : PErr} (h : rawFromBytes d = .error e) :
    ∃ x y, e = .truncated x y := by
  unfold rawFromBytes at h
  split at h
  · simp only at h
    split at h
    · injection h with h; exact ⟨_, _, h.symm⟩
    · cases h
  · injection h with h; exact ⟨_, _, h.symm⟩

theorem walk_raw_err {fuel : Nat} {orig data : Bytes} {off : Nat} {seen : List Nat} {e : PErr}
    (hne : data ≠ []) (h : rawFromBytes data = .error e) :
    ∃ x y, walk (fuel + 1) orig data off seen = .error (.truncated x y) := by
  obtain ⟨x, y, rfl⟩ := rawFromBytes_err h
  have hne' : data.isEmpty = false := by simpa using hne
  rw [walk]
  simp only [hne', Bool.false_eq_true, if_false, h]
  exact ⟨_, _, rfl⟩

theorem flatMap_cons_enc (t : Tlv) (ts : List Tlv) :
    (t :: ts).flatMap Tlv.enc = t.enc ++ ts.flatMap Tlv.enc := by simp

/-- soundness of the walk: an accepted body is tiled by well-formed TLVs -/
theorem walk_ok_sound (orig : Bytes) : ∀ (fuel : Nat) (data : Bytes) (off : Nat) (seen : List Nat),
    walk fuel orig data off seen = .ok () →
    ∃ ts : List Tlv, (∀ t ∈ ts, t.wf) ∧ data = ts.flatMap Tlv.enc ∧
      ordGo seen (ts.map (·.ty)) = true ∧ fpOk orig off ts := by
  intro fuel
  induction fuel with
  | zero =>
    intro data off seen h
    rw [walk_zero] at h
    split at h
    · rename_i he
      have : data = [] := by simpa using he
      subst this
      exact ⟨[], by simp, by simp, rfl, trivial⟩
    · cases h
  | succ n ih =>
    intro data off seen h
    by_cases hne : data = []
    · subst hne
      exact ⟨[], by simp, by simp, rfl, trivial⟩
    · cases hr : rawFromBytes data with
      | error e =>
        obtain ⟨x, y, hx⟩ := walk_raw_err (fuel := n) (orig := orig) (off := off) (seen := seen) hne hr
        rw [hx] at h; cases h
      | ok attr =>
        rw [walk_step hne hr] at h
        split at h
        · cases h
        · rename_i hob
          split at h
          · cases h
          · rename_i hp
            cases hf : fpCheck orig off attr with
            | error e => rw [hf] at h; cases h
            | ok u =>
              rw [hf] at h
              simp only at h
              obtain ⟨ts, hwf, hd, ho, hfp⟩ := ih _ _ _ h
              obtain ⟨t, htwf, htraw, htlen, hdata⟩ := raw_step_ok hr (by omega)
              have hty : t.ty = attr.ty := by rw [← htraw]; rfl
              have hval : t.value = attr.value := by rw [← htraw]; rfl
              refine ⟨t :: ts, ?_, ?_, ?_, ?_⟩
              · intro u hu
                rcases List.mem_cons.mp hu with rfl | hu
                · exact htwf
                · exact hwf u hu
              · rw [flatMap_cons_enc, ← hd]; exact hdata
              · simp only [List.map_cons, ordGo, hty, Bool.and_eq_true, Bool.not_eq_true']
                exact ⟨by simpa using hob, ho⟩
              · refine ⟨?_, ?_⟩
                · rw [hty, hval, htlen]
                  exact (fpCheck_ok_iff orig off attr).mp hf
                · rw [htlen]; exact hfp

theorem Tlv.enc_ne_nil (t : Tlv) : t.enc ++ rest ≠ [] := by
  rw [Tlv.enc_eq]; simp

theorem drop_enc (t : Tlv) (rest : Bytes) : (t.enc ++ rest).drop t.enc.length = rest := by
  simp

/-- completeness of the walk: every tiling that obeys the rules is accepted -/
theorem walk_ok_complete (orig : Bytes) : ∀ (fuel : Nat) (ts : List Tlv) (off : Nat)
    (seen : List Nat), (∀ t ∈ ts, t.wf) → (ts.flatMap Tlv.enc).length ≤ fuel →
    (ts.flatMap Tlv.enc).length < 65536 → ordGo seen (ts.map (·.ty)) = true → fpOk orig off ts →
    walk fuel orig (ts.flatMap Tlv.enc) off seen = .ok () := by
  intro fuel
  induction fuel with
  | zero =>
    intro ts off seen _ hl _ _ _
    have : ts.flatMap Tlv.enc = [] := List.eq_nil_of_length_eq_zero (by omega)
    rw [this, walk_nil]
  | succ n ih =>
    intro ts off seen hwf hl h64 ho hfp
    cases ts with
    | nil => simp [walk_nil]
    | cons t ts =>
      have htwf : t.wf := hwf t (List.mem_cons_self ..)
      have hwf' : ∀ u ∈ ts, u.wf := fun u hu => hwf u (List.mem_cons_of_mem _ hu)
      rw [flatMap_cons_enc] at hl h64 ⊢
      have hr := raw_step_enc t htwf (ts.flatMap Tlv.enc) (by omega)
      have hp := Tlv.paddedLen_raw t htwf
      have hlen : (t.enc ++ ts.flatMap Tlv.enc).length = t.enc.length + (ts.flatMap Tlv.enc).length :=
        List.length_append
      have h4 : 4 ≤ t.enc.length := by rw [Tlv.enc_length]; omega
      simp only [List.map_cons, ordGo, Bool.and_eq_true, Bool.not_eq_true'] at ho
      obtain ⟨hf1, hf2⟩ := hfp
      rw [walk_step (Tlv.enc_ne_nil t) hr]
      have hty : t.raw.ty = t.ty := rfl
      rw [hty, ho.1, hp, hlen]
      simp only [Bool.false_eq_true, if_false]
      rw [if_neg (by omega)]
      have hfc : fpCheck orig off t.raw = .ok () := by
        rw [fpCheck_ok_iff, hp]; exact hf1
      rw [hfc]
      simp only [drop_enc]
      exact ih ts _ _ hwf' (by omega) (by omega) ho.2 hf2

/-- the reference attribute list of a tiled body is the list of its TLVs -/
theorem allAttrsGo_tiles : ∀ (fuel : Nat) (ts : List Tlv), (∀ t ∈ ts, t.wf) →
    (ts.flatMap Tlv.enc).length ≤ fuel → (ts.flatMap Tlv.enc).length < 65536 →
    allAttrsGo fuel (ts.flatMap Tlv.enc) = ts.map Tlv.raw := by
  intro fuel
  induction fuel with
  | zero =>
    intro ts hwf hl _
    cases ts with
    | nil => rfl
    | cons t ts =>
      rw [flatMap_cons_enc, List.length_append, Tlv.enc_length] at hl; omega
  | succ n ih =>
    intro ts hwf hl h64
    cases ts with
    | nil => simp [allAttrsGo]
    | cons t ts =>
      have htwf : t.wf := hwf t (List.mem_cons_self ..)
      have hwf' : ∀ u ∈ ts, u.wf := fun u hu => hwf u (List.mem_cons_of_mem _ hu)
      rw [flatMap_cons_enc] at hl h64 ⊢
      have hr := raw_step_enc t htwf (ts.flatMap Tlv.enc) (by omega)
      have hp := Tlv.paddedLen_raw t htwf
      have hlen : (t.enc ++ ts.flatMap Tlv.enc).length = t.enc.length + (ts.flatMap Tlv.enc).length :=
        List.length_append
      have h4 : 4 ≤ t.enc.length := by rw [Tlv.enc_length]; omega
      have hne : (t.enc ++ ts.flatMap Tlv.enc).isEmpty = false := by
        simpa using Tlv.enc_ne_nil (rest := ts.flatMap Tlv.enc) t
      rw [allAttrsGo]
      simp only [hne, Bool.false_eq_true, if_false, hr, hp, drop_enc, List.map_cons]
      rw [ih ts hwf' (by omega) (by omega)]

/-- the errors the walk can report -/
def walkErr (e : PErr) : Prop :=
  (∃ x y, e = .truncated x y) ∨ (∃ x y, e = .tooLarge x y) ∨ (∃ t, e = .afterFingerprint t) ∨
    (∃ t, e = .afterIntegrity t) ∨ e = .fpMismatch

theorem afterErr_cases (seen : List Nat) (t : Nat) :
    afterErr seen t = .afterFingerprint t ∨ afterErr seen t = .afterIntegrity t := by
  unfold afterErr; split <;> simp

theorem walk_err_class (orig : Bytes) : ∀ (fuel : Nat) (data : Bytes) (off : Nat)
    (seen : List Nat) (e : PErr), data.length ≤ fuel →
    walk fuel orig data off seen = .error e → walkErr e := by
  intro fuel
  induction fuel with
  | zero =>
    intro data off seen e hl h
    have : data = [] := List.eq_nil_of_length_eq_zero (by omega)
    subst this
    rw [walk_nil] at h; cases h
  | succ n ih =>
    intro data off seen e hl h
    by_cases hne : data = []
    · subst hne; rw [walk_nil] at h; cases h
    · cases hr : rawFromBytes data with
      | error e' =>
        obtain ⟨x, y, hx⟩ := walk_raw_err (fuel := n) (orig := orig) (off := off) (seen := seen) hne hr
        rw [hx] at h; injection h with h; subst h
        exact Or.inl ⟨_, _, rfl⟩
      | ok attr =>
        rw [walk_step hne hr] at h
        split at h
        · injection h with h; subst h
          rcases afterErr_cases seen attr.ty with h' | h' <;> rw [h']
          · exact Or.inr (Or.inr (Or.inl ⟨_, rfl⟩))
          · exact Or.inr (Or.inr (Or.inr (Or.inl ⟨_, rfl⟩)))
        · split at h
          · injection h with h; subst h
            exact Or.inl ⟨_, _, rfl⟩
          · rename_i hp
            cases hf : fpCheck orig off attr with
            | error e' =>
              rw [hf] at h
              injection h with h; subst h
              rcases fpCheck_err _ _ _ _ hf with h' | h' | h'
              · exact Or.inr (Or.inr (Or.inr (Or.inr h')))
              · exact Or.inl h'
              · exact Or.inr (Or.inl h')
            | ok u =>
              rw [hf] at h
              simp only at h
              have := paddedLen_ge attr
              exact ih _ _ _ _ (by rw [List.length_drop]; omega) h

theorem raw_ok_head {data : Bytes} {attr : RawAttr} (h : rawFromBytes data = .ok attr) :
    ∃ rest, data = enc16 attr.ty ++ rest := by
  match data, h with
  | t0 :: t1 :: l0 :: l1 :: rest, h =>
    simp only [rawFromBytes] at h
    split at h
    · cases h
    · injection h with h; subst h
      exact ⟨l0 :: l1 :: rest, by simp [enc16_be16]⟩

theorem seenNext_ending {seen : List Nat} {t : Nat} (hs : ∀ s ∈ seen, isEnding s = true) :
    ∀ s ∈ seenNext seen t, isEnding s = true := by
  intro s h
  unfold seenNext at h
  rw [ending_contains] at h
  split at h
  · rcases List.mem_append.mp h with h | h
    · exact hs s h
    · simp at h; subst h; assumption
  · exact hs s h

theorem mem_seenNext {seen : List Nat} {t s : Nat} (h : s ∈ seenNext seen t) : s ∈ seen ∨ s = t := by
  unfold seenNext at h
  split at h
  · rcases List.mem_append.mp h with h | h
    · exact Or.inl h
    · right; simpa using h
  · exact Or.inl h

theorem ordBad_integrity {seen : List Nat} {t : Nat} (hs : ∀ s ∈ seen, isEnding s = true)
    (hb : ordBad seen t = true) (hfp : seen.contains tyFP = false) :
    tyMI ∈ seen ∨ tyMI256 ∈ seen := by
  have hne : seen ≠ [] := by
    intro h; subst h; simp [ordBad] at hb
  obtain ⟨s, rest, rfl⟩ := List.exists_cons_of_ne_nil hne
  have h1 := hs s (List.mem_cons_self ..)
  have h2 : s ≠ tyFP := by
    intro h; subst h; simp at hfp
  simp only [isEnding, Bool.or_eq_true, decide_eq_true_eq] at h1
  rcases h1 with (h1 | h1) | h1
  · left; subst h1; exact List.mem_cons_self ..
  · right; subst h1; exact List.mem_cons_self ..
  · exact absurd h1 h2

/-- where an "attribute after ..." error comes from -/
theorem walk_after (orig : Bytes) (ty : Nat) : ∀ (fuel : Nat) (data : Bytes) (off : Nat)
    (seen : List Nat) (e : PErr), (∀ s ∈ seen, isEnding s = true) →
    walk fuel orig data off seen = .error e → (e = .afterFingerprint ty ∨ e = .afterIntegrity ty) →
      ∃ post : List Tlv, ∃ rest : Bytes, (∀ u ∈ post, u.wf) ∧
        data = post.flatMap Tlv.enc ++ enc16 ty ++ rest ∧
        (e = .afterFingerprint ty → tyFP ∈ seen ∨ tyFP ∈ post.map (·.ty)) ∧
        (e = .afterIntegrity ty → (tyMI ∈ seen ∨ tyMI256 ∈ seen) ∨
          (tyMI ∈ post.map (·.ty) ∨ tyMI256 ∈ post.map (·.ty))) := by
  intro fuel
  induction fuel with
  | zero =>
    intro data off seen e _ h he
    rw [walk_zero] at h
    split at h
    · cases h
    · injection h with h; subst h; rcases he with he | he <;> cases he
  | succ n ih =>
    intro data off seen e hs h he
    by_cases hne : data = []
    · subst hne; rw [walk_nil] at h; cases h
    · cases hr : rawFromBytes data with
      | error e' =>
        obtain ⟨x, y, hx⟩ := walk_raw_err (fuel := n) (orig := orig) (off := off) (seen := seen) hne hr
        rw [hx] at h; injection h with h; subst h
        rcases he with he | he <;> cases he
      | ok attr =>
        rw [walk_step hne hr] at h
        split at h
        · rename_i hob
          injection h with h
          obtain ⟨rest, hrest⟩ := raw_ok_head hr
          unfold afterErr at h
          split at h
          · rename_i hc
            subst h
            rcases he with he | he
            · injection he with he
              refine ⟨[], rest, by simp, by simpa [he] using hrest, ?_, ?_⟩
              · intro _; left; simpa using hc
              · intro h; cases h
            · cases he
          · rename_i hc
            subst h
            rcases he with he | he
            · cases he
            · injection he with he
              refine ⟨[], rest, by simp, by simpa [he] using hrest, ?_, ?_⟩
              · intro h; cases h
              · intro _; left
                exact ordBad_integrity hs hob (by simpa using hc)
        · split at h
          · injection h with h; subst h; rcases he with he | he <;> cases he
          · rename_i hp
            cases hf : fpCheck orig off attr with
            | error e' =>
              rw [hf] at h
              injection h with h; subst h
              rcases fpCheck_err _ _ _ _ hf with h' | ⟨_, _, h'⟩ | ⟨_, _, h'⟩ <;> subst h' <;>
                rcases he with he | he <;> cases he
            | ok u =>
              rw [hf] at h
              simp only at h
              obtain ⟨post, rest, hwf, hd, h1, h2⟩ := ih _ _ _ _ (seenNext_ending hs) h he
              obtain ⟨t, htwf, htraw, htlen, hdata⟩ := raw_step_ok hr (by omega)
              have hty : t.ty = attr.ty := by rw [← htraw]; rfl
              refine ⟨t :: post, rest, ?_, ?_, ?_, ?_⟩
              · intro u hu
                rcases List.mem_cons.mp hu with rfl | hu
                · exact htwf
                · exact hwf u hu
              · rw [flatMap_cons_enc, List.append_assoc, List.append_assoc,
                  ← List.append_assoc (post.flatMap Tlv.enc), ← hd]
                exact hdata
              · intro hee
                rcases h1 hee with h1 | h1
                · rcases mem_seenNext h1 with h1 | h1
                  · exact Or.inl h1
                  · right; simp [hty, ← h1]
                · right; exact List.mem_cons_of_mem _ h1
              · intro hee
                rcases h2 hee with (h2 | h2) | (h2 | h2)
                · rcases mem_seenNext h2 with h2 | h2
                  · exact Or.inl (Or.inl h2)
                  · right; left; simp [hty, ← h2]
                · rcases mem_seenNext h2 with h2 | h2
                  · exact Or.inl (Or.inr h2)
                  · right; right; simp [hty, ← h2]
                · right; left; exact List.mem_cons_of_mem _ h2
                · right; right; exact List.mem_cons_of_mem _ h2

/-- TLV encodings are prefix-free -/
theorem enc_prefix_unique {t t' : Tlv} (hw : t.wf) (hw' : t'.wf) {r r' : Bytes}
    (h : t.enc ++ r = t'.enc ++ r') : t = t' ∧ r = r' := by
  obtain ⟨h1, h2, h3⟩ := hw
  obtain ⟨h1', h2', h3'⟩ := hw'
  rw [Tlv.enc_eq, Tlv.enc_eq] at h
  simp only [List.cons_append, List.cons.injEq] at h
  obtain ⟨a, b, c, d, e⟩ := h
  have hty : t.ty = t'.ty := by
    rw [← be16_enc _ h1, ← be16_enc _ h1', a, b]
  have hlen : t.value.length = t'.value.length := by
    rw [← be16_enc _ h2, ← be16_enc _ h2', c, d]
  rw [List.append_assoc, List.append_assoc] at e
  obtain ⟨hv, e⟩ := List.append_inj e hlen
  obtain ⟨hp, e⟩ := List.append_inj e (by rw [h3, h3', hlen])
  refine ⟨?_, e⟩
  cases t; cases t'; simp_all

theorem tile_unique : ∀ (ts ts' : List Tlv), (∀ t ∈ ts, t.wf) → (∀ t ∈ ts', t.wf) →
    ts.flatMap Tlv.enc = ts'.flatMap Tlv.enc → ts = ts' := by
  intro ts
  induction ts with
  | nil =>
    intro ts' _ _ h
    cases ts' with
    | nil => rfl
    | cons t' ts' =>
      rw [flatMap_cons_enc] at h
      exact absurd h.symm (Tlv.enc_ne_nil t')
  | cons t ts ih =>
    intro ts' hw hw' h
    cases ts' with
    | nil =>
      rw [flatMap_cons_enc] at h
      exact absurd h (Tlv.enc_ne_nil t)
    | cons t' ts' =>
      rw [flatMap_cons_enc, flatMap_cons_enc] at h
      obtain ⟨rfl, h2⟩ := enc_prefix_unique (hw t (List.mem_cons_self ..))
        (hw' t' (List.mem_cons_self ..)) h
      rw [ih ts' (fun u hu => hw u (List.mem_cons_of_mem _ hu))
        (fun u hu => hw' u (List.mem_cons_of_mem _ hu)) h2]

end StunVerif
