/-
Helper lemmas for Props/C02Causes.lean.
-/
import StunVerif.Spec.Causes
import StunVerif.Lemmas.Parse
import StunVerif.Lemmas.Walk
namespace StunVerif
open Spec

/-- the FINGERPRINT violations of one attribute, as `Spec.attrCauses` lists them -/
def fpCauses (orig : Bytes) (off : Nat) (attr : RawAttr) : List PErr :=
  if attr.ty = tyFP then
    match fromRaw .fingerprint attr with
    | .error e => [e]
    | .ok (.fingerprint crc) =>
      if Crc.crc32Bytes (fpInput orig off attr.paddedLen) ≠ crc then [.fpMismatch] else []
    | .ok _ => []
  else []

/-- `fromRaw .fingerprint` produces a fingerprint value or an error -/
theorem fromRaw_fingerprint_shape (attr : RawAttr) :
    (∃ e, fromRaw .fingerprint attr = .error e) ∨
      (∃ crc, fromRaw .fingerprint attr = .ok (.fingerprint crc)) := by
  simp only [fromRaw, bind, Except.bind]
  cases attr.checkTypeAndLen Kind.fingerprint.code (some 4) (some 4) with
  | error e => exact Or.inl ⟨e, rfl⟩
  | ok u => exact Or.inr ⟨_, rfl⟩

theorem fpCheck_error_causes (orig : Bytes) (off : Nat) (attr : RawAttr) (e : PErr)
    (h : fpCheck orig off attr = .error e) : fpCauses orig off attr = [e] := by
  unfold fpCheck at h
  unfold fpCauses
  by_cases ht : attr.ty = tyFP
  · simp only [ht, if_true] at h ⊢
    rcases fromRaw_fingerprint_shape attr with ⟨e', he⟩ | ⟨crc, hc⟩
    · rw [he] at h ⊢
      simp only at h ⊢
      injection h with h; rw [h]
    · rw [hc] at h ⊢
      simp only at h ⊢
      split at h
      · injection h with h; subst h; rename_i hne; rw [if_pos hne]
      · cases h
  · simp [ht] at h

theorem fpCheck_ok_causes (orig : Bytes) (off : Nat) (attr : RawAttr)
    (h : fpCheck orig off attr = .ok ()) : fpCauses orig off attr = [] := by
  unfold fpCheck at h
  unfold fpCauses
  by_cases ht : attr.ty = tyFP
  · simp only [ht, if_true] at h ⊢
    rcases fromRaw_fingerprint_shape attr with ⟨e', he⟩ | ⟨crc, hc⟩
    · rw [he] at h; cases h
    · rw [hc] at h ⊢
      simp only at h ⊢
      split at h
      · cases h
      · rename_i hne; rw [if_neg hne]
  · simp [ht]

/-- the causes of an attribute that can be delimited -/
theorem attrCauses_ok {orig data : Bytes} {off : Nat} {seen : List Nat} {attr : RawAttr}
    (h : rawFromBytes data = .ok attr) :
    attrCauses orig data off seen =
      ((if ordBad seen attr.ty then [afterErr seen attr.ty] else []) ++
        (if attr.paddedLen > data.length then
          [.truncated (off + attr.paddedLen) (off + data.length)] else []) ++
        fpCauses orig off attr, some attr) := by
  unfold attrCauses
  simp only [h]
  rfl

/-- the causes of an attribute that cannot be delimited: the one error the walk gives -/
theorem attrCauses_error {fuel : Nat} {orig data : Bytes} {off : Nat} {seen : List Nat} {e : PErr}
    (hne : data ≠ []) (h : rawFromBytes data = .error e) :
    ∃ e', walk (fuel + 1) orig data off seen = .error e' ∧
      attrCauses orig data off seen = ([e'], none) := by
  have hne' : data.isEmpty = false := by simpa using hne
  unfold attrCauses
  rw [walk]
  simp only [hne', Bool.false_eq_true, if_false, h]
  cases e <;> exact ⟨_, rfl, rfl⟩

theorem walkCauses_nil (fuel : Nat) (orig : Bytes) (off : Nat) (seen : List Nat) :
    walkCauses fuel orig [] off seen = [] := by
  cases fuel <;> simp [walkCauses]

/-- the walk and the list of causes, with enough fuel: the error is a listed cause, and acceptance
    is the empty list -/
theorem walk_causes (fuel : Nat) : ∀ (orig data : Bytes) (off : Nat) (seen : List Nat),
    data.length ≤ fuel →
    (∀ e, walk fuel orig data off seen = .error e → e ∈ walkCauses fuel orig data off seen) ∧
    (walk fuel orig data off seen = .ok () ↔ walkCauses fuel orig data off seen = []) := by
  induction fuel with
  | zero =>
    intro orig data off seen hl
    have : data = [] := List.length_eq_zero_iff.mp (by omega)
    subst this
    simp [walk, walkCauses]
  | succ fuel ih =>
    intro orig data off seen hl
    by_cases hne : data = []
    · subst hne
      rw [walk_nil, walkCauses_nil]
      simp
    · have hne' : data.isEmpty = false := by simpa using hne
      cases hr : rawFromBytes data with
      | error e =>
        obtain ⟨e', hw, hc⟩ := attrCauses_error (fuel := fuel) (orig := orig) (off := off)
          (seen := seen) hne hr
        have hwc : walkCauses (fuel + 1) orig data off seen = [e'] := by
          rw [walkCauses]
          simp only [hne', Bool.false_eq_true, if_false, hc]
        rw [hw, hwc]
        constructor
        · intro e he; injection he with he; subst he; simp
        · constructor
          · intro h; cases h
          · intro h; cases h
      | ok attr =>
        rw [walk_step hne hr]
        have hwc : walkCauses (fuel + 1) orig data off seen =
            if attr.paddedLen > data.length then
              ((if ordBad seen attr.ty then [afterErr seen attr.ty] else []) ++
                (if attr.paddedLen > data.length then
                  [PErr.truncated (off + attr.paddedLen) (off + data.length)] else []) ++
                fpCauses orig off attr)
            else
              ((if ordBad seen attr.ty then [afterErr seen attr.ty] else []) ++
                (if attr.paddedLen > data.length then
                  [PErr.truncated (off + attr.paddedLen) (off + data.length)] else []) ++
                fpCauses orig off attr) ++
              walkCauses fuel orig (data.drop attr.paddedLen) (off + attr.paddedLen)
                (seenNext seen attr.ty) := by
          rw [walkCauses]
          simp only [hne', Bool.false_eq_true, if_false, attrCauses_ok hr]
          rfl
        rw [hwc]
        by_cases hs : attr.paddedLen > data.length
        · simp only [hs, if_true]
          by_cases ho : ordBad seen attr.ty = true
          · simp [ho]
          · simp [ho]
        · simp only [hs, if_false, List.append_nil]
          by_cases ho : ordBad seen attr.ty = true
          · simp [ho]
          · simp only [ho, Bool.false_eq_true, if_false, List.nil_append]
            cases hf : fpCheck orig off attr with
            | error e =>
              rw [fpCheck_error_causes _ _ _ _ hf]
              simp
            | ok u =>
              rw [fpCheck_ok_causes _ _ _ hf]
              have hp := paddedLen_ge attr
              have hpos : 0 < data.length := List.length_pos_iff.mpr hne
              exact ih orig _ _ _ (by rw [List.length_drop]; omega)

end StunVerif

namespace StunVerif
open Spec

/-- the length causes of a buffer with a full header -/
def lenCauses (b : Bytes) : List PErr :=
  if beNat ((b.drop 2).take 2) + 20 > b.length then
    [.truncated (beNat ((b.drop 2).take 2) + 20) b.length]
  else if beNat ((b.drop 2).take 2) + 20 < b.length then
    [.tooLarge (beNat ((b.drop 2).take 2) + 20) b.length]
  else []

theorem causes_short (b : Bytes) (h : b.length < 20) :
    ∃ cs, causes b = .truncated 20 b.length :: cs := by
  unfold causes
  simp only [h, if_true]
  exact ⟨_, rfl⟩

/-- `Spec.causes` on a buffer of at least 20 bytes, as a decision list -/
theorem causes_unfold (b : Bytes) (h : 20 ≤ b.length) :
    causes b =
      if 0x4000 ≤ beNat (b.take 2) ∨ (b.drop 4).take 4 ≠ [0x21, 0x12, 0xA4, 0x42] then
        .notStun :: lenCauses b
      else if lenCauses b = [] then walkCauses b.length b (b.drop 20) 20 []
      else lenCauses b := by
  obtain ⟨t0, t1, l0, l1, c0, c1, c2, c3, rest, rfl, hr⟩ := split20 b h
  have hl : ¬ ((t0 :: t1 :: l0 :: l1 :: c0 :: c1 :: c2 :: c3 :: rest).length < 20) := by
    simp; omega
  have h8 : 8 ≤ (t0 :: t1 :: l0 :: l1 :: c0 :: c1 :: c2 :: c3 :: rest).length := by
    simp
  unfold causes lenCauses
  simp only [if_neg hl, h8, decide_true, Bool.true_and]
  simp only [List.take_succ_cons, List.take_zero, List.drop_succ_cons, List.drop_zero, beNat_two]
  have hcb : cookieBytes = [0x21, 0x12, 0xA4, 0x42] := rfl
  rw [hcb]
  generalize (t0 :: t1 :: l0 :: l1 :: c0 :: c1 :: c2 :: c3 :: rest).length = n
  generalize walkCauses n _ _ _ _ = w
  by_cases h1 : be16 t0 t1 ≥ 0x4000
  · simp [h1]
  · by_cases h2 : [c0, c1, c2, c3] = ([0x21, 0x12, 0xA4, 0x42] : Bytes)
    · simp only [h1, h2, ne_eq, not_true, decide_false, Bool.or_false, Bool.false_eq_true,
        if_false, List.nil_append, false_or]
      by_cases h3 : be16 l0 l1 + 20 > n
      · simp [h3]
      · by_cases h4 : be16 l0 l1 + 20 < n
        · simp [h3, h4]
        · simp [h3, h4]
    · simp [h1, h2]

end StunVerif
