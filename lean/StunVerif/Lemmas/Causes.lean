/-
Helper lemmas for Props/C02Causes.lean.
-/
import StunVerif.Spec.Causes
import StunVerif.Lemmas.Parse
import StunVerif.Lemmas.Walk
namespace StunVerif

end StunVerif
