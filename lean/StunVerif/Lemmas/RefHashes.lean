/-
Helper lemmas about the reference hash implementations (output sizes).
-/
import StunVerif.Crypto.Hash
namespace StunVerif.Hash

theorem enc32be_length (x : UInt32) : (enc32be x).length = 4 := rfl

theorem enc32le_length (x : UInt32) : (enc32le x).length = 4 := by
  simp [enc32le, enc32be_length]

end StunVerif.Hash
