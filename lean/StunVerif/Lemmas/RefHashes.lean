/-
Helper lemmas about the reference hash implementations (output sizes).
-/
import StunVerif.Crypto.Hash
namespace StunVerif.Hash

end StunVerif.Hash
