import StunVerif.Spec.Msg
import StunVerif.Lemmas.Bytes
namespace StunVerif

theorem beNat_two (a b : UInt8) : beNat [a, b] = be16 a b := by
  simp [beNat, be16]

theorem msgType_of_two {d : Bytes} {a b : UInt8} {rest : Bytes} (h : d = a :: b :: rest) :
    msgTypeFromBytes d = if be16 a b ≥ 0x4000 then .error .notStun else .ok (be16 a b) := by
  subst h; rfl

end StunVerif

namespace StunVerif

/-- shape of a buffer of at least 20 bytes -/
theorem split20 (b : Bytes) (h : 20 ≤ b.length) :
    ∃ t0 t1 l0 l1 c0 c1 c2 c3 rest,
      b = t0 :: t1 :: l0 :: l1 :: c0 :: c1 :: c2 :: c3 :: rest ∧ 12 ≤ rest.length := by
  match b, h with
  | t0 :: t1 :: l0 :: l1 :: c0 :: c1 :: c2 :: c3 :: rest, h =>
    exact ⟨t0, t1, l0, l1, c0, c1, c2, c3, rest, rfl, by simp at h; omega⟩

/-- the header decoder on an explicit buffer of at least 20 bytes -/
theorem header_of_cons (t0 t1 l0 l1 c0 c1 c2 c3 : UInt8) (rest : Bytes) (h : 12 ≤ rest.length) :
    headerFromBytes (t0 :: t1 :: l0 :: l1 :: c0 :: c1 :: c2 :: c3 :: rest) =
      if be16 t0 t1 ≥ 0x4000 then .error .notStun
      else if [c0, c1, c2, c3] ≠ cookieBytes then .error .notStun
      else .ok ⟨be16 t0 t1, be16 l0 l1, beNat (rest.take 12)⟩ := by
  have hl : ¬ ((t0 :: t1 :: l0 :: l1 :: c0 :: c1 :: c2 :: c3 :: rest).length < 20) := by
    simp; omega
  unfold headerFromBytes
  rw [if_neg hl]
  simp only [msgTypeFromBytes, List.drop_succ_cons, List.drop_zero, List.take_succ_cons,
    List.take_zero, beNat_two]
  by_cases h1 : be16 t0 t1 ≥ 0x4000
  · simp [h1, bind, Except.bind]
  · simp [h1, bind, Except.bind]

theorem header_take20 (b : Bytes) (h : 20 ≤ b.length) :
    headerFromBytes (b.take 20) = headerFromBytes b := by
  obtain ⟨t0, t1, l0, l1, c0, c1, c2, c3, rest, rfl, hr⟩ := split20 b h
  have : (t0 :: t1 :: l0 :: l1 :: c0 :: c1 :: c2 :: c3 :: rest).take 20 =
      t0 :: t1 :: l0 :: l1 :: c0 :: c1 :: c2 :: c3 :: rest.take 12 := by simp
  rw [this, header_of_cons _ _ _ _ _ _ _ _ _ hr,
    header_of_cons _ _ _ _ _ _ _ _ _ (by simp; omega)]
  simp [List.take_take]

theorem header_short (b : Bytes) (h : b.length < 20) :
    headerFromBytes b = .error (.truncated 20 b.length) := by
  unfold headerFromBytes; simp [h]

end StunVerif
